"""C14 renderer: the references enumerated by spec/naming/Naming.tla -> one Go "world" (a group of packages).

Every entity of the world carries its own identity as a literal in its own body (generic bodies compute the
type-argument part at run time from the type's descriptor via reg.Who), every reference becomes a probe that calls
through the reference and returns what it reached.  Nothing here knows how llgo spells link names.
"""
import json
import random

ORDER = ["p1", "p2", "p3", "p4"]


def cj(x):
    return json.dumps(x, sort_keys=True, separators=(",", ":"))


# ---------------------------------------------------------------------------- type terms

def walk_terms(t, f):
    f(t)
    k = t["k"]
    if k == "alias" or k in ("ptr", "slice", "func", "struct"):
        walk_terms(t["e"], f)
    elif k == "named":
        for a in t["targs"]:
            walk_terms(a, f)
    elif k == "map":
        walk_terms(t["key"], f)
        walk_terms(t["e"], f)


def term_pkgs(t):
    s = set()

    def f(x):
        if x["k"] in ("named", "alias"):
            s.add(x["pkg"])
        elif x["k"] == "anon":
            s.add(x["epkg"])
    walk_terms(t, f)
    return s


def term_site(t):
    """(pkg, scope tuple) of the function-local declaration the term depends on, or None"""
    r = []

    def f(x):
        if x["k"] == "named" and x["scope"]:
            r.append((x["pkg"], tuple(x["scope"])))
    walk_terms(t, f)
    return r[0] if r else None


class World:
    """one rendering of the spec's world.  refs: list of dicts printed by TLC (ent, from, class, reach, site)"""

    def __init__(self, gid, refs, seed, variant):
        self.gid = gid
        self.refs = refs
        self.rnd = random.Random("%s/%s/%s" % (seed, gid, variant))
        self.variant = variant
        self.pkgs = sorted({r["from"] for r in refs}, key=ORDER.index)
        self.defpkgs = sorted({r["ent"]["pkg"] for r in refs if r["ent"]["kind"] == "func"}, key=ORDER.index)
        self.depth = max([len(r["ent"]["path"]) for r in refs if r["ent"]["kind"] == "closure"] or [0])
        self.scopes = sorted({tuple(r["site"]["scope"]) for r in refs if r["site"]["scope"]})
        self.emb = {}       # (scope) -> (embedded type name, is pointer), from the wrappers' targets
        for r in refs:
            e = r["ent"]
            if e["kind"] == "wrapper" and e["recv"]["t"]["k"] == "named" and e["recv"]["t"]["scope"]:
                self.emb[tuple(e["recv"]["t"]["scope"])] = r["reach"]["recv"]["t"]["name"]
        self.cexport = {(r["ent"]["pkg"], r["ent"]["name"]) for r in refs if r.get("export")}
        self._layout()
        self._tokens()

    # ------------------------------------------------------------------ package paths / files
    def _layout(self):
        v = self.variant
        g = self.gid
        self.path = {}
        self.pkgname = {}
        for p in self.pkgs:
            self.path[p] = "vmod/%s/%s" % (g, p)
            self.pkgname[p] = p
        if v.get("samebase"):
            # same last path element and same package name in different directories
            for i, p in enumerate(self.pkgs):
                self.path[p] = "vmod/%s/d%d/px" % (g, i)
                self.pkgname[p] = "px"
        if v.get("dotted") and len(self.pkgs) >= 2:
            # p2's path is p1's path followed by ".T": "<p1>.T" + ".M" reads like method M of p1's type T
            self.path[self.pkgs[1]] = self.path[self.pkgs[0]] + ".T"
        if v.get("deep"):
            self.path[self.pkgs[-1]] = "vmod/%s/a/b.c/%s" % (g, self.pkgs[-1])
        self.nfiles = {p: (v.get("files") or self.rnd.choice([1, 2, 3])) for p in self.pkgs}

    def dir_of(self, p):
        return self.path[p][len("vmod/"):]

    # ------------------------------------------------------------------ type tokens
    def _tokens(self):
        terms = {}
        for r in self.refs:
            c = r["class"]
            for t in self._class_terms(c):
                terms[cj(t)] = t
            rc = r["reach"]
            for t in self._class_terms(rc):
                terms[cj(t)] = t
        self.tok = {}
        self.tokterm = {}
        for i, k in enumerate(sorted(terms)):
            self.tok[k] = "%st%d" % (self.gid, i)
            self.tokterm[k] = terms[k]

    def _class_terms(self, c):
        """the canonical type terms whose token the identity of class c needs"""
        k = c["kind"]
        if k == "inst":
            return list(c["targs"])
        if k in ("method", "wrapper"):
            return list(c["recv"]["t"].get("targs", []))
        if k == "closure":
            return self._class_terms(c["parent"])
        if k == "desc":
            return [c["t"]]
        return []

    def tag(self, pkg, scope):
        return "%s:%s:%s" % (self.gid, pkg, ".".join(scope))

    # ------------------------------------------------------------------ identities (what a body prints)
    def ident(self, c):
        k = c["kind"]
        if k == "func":
            return "@%s.%s" % (c["pkg"], c["name"])
        if k == "global":
            return "@%s.%s" % (c["pkg"], c["name"])
        if k == "method":
            t = c["recv"]["t"]
            tn = t["name"]
            if t["targs"]:
                tn += "[" + ",".join(self.tok[cj(a)] for a in t["targs"]) + "]"
            if c["recv"]["ptr"]:
                tn = "(*" + tn + ")"
            return "@%s.%s.%s" % (t["pkg"], tn, c["name"])
        if k == "inst":
            return "@%s.%s[%s]" % (c["pkg"], c["name"], ",".join(self.tok[cj(a)] for a in c["targs"]))
        if k == "closure":
            return self.ident(c["parent"]) + "".join("$%d" % i for i in c["path"])
        if k == "desc":
            return "desc:" + self.tok[cj(c["t"])]
        if k == "gothunk":
            return "@%s.go#%d" % (c["pkg"], c["site"])
        raise ValueError(k)

    def fname(self, e):
        """Go identifier of a function entity: a function exported to C gets a symbol that is unique in the program"""
        if (e["pkg"], e["name"]) in self.cexport:
            return "%s_%s" % (e["name"], self.gid)
        return e["name"]

    # ------------------------------------------------------------------ Go syntax of a type term as written in `frm`
    def q(self, pkg, frm):
        return "" if pkg == frm else pkg + "."

    def ty(self, t, frm):
        k = t["k"]
        if k == "basic":
            return t["n"]
        if k == "alias":
            return self.q(t["pkg"], frm) + t["name"]
        if k == "named":
            if t["scope"]:
                return t["name"]
            s = self.q(t["pkg"], frm) + t["name"]
            if t["targs"]:
                s += "[" + ", ".join(self.ty(a, frm) for a in t["targs"]) + "]"
            return s
        if k == "ptr":
            return "*" + self.ty(t["e"], frm)
        if k == "slice":
            return "[]" + self.ty(t["e"], frm)
        if k == "map":
            return "map[%s]%s" % (self.ty(t["key"], frm), self.ty(t["e"], frm))
        if k == "func":
            return "func(%s)" % self.ty(t["e"], frm)
        if k == "struct":
            return "struct{ X %s }" % self.ty(t["e"], frm)
        if k == "anon":
            return "struct{ %s%s }" % (self.q(t["epkg"], frm), t["emb"])
        raise ValueError(k)

    def tkey(self, t):
        """canonical key of a (canonical) term, the same string the in-process harness derives from go/types"""
        k = t["k"]
        if k == "basic":
            return t["n"]
        if k == "named":
            s = self.path[t["pkg"]] + "." + t["name"]
            if t["scope"]:
                s += "@" + self.tag(t["pkg"], t["scope"])
            if t["targs"]:
                s += "[" + ",".join(self.tkey(a) for a in t["targs"]) + "]"
            return s
        if k == "ptr":
            return "*" + self.tkey(t["e"])
        if k == "slice":
            return "[]" + self.tkey(t["e"])
        if k == "map":
            return "map[%s]%s" % (self.tkey(t["key"]), self.tkey(t["e"]))
        if k == "func":
            return "func(%s)" % self.tkey(t["e"])
        if k == "struct":
            return "struct{X %s}" % self.tkey(t["e"])
        if k == "anon":
            return "struct{%s.%s}" % (self.path[t["epkg"]], t["emb"])
        raise ValueError(k)

    def value(self, t, frm):
        """a composite literal of (struct) type t"""
        if t["k"] == "named" and t["scope"]:
            emb = self.emb[tuple(t["scope"])]
            if self._embptr(tuple(t["scope"])):
                return "T{%s: &%s{}}" % (emb, emb)
            return "T{}"
        return self.ty(t, frm) + "{}"

    def _embptr(self, scope):
        return scope == ("Lg", "b")

    # ------------------------------------------------------------------ probes
    @staticmethod
    def enc(path):
        s = 0
        for i, a in enumerate(path):
            s += a * 3 ** i
        return s

    def call(self, e, frm, sel=0):
        """statements that call through a reference to entity e written in package frm and return what was reached"""
        k = e["kind"]
        if k == "func":
            return ["return %s%s(%d)" % (self.q(e["pkg"], frm), self.fname(e), sel)]
        if k == "method":
            t = e["recv"]["t"]
            if e["recv"]["ptr"]:
                return ["return (&%s{}).%s(%d)" % (self.ty(t, frm), e["name"], sel)]
            return ["return %s{}.%s(%d)" % (self.ty(t, frm), e["name"], sel)]
        if k == "inst":
            return ["return %s%s[%s](%d)" % (self.q(e["pkg"], frm), e["name"], ", ".join(self.ty(a, frm) for a in e["targs"]), sel)]
        if k == "closure":
            return self.call(e["parent"], frm, self.enc(e["path"]))
        if k == "global":
            return ["return %s%s" % (self.q(e["pkg"], frm), e["name"])]
        if k == "desc":
            return ['return "desc:" + reg.Who(%s, (*%s)(nil))' % (json.dumps(self.gid), self.ty(e["t"], frm))]
        if k == "gothunk":
            return ["return Go%d()" % e["site"]]
        if k == "linked":
            t = e["target"]
            if t["kind"] == "func":
                return ["return %s(%d)" % (e["name"], sel)]
            if t["kind"] == "global":
                return ["return %s" % e["name"]]
            if t["kind"] == "method":
                rt = t["recv"]["t"]
                return ["return %s(%s%s{}, %d)" % (e["name"], "&" if t["recv"]["ptr"] else "", self.ty(rt, frm), sel)]
        if k == "wrapper":
            t = e["recv"]["t"]
            v = self.value(t, frm)
            ts = self.ty(t, frm)
            m = e["name"]
            ptr = e["recv"]["ptr"]
            if e["sub"] == "promote":
                return ["var i reg.I = %s%s" % ("&" if ptr else "", v), "return i.%s(0)" % m]
            if e["sub"] == "bound":
                return ["v := %s%s" % ("&" if ptr else "", v), "f := v.%s" % m, "return f(0)"]
            if e["sub"] == "thunk":
                if ptr:
                    return ["f := (*%s).%s" % (ts, m), "return f(&%s, 0)" % v]
                return ["f := %s.%s" % (ts, m), "return f(%s, 0)" % v]
        raise ValueError(k)

    # ------------------------------------------------------------------ closure trees
    def tree(self, idexpr, path, ind):
        """body lines of a func(sel int) string that is the literal at nesting `path` (or the parent when path == [])"""
        pad = "\t" * ind
        out = []
        if len(path) < self.depth:
            for i in (1, 2):
                out.append("%sc%d := func(sel int) string {" % (pad, i))
                out += self.tree(idexpr, path + [i], ind + 1)
                out.append("%s}" % pad)
            out.append("%sswitch sel %% 3 {" % pad)
            out.append("%scase 1:" % pad)
            out.append("%s\treturn c1(sel / 3)" % pad)
            out.append("%scase 2:" % pad)
            out.append("%s\treturn c2(sel / 3)" % pad)
            out.append("%s}" % pad)
        if path and path[-1] == 1:
            out.append("%sif capv < 0 {" % pad)      # free variable: this literal is a real closure
            out.append('%s\treturn ""' % pad)
            out.append("%s}" % pad)
        out.append("%sreturn %s" % (pad, idexpr("".join("$%d" % i for i in path))))
        return out

    def fn_with_tree(self, header, idexpr):
        return [header + " {", "\tcapv := sel", "\t_ = capv"] + self.tree(idexpr, [], 1) + ["}"]

    # ------------------------------------------------------------------ packages
    def render(self):
        """-> {relative file path: content}, probes: [(ref index, from)]"""
        files = {}
        for p in self.pkgs:
            files.update(self._render_pkg(p))
        return files

    def _imports(self, p, used):
        lines = ["import ("]
        lines.append('\treg "vmod/reg"')
        for q in self.pkgs:
            if q != p and ORDER.index(q) < ORDER.index(p) and q in used:
                lines.append('\t%s "%s"' % (q, self.path[q]))
        lines.append(")")
        return lines

    def _render_pkg(self, p):
        isdef = p in self.defpkgs
        chunks = []      # (name, lines)
        lit = lambda s: json.dumps(s)      # Go string literal (ASCII only)
        # marker types, present in every package
        c = []
        for n in ("A", "B"):
            c += ["type %s struct{}" % n, "", "func (%s) M(sel int) string { return %s }" % (n, lit("@%s.%s.M" % (p, n))), ""]
        chunks.append(("markers", c))
        if isdef:
            c = ["type T struct{ X int }", "", "func (T) M(sel int) string { return %s }" % lit("@%s.T.M" % p), ""]
            c += self.fn_with_tree("func (t T) N(sel int) string", lambda sfx: lit("@%s.T.N%s" % (p, sfx))) + [""]
            chunks.append(("T", c))
            c = ["type U struct{ X int }", "", "func (*U) M(sel int) string { return %s }" % lit("@%s.(*U).M" % p), ""]
            c += self.fn_with_tree("func (u *U) N(sel int) string", lambda sfx: lit("@%s.(*U).N%s" % (p, sfx))) + [""]
            chunks.append(("U", c))
            c = ["type W struct{ A }", ""]
            if p == "p1":
                c += ["type AT = T", ""]
            if p == "p2":
                c += ["type AI = int", ""]
            c += ["var V = %s" % lit("@%s.V" % p), "", "var Y = %s" % lit("@%s.Y" % p), ""]
            chunks.append(("misc", c))
            c = ["func M(sel int) string { return %s }" % lit("@%s.M" % p), "",
                 "func N(sel int) string { return %s }" % lit("@%s.N" % p), ""]
            c += self.fn_with_tree("func Cf(sel int) string", lambda sfx: lit("@%s.Cf%s" % (p, sfx))) + [""]
            chunks.append(("funcs", c))
            hidden = [r["ent"] for r in self.refs if r["from"] == p and r["ent"]["kind"] in ("func", "global", "method")
                      and self._unexported(r["ent"]) and self._home(r["ent"]) == p]
            exported = [r["ent"] for r in self.refs if r["from"] == p and r.get("export") and r["ent"]["pkg"] == p]
            c = []
            for e in hidden:
                if e["kind"] == "func":
                    c += ["func %s(sel int) string { return %s }" % (e["name"], lit(self.ident(e))), ""]
                elif e["kind"] == "global":
                    c += ["var %s = %s" % (e["name"], lit(self.ident(e))), ""]
                else:
                    tn = e["recv"]["t"]["name"]
                    c += ["type %s struct{}" % tn, "",
                          "func (%s%s) %s(sel int) string { return %s }" % ("*" if e["recv"]["ptr"] else "", tn, e["name"], lit(self.ident(e))), ""]
            for e in exported:
                c += ["//export %s" % self.fname(e), "func %s(sel int) string { return %s }" % (self.fname(e), lit(self.ident(e))), ""]
            if c:
                chunks.append(("hidden", c))
            who = lambda v: "reg.Who(%s, (*%s)(nil))" % (lit(self.gid), v)
            c = self.fn_with_tree("func F[X any](sel int) string",
                                  lambda sfx: "%s + %s + %s" % (lit("@%s.F[" % p), who("X"), lit("]" + sfx))) + [""]
            c += ["func F2[X, Y any](sel int) string {",
                  "\treturn %s + %s + \",\" + %s + \"]\"" % (lit("@%s.F2[" % p), who("X"), who("Y")), "}", ""]
            chunks.append(("genfunc", c))
            c = ["type G[X any] struct{ F int }", ""]
            c += self.fn_with_tree("func (g G[X]) M(sel int) string",
                                   lambda sfx: "%s + %s + %s" % (lit("@%s.G[" % p), who("X"), lit("].M" + sfx))) + [""]
            c += self.fn_with_tree("func (g *G[X]) N(sel int) string",
                                   lambda sfx: "%s + %s + %s" % (lit("@%s.(*G[" % p), who("X"), lit("]).N" + sfx))) + [""]
            chunks.append(("gentype", c))
        linked = [r["ent"] for r in self.refs if r["from"] == p and r["ent"]["kind"] == "linked"]
        self.has_linked = getattr(self, "has_linked", {})
        self.has_linked[p] = bool(linked)
        if linked:
            c = []
            for e in linked:
                t = e["target"]
                c.append("//go:linkname %s %s" % (e["name"], self.linksym(t)))
                if t["kind"] == "func":
                    c += ["func %s(sel int) string" % e["name"], ""]
                elif t["kind"] == "global":
                    c += ["var %s string" % e["name"], ""]
                else:
                    rt = t["recv"]["t"]
                    c += ["func %s(r %s%s, sel int) string" % (e["name"], "*" if t["recv"]["ptr"] else "", self.ty(rt, p)), ""]
            chunks.append(("linked", c))
        # go statements
        c = ["func gof1(ch chan string, a int) { ch <- %s }" % lit("@%s.go#1" % p), "",
             "func gof2(ch chan string, s string, b int) { ch <- %s }" % lit("@%s.go#2" % p), "",
             "func Go1() string {", "\tch := make(chan string)", "\tgo gof1(ch, 1)", "\treturn <-ch", "}", "",
             "func Go2() string {", "\tch := make(chan string)", "\tgo gof2(ch, \"x\", 2)", "\treturn <-ch", "}", "",
             "func Go3() string {", "\tch := make(chan string)", "\tgo func() { ch <- %s }()" % lit("@%s.go#3" % p), "\treturn <-ch", "}", ""]
        chunks.append(("go", c))
        # probes and registrations
        used = set()
        local_cases = {}     # scope -> [(idx, stmts)]
        top_cases = []
        for idx, r in enumerate(self.refs):
            if r["from"] != p:
                continue
            stmts = self.call(r["ent"], p)
            self._used(r["ent"], used)
            sc = tuple(r["site"]["scope"])
            if sc:
                local_cases.setdefault(sc, []).append((idx, stmts))
                top_cases.append((idx, ["return %s(%d)" % (sc[0], idx)]))
            else:
                top_cases.append((idx, stmts))
        regs_top, regs_local = [], {}
        for k, t in sorted(self.tokterm.items()):
            site = term_site(t)
            if site:
                if site[0] == p:
                    regs_local.setdefault(site[1], []).append((t, self.tok[k]))
                continue
            pk = term_pkgs(t)
            home = max(pk, key=ORDER.index) if pk else self.pkgs[0]
            if home == p:
                regs_top.append((t, self.tok[k]))
                for x in pk:
                    used.add(x)
        c = ["func Setup() {"]
        for t, tok in regs_top:
            c.append("\treg.Register(%s, (*%s)(nil), %s)" % (lit(self.gid), self.ty(t, p), lit(tok)))
        c += ["\tLf(-1)", "\tLg(-1)", "}", ""]
        chunks.append(("setup", c))
        c = ["func Probe(i int) string {", "\tswitch i {"]
        for idx, stmts in top_cases:
            c.append("\tcase %d:" % idx)
            if len(stmts) > 1:
                c.append("\t\t{")
                c += ["\t\t\t" + s for s in stmts]
                c.append("\t\t}")
            else:
                c.append("\t\t" + stmts[0])
        c += ["\t}", '\treturn "?"', "}", ""]
        chunks.append(("probe", c))
        for fn in ("Lf", "Lg"):
            c = ["func %s(i int) string {" % fn]
            c += self._scope_block(p, (fn,), regs_local, local_cases, 1)
            inner = (fn, "b")
            if inner in self.scopes:
                c.append("\t{")
                c += self._scope_block(p, inner, regs_local, local_cases, 2)
                c.append("\t}")
            c += ['\treturn ""', "}", ""]
            chunks.append((fn, c))
        # distribute the chunks over files
        nf = self.nfiles[p]
        order = list(range(len(chunks)))
        if self.variant.get("shuffle", True):
            self.rnd.shuffle(order)
        buckets = [[] for _ in range(nf)]
        for j, ci in enumerate(order):
            buckets[j % nf if self.variant.get("roundrobin") else self.rnd.randrange(nf)].append(ci)
        files = {}
        self.chunk_file = getattr(self, "chunk_file", {})
        for fi, b in enumerate(buckets):
            body = []
            for ci in b:
                body += chunks[ci][1]
                self.chunk_file[(p, chunks[ci][0])] = fi
            text = "\n".join(body)
            need = {q for q in used if (q + ".") in text}
            src = ["package %s" % self.pkgname[p], ""]
            imps = self._imports(p, need)
            if "//go:linkname " in text:
                imps.insert(1, '\t_ "unsafe"')
            if "reg." not in text:
                imps = [l for l in imps if "vmod/reg" not in l]
            if len(imps) > 2:
                src += imps + [""]
            src += body
            files["%s/f%d.go" % (self.dir_of(p), fi)] = "\n".join(src) + "\n"
        if linked:
            files["%s/empty.s" % self.dir_of(p)] = ""      # the reference toolchain accepts body-less functions only then
        return files

    @staticmethod
    def _unexported(e):
        n = e["recv"]["t"]["name"] if e["kind"] == "method" and e["name"][0].isupper() else e["name"]
        return not n[0].isupper()

    @staticmethod
    def _home(e):
        return e["recv"]["t"]["pkg"] if e["kind"] == "method" else e["pkg"]

    def linksym(self, t):
        """the symbol a //go:linkname directive names for entity t: Go's convention importpath.name / importpath.T.m"""
        if t["kind"] in ("func", "global"):
            return "%s.%s" % (self.path[t["pkg"]], t["name"])
        rt = t["recv"]["t"]
        tn = "(*%s)" % rt["name"] if t["recv"]["ptr"] else rt["name"]
        return "%s.%s.%s" % (self.path[rt["pkg"]], tn, t["name"])

    def _used(self, e, used):
        k = e["kind"]
        if k == "linked":
            self._used(e["target"], used)
            return
        if k in ("func", "inst", "global"):
            used.add(e["pkg"])
        if k == "inst":
            for a in e["targs"]:
                used.update(term_pkgs(a))
        if k in ("method", "wrapper"):
            used.update(term_pkgs(e["recv"]["t"]))
        if k == "closure":
            self._used(e["parent"], used)
        if k == "desc":
            used.update(term_pkgs(e["t"]))

    def _scope_block(self, p, scope, regs_local, local_cases, ind):
        pad = "\t" * ind
        out = []
        if scope in self.scopes:
            emb = self.emb.get(scope, "A")
            out.append("%stype T struct {" % pad)
            out.append("%s\t%s%s `c14:%s`" % (pad, "*" if self._embptr(scope) else "", emb, json.dumps(self.tag(p, scope))))
            out.append("%s}" % pad)
            out.append("%sif i == -1 {" % pad)
            for t, tok in regs_local.get(scope, []):
                out.append("%s\treg.Register(%s, (*%s)(nil), %s)" % (pad, json.dumps(self.gid), self.ty(t, p), json.dumps(tok)))
            out.append("%s}" % pad)
            out.append("%sswitch i {" % pad)
            for idx, stmts in local_cases.get(scope, []):
                out.append("%scase %d:" % (pad, idx))
                if len(stmts) > 1:
                    out.append("%s\t{" % pad)
                    out += ["%s\t\t%s" % (pad, s) for s in stmts]
                    out.append("%s\t}" % pad)
                else:
                    out.append("%s\t%s" % (pad, stmts[0]))
            out.append("%s}" % pad)
        return out


REG_SRC = """package reg

// I is the interface the promoted methods are called through.
type I interface{ M(sel int) string }

type entry struct {
	grp string
	v   any
	tok string
}

var tab []entry

// Register associates, within group grp, the dynamic type of v (a typed nil pointer) with a token.
func Register(grp string, v any, tok string) { tab = append(tab, entry{grp, v, tok}) }

// Who returns the token registered in group grp for the dynamic type of v.
func Who(grp string, v any) string {
	for _, e := range tab {
		if e.grp == grp && e.v == v {
			return e.tok
		}
	}
	return "?"
}
"""


def main_source(worlds):
    lines = ["package main", "", "import (", '\t"os"', ""]
    for w in worlds:
        for p in w.pkgs:
            lines.append('\t%s%s "%s"' % (w.gid, p, w.path[p]))
    lines += [")", ""]
    for w in worlds:
        lines.append("func run_%s() {" % w.gid)
        for p in w.pkgs:
            lines.append("\t%s%s.Setup()" % (w.gid, p))
        lines.append('\tprintln("G", "%s", "setup")' % w.gid)
        # probes grouped per package, in reference order
        runs = []
        for idx, r in enumerate(w.refs):
            if runs and runs[-1][0] == r["from"] and runs[-1][2] == idx - 1:
                runs[-1][2] = idx
            else:
                runs.append([r["from"], idx, idx])
        for frm, a, b in runs:
            lines.append("\tfor i := %d; i <= %d; i++ {" % (a, b))
            lines.append('\t\tprintln("R", "%s", i, %s%s.Probe(i))' % (w.gid, w.gid, frm))
            lines.append("\t}")
        lines.append('\tprintln("G", "%s", "done")' % w.gid)
        lines.append("}")
        lines.append("")
    lines.append("func main() {")
    lines.append('\tsel := ""')
    lines.append("\tif len(os.Args) > 1 {")
    lines.append("\t\tsel = os.Args[1]")
    lines.append("\t}")
    for w in worlds:
        lines.append('\tif sel == "" || sel == "%s" {' % w.gid)
        lines.append("\t\trun_%s()" % w.gid)
        lines.append("\t}")
    lines.append("}")
    return "\n".join(lines) + "\n"


def program(worlds):
    """-> {relative path: content} of module vmod"""
    files = {"reg/reg.go": REG_SRC, "main.go": main_source(worlds)}
    for w in worlds:
        files.update(w.render())
    return files

"""C19 — Go and Python exchange values and calls without loss; each Python module is imported once, before use.

spec/pybridge/PyBridge.tla   layer A: Go values, Python objects, ToPy / FromPy, RoundTrip, Call, Lookup
spec/pybridge/PyCases.tla    TLC enumerates the value terms (every Go kind x 64-bit boundary set, floats, UTF-8 text incl. NUL,
                             byte strings incl. invalid UTF-8 ([]byte also with spare capacity), nested lists/tuples of depth <= 2), all argument tuples of arity
                             0..6 over three atoms for the fixed-arity and the variadic callable, and the name lookups, checks
                             the RoundTrip law and prints for each case what Python must receive and what Go must read back
spec/pybridge/PyImports.tla  layer A import machine: every program shape (1-3 Go packages, bindings of math / json / a local
                             module bound twice, use sites var/init/run), every topological initialisation order; invariants
                             imported-at-most-once, loaded-before-use, exactly-the-used-ones; prints import counts and, for the
                             shapes that are built, every allowed event trace
spec/pybridge/PyCallShapes.tla  TLC enumerates the ways a Go program declares and calls a binding: two declarations of one Python
                             attribute with 0..3 parameters used one after the other (16 ordered pairs), bindings with an ordinary Go
                             variadic parameter called with 0..3 literal or spread arguments (and lib/py/math.Hypot), a Python
                             function named through its binding passed as an argument of a call; every call must deliver all its
                             positional arguments in order; one Go package calling functions of a module and of its dotted submodule
                             (every subset of four symbols, names sorting before and after the submodule's); one Go package per
                             case where the calling package's compile state matters, so that a compiler failure is attributed;
                             a Python function called from one kind of call site only, for eight kinds of site
spec/pybridge/PyImportImpl.tla  layer B: llgo's mechanism (per-package init guard, link-once module global with nil test,
                             per-package symbol tables filled after the imports' init) checked against A (report only)
binding: generated llgo programs linked against libpython3.11 send every value to the local Python module
         (harness/c19/pylib/vmod.py), which logs what it received; Go prints what it reads back; a sitecustomize hook logs every
         import request that reaches the interpreter through the C API.  The same cases run by python3 self-validate the spec.
"""
import json
import os
import random
import shutil
import struct
import subprocess
import sys
import threading
from concurrent.futures import ThreadPoolExecutor

from . import common as C

SPEC = os.path.join(C.VERIF, "spec", "pybridge")
HARN = os.path.join(C.VERIF, "harness", "c19")
PYLIB = os.path.join(HARN, "pylib")

_LOCK = threading.RLock()          # the parts run concurrently; every update of the shared Check object goes through here


def bump(chk, key, n=1):
    with _LOCK:
        chk.cov[key] = chk.cov.get(key, 0) + n


def serialise(chk):
    for name in ("add_tlc", "sample", "reject"):
        orig = getattr(chk, name)

        def locked(*a, _o=orig, **k):
            with _LOCK:
                return _o(*a, **k)
        setattr(chk, name, locked)


# ----------------------------------------------------------------------------- token tables (owned by the harness)

FLOAT_BITS = {
    "pz": 0x0000000000000000, "nz": 0x8000000000000000, "pinf": 0x7FF0000000000000, "ninf": 0xFFF0000000000000,
    "nan": 0x7FF8000000000001, "half": 0x3FE0000000000000, "one": 0x3FF0000000000000, "m1p5": 0xBFF8000000000000,
    "f32max": 0x47EFFFFFE0000000, "f32den": 0x36A0000000000000, "p2_24": 0x4170000000000000,
    "e300": 0x7E37E43C8800759C, "p2_53m1": 0x433FFFFFFFFFFFFF, "f64den": 0x0000000000000001,
    "tenth": 0x3FB999999999999A, "f64max": 0x7FEFFFFFFFFFFFFF,
}
GO_TYPE = {"i8": "int8", "i16": "int16", "i32": "int32", "i64": "int64", "int": "int", "u8": "uint8", "u16": "uint16",
           "u32": "uint32", "u64": "uint64", "uint": "uint", "uintptr": "uintptr", "f32": "float32", "f64": "float64",
           "bool": "bool", "string": "string", "bytes": "[]byte"}
SIGNED = {"i8", "i16", "i32", "i64", "int"}
UNSIGNED = {"u8", "u16", "u32", "u64", "uint", "uintptr"}


def limbs_val(neg, m):
    v = 0
    for limb in m:
        v = v * 65536 + limb
    return -v if neg else v


def f64_of(tok):
    return struct.unpack(">d", struct.pack(">Q", FLOAT_BITS[tok]))[0]


def float_text(tok):
    return "fnan" if tok == "nan" else "f%d" % FLOAT_BITS[tok]


def canon_py(o):
    """canonical text of a Python object term of the spec"""
    t = o["t"]
    if t == "int":
        return "i%d" % limbs_val(o["neg"], o["m"])
    if t == "float":
        return float_text(o["f"])
    if t == "bool":
        return "B1" if o["v"] else "B0"
    if t == "str":
        return "s" + "".join(chr(c) for c in o["cps"]).encode("utf-8").hex()
    if t == "bytes":
        return "y" + bytes(o["b"]).hex()
    if t == "bytearray":
        return "a" + bytes(o["b"]).hex()
    if t in ("list", "tuple"):
        return ("L[" if t == "list" else "T[") + ",".join(canon_py(e) for e in o["items"]) + "]"
    raise C.Undecided("unknown python term %r" % (o,))


def canon_go(g):
    """canonical text of a Go value term of the spec (what the typed read-back prints)"""
    k = g["k"]
    if k in SIGNED or k in UNSIGNED:
        return "i%d" % limbs_val(g["neg"], g["m"])
    if k in ("f32", "f64"):
        return float_text(g["f"])
    if k == "bool":
        return "B1" if g["v"] else "B0"
    if k == "string":
        return "s" + bytes(g["bytes"]).hex()
    if k == "bytes":
        return "a" + bytes(g["b"]).hex()
    if k == "array":
        return "y" + bytes(g["b"]).hex()
    if k in ("list", "tuple"):
        return ("L[" if k == "list" else "T[") + ",".join(canon_go(e) for e in g["items"]) + "]"
    if k == "error":
        return "ERR"
    raise C.Undecided("unknown go term %r" % (g,))


def pyexpr(g):
    """python3 source for the value a Go term denotes — written from the Go side's meaning (bytes, bits), not from the spec's
    ToPy, so that the reference run validates ToPy"""
    k = g["k"]
    if k in SIGNED or k in UNSIGNED:
        return "%d" % limbs_val(g["neg"], g["m"])
    if k == "f64":
        return "F(0x%x)" % FLOAT_BITS[g["f"]]
    if k == "f32":
        return "F32(0x%x)" % struct.unpack(">I", struct.pack(">f", f64_of(g["f"])))[0]
    if k == "bool":
        return "True" if g["v"] else "False"
    if k == "string":
        return "bytes(%r).decode('utf-8')" % (list(g["bytes"]),)
    if k == "bytes":
        return "bytearray(%r)" % (list(g["b"]),)
    if k == "array":
        return "bytes(%r)" % (list(g["b"]),)
    if k == "list":
        return "[" + ",".join(pyexpr(e) for e in g["items"]) + "]"
    if k == "tuple":
        return "(" + "".join(pyexpr(e) + "," for e in g["items"]) + ")"
    raise C.Undecided("pyexpr %r" % (g,))


def go_strlit(bs):
    return '"' + "".join("\\x%02x" % b for b in bs) + '"'


def go_leaf_literal(g):
    k = g["k"]
    if k in SIGNED or k in UNSIGNED:
        return "%d" % limbs_val(g["neg"], g["m"])
    if k == "f64":
        return "fbits(0x%x)" % FLOAT_BITS[g["f"]]
    if k == "f32":
        return "f32bits(0x%x)" % struct.unpack(">I", struct.pack(">f", f64_of(g["f"])))[0]
    if k == "bool":
        return "true" if g["v"] else "false"
    if k == "string":
        return go_strlit(g["bytes"])
    if k == "bytes":
        return "[]byte{" + ",".join(str(b) for b in g["b"]) + "}"
    if k == "array":
        return "[%d]byte{" % len(g["b"]) + ",".join(str(b) for b in g["b"]) + "}"
    raise C.Undecided("go literal %r" % (g,))


BACK_FN = {"f32": "BackFloat32", "f64": "BackFloat", "bool": "BackBool", "string": "BackString", "bytes": "BackBytes",
           "array": "BackArray", "uintptr": "BackUintptr"}


def back_fn(kind, route):
    if route == "long":
        return "BackLong"
    if route == "ulong":
        return "BackUlong"
    if kind in SIGNED:
        return "BackSigned"
    if kind in UNSIGNED and kind != "uintptr":
        return "BackUnsigned"
    return BACK_FN[kind]


# ----------------------------------------------------------------------------- expectations per case

def wrap(route, text):
    if route == "list1":
        return "L[" + text + "]"
    if route == "tuple1":
        return "T[" + text + "]"
    return text


def expectation(c):
    """-> dict(py=[lines python must log], C=text Go's dynamic read-back, T=typed read-back or None)"""
    fam = c["fam"]
    if fam == "leaf":
        return {"py": ["P " + wrap(c["route"], canon_py(c["py"]))], "C": wrap(c["route"], canon_py(c["py"])), "T": canon_go(c["back"])}
    if fam == "nested":
        return {"py": ["P " + canon_py(c["py"])], "C": canon_py(c["py"]), "T": canon_go(c["back"]) if c.get("static") else None}
    if fam == "calls":
        name = "fv" if c["variadic"] else "f%d" % len(c["args"])
        recv = "T[" + ",".join(canon_py(o) for o in c["recv"]) + "]"
        return {"py": ["F %s %s" % (name, recv)], "C": canon_py(c["ret"]), "T": None}
    if fam == "lookup":
        return {"py": [], "C": canon_py(c["py"]), "T": None}
    raise C.Undecided("family " + fam)


def case_key(c):
    fam = c["fam"]
    if fam == "leaf":
        form = c.get("form", "exact")
        return "leaf:%s:%s:%s" % (c["route"], c["go"]["k"], canon_go(c["go"])) + ("" if form == "exact" else ":" + form)
    if fam == "nested":
        return "nested:%s:%s" % ("static" if c.get("static") else "dyn", canon_go(c["go"]))
    if fam == "calls":
        return "call:%s:%s" % ("fv" if c["variadic"] else "f%d" % len(c["args"]), ",".join(canon_go(a) for a in c["args"]))
    return "lookup:%s.%s" % (c["mod"], c["attr"])


def judge(cases, obs, crashed_at=None):
    """compare what really happened (obs[id] = {"py": [...], "C": str, "T": str}) with the spec; -> list of (id, what, detail)"""
    bad = []
    for i, c in enumerate(cases):
        o = obs.get(i)
        if o is None:
            if crashed_at is not None and i > crashed_at:
                continue
            bad.append((i, "missing", "the program printed nothing for this case"))
            continue
        e = c["_exp"]
        if o.get("py", []) != e["py"]:
            bad.append((i, "python-received", "python logged %r, spec says %r" % (o.get("py"), e["py"])))
        if o.get("C") != e["C"]:
            bad.append((i, "go-readback", "Go read back %r, spec says %r" % (o.get("C"), e["C"])))
        if e["T"] is not None and o.get("T") != e["T"]:
            bad.append((i, "typed-readback", "typed accessor gave %r, spec says %r" % (o.get("T"), e["T"])))
    return bad


def parse_protocol(text):
    """G <id> / P .. / F .. / C <id> .. / T <id> .. / K <id> ..   -> obs dict, last id started, other lines"""
    obs = {}
    cur = None
    other = []
    for line in text.splitlines():
        p = line.split(" ")
        try:
            if p[0] == "G" and len(p) == 2:
                cur = int(p[1])
                obs[cur] = {"py": []}
            elif p[0] in ("P", "F") and cur is not None:
                obs[cur]["py"].append(line)
            elif p[0] in ("C", "T") and len(p) == 3:
                obs.setdefault(int(p[1]), {"py": []})[p[0]] = p[2]
            else:
                other.append(line)
        except ValueError:
            other.append(line)
    return obs, cur, other


# ----------------------------------------------------------------------------- the value program (Go) and its python3 twin

GO_HEAD = '''// generated by /verif/vlib/c19.py
package main

import (
	"unsafe"

	"c19prog/bvmod"
	"c19prog/bvsub"
	"c19prog/pyx"
	"c19prog/vx"

	"github.com/goplus/lib/c"
	"github.com/goplus/lib/py"
)

var skip int

func fbits(b uint64) float64   { return *(*float64)(unsafe.Pointer(&b)) }
func f32bits(b uint32) float32 { return *(*float32)(unsafe.Pointer(&b)) }

func start(id int) bool {
	if id < skip {
		return false
	}
	println("G", id)
	return true
}

// spare: the value as a sub-slice of a longer array whose other elements hold other bytes (cap = len + 5)
func spare(b []byte) []byte {
	backing := make([]byte, len(b)+7)
	for i := range backing {
		backing[i] = 0xA5
	}
	copy(backing[2:], b)
	return backing[2 : 2+len(b)]
}

// grown: the value appended to an empty slice of capacity 16 whose backing array holds other bytes
func grown(b []byte) []byte {
	s := make([]byte, 16)
	for i := range s {
		s[i] = 0x5A
	}
	s = s[:0]
	for _, x := range b {
		s = append(s, x)
	}
	return s
}

var _ = bvsub.Who
var _ = unsafe.Pointer(nil)
var _ = vx.Enc

'''


def go_item(route, objexpr):
    return {"list1": objexpr + ".ListItem(0)", "tuple1": objexpr + ".TupleItem(0)"}.get(route, objexpr)


ROUTE_EXPR = {"list1": "py.List(v)", "tuple1": "py.Tuple(v)", "longlong": "py.LongLong(v)", "long": "py.Long(v)",
              "ulonglong": "py.UlongLong(v)", "ulong": "py.Ulong(v)", "uintptr": "py.Uintptr(v)", "float": "py.Float(v)",
              "gostring": "py.FromGoString(v)"}


def go_nested_expr(g, leafvars):
    k = g["k"]
    if k in ("list", "tuple"):
        return ("py.List(" if k == "list" else "py.Tuple(") + ", ".join(go_nested_expr(e, leafvars) for e in g["items"]) + ")"
    return leafvars[canon_go(g) + ":" + k]


def go_back_expr(g, objexpr):
    k = g["k"]
    if k in ("list", "tuple"):
        acc = ".ListItem(%d)" if k == "list" else ".TupleItem(%d)"
        parts = [go_back_expr(e, objexpr + acc % i) for i, e in enumerate(g["items"])]
        body = ' + "," + '.join(parts)
        return ('"L["' if k == "list" else '"T["') + (" + " + body if parts else "") + ' + "]"'
    return "vx.%s(%s)" % (back_fn(k, ""), objexpr)


NESTED_LEAF_CTOR = {"i64": "py.LongLong(%s)", "u64": "py.UlongLong(%s)", "string": "py.FromGoString(%s)", "f64": "py.Float(%s)",
                    "bytes": "py.List(%s).ListItem(0)", "bool": "py.List(%s).ListItem(0)"}


def gen_value_program(cases):
    """cases: list of spec cases with _exp; index = id.  Returns (main.go text, python3 twin text)"""
    go = [GO_HEAD]
    py = ["import os, struct, sys", "import vmod", "from vmod import enc",
          "def w(s): os.write(2, (s + '\\n').encode())",
          "def F(b): return struct.unpack('>d', struct.pack('>Q', b))[0]",
          "def F32(b): return struct.unpack('>f', struct.pack('>I', b))[0]",
          "def item(route, o): return o[0] if route in ('list1', 'tuple1') else o",
          "def mk(route, v): return [v] if route == 'list1' else (v,) if route == 'tuple1' else v", ""]
    mainbody = []

    # ---- leaf groups, table driven: one static conversion site per (route, kind[, array length])
    groups = {}
    for i, c in enumerate(cases):
        if c["fam"] == "leaf" and c["route"] != "strlit":
            g = c["go"]
            gk = (c["route"], g["k"], len(g["b"]) if g["k"] == "array" else -1, c.get("form", "exact"))
            groups.setdefault(gk, []).append(i)
    for gi, (gk, ids) in enumerate(sorted(groups.items())):
        route, kind, alen, form = gk
        gotype = "[%d]byte" % alen if kind == "array" else GO_TYPE[kind]
        go.append("var g%d_ids = []int{%s}" % (gi, ",".join(map(str, ids))))
        lit = (lambda x: x) if form == "exact" else (lambda x, f=form: "%s(%s)" % (f, x))
        go.append("var g%d_vals = []%s{%s}" % (gi, gotype, ", ".join(lit(go_leaf_literal(cases[i]["go"])) for i in ids)))
        go.append("func group%d() {\n\tfor i, v := range g%d_vals {\n\t\tid := g%d_ids[i]\n\t\tif !start(id) {\n\t\t\tcontinue\n\t\t}" % (gi, gi, gi))
        go.append("\t\to := bvmod.Echo(%s)" % ROUTE_EXPR[route])
        go.append('\t\tprintln("C", id, vx.Enc(o))')
        go.append('\t\tprintln("T", id, vx.%s(%s))\n\t}\n}\n' % (back_fn(kind, route), go_item(route, "o")))
        mainbody.append("group%d()" % gi)
        for i in ids:
            py.append("w('G %d'); o = vmod.echo(mk(%r, %s)); w('C %d ' + enc(o)); w('T %d ' + enc(item(%r, o)))"
                      % (i, route, pyexpr(cases[i]["go"]), i, i, route))

    # ---- string literals through py.Str: one static site per literal
    go.append("func strlits() {")
    for i, c in enumerate(cases):
        if c["fam"] == "leaf" and c["route"] == "strlit":
            go.append('\tif start(%d) {\n\t\to := bvmod.Echo(py.Str(%s))\n\t\tprintln("C", %d, vx.Enc(o))\n\t\tprintln("T", %d, vx.BackString(o))\n\t}'
                      % (i, go_strlit(c["go"]["bytes"]), i, i))
            py.append("w('G %d'); o = vmod.echo(%s); w('C %d ' + enc(o)); w('T %d ' + enc(o))" % (i, pyexpr(c["go"]), i, i))
    go.append("}\n")
    mainbody.append("strlits()")

    # ---- nested containers
    leafvars = {}
    leafctor = []
    nested = [(i, c) for i, c in enumerate(cases) if c["fam"] == "nested"]

    def collect(g):
        if g["k"] in ("list", "tuple"):
            for e in g["items"]:
                collect(e)
        else:
            key = canon_go(g) + ":" + g["k"]
            if key not in leafvars:
                name = "nl%d" % len(leafvars)
                leafvars[key] = name
                go.append("var %s %s = %s" % (name, GO_TYPE[g["k"]], go_leaf_literal(g)))
                leafctor.append(NESTED_LEAF_CTOR[g["k"]] % name)
    for _, c in nested:
        collect(c["go"])
    go.append("")
    # static expressions (PyList/PyTuple lowering with mixed Go kinds in one call)
    chunk = 0
    stat = [(i, c) for i, c in nested if c.get("static")]
    for lo in range(0, len(stat), 200):
        go.append("func nestedStatic%d() {" % chunk)
        for i, c in stat[lo:lo + 200]:
            go.append('\tif start(%d) {\n\t\to := bvmod.Echo(%s)\n\t\tprintln("C", %d, vx.Enc(o))\n\t\tprintln("T", %d, %s)\n\t}'
                      % (i, go_nested_expr(c["go"], leafvars), i, i, go_back_expr(c["go"], "o")))
        go.append("}\n")
        mainbody.append("nestedStatic%d()" % chunk)
        chunk += 1
    # dynamic composition: postfix programs over fresh leaf objects; container sites take objects
    dyn = [(i, c) for i, c in nested if not c.get("static")]
    prog = []
    leafindex = {k: n for n, k in enumerate(leafvars)}

    def emit(g):
        if g["k"] in ("list", "tuple"):
            for e in g["items"]:
                emit(e)
            prog.append((10 if g["k"] == "list" else 20) + len(g["items"]))
        else:
            prog.append(30 + leafindex[canon_go(g) + ":" + g["k"]])
    ids = []
    for i, c in dyn:
        emit(c["go"])
        prog.append(-1)
        ids.append(i)
    go.append("var nprog = []int8{%s}" % ",".join(map(str, prog)))
    go.append("var nids = []int{%s}" % ",".join(map(str, ids)))
    go.append("func leafObj(k int) *py.Object {\n\tswitch k {")
    for n, ctor in enumerate(leafctor):
        go.append("\tcase %d:\n\t\treturn %s" % (n, ctor))
    go.append("\t}\n\treturn nil\n}\n")
    go.append('''func nestedDyn() {
	var st [16]*py.Object
	sp := 0
	ci := 0
	for _, op8 := range nprog {
		op := int(op8)
		switch {
		case op == -1:
			id := nids[ci]
			ci++
			sp = 0
			if start(id) {
				o := bvmod.Echo(st[0])
				println("C", id, vx.Enc(o))
			}
		case op >= 30:
			st[sp] = leafObj(op - 30)
			sp++
		case op >= 20:
			n := op - 20
			a := st[sp-n : sp]
			var o *py.Object
			switch n {
			case 0:
				o = py.Tuple()
			case 1:
				o = py.Tuple(a[0])
			case 2:
				o = py.Tuple(a[0], a[1])
			case 3:
				o = py.Tuple(a[0], a[1], a[2])
			}
			sp -= n
			st[sp] = o
			sp++
		default:
			n := op - 10
			a := st[sp-n : sp]
			var o *py.Object
			switch n {
			case 0:
				o = py.List()
			case 1:
				o = py.List(a[0])
			case 2:
				o = py.List(a[0], a[1])
			case 3:
				o = py.List(a[0], a[1], a[2])
			}
			sp -= n
			st[sp] = o
			sp++
		}
	}
}
''')
    mainbody.append("nestedDyn()")
    for i, c in nested:
        if c.get("static"):
            py.append("w('G %d'); o = vmod.echo(%s); w('C %d ' + enc(o)); w('T %d ' + enc(o))" % (i, pyexpr(c["go"]), i, i))
        else:
            py.append("w('G %d'); o = vmod.echo(%s); w('C %d ' + enc(o))" % (i, pyexpr(c["go"]), i))

    # ---- calls: one static call site per arity (fixed) and per arity (variadic); argument data from a table
    calls = [(i, c) for i, c in enumerate(cases) if c["fam"] == "calls"]
    atoms = []
    rows = []
    cids = []
    for i, c in calls:
        row = [1 if c["variadic"] else 0, len(c["args"])]
        for a in c["args"]:
            key = json.dumps(a, sort_keys=True)
            if key not in atoms:
                atoms.append(key)
            row.append(atoms.index(key))
        rows += row
        cids.append(i)
    atom_ctor = {"i64": "py.LongLong(%s)", "string": "py.FromGoString(%s)", "f64": "py.Float(%s)"}
    go.append("var crows = []int8{%s}" % ",".join(map(str, rows)))
    go.append("var cids = []int{%s}" % ",".join(map(str, cids)))
    go.append("func atom(k int8) *py.Object {\n\tswitch k {")
    for n, key in enumerate(atoms):
        a = json.loads(key)
        go.append("\tcase %d:\n\t\treturn %s" % (n, atom_ctor[a["k"]] % go_leaf_literal(a)))
    go.append("\t}\n\treturn nil\n}\n")
    go.append('''func calls() {
	p := 0
	for _, id := range cids {
		variadic := crows[p] == 1
		n := int(crows[p+1])
		var a [6]*py.Object
		for j := 0; j < n; j++ {
			a[j] = atom(crows[p+2+j])
		}
		p += 2 + n
		if !start(id) {
			continue
		}
		var r *py.Object
		if !variadic {
			switch n {
			case 0:
				r = bvmod.F0()
			case 1:
				r = bvmod.F1(a[0])
			case 2:
				r = bvmod.F2(a[0], a[1])
			case 3:
				r = bvmod.F3(a[0], a[1], a[2])
			case 4:
				r = bvmod.F4(a[0], a[1], a[2], a[3])
			case 5:
				r = bvmod.F5(a[0], a[1], a[2], a[3], a[4])
			case 6:
				r = bvmod.F6(a[0], a[1], a[2], a[3], a[4], a[5])
			}
		} else {
			switch n {
			case 0:
				r = bvmod.FV()
			case 1:
				r = bvmod.FV(a[0])
			case 2:
				r = bvmod.FV(a[0], a[1])
			case 3:
				r = bvmod.FV(a[0], a[1], a[2])
			case 4:
				r = bvmod.FV(a[0], a[1], a[2], a[3])
			case 5:
				r = bvmod.FV(a[0], a[1], a[2], a[3], a[4])
			case 6:
				r = bvmod.FV(a[0], a[1], a[2], a[3], a[4], a[5])
			}
		}
		println("C", id, vx.Enc(r))
	}
}
''')
    mainbody.append("calls()")
    for i, c in calls:
        fn = "fv" if c["variadic"] else "f%d" % len(c["args"])
        py.append("w('G %d'); o = vmod.%s(%s); w('C %d ' + enc(o))" % (i, fn, ",".join(pyexpr(a) for a in c["args"]), i))

    # ---- lookups by name (module variables are resolved at each use, functions called)
    go.append("func lookups() {")
    for i, c in enumerate(cases):
        if c["fam"] != "lookup":
            continue
        pkg = {"vmod": "bvmod", "vpk_sub": "bvsub"}[c["mod"]]
        expr = {"name": pkg + ".Name", "tick": pkg + ".Tick", "who": pkg + ".Who()"}[c["attr"]]
        go.append('\tif start(%d) {\n\t\tprintln("C", %d, vx.Enc(%s))\n\t}' % (i, i, expr))
        pymod = {"vmod": "vmod", "vpk_sub": "vpk.sub"}[c["mod"]]
        pyx_ = "getattr(importlib.import_module(%r), %r)" % (pymod, c["attr"])
        if c["attr"] == "who":
            pyx_ += "()"
        py.append("import importlib; w('G %d'); w('C %d ' + enc(%s))" % (i, i, pyx_))
    go.append("}\n")
    mainbody.append("lookups()")

    go.append("func main() {\n\tif p := pyx.Getenv(c.Str(\"C19_SKIP\")); p != nil {\n\t\tskip = int(c.Atoi(p))\n\t}")
    go += ["\t" + s for s in mainbody]
    go.append('\tprintln("N count", vx.Enc(bvmod.Count))\n\tpy.ImportModule(c.Str("vpk")) // canary: the import hook must report this one\n\tprintln("END")\n}')
    py.append("w('N count ' + enc(vmod.count)); w('END')")
    return "\n".join(go) + "\n", "\n".join(py) + "\n"


# ----------------------------------------------------------------------------- module directories, build, run

def make_module(dst, files):
    shutil.copytree(os.path.join(HARN, "gomod"), dst)
    want = "github.com/goplus/lib v0.3.1"
    lines = [ln for ln in open(os.path.join(C.REPO, "go.sum")) if ln.startswith(want + " ") or ln.startswith(want + "/go.mod ")]
    if len(lines) < 2:
        raise C.Undecided("go.sum of the working tree has no entry for " + want)
    with open(os.path.join(dst, "go.sum"), "w") as f:
        f.writelines(lines)
    for name, content in files.items():
        p = os.path.join(dst, name)
        os.makedirs(os.path.dirname(p), exist_ok=True)
        with open(p, "w") as f:
            f.write(content)


def py_env(extra=None):
    env = dict(os.environ)
    env["PYTHONPATH"] = PYLIB
    env["PYTHONDONTWRITEBYTECODE"] = "1"
    env["VERIF_C19_HOOK"] = "1"
    env.pop("PYTHONHOME", None)
    if extra:
        env.update(extra)
    return env


def build(chk, name, files):
    rd = chk.rd.sub(name)
    mod = os.path.join(rd, "mod")
    make_module(mod, files)
    exe = os.path.join(rd, name + ".exe")
    ok, out = C.llgo_build(mod, exe, opt="O0", rundir=rd, timeout=1500)
    return ok, out, exe


# ----------------------------------------------------------------------------- part 1: values, calls, lookups

def load_cases(chk, thorough, sd):
    res = C.tlc(SPEC, "PyCases", "cases_all.cfg", chk.rd.path, timeout=900, parse_json=False)
    if not res.ok:
        raise C.Undecided("PyCases: a law of the spec failed in TLC (spec defect): %s" % res.violation)
    chk.add_tlc(res, "PyCases/all")
    allc = list(C.tlc_printed_iter(res))
    fams = {}
    for c in allc:
        fams.setdefault(c["fam"], []).append(c)
    for f in fams.values():
        f.sort(key=lambda c: json.dumps(c, sort_keys=True))
    if not all(fams.get(f) for f in ("leaf", "nested", "calls", "lookup")):
        raise C.Undecided("PyCases printed no cases for some family: %s" % {k: len(v) for k, v in fams.items()})
    # the spec's own UTF-8 arithmetic must agree with CPython's codec (self-validation of the spec)
    for c in fams["leaf"]:
        if c["go"]["k"] == "string":
            if "".join(chr(x) for x in c["py"]["cps"]).encode("utf-8") != bytes(c["go"]["bytes"]):
                raise C.Undecided("spec defect: Utf8Seq disagrees with CPython for %r" % (c["py"]["cps"],))
    rng = random.Random(sd)
    nstatic = len(fams["nested"]) if thorough else 240
    static_idx = set(rng.sample(range(len(fams["nested"])), nstatic))
    cases = list(fams["leaf"])
    for i, c in enumerate(fams["nested"]):
        cases.append(dict(c))                       # dynamic composition: every nested term
        if i in static_idx:
            d = dict(c)
            d["static"] = True
            cases.append(d)
    cases += fams["calls"] + fams["lookup"]
    # ids follow the order in which the generated program executes the cases (a restart after a crash skips "all ids <= n")
    def exec_key(ic):
        i, c = ic
        if c["fam"] == "leaf":
            if c["route"] == "strlit":
                return (1, (), i)
            g = c["go"]
            return (0, (c["route"], g["k"], len(g["b"]) if g["k"] == "array" else -1, c.get("form", "exact")), i)
        if c["fam"] == "nested":
            return (2 if c.get("static") else 3, (), i)
        return (4 if c["fam"] == "calls" else 5, (), i)
    cases = [c for _, c in sorted(enumerate(cases), key=exec_key)]
    for c in cases:
        c["_exp"] = expectation(c)
    return cases, {k: len(v) for k, v in fams.items()}


def run_protocol(exe_cmd, env, ncases, timeout):
    """run (restarting after a crash) and collect observations; -> obs, crashes [(id, status, tail)], trailer lines"""
    obs = {}
    crashes = []
    trailer = []
    skip = 0
    while True:
        e = dict(env)
        e["C19_SKIP"] = str(skip)
        st, so, _ = C.run_exe(exe_cmd[0], args=exe_cmd[1:], timeout=timeout, env=e, merge=True)
        o, last, other = parse_protocol(so)
        for k, v in o.items():
            if k >= skip:
                obs[k] = v
        trailer = other
        if st == 0 and "END" in other:
            break
        if last is None or last < skip:
            crashes.append((None, st, so[-1500:]))          # died outside every case (start-up, between cases, exit)
            break
        crashes.append((last, st, so[-600:]))
        skip = last + 1
        if skip >= ncases or len(crashes) >= 12:     # after 12 crashes the later cases stay unjudged
            break
    return obs, crashes, trailer


def part_values(chk, thorough, sd, cases, counts):
    gosrc, pysrc = gen_value_program(cases)
    rd = chk.rd.sub("values")
    # reference first: python3 performing the same calls must satisfy the spec, else the spec (or harness) is wrong
    twin = os.path.join(rd, "twin.py")
    with open(twin, "w") as f:
        f.write(pysrc)
    env = py_env({"VERIF_C19_HOOK": "0"})
    robs, rcr, rtr = run_protocol([sys.executable, twin], env, len(cases), 600)
    rbad = judge(cases, robs)
    if list(robs) != list(range(len(cases))):
        raise C.Undecided("harness defect: the generated program does not execute the cases in id order")
    if rcr or rbad or "N count i1" not in rtr:
        raise C.Undecided("self-validation failed: python3 itself disagrees with the spec on %d cases, e.g. %s" % (
            len(rbad), [(case_key(cases[b[0]]), b[1], b[2]) for b in rbad[:3]]))
    ok, out, exe = build(chk, "values", {"main.go": gosrc})
    if not ok:
        raise C.Undecided("llgo could not build the value program:\n" + out[-3000:])
    obs, crashes, trailer = run_protocol([exe], py_env(), len(cases), 900)
    # negative control: a wrong expectation must be flagged by the same judge
    probe = next(i for i, c in enumerate(cases) if c["fam"] == "calls" and len(c["args"]) >= 3 and c["args"][0] != c["args"][-1])
    saved = cases[probe]["_exp"]
    cases[probe]["_exp"] = dict(saved, py=[saved["py"][0].split(" T[")[0] + " T[" + ",".join(canon_py(o) for o in reversed(cases[probe]["recv"])) + "]"])
    flagged = [b for b in judge(cases, obs) if b[0] == probe]
    cases[probe]["_exp"] = saved
    if not flagged:
        raise C.Undecided("negative control not flagged: the judge does not compare anything")
    outside = [c for c in crashes if c[0] is None]
    if outside:
        chk.reject("values:died-outside-a-case", "the value program ended with status %s outside any case (interpreter start-up, module "
                   "import, symbol loading or exit)" % outside[0][1], {"status": outside[0][1], "output_tail": outside[0][2]})
        return
    crashed = {c[0] for c in crashes}
    complete = "END" in trailer
    bad = judge(cases, obs, crashed_at=None if complete else max(crashed))
    # one replay per failing case, but at most MAXREP of them: first one representative of every class
    # (family, route, kind, what differs), then the remaining cases in case order
    byclass = {}
    for i, what, detail in bad:
        c = cases[i]
        cls = "%s/%s/%s/%s" % (c["fam"], c.get("route", "static" if c.get("static") else ""), c.get("go", {}).get("k", ""), what)
        byclass.setdefault(cls, []).append((i, what, detail))
    order = [v[0] for _, v in sorted(byclass.items())] + [x for _, v in sorted(byclass.items()) for x in v[1:]]
    MAXREP = 40
    seen = set()
    for i, what, detail in order:
        c = cases[i]
        key = case_key(c) + (":crash" if i in crashed else "")
        if key in seen:
            continue
        if len(seen) >= MAXREP and not chk.known.match(key):
            continue
        seen.add(key)
        if i in crashed:
            detail = "the program died in this case (%s); " % [x[1] for x in crashes if x[0] == i][0] + detail
        chk.reject(key, "%s: %s" % (what, detail), {"case": {k: v for k, v in c.items() if k != "_exp"}, "expected": c["_exp"],
                                                     "observed": obs.get(i), "program": "generated by vlib/c19.py gen_value_program"})
    if bad:
        with _LOCK:
            chk.cov["value_mismatches_by_class"] = {k: len(v) for k, v in sorted(byclass.items())}
    if not complete:
        C.log("note: the value program crashed in %d cases; cases after #%d were not judged" % (len(crashes), max(crashed)))
        with _LOCK:
            chk.cov["value_cases_unjudged_after_crashes"] = len(cases) - 1 - max(crashed)
    if complete and "N count i1" not in trailer:
        chk.reject("values:module-body-count", "vmod's body did not run exactly once: %r" % [t for t in trailer if t.startswith("N ")],
                   {"trailer": trailer[-5:]})
    imports = [t for t in trailer if t.startswith("I ")]
    if not complete:
        imports = ["I vmod", "I vpk.sub", "I vpk"]
    if "I vpk" not in imports:
        raise C.Undecided("the import hook did not report the canary import: import requests cannot be observed")
    imports.remove("I vpk")
    if sorted(imports) != ["I vmod", "I vpk.sub"]:
        chk.reject("values:imports", "import requests seen by the interpreter: %r, expected one for vmod and one for vpk.sub" % imports,
                   {"imports": imports})
    n = len(obs)
    bump(chk, "evaluations", n)
    bump(chk, "traces_validated_against_impl", n)
    bump(chk, "distinct_nontrivial", len({c["_exp"]["C"] + "|" + "|".join(c["_exp"]["py"]) for c in cases}))
    chk.cov["value_cases"] = dict(counts, replayed=n, static_nested=sum(1 for c in cases if c.get("static")),
                                  crashes=len(crashes))
    for i in (0, len(cases) // 3, len(cases) // 2, len(cases) - 20):
        c = cases[i]
        chk.sample({"case": case_key(c), "python_must_log": c["_exp"]["py"], "go_reads_back": c["_exp"]["C"], "observed": obs.get(i)})


# ----------------------------------------------------------------------------- part 2: import machine

BINDORDER = ["json", "math", "vmod", "vmod2"]
BIND_IMPORT = {"json": '"github.com/goplus/lib/py/json"', "math": '"github.com/goplus/lib/py/math"',
               "vmod": '"c19prog/bvmod"', "vmod2": '"c19prog/bvmod2"'}
MODOF = {"json": "json", "math": "math", "vmod": "vmod", "vmod2": "vmod"}
PKGDIR = {"a": "pa", "b": "pb"}


def blank_of(sh, p):
    return list(sh.get("blank", {}).get(p, []))


def shape_key(sh):
    key = "shape:%s:ab=%d:%s" % ("+".join(sorted(sh["pkgs"])), 1 if sh["ab"] else 0,
                                 ";".join("%s@%s=%s" % (p, sh["site"][p], ",".join(sh["uses"][p])) for p in sorted(sh["pkgs"])))
    bl = ["%s=%s" % (p, ",".join(blank_of(sh, p))) for p in sorted(sh["pkgs"]) if blank_of(sh, p)]
    return key + (":blank:" + ";".join(bl) if bl else "")       # binding packages imported but never called


def use_result(p, b):
    """what the call of binding b from package p returns — plain CPython facts, computed by this python3"""
    import math as _m
    if b == "math":
        return "f%d" % struct.unpack(">Q", struct.pack(">d", _m.sqrt(16.0)))[0]
    if b == "json":
        return "s" + json.dumps([1, 2]).encode().hex()
    return "s" + ("vmod:" + p).encode().hex() + " i1"


def gen_shape_program(sh, generic=False):
    """generic: every call of a Python function is made from the body of a generic function (instances are compiled in a
    later round than ordinary functions): the law about imports is the same"""
    files = {}
    for p in sorted(sh["pkgs"]):
        uses = [b for b in BINDORDER if b in sh["uses"][p]]
        site = sh["site"][p]
        pkgname = "main" if p == "main" else PKGDIR[p]
        imps = (['"c19prog/vx"', '"github.com/goplus/lib/py"'] if uses else []) + [BIND_IMPORT[b] for b in uses]
        imps += ["_ " + BIND_IMPORT[b] for b in blank_of(sh, p)]          # imported, never used
        if p == "main":
            imps += ['"c19prog/%s"' % PKGDIR[q] for q in sorted(sh["pkgs"]) if q != "main"]
            imps += ['"github.com/goplus/lib/c"', '"github.com/goplus/lib/py"']
        elif p == "a" and sh["ab"] and "b" in sh["pkgs"]:
            imps.append('_ "c19prog/pb"')
        src = ["// generated by /verif/vlib/c19.py", "package " + pkgname, "", "import ("] + ["\t" + i for i in sorted(set(imps))] + [")", ""]
        src.append('func mark() int {\n\tprintln("M %s")\n\treturn 0\n}\n\nvar m0 = mark()\n' % p)
        for b in uses:
            call = {"math": "math.Sqrt(py.Float(16))", "json": "json.Dumps(py.List(1, 2))",
                    "vmod": 'bvmod.Note(py.Str("%s"))' % p, "vmod2": 'bvmod2.Note(py.Str("%s"))' % p}[b]
            extra = {"vmod": ", vx.Enc(bvmod.Count)", "vmod2": ", vx.Enc(bvmod2.Count)"}.get(b, "")
            if generic:
                src.append("func gen_%s[T any](x T) *py.Object {\n\t_ = x\n\treturn %s\n}\n" % (b, call))
                call = "gen_%s[int](0)" % b
            src.append('func use_%s() int {\n\tprintln("U %s %s")\n\tr := %s\n\tprintln("R %s %s", vx.Enc(r)%s)\n\treturn 0\n}\n'
                       % (b, p, b, call, p, b, extra))
        if site == "var":
            for n, b in enumerate(uses):
                src.append("var v%d = use_%s()" % (n + 1, b))
            src.append("")
        src.append("func init() {")
        if site == "init":
            src += ["\tuse_%s()" % b for b in uses]
        src.append("}\n")
        runbody = ["\tuse_%s()" % b for b in uses] if site == "run" else []
        if p == "main":
            src.append("func main() {")
            for q in ("a", "b"):
                if q in sh["pkgs"]:
                    src.append("\t%s.Run()" % PKGDIR[q])
            src += runbody
            src.append('\tpy.ImportModule(c.Str("vpk")) // canary: the import hook must report this one\n\tprintln("END")\n}')
            files["main.go"] = "\n".join(src) + "\n"
        else:
            src.append("func Run() {")
            src += runbody
            src.append("}")
            files["%s/%s.go" % (pkgname, pkgname)] = "\n".join(src) + "\n"
    return files


def parse_shape_trace(text):
    """-> (events, problems).  events: ["I", m] / ["M", p] / ["U", p, b]; U must be followed by its V (vmod) and R lines"""
    ev = []
    problems = []
    pending = None
    results = {}
    ended = False
    for line in text.splitlines():
        p = line.split(" ")
        if p[0] == "I" and len(p) == 2:
            ev.append(["I", p[1]])
        elif p[0] == "M" and len(p) == 2:
            ev.append(["M", p[1]])
        elif p[0] == "U" and len(p) == 3:
            if pending:
                problems.append("call %s never returned" % pending)
            pending = [p[1], p[2], False]
            ev.append(["U", p[1], p[2]])
        elif p[0] == "V" and len(p) == 2:
            if not pending or MODOF[pending[1]] != "vmod" or pending[0] != p[1] or pending[2]:
                problems.append("python logged a call %r that Go did not make at this point" % line)
            else:
                pending[2] = True
        elif p[0] == "R" and len(p) >= 4:
            if not pending or pending[:2] != p[1:3]:
                problems.append("result line without its call: %r" % line)
            else:
                if MODOF[pending[1]] == "vmod" and not pending[2]:
                    problems.append("call %s %s returned but python never received it" % (p[1], p[2]))
                want = use_result(p[1], p[2])
                if " ".join(p[3:]) != want:
                    problems.append("call %s %s returned %r, CPython gives %r" % (p[1], p[2], " ".join(p[3:]), want))
            pending = None
        elif line == "END":
            ended = True
        elif line.strip():
            problems.append("unexpected output line %r" % line)
    if pending:
        problems.append("call %s never returned" % pending)
    if not ended:
        problems.append("program did not reach the end of main")
    return ev, problems


def select_shapes(shapes, thorough, sd):
    """quick: 1 shape, thorough: 24.  Always with the module that is bound twice used through both bindings from different
    packages (the only shapes in which 'imported once' is not already implied by Go's package initialisation)."""
    rng = random.Random(sd * 7919 + 13)

    def both_bindings(sh):
        ps = [p for p in sh["pkgs"] if "vmod" in sh["uses"][p]]
        qs = [p for p in sh["pkgs"] if "vmod2" in sh["uses"][p]]
        return any(p != q for p in ps for q in qs)

    def nmods(sh):
        return len({MODOF[b] for p in sh["pkgs"] for b in sh["uses"][p]})
    most = max(nmods(sh) for sh in shapes)
    rich = [sh for sh in shapes if len(sh["pkgs"]) == 3 and both_bindings(sh) and nmods(sh) == most
            and all(sh["uses"][p] for p in sh["pkgs"])]
    rich.sort(key=shape_key)
    if not thorough:
        return [rng.choice(rich)]
    sel = {}
    for sh in rng.sample(rich, 8):
        sel[shape_key(sh)] = sh
    rest = sorted((sh for sh in shapes if nmods(sh) >= 1), key=shape_key)
    for npk in (1, 2, 3):
        pool = [sh for sh in rest if len(sh["pkgs"]) == npk]
        for sh in rng.sample(pool, min(len(pool), 4 if npk < 3 else 8)):
            sel[shape_key(sh)] = sh
    return list(sel.values())


def fixed_shapes(thorough):
    """program shapes that are always built, whatever the seed (their keys may be listed in known-findings.txt): a binding
    package that is imported and never called"""
    def sh(pkgs, uses, blank):
        site = {"main": "run", "a": "init", "b": "var"}
        return {"pkgs": sorted(pkgs), "ab": False, "uses": {p: uses.get(p, []) for p in pkgs},
                "blank": {p: blank.get(p, []) for p in pkgs}, "site": {p: site[p] for p in pkgs}}
    out = [sh(["main"], {}, {"main": ["math"]})]                       # the program's only Python use is a blank import
    if thorough:
        out += [sh(["main", "a"], {}, {"a": ["math"]}),                # ... in a package that main imports
                sh(["main"], {}, {"main": ["vmod"]}),                  # ... of a local module
                sh(["main", "a"], {"main": ["vmod2"]}, {"a": ["vmod"]}),   # imported blank here, used through another binding there
                sh(["main"], {"main": ["math"]}, {"main": ["json"]})]
    return out


def tla_set(xs):
    return "{" + ", ".join('"%s"' % x for x in sorted(xs)) + "}"


def tla_shape(sh):
    ps = sorted(sh["pkgs"])
    return "[pkgs |-> %s, ab |-> %s, uses |-> %s, blank |-> %s, site |-> %s]" % (
        tla_set(ps), "TRUE" if sh["ab"] else "FALSE",
        "(" + " @@ ".join('("%s" :> %s)' % (p, tla_set(sh["uses"][p])) for p in ps) + ")",
        "(" + " @@ ".join('("%s" :> %s)' % (p, tla_set(blank_of(sh, p))) for p in ps) + ")",
        "(" + " @@ ".join('("%s" :> "%s")' % (p, sh["site"][p]) for p in ps) + ")")


def part_imports(chk, thorough, sd):
    rd = chk.rd.path
    # (1) every shape: the machine satisfies the property's clauses; expected import counts per shape
    cfg = "imports_all.cfg" if thorough else "imports_quick.cfg"
    res = C.tlc(SPEC, "PyImports", cfg, rd, timeout=1500, parse_json=False)
    if not res.ok:
        raise C.Undecided("PyImports: the spec's machine violates its own clauses (spec defect): %s" % res.violation)
    chk.add_tlc(res, "PyImports/" + cfg[:-4])
    shapes = []
    for r in C.tlc_printed_iter(res):
        sh = r["shape"]
        sh["icount"] = r["icount"]
        shapes.append(sh)
    if not shapes:
        raise C.Undecided("PyImports printed no shapes")
    chk.cov["import_shapes_enumerated"] = len(shapes)
    sel = select_shapes(shapes, thorough, sd)
    have = {shape_key(sh) for sh in sel}
    sel += [sh for sh in fixed_shapes(thorough) if shape_key(sh) not in have]
    # (2) the selected shapes: every allowed event trace
    mc = os.path.join(rd, "MCImports.tla")
    with open(mc, "w") as f:
        f.write("---- MODULE MCImports ----\nEXTENDS PyImports\nMCSelShapes == {\n  " + ",\n  ".join(tla_shape(sh) for sh in sel) + "}\n====\n")
    res2 = C.tlc(SPEC, "MCImports", "imports_sel.cfg", rd, timeout=1500, parse_json=False, copy_extra=[mc])
    if not res2.ok:
        raise C.Undecided("MCImports failed: %s" % res2.violation)
    chk.add_tlc(res2, "PyImports/selected-traces")
    allowed = {}
    allowed_counts = {}          # a module that is imported but never used may or may not be requested: more than one count vector
    for r in C.tlc_printed_iter(res2):
        allowed.setdefault(shape_key(r["shape"]), set()).add(json.dumps(r["trace"]))
        allowed_counts.setdefault(shape_key(r["shape"]), set()).add(json.dumps(r["icount"], sort_keys=True))
    for sh in sel:
        if shape_key(sh) not in allowed:
            raise C.Undecided("no allowed trace printed for " + shape_key(sh))
    # (3) build and run
    def one(ix):
        sh = sel[ix]
        ok, out, exe = build(chk, "shape%02d" % ix, gen_shape_program(sh, generic=(ix % 2 == 1)))
        if not ok:
            return ix, None, out
        st, so, _ = C.run_exe(exe, timeout=120, env=py_env(), merge=True)
        return ix, st, so
    with ThreadPoolExecutor(max_workers=6 if thorough else 2) as ex:
        results = list(ex.map(one, range(len(sel))))
    negdone = False
    for ix, st, so in results:
        sh = sel[ix]
        key = shape_key(sh)
        if st is None:
            raise C.Undecided("llgo could not build the program of %s:\n%s" % (key, so[-3000:]))
        ev, problems = parse_shape_trace(so)
        replay = {"shape": {k: sh[k] for k in ("pkgs", "ab", "uses", "blank", "site") if k in sh}, "output": so[-4000:], "events": ev,
                  "files": gen_shape_program(sh, generic=(ix % 2 == 1))}
        if st == 0 and ev[-1:] != [["I", "vpk"]]:
            raise C.Undecided("the import hook did not report the canary import of %s: import requests cannot be observed\n%s" % (key, so[-1500:]))
        if st == 0:
            ev = ev[:-1]
            replay["events"] = ev
        if st != 0:
            chk.reject(key + ":crash", "the program ended with status %s (a module used before it was imported, or imported before the "
                       "interpreter was started, shows up as a crash)" % st, replay)
            bump(chk, "evaluations")
            bump(chk, "traces_validated_against_impl")
            continue
        if problems:
            chk.reject(key + ":calls", "; ".join(problems[:4]), replay)
        counts = {m: sum(1 for e in ev if e[0] == "I" and e[1] == m) for m in ("math", "json", "vmod")}
        if json.dumps(counts, sort_keys=True) not in allowed_counts[key]:
            chk.reject(key + ":import-count", "import requests per module %r, spec says %s" % (counts, " or ".join(sorted(allowed_counts[key]))), replay)
        elif json.dumps(ev) not in allowed[key]:
            chk.reject(key + ":order", "the observed order of imports, package initialisations and uses is none of the %d orders the spec allows: %s"
                       % (len(allowed[key]), ev), replay)
        if not negdone and any(e[0] == "I" for e in ev):
            # negative control: the same membership test must refuse a trace with one import duplicated and one moved behind its use
            dup = ev + [e for e in ev if e[0] == "I"][:1]
            late = [e for e in ev if e[0] != "I"] + [e for e in ev if e[0] == "I"]
            if json.dumps(dup) in allowed[key] or (late != ev and json.dumps(late) in allowed[key]):
                raise C.Undecided("negative control not flagged: the trace membership test accepts a corrupted trace")
            negdone = True
        bump(chk, "evaluations")
        bump(chk, "traces_validated_against_impl")
        bump(chk, "distinct_nontrivial")
        chk.sample({"shape": key, "observed_events": ev, "allowed_orders": len(allowed[key])}, limit=8)
    if not negdone and not chk.violations:
        raise C.Undecided("negative control of the import traces could not be run: no program reported an import")
    chk.cov["import_programs_built"] = len(sel)
    chk.cov["import_shapes_fixed"] = [shape_key(sh) for sh in fixed_shapes(thorough)]


def part_impl_model(chk):
    """layer B: llgo's mechanism against the clauses of A (report only, never a verdict)"""
    for cfg, want_ok in (("impl_guard.cfg", True), ("impl_noguard.cfg", False)):
        try:
            res = C.tlc(SPEC, "PyImportImpl", cfg, chk.rd.path, timeout=900, parse_json=False)
        except C.Undecided as e:
            C.log("note: PyImportImpl/%s could not be checked: %s" % (cfg, str(e)[:300]))
            continue
        chk.add_tlc(res, "PyImportImpl/" + cfg[:-4])
        with _LOCK:
            chk.cov.setdefault("impl_model", []).append({"cfg": cfg[:-4], "ok": res.ok, "violation": res.violation,
                                                          "as_expected": res.ok == want_ok})
        if res.ok != want_ok:
            C.log("note: PyImportImpl/%s: %s (layer B drift, not a verdict)" % (cfg, res.violation or "no violation although the import guard is removed"))


# ----------------------------------------------------------------------------- part 3: call shapes (PyCallShapes.tla)

CK_ARGS = ["i7", "s61", "f%d" % FLOAT_BITS["half"], "i-2"]        # what harness/c19/gomod/ck.Arg(i) builds; must equal the spec's ArgSeq
REF_GO = {"vmod.who": "bvmod.Who", "vpk_sub.who": "bvsub.Who", "builtins.abs": "std.Abs"}
REF_PYMOD = {"vmod": "vmod", "vpk_sub": "vpk.sub", "builtins": "builtins", "vpk": "vpk"}
# colookup: the bindings are generated, with names of their own per case (pylib defines who00.., alpha00.., zeta00.. as
# aliases): the binding of a name is shared by all packages of a program and filled by the first one that needs it
SYM_PKG = {"vmod": "kvmod", "vpk": "kvpk", "vpk_sub": "kvsub"}
SHAPE_PKG_IMPORT = {"bvmod.": '"c19prog/bvmod"', "bvsub.": '"c19prog/bvsub"', "kvmod.": '"c19prog/kvmod"', "kvpk.": '"c19prog/kvpk"', "kvsub.": '"c19prog/kvsub"', "kvs.": '"c19prog/kvs"', "std.": '"github.com/goplus/lib/py/std"',
                    "bdual.": '"c19prog/bdual"', "bgv.": '"c19prog/bgv"', "math.": '"github.com/goplus/lib/py/math"',
                    "py.": '"github.com/goplus/lib/py"', "vx.": '"c19prog/vx"', "ck.": '"c19prog/ck"'}


def whole_float_text(n):
    return "f%d" % struct.unpack(">Q", struct.pack(">d", float(n)))[0]


def canon_arg_py(o):
    if o["t"] == "func":
        return "c" + (o["mod"] + "." + o["name"]).encode("utf-8").hex()
    if o["t"] == "tuple":
        return "T[" + ",".join(canon_arg_py(e) for e in o["items"]) + "]"
    return canon_py(o)


def shape_case_key(c):
    fam = c["fam"]
    if fam == "dual":
        return "dual:first=%d:second=%d" % (c["first"], c["second"])
    if fam == "govar":
        return "govar:fixed=%d:%s:n=%d" % (c["fixed"], c["form"], c["nvar"])
    if fam == "hypot":
        return "hypot:" + (",".join(str(x) for x in c["coords"]) or "none")
    if fam == "site":
        return "site:" + c["site"]
    if fam == "colookup":
        return "colookup:" + "+".join("%s.%s" % (y["mod"], y["attr"]) for y in c["syms"])
    return "funcref:n=%d:pos=%d:%s.%s" % (c["n"], c["pos"], c["ref"]["mod"], c["ref"]["attr"])


def shape_pyname(c):
    return {"dual": "fv", "funcref": "fv", "site": "sv", "govar": "gv" if c.get("fixed") == 0 else "gv1"}[c["fam"]]


def shape_expectation(c):
    """the lines between 'G id' and the next case: python's log of each call, then Go's read-back of its result"""
    if c["fam"] == "hypot":
        return ["R " + whole_float_text(c["ret"]["whole"])]
    if c["fam"] == "colookup":
        return ["R " + canon_py(y["py"]) for y in c["syms"]]
    out = []
    for call in c["calls"]:
        out.append("F %s T[%s]" % (shape_pyname(c), ",".join(canon_arg_py(o) for o in call["recv"])))
        out.append("R " + canon_arg_py(call["ret"]))
    return out


def shape_go_arg(a, i):
    if a["k"] == "funcref":
        return REF_GO[a["mod"] + "." + a["attr"]]
    if canon_go(a) != CK_ARGS[i]:
        raise C.Undecided("harness out of step with the spec: argument %d of PyCallShapes is %s, package ck builds %s" % (i + 1, canon_go(a), CK_ARGS[i]))
    return "ck.Arg(%d)" % i


def shape_py_arg(a):
    if a["k"] == "funcref":
        return "getattr(importlib.import_module(%r), %r)" % (REF_PYMOD[a["mod"]], a["attr"])
    return pyexpr(a)


def shape_go_calls(c):
    """Go expressions (one per call of the case) of type *py.Object"""
    fam = c["fam"]
    if fam == "hypot":
        return ["math.Hypot(%s)" % ", ".join("py.Float(%d)" % x for x in c["coords"])]
    if fam == "colookup":
        return ["%s.%s%02d()" % (SYM_PKG[y["mod"]], y["attr"].capitalize(), c["_alias"]) for y in c["syms"]]
    if fam == "site":
        return ["kvs.Sv%02d(%s)" % (c["_alias"], shape_go_arg(c["calls"][0]["args"][0], 0))]
    if fam == "dual":
        return ["bdual.D%d(%s)" % (len(call["args"]), ", ".join(shape_go_arg(a, i) for i, a in enumerate(call["args"]))) for call in c["calls"]]
    if fam == "funcref":
        return ["bvmod.FV(%s)" % ", ".join(shape_go_arg(a, i) for i, a in enumerate(c["calls"][0]["args"]))]
    args = c["calls"][0]["args"]
    if len(args) != c["fixed"] + c["nvar"]:
        raise C.Undecided("spec/harness mismatch in govar case %r" % (c,))
    fixed = [shape_go_arg(a, i) for i, a in enumerate(args[:c["fixed"]])]
    if c["form"] == "lit":
        rest = [shape_go_arg(a, i) for i, a in enumerate(args) if i >= c["fixed"]]
    else:
        for i, a in enumerate(args):
            shape_go_arg(a, i)                                      # the table check
        rest = ["ck.Args(%d, %d)..." % (c["fixed"], c["nvar"])]
    return ["bgv.%s(%s)" % ("GV" if c["fixed"] == 0 else "GV1", ", ".join(fixed + rest))]


def shape_py_calls(c):
    if c["fam"] == "hypot":
        return ["math.hypot(%s)" % ", ".join("%d.0" % x for x in c["coords"])]
    if c["fam"] == "site":
        return ["vmod.sv%02d(%s)" % (c["_alias"], shape_py_arg(c["calls"][0]["args"][0]))]
    if c["fam"] == "colookup":
        return ["getattr(importlib.import_module(%r), %r)()" % (REF_PYMOD[y["mod"]], "%s%02d" % (y["attr"], c["_alias"])) for y in c["syms"]]
    return ["vmod.%s(%s)" % (shape_pyname(c), ", ".join(shape_py_arg(a) for a in call["args"])) for call in c["calls"]]


def shape_pkg_of(i, c):
    return {"dual": "du%02d" % i, "govar": "gvp", "hypot": "hyp", "funcref": "frp", "colookup": "lk%02d" % i, "site": "st%02d" % i}[c["fam"]]


SITE_BODY = {
    # %(call)s is the call expression, %(id)d the case; every package defines caseN() that prints the result
    "func": "func call() *py.Object {\n\treturn %(call)s\n}\n\nfunc case%(id)d() {\n\tif ck.Start(%(id)d) {\n\t\tprintln(\"R\", vx.Enc(call()))\n\t}\n}\n",
    "closure": "func case%(id)d() {\n\tif ck.Start(%(id)d) {\n\t\tf := func() *py.Object { return %(call)s }\n\t\tprintln(\"R\", vx.Enc(f()))\n\t}\n}\n",
    "method": "type caller struct{ n int }\n\nfunc (caller) Call() *py.Object {\n\treturn %(call)s\n}\n\nfunc case%(id)d() {\n\tif ck.Start(%(id)d) {\n\t\tprintln(\"R\", vx.Enc(caller{}.Call()))\n\t}\n}\n",
    "pkgvar": "var started = ck.InitStart(%(id)d)\nvar held = %(call)s\nvar done = ck.InitDone(%(id)d)\n\nfunc case%(id)d() {\n\tif started && done {\n\t\tprintln(\"G\", %(id)d)\n\t\tprintln(\"R\", vx.Enc(held))\n\t}\n}\n",
    "initfn": "var started bool\nvar held *py.Object\n\nfunc init() {\n\tstarted = ck.InitStart(%(id)d)\n\theld = %(call)s\n\tck.InitDone(%(id)d)\n}\n\nfunc case%(id)d() {\n\tif started {\n\t\tprintln(\"G\", %(id)d)\n\t\tprintln(\"R\", vx.Enc(held))\n\t}\n}\n",
    "generic": "func gen[X any](x X) *py.Object {\n\t_ = x\n\treturn %(call)s\n}\n\nfunc case%(id)d() {\n\tif ck.Start(%(id)d) {\n\t\tprintln(\"R\", vx.Enc(gen[int](0)))\n\t}\n}\n",
    "genmethod": "type box[X any] struct{ v X }\n\nfunc (b box[X]) Call() *py.Object {\n\t_ = b.v\n\treturn %(call)s\n}\n\nfunc case%(id)d() {\n\tif ck.Start(%(id)d) {\n\t\tprintln(\"R\", vx.Enc(box[int]{}.Call()))\n\t}\n}\n",
    "xgeneric": "func case%(id)d() {\n\tif ck.Start(%(id)d) {\n\t\tprintln(\"R\", vx.Enc(sx%(id)02d.Gen[int](0)))\n\t}\n}\n",
}


def go_file(pkg, text, extra_imports=()):
    imps = sorted(set(v for k, v in SHAPE_PKG_IMPORT.items() if k in text) | set(extra_imports))
    return "// generated by /verif/vlib/c19.py (call shapes)\npackage %s\n\nimport (\n%s\n)\n\n%s\n" % (pkg, "\n".join("\t" + x for x in imps), text)


def gen_site_package(i, c):
    """the package of one call-site case: the only place in the program where sv<alias> is called"""
    pkg = shape_pkg_of(i, c)
    call = shape_go_calls(c)[0]
    files = {}
    extra = []
    if c["site"] == "xgeneric":         # the generic function lives in a package of its own and is instantiated only here
        hp = "sx%02d" % i
        files["%s/%s.go" % (hp, hp)] = go_file(hp, "func Gen[X any](x X) *py.Object {\n\t_ = x\n\treturn %s\n}" % call)
        extra = ['"c19prog/%s"' % hp]
    text = SITE_BODY[c["site"]] % {"call": call, "id": i} + "\nfunc Run() {\n\tcase%d()\n}" % i
    files["%s/%s.go" % (pkg, pkg)] = go_file(pkg, text, extra)
    return files


def gen_shape_modules(cases, dropped=()):
    """-> files of the Go module: one package per dual case (the binding that is seen first is a property of the calling
    package), one package per other family; main runs them in id order"""
    pkgs = {}
    for i, c in enumerate(cases):
        pkgs.setdefault(shape_pkg_of(i, c), []).append(i)
    files = {}
    order = []
    binds = {}
    for c in cases:
        if c["fam"] == "colookup":
            for y in c["syms"]:
                binds.setdefault(y["mod"], []).append("//go:linkname %s%02d py.%s%02d\nfunc %s%02d() *py.Object\n" % (
                    y["attr"].capitalize(), c["_alias"], y["attr"], c["_alias"], y["attr"].capitalize(), c["_alias"]))
    svs = ["//go:linkname Sv%02d py.sv%02d\nfunc Sv%02d(a *py.Object) *py.Object\n" % ((c["_alias"],) * 3) for c in cases if c["fam"] == "site"]
    if svs:
        files["kvs/kvs.go"] = ("// generated by /verif/vlib/c19.py: one binding of vmod.sv per call-site case\npackage kvs\n\nimport (\n\t_ \"unsafe\"\n\n"
                               "\t\"github.com/goplus/lib/py\"\n)\n\nconst LLGoPackage = \"py.vmod\"\n\n" + "\n".join(svs))
    for mod, decls in binds.items():
        files["%s/%s.go" % (SYM_PKG[mod], SYM_PKG[mod])] = (
            "// generated by /verif/vlib/c19.py: bindings of Python module %s, one set of names per colookup case\npackage %s\n\n"
            "import (\n\t_ \"unsafe\"\n\n\t\"github.com/goplus/lib/py\"\n)\n\nconst LLGoPackage = \"py.%s\"\n\n%s"
            % (REF_PYMOD[mod], SYM_PKG[mod], REF_PYMOD[mod], "\n".join(decls)))
    for pkg, ids in pkgs.items():
        if pkg in dropped:
            continue
        if cases[ids[0]]["fam"] == "site":
            files.update(gen_site_package(ids[0], cases[ids[0]]))
            order.append((ids[0], pkg))
            continue
        body = []
        for i in ids:
            body.append("func case%d() {\n\tif !ck.Start(%d) {\n\t\treturn\n\t}" % (i, i))
            for call in shape_go_calls(cases[i]):
                body.append('\tprintln("R", vx.Enc(%s))' % call)
            body.append("}\n")
        body.append("func Run() {")
        body += ["\tcase%d()" % i for i in ids]
        body.append("}")
        text = "\n".join(body)
        imps = sorted(v for k, v in SHAPE_PKG_IMPORT.items() if k in text)
        files["%s/%s.go" % (pkg, pkg)] = ("// generated by /verif/vlib/c19.py (call shapes)\npackage %s\n\nimport (\n%s\n)\n\n%s\n"
                                          % (pkg, "\n".join("\t" + x for x in imps), text))
        order.append((ids[0], pkg))
    order.sort()
    main = ["// generated by /verif/vlib/c19.py (call shapes)", "package main", "", "import ("]
    main += ['\t"c19prog/%s"' % pkg for _, pkg in order] + [")", ""]
    main.append("func main() {")
    main += ["\t%s.Run()" % pkg for _, pkg in order]
    main.append('\tprintln("END")\n}')
    files["main.go"] = "\n".join(main) + "\n"
    return files, pkgs


def gen_shape_twin(cases):
    py = ["import importlib, math, os, struct", "import vmod", "from vmod import enc", "def w(s): os.write(2, (s + '\\n').encode())",
          "def F(b): return struct.unpack('>d', struct.pack('>Q', b))[0]"]
    for i, c in enumerate(cases):
        py.append("w('G %d')" % i)
        py += ["w('R ' + enc(%s))" % call for call in shape_py_calls(c)]
    py.append("w('END')")
    return "\n".join(py) + "\n"


def parse_shape_protocol(text):
    obs = {}
    cur = None
    other = []
    for line in text.splitlines():
        p = line.split(" ")
        if p[0] in ("S", "E") and len(p) == 2 and p[1].isdigit():
            other.append(line)                     # brackets of a call made during package initialisation
            if p[0] == "E" and cur == int(p[1]):
                cur = None
        elif p[0] == "G" and len(p) == 2 and p[1].isdigit():
            cur = int(p[1])
            obs.setdefault(cur, [])                # (a case whose call is made during initialisation resumes in main)
        elif p[0] in ("F", "R") and cur is not None:
            obs[cur].append(line)
        else:
            other.append(line)
    return obs, cur, other


def run_shape_cases(cmd, env, ids, timeout=120):
    """one process per case (C19_ONLY=<id>): a case that kills the process, or hands Python something that damages the
    interpreter, cannot touch the verdict of another case -> obs {id: lines}, crashed {id: (status, output tail)}"""
    def one(i):
        e = dict(env)
        e["C19_ONLY"] = str(i)
        st, so, _ = C.run_exe(cmd[0], args=cmd[1:], timeout=timeout, env=e, merge=True)
        o, _, other = parse_shape_protocol(so)
        opened = [int(x[2:]) for x in other if x.startswith("S ")]
        closed = [int(x[2:]) for x in other if x.startswith("E ")]
        return i, st, o.get(i), "END" in other, so[-600:], [j for j in opened if j not in closed]
    obs = {}
    crashed = {}
    initdead = {}               # a call made during package initialisation that never returned: every process dies there
    with ThreadPoolExecutor(max_workers=4) as ex:
        for i, st, lines, ended, tail, stuck in ex.map(one, ids):
            for j in stuck:
                initdead.setdefault(j, (st, tail))
            if lines is not None:
                obs[i] = lines
            if st != 0 or not ended:
                crashed[i] = (st, tail)
    return obs, crashed, initdead


def llgo_build_verbose(moddir, out, rundir, timeout=1500):
    """as common.llgo_build, with -v: llgo names every package before it compiles it, which attributes a compiler failure"""
    env = C.llgo_env("O0", rundir, opt="O0", tags="")
    try:
        r = subprocess.run([C.llgo_binary(), "build", "-v", "-O0", "-o", out, "."], cwd=moddir, env=env, capture_output=True,
                           text=True, timeout=timeout)
    except subprocess.TimeoutExpired:
        return False, "timeout"
    return r.returncode == 0 and os.path.exists(out), r.stdout + r.stderr


def part_callshapes(chk):
    import re
    res = C.tlc(SPEC, "PyCallShapes", "shapes_all.cfg", chk.rd.path, timeout=900, parse_json=False)
    if not res.ok:
        raise C.Undecided("PyCallShapes: a law of the spec failed in TLC (spec defect): %s" % res.violation)
    chk.add_tlc(res, "PyCallShapes/all")
    bykey = {}
    for c in C.tlc_printed_iter(res):
        bykey[shape_case_key(c)] = c
    famrank = {"dual": 0, "govar": 1, "hypot": 2, "funcref": 3, "colookup": 4, "site": 5}
    cases = [c for _, c in sorted(bykey.items(), key=lambda kc: (famrank[kc[1]["fam"]], kc[0]))]
    counts = {}
    for c in cases:
        if c["fam"] in ("colookup", "site"):
            c["_alias"] = counts.get(c["fam"], 0)
        counts[c["fam"]] = counts.get(c["fam"], 0) + 1
    if max(counts.get("colookup", 0), counts.get("site", 0)) > 16:
        raise C.Undecided("pylib defines 16 sets of per-case names, PyCallShapes has %d colookup cases" % counts["colookup"])
    if sorted(counts) != sorted(famrank):
        raise C.Undecided("PyCallShapes printed no cases for some family: %r" % counts)
    exp = [shape_expectation(c) for c in cases]
    rd = chk.rd.sub("callshapes")
    # reference: python3 making the same calls (function arguments resolved by getattr(import_module(..), ..)) must satisfy the spec
    twin = os.path.join(rd, "twin.py")
    with open(twin, "w") as f:
        f.write(gen_shape_twin(cases))
    st, so, _ = C.run_exe(sys.executable, args=[twin], timeout=300, env=py_env({"VERIF_C19_HOOK": "0"}), merge=True)
    robs, _, rother = parse_shape_protocol(so)
    rbad = [(shape_case_key(cases[i]), robs.get(i), exp[i]) for i in range(len(cases)) if robs.get(i) != exp[i]]
    if st != 0 or "END" not in rother or rbad:
        raise C.Undecided("self-validation failed: python3 itself disagrees with PyCallShapes on %d cases, e.g. %s %s" % (len(rbad), rbad[:2], so[-600:]))
    # build; a package the compiler cannot compile is reported for its cases and left out of the next attempt
    dropped = {}
    exe = None
    for attempt in range(8):
        files, pkgs = gen_shape_modules(cases, dropped)
        sub = chk.rd.sub("callshapes%d" % attempt)
        mod = os.path.join(sub, "mod")
        make_module(mod, files)
        exe = os.path.join(sub, "callshapes.exe")
        ok, out = llgo_build_verbose(mod, exe, sub)
        if ok:
            break
        exe = None
        named = re.findall(r"^CACHE (?:HIT|MISS): (\S+)\s*$", out, re.M)
        culprit = named[-1].rsplit("/", 1)[-1] if named and named[-1].startswith("c19prog/") else None
        if culprit not in pkgs or culprit in dropped:
            raise C.Undecided("llgo could not build the call-shape program and the failure is not attributable to a case package "
                              "(last package named: %s):\n%s" % (named[-1:] or None, out[-3000:]))
        dropped[culprit] = out[-2500:]
    if exe is None:
        raise C.Undecided("llgo could not build the call-shape program after leaving out %s" % sorted(dropped))
    for pkg, out in sorted(dropped.items()):
        ids = pkgs[pkg]
        key = (shape_case_key(cases[ids[0]]) if len(ids) == 1 else cases[ids[0]]["fam"]) + ":build"
        m = re.search(r"^panic: .*$", out, re.M)
        chk.reject(key, "llgo fails to compile the package that makes the calls of %s (%s)" % (
            "this case" if len(ids) == 1 else "%d cases" % len(ids), m.group(0) if m else "see replay"),
            {"cases": [cases[i] for i in ids[:4]], "package": files_of(cases, pkg), "llgo_output_tail": out})
    built = [i for i, c in enumerate(cases) if shape_pkg_of(i, c) not in dropped]
    obs, crashed, initdead = run_shape_cases([exe], py_env({"VERIF_C19_HOOK": "0"}), built)
    if initdead:
        # the program dies while its packages are initialised, inside the bracketed call of these cases; nothing else can be judged
        for j, (stj, tailj) in sorted(initdead.items()):
            chk.reject(shape_case_key(cases[j]), "the program dies during package initialisation inside the call of this case (status %s): "
                       "expected %r" % (stj, exp[j]), {"case": cases[j], "expected": exp[j], "go_calls": shape_go_calls(cases[j]),
                                                       "package": files_of(cases, shape_pkg_of(j, cases[j])), "output_tail": tailj})
        C.log("note: call-shape cases other than %s were not judged (the program never reaches main)" % sorted(initdead))
        with _LOCK:
            chk.cov["callshape_cases"] = dict(counts, built=len(built), died_in_init=sorted(shape_case_key(cases[j]) for j in initdead))
        bump(chk, "evaluations", len(initdead))
        bump(chk, "traces_validated_against_impl", len(initdead))
        return
    if not obs and crashed:
        st0, tail0 = crashed[built[0]]
        chk.reject("callshapes:died-outside-a-case", "the call-shape program ends with status %s before it reaches any case (interpreter "
                   "start-up, module import, symbol loading)" % (st0,), {"status": st0, "output_tail": tail0})
        return

    def judge_shapes(expected):
        return [i for i in built if obs.get(i) != expected[i]]
    # negative control: an expectation with two received arguments swapped must be flagged by the same comparison
    passing = [i for i in built if obs.get(i) == exp[i] and any("T[" in ln for ln in exp[i])]
    if passing:                      # (no case passes: every case is reported below, nothing is left to control)
        wrong = list(exp)
        wrong[passing[-1]] = [ln.replace("T[", "T[X,", 1) for ln in exp[passing[-1]]]
        if passing[-1] not in judge_shapes(wrong):
            raise C.Undecided("negative control not flagged: the call-shape comparison does not compare anything")
    bad = sorted(set(judge_shapes(exp)) | set(crashed))
    for i in bad:
        c = cases[i]
        key = shape_case_key(c)          # (whether damaged arguments kill the process depends on the memory layout: not part of the key)
        what = "the program died in this case (%s); " % (crashed[i][0],) if i in crashed else ""
        chk.reject(key, "%sobserved %r, the spec says %r" % (what, obs.get(i), exp[i]),
                   {"case": c, "expected": exp[i], "observed": obs.get(i), "go_calls": shape_go_calls(c),
                    "crash_output_tail": crashed[i][1] if i in crashed else None,
                    "program": "generated by vlib/c19.py gen_shape_modules (package %s)" % shape_pkg_of(i, c)})
    bump(chk, "evaluations", len(cases))
    bump(chk, "traces_validated_against_impl", len(built))
    bump(chk, "distinct_nontrivial", len({"|".join(e) for e in exp}))
    with _LOCK:
        chk.cov["callshape_cases"] = dict(counts, built=len(built), not_compiled=len(cases) - len(built), crashes=len(crashed),
                                          mismatches=len(bad))
    for i in (built[0], built[len(built) // 2], built[-1]):
        chk.sample({"case": shape_case_key(cases[i]), "go": shape_go_calls(cases[i]), "expected_lines": exp[i], "observed": obs.get(i)}, limit=12)


def files_of(cases, pkg):
    files, _ = gen_shape_modules(cases)
    return files.get("%s/%s.go" % (pkg, pkg))


CONVERT_ONLY = '''package main

import (
	"github.com/goplus/lib/c"
	"github.com/goplus/lib/py"
)

// RoundTrip law of PyBridge on a program that uses nothing of Python but the conversions themselves: no function or
// variable of a Python module is touched, so the interpreter has to be started for the conversions alone.
func main() {
	l := py.List(7, 2.5, "abc", int8(-3))
	t := py.Tuple(l, uint16(65535))
	println("CO", "len", l.ListLen(), t.TupleLen())
	println("CO", "i", int(l.ListItem(0).Long()), int(l.ListItem(3).Long()), int(t.TupleItem(1).Long()))
	println("CO", "f", l.ListItem(1).Float64() == 2.5)
	println("CO", "s", c.GoString(l.ListItem(2).CStr()), c.GoString(py.Str("hello").CStr()))
	println("CO", "same", t.TupleItem(0) == l)
	println("CO", "end")
}
'''
CONVERT_ONLY_WANT = ["CO len 4 2", "CO i 7 -3 65535", "CO f true", "CO s abc hello", "CO same true", "CO end"]


def part_convert_only(chk):
    ok, out, exe = build(chk, "convonly", {"main.go": CONVERT_ONLY})
    if not ok:
        raise C.Undecided("llgo cannot build the conversions-only program:\n" + out[-2000:])
    st, so, se = C.run_exe(exe, timeout=120, merge=True)
    got = [ln.strip() for ln in so.splitlines() if ln.startswith("CO ")]
    chk.cov["evaluations"] += len(CONVERT_ONLY_WANT)
    if got != CONVERT_ONLY_WANT:
        chk.reject("convert-only:roundtrip", "a program that only converts values to Python objects and reads them back (no module function "
                   "or variable used) printed %s (exit status %s), the RoundTrip law says %s" % (got, st, CONVERT_ONLY_WANT),
                   {"program": CONVERT_ONLY, "got": got, "status": st, "want": CONVERT_ONLY_WANT, "output_tail": so[-800:]})


def check(chk):
    thorough = chk.tier == "thorough"
    sd = C.seed()
    C.llgo_binary()
    chk.cov["rule"] = ("value case = (Go kind, value, API route) for every Go integer kind x 64-bit boundary set within the kind's range, "
                       "float32/float64 tokens incl. signed zero/inf/NaN/denormals, UTF-8 text of 0-3 code points incl. NUL and 2/3/4-byte "
                       "sequences, byte strings of 0-3 bytes incl. invalid UTF-8 as []byte (also as a sub-slice of a longer array and as an appended-to slice, spare capacity holding other bytes) and [N]byte, bool; nested list/tuple terms of depth <= 2 "
                       "(built both from objects at run time and, for a seeded subset / all in thorough, as one static py.List/py.Tuple "
                       "expression); call case = argument tuple of arity 0-6 over 3 atoms x {fixed arity, variadic}; lookup case = "
                       "module attribute by name in two modules sharing attribute names; each replayed into an llgo-compiled program "
                       "linked with libpython3.11 and judged on (what Python logged, what Go read back dynamically, typed read-back). "
                       "call-shape case (PyCallShapes) = two declarations of one attribute with 0-3 parameters called one after the other / "
                       "Go-variadic binding called with 0-3 literal or spread arguments / math.Hypot / a bound Python function passed as "
                       "an argument at each position / every non-empty subset of {vmod.who, vpk.alpha, vpk.sub.who, vpk.zeta} called from one Go package / a Python function called from one kind of place only (function, closure, method, package-level initialiser, init function, generic function instance, method of a generic type instance, generic of another package instantiated here): judged on what Python logged per call and what Go read back, one process restart per "
                       "crashing case, one Go package per case where the compiler's state matters. "
                       "import case = program shape built and run (one seeded shape plus fixed shapes with a binding package that is imported and never called), judged on import requests per module and membership of the observed "
                       "event order in the TLC-enumerated set; non-trivial = distinct expected observation")
    serialise(chk)
    with ThreadPoolExecutor(max_workers=5) as ex:
        fc = ex.submit(load_cases, chk, thorough, sd)
        fi = ex.submit(part_imports, chk, thorough, sd)
        fb = ex.submit(part_impl_model, chk)
        fo = ex.submit(part_convert_only, chk)
        fs = ex.submit(part_callshapes, chk)
        cases, counts = fc.result()
        fv = ex.submit(part_values, chk, thorough, sd, cases, counts)
        errs = []
        for f in (fv, fi, fb, fo, fs):
            try:
                f.result()
            except Exception as e:           # let every part finish (and clean up) before the first failure is reported
                errs.append(e)
        if errs:
            if not chk.violations:
                raise errs[0]
            C.log("note: a part of the check could not be decided while another found violations: %s" % str(errs[0])[:500])
    chk.assumptions += [
        "platform linux/amd64: int, uint, uintptr, C long are 64 bit (Bits() in PyBridge.tla)",
        "harness-owned tables: float token -> IEEE bits, canonical text encoding enc() (python3 running the same calls validates both on every run)",
        "the reading side uses github.com/goplus/lib/py accessors plus five C-API declarations of its own (harness/c19/gomod/pyx) for "
        "str/bytes/bytearray contents; lib/py's (*Object).CStrAndLen is declared with a signature that does not match PyUnicode_AsUTF8AndSize and is not used",
        "an import request is observed as a call of builtins.__import__ with a list as from-list, which only the C API passes (sitecustomize hook)",
        "only -O0 builds; reference counts are not observed (objects are never released by the test programs)",
        "Go fixes initialisation order only up to 'imports first': any topological order of packages and bindings is accepted",
        "a module whose binding package is imported but never called may be requested from the interpreter once or not at all; the program must run to its end",
        "function objects are compared by (defining module, name), and pylib/vmod.py's enc() only prints that pair when the name resolves to the very object it received",
    ]


if __name__ == "__main__":
    C.main_wrapper("C19", check)

"""C11 — goroutines, sync primitives and atomics keep their guarantees under contention.

spec/sync/GoSync.tla        layer A: semaphore and notify-list contracts
spec/sync/GoSyncProg.tla    A closed over scenario scripts: every outcome the contracts allow
spec/sync/GoSyncTrace.tla   trace validation of histories recorded from the real sema_llgo.go
spec/sync/SemaImpl.tla      layer B: sema_llgo.go at lock/atomic granularity, model-checked against A
binding 1: runtime/internal/lib/runtime/sema_llgo.go copied from the working tree, psync/latomic redirected to
           scheduler gates (atomics are scheduling points), driven through all interleavings; judged by A.
spec/sync/AtomicSC.tla      layer A for sync/atomic: every operation one step on one memory; outcome sets of litmus programs
spec/sync/GoStmt.tla        layer A for go statements: snapshot at the statement, any order of parent mutation and child run
spec/sync/AtomicTSO.tla     layer B: x86-TSO with llgo's instruction selection as switches (see vlib/c11litmus.py)
binding 2: llgo-compiled programs exercising go statements, Mutex, RWMutex, WaitGroup, Once, Cond and atomics of
           every width with real pthreads; their printed invariants must equal what GoSync predicts.
"""
import json
import os
import random

from . import common as C
from . import sched
from . import c10
from . import progs
from . import c11litmus
from . import c11gostmt

SPEC = os.path.join(C.VERIF, "spec", "sync")


def o(k, a=0):
    return {"k": k, "a": a}


def systematic():
    S = []

    def add(init, threads, tag):
        S.append({"init": init, "threads": threads, "tag": tag})
    for init in (0, 1, 2):
        add([init], [[o("acq")], [o("rel")]], "sema")
        add([init], [[o("acq")], [o("acq")], [o("rel")]], "sema")
        add([init], [[o("acq")], [o("acq")], [o("rel"), o("rel")]], "sema")
        add([init], [[o("acq"), o("rel")], [o("acq"), o("rel")]], "mutexlike")
        add([init], [[o("acq"), o("rel")], [o("acq"), o("rel")], [o("acq"), o("rel")]], "mutexlike")
        add([init], [[o("acq"), o("acq")], [o("rel")], [o("rel")]], "sema")
        add([init], [[o("rel"), o("acq")], [o("rel"), o("acq")]], "sema")
        add([init], [[o("acq"), o("rel"), o("acq")], [o("rel"), o("acq")]], "sema")
    add([0, 0], [[o("acq", 0), o("rel", 1)], [o("acq", 1)], [o("rel", 0)]], "sema2")
    add([1, 0], [[o("acq", 0), o("rel", 1)], [o("acq", 1), o("rel", 0)]], "sema2")
    w = [o("add"), o("wait")]
    for notif in ([o("one")], [o("all")], [o("one"), o("one")], [o("one"), o("all")], [o("all"), o("one")]):
        add([0], [w, notif], "cond")
        add([0], [w, w, notif], "cond")
    add([0], [w, w, [o("one")], [o("one")]], "cond")
    add([0], [w + w, [o("one"), o("one")]], "cond")
    add([0], [w, [o("add"), o("one"), o("wait")]], "cond")
    add([0], [w, w, w, [o("one"), o("one")]], "cond")
    add([0], [w, w, w, [o("all")]], "cond")
    add([0], [[o("add"), o("add"), o("wait")], [o("one")], [o("one")]], "cond")
    # cond + semaphore together (a condition variable protected by a mutex-like semaphore)
    add([1], [[o("acq"), o("add"), o("rel"), o("wait")], [o("acq"), o("one"), o("rel")]], "condmutex")
    return S


def random_scenarios(rng, n):
    S = []
    for _ in range(n):
        nt = rng.choice([2, 2, 3])
        init = [rng.choice([0, 0, 1, 2])]
        threads = []
        kind = rng.choice(["sema", "cond", "mixed"])
        for _t in range(nt):
            ops = []
            for _o in range(rng.choice([1, 2, 2, 3] if nt == 2 else [1, 2])):
                r = rng.random()
                if kind == "sema" or (kind == "mixed" and r < 0.5):
                    ops.append(o(rng.choice(["acq", "rel"])))
                else:
                    k = rng.choice(["add", "wait", "one", "all", "add"])
                    if k == "wait" and not any(x["k"] == "add" for x in ops):
                        ops.append(o("add"))
                    ops.append(o(k))
            threads.append(ops)
        S.append({"init": init, "threads": threads, "tag": "random"})
    return S


def short(sc):
    return "init=%s:" % ",".join(map(str, sc["init"])) + "|".join(",".join(x["k"] + (str(x["a"]) if x["k"] in ("acq", "rel") else "") for x in t) for t in sc["threads"])


def outcome_key_from_tlc(rec, nthreads):
    base = c10.outcome_key_from_tlc(rec, nthreads)
    return base + "#%s;w=%d,n=%d" % (",".join(str(x) for x in rec["cnt"]), rec["w"], rec["n"])


def to_trace(sc, hist, hid):
    ev = []
    for e in hist["ev"]:
        t = e["t"] + 1
        op = sc["threads"][e["t"]][e["op"]]
        if e["e"] == "call":
            ev.append({"e": "call", "t": t, "op": {"k": op["k"], "a": op["a"]}})
        else:
            ev.append({"e": "ret", "t": t, "r": {"sel": 0, "val": e["val"], "ok": False, "pan": e.get("pan", "")}})
    cnts, wn = hist["extra"].split(";")
    w, n = [int(x.split("=")[1]) for x in wn.split(",")]
    ev.append({"e": "end", "stuck": [t + 1 for t in hist.get("stuck") or []], "cnt": [int(x) for x in cnts.split(",")], "w": w, "n": n})
    return {"id": hid, "init": sc["init"], "n": len(sc["threads"]), "ev": ev}


def check(chk):
    thorough = chk.tier == "thorough"
    sd = C.seed()
    rd = chk.rd.path
    rng = random.Random(sd)
    scen = systematic() + random_scenarios(rng, 500 if thorough else 80)
    seen, uniq = set(), []
    for s in scen:
        k = json.dumps([s["init"], s["threads"]])
        if k not in seen:
            seen.add(k)
            uniq.append(s)
    scen = uniq
    for i, s in enumerate(scen):
        s["id"] = i + 1
    scen_path = os.path.join(rd, "scenarios.ndjson")
    with open(scen_path, "w") as f:
        for s in scen:
            f.write(json.dumps({"id": s["id"], "init": s["init"], "threads": s["threads"]}) + "\n")
    byid = {s["id"]: s for s in scen}

    resA = C.tlc(SPEC, "GoSyncProg", "prog.cfg", rd, timeout=2400, copy_extra=[scen_path], parse_json=False)
    if not resA.ok:
        raise C.Undecided("GoSyncProg violates its own invariants: %s" % resA.violation)
    chk.add_tlc(resA, "GoSyncProg")
    allowed = {}
    for rec in C.tlc_printed_iter(resA):
        allowed.setdefault(rec["id"], set()).add(outcome_key_from_tlc(rec, len(byid[rec["id"]]["threads"])))
    if any(s["id"] not in allowed for s in scen):
        raise C.Undecided("GoSyncProg printed no outcome for some scenario")

    implout = run_impl_model(chk, thorough, scen_path, allowed, byid)
    # Go's sync.Mutex state machine over the semaphore contract: mutual exclusion, every waiter admitted (design level)
    mcfg = os.path.join(rd, "mutex_run.cfg")
    C.write_cfg(mcfg, constants={"NThreads": 3 if thorough else 2, "Rounds": 2, "defaultInitValue": 0},
                invariants=["MutualExclusion", "NoLostWaiter", "CleanEnd", "StateSane"])
    resM = C.tlc(SPEC, "MutexOverSema", mcfg, rd, timeout=3000, parse_json=False)
    chk.add_tlc(resM, "MutexOverSema")
    chk.cov["mutex_over_sema"] = {"ok": resM.ok, "violation": resM.violation, "states": resM.distinct}
    if not resM.ok:
        raise C.Undecided("MutexOverSema: Go's Mutex over the semaphore contract violates %s (spec defect)" % resM.violation)

    # the other sync types Go builds on the same contracts (llgo compiles them unchanged): design-level, must hold
    others = [("RWMutexOverSema", {"NThreads": 3, "Rounds": 2 if thorough else 1}, ["MutualExclusion", "CleanEnd", "NoLostWaiter", "Sane"]),
              ("WaitGroupOverSema", {"NWorkers": 3 if thorough else 2, "NWaiters": 2}, ["WaitAfterZero", "CleanEnd", "NoLostWaiter"]),
              ("OnceOverMutex", {"NThreads": 3}, ["ExactlyOnce", "BeforeAnyReturn", "NoLostWaiter"])]
    for mod, consts, invs in others:
        ocfg = os.path.join(rd, mod + "_run.cfg")
        C.write_cfg(ocfg, constants=dict(consts, defaultInitValue=0), invariants=invs)
        resO = C.tlc(SPEC, mod, ocfg, rd, timeout=3000, parse_json=False)
        chk.add_tlc(resO, mod)
        chk.cov[mod] = {"ok": resO.ok, "violation": resO.violation, "states": resO.distinct, "constants": consts}
        if not resO.ok:
            raise C.Undecided("%s: Go's algorithm over the semaphore contract violates %s (spec defect)" % (mod, resO.violation))

    binpath = sched.build(rd, "semasched")
    shards = C.NCPU
    runs = [("dfs", c10.run_sched(binpath, scen_path, os.path.join(rd, "dfs"), "dfs", 80000 if thorough else 8000, -1, 0, sd,
                                  200 if thorough else 40, shards, marker="SCHED_DONE")),
            ("dfs-spurious", c10.run_sched(binpath, scen_path, os.path.join(rd, "dfsp"), "dfs", 20000 if thorough else 2500,
                                           3 if thorough else 2, 1, sd, 30, shards, marker="SCHED_DONE")),
            ("random", c10.run_sched(binpath, scen_path, os.path.join(rd, "rnd"), "random", 5000 if thorough else 500, -1, 2, sd,
                                     30, shards, marker="SCHED_DONE"))]
    total_exec = exhausted = outcomes_seen = hist_total = 0
    traces, trace_src = [], {}
    for mode, results in runs:
        for r in results:
            sc = byid[r["id"]]
            total_exec += r["execs"]
            if mode == "dfs" and r["exhausted"]:
                exhausted += 1
            for c in (r.get("crashes") or [])[:1]:
                chk.reject("crash:%s" % short(sc), "a model goroutine died with an unexpected panic: %s" % c, {"scenario": sc, "panic": c})
            for ok, n in r["outcomes"].items():
                outcomes_seen += 1
                if ok not in allowed[r["id"]]:
                    chk.reject("outcome:%s:%s" % (short(sc), ok),
                               "real sema_llgo.go reached an outcome the sync contracts do not allow (scenario %s, outcome %s, %d executions, e.g. schedule: %s)"
                               % (short(sc), ok, n, r["outsched"][ok][:400]),
                               {"scenario": sc, "outcome": ok, "allowed": sorted(allowed[r["id"]]), "schedule": r["outsched"][ok], "mode": mode})
            for h in r["hist"]:
                hist_total += 1
                hid = len(traces) + 1
                traces.append(to_trace(sc, h, hid))
                trace_src[hid] = (sc, h, mode, r["id"])
    real_out = {}
    for mode, results in runs:
        for r in results:
            real_out.setdefault(r["id"], set()).update(r["outcomes"].keys())
    same = sum(1 for sid in implout if real_out.get(sid, set()) == implout[sid])
    chk.cov["conformance_real_vs_SemaImpl"] = {"scenarios_compared": len(implout), "identical_outcome_sets": same}
    cap = 40000 if thorough else 5000
    if len(traces) > cap:
        rng2 = random.Random(sd * 7 + 1)
        traces = [traces[i] for i in sorted(rng2.sample(range(len(traces)), cap))]
    neg_ids = []
    for tr in list(traces):
        if len(neg_ids) >= 3:
            break
        for i, e in enumerate(tr["ev"]):
            if e["e"] == "end" and e["w"] > 0:
                bad = json.loads(json.dumps(tr))
                bad["ev"][i]["n"] = e["n"] + 1 if e["n"] < e["w"] else e["n"] - 1
                bad["id"] = 10 ** 7 + len(neg_ids)
                neg_ids.append(bad["id"])
                traces.append(bad)
                break
    tpath = os.path.join(rd, "traces.ndjson")
    with open(tpath, "w") as f:
        for tr in traces:
            f.write(json.dumps(tr) + "\n")
    resT = C.tlc(SPEC, "GoSyncTrace", "trace.cfg", rd, timeout=3000, copy_extra=[tpath], parse_json=False)
    if not resT.ok:
        raise C.Undecided("GoSyncTrace stopped: %s" % resT.violation)
    chk.add_tlc(resT, "GoSyncTrace")
    accepted = {rec["acc"] for rec in C.tlc_printed_iter(resT)}
    if not neg_ids or any(n in accepted for n in neg_ids):
        raise C.Undecided("negative control accepted by GoSyncTrace")
    rejected = 0
    for tr in traces:
        if tr["id"] in neg_ids or tr["id"] in accepted:
            continue
        rejected += 1
        sc, h, mode, sid = trace_src[tr["id"]]
        # same finding as a rejected outcome? then already reported
        per = [[] for _ in sc["threads"]]
        for e in h["ev"]:
            if e["e"] == "ret":
                per[e["t"]].append("%d,%d,%s,%s" % (e["sel"], e["val"], "true" if e["ok"] else "false", e.get("pan", "")))
        okey = "|".join(";".join(p) for p in per) + "|" + h["end"] + "".join(",%d" % t for t in h.get("stuck") or []) + "#" + h["extra"]
        if okey not in allowed[sid]:
            continue
        chk.reject("history:%s:%s" % (short(sc), json.dumps([[e["t"], e["e"], e.get("val")] for e in h["ev"]], separators=(",", ":"))),
                   "history recorded from real sema_llgo.go is not a behaviour of GoSync (scenario %s; schedule %s)" % (short(sc), h["sched"][:400]),
                   {"scenario": sc, "history": h, "mode": mode})
    chk.cov["traces_validated_against_impl"] = len(traces) - len(neg_ids)
    chk.cov["evaluations"] = total_exec
    chk.cov["distinct_nontrivial"] = hist_total
    chk.cov["scenarios"] = len(scen)
    chk.cov["scenarios_exhausted_by_dfs"] = exhausted
    chk.cov["distinct_outcomes_seen"] = outcomes_seen
    chk.cov["histories_rejected"] = rejected
    chk.cov["rule"] = ("scenario = initial semaphore counts + per-thread scripts of acquire/release/notifyListAdd/Wait/NotifyOne/NotifyAll; "
                       "execution = one interleaving of the real sema_llgo.go at lock/wait/signal/atomic granularity; distinct = distinct history")
    chk.sample({"scenario": short(scen[0]), "allowed_outcomes": sorted(allowed[scen[0]["id"]])})
    if traces:
        chk.sample({"validated_history": traces[0]})

    # ---- binding 2: compiled programs with real threads
    if os.environ.get("VERIF_NO_PROGS") != "1":
        progs.run_sync_programs(chk, thorough, sd)
        # ---- binding 3: sync/atomic litmus programs judged by AtomicSC (one total order, indivisible operations)
        c11litmus.run(chk, thorough, sd)
        # ---- binding 4: go statements (callee, receiver and arguments as evaluated at the statement), judged by GoStmt
        c11gostmt.run(chk, thorough, sd)
    chk.assumptions += ["semaphore/notify-list state is accessed only under its mutex or through atomics (gates are the only scheduling points)",
                        "Go's own sync package (Mutex, RWMutex, WaitGroup, Once, Cond) is correct given the semaphore and notify-list contracts",
                        "real-pthread runs of compiled programs explore only the schedules the OS happens to produce"]


def run_impl_model(chk, thorough, scen_path, allowed, byid):
    """SemaImpl (sema_llgo.go as PlusCal, atomics as steps) over every single-semaphore scenario of <= 4 threads: its terminal
    outcomes must be outcomes GoSync allows.  Design-level only: reported, never a verdict."""
    rd = chk.rd.path
    cfg = os.path.join(rd, "impl_run.cfg")
    C.write_cfg(cfg, constants={"SleepOnLostRace": "FALSE", "TicketBug": "FALSE", "SpuriousBudget": 1, "defaultInitValue": 0},
                invariants=["WaitersSane", "NotifyBounded", "Emit"])
    res = C.tlc(SPEC, "SemaImpl", cfg, rd, timeout=3000, copy_extra=[scen_path], parse_json=False)
    chk.add_tlc(res, "SemaImpl")
    implout = {}
    for rec in C.tlc_printed_iter(res):
        implout.setdefault(rec["id"], set()).add(outcome_key_from_tlc(rec, len(byid[rec["id"]]["threads"])))
    bad = [(short(byid[i]), o) for i, outs in implout.items() for o in outs if o not in allowed[i]]
    chk.cov["impl_model"] = {"ok": res.ok, "violation": res.violation, "scenarios": len(implout), "outcomes_not_allowed_by_GoSync": bad[:10]}
    if bad or not res.ok:
        C.log("note: SemaImpl deviates from GoSync at design level: %s %s" % (res.violation, bad[:3]))
    return implout


if __name__ == "__main__":
    C.main_wrapper("C11", check)

"""C13 — builds are reproducible and the build cache never serves stale code.

spec/buildcache/BuildCache.tla   layer A: inputs with content and stat, packages that read inputs, a cache of archives
                                 selected by an abstract key; the guarantee Fresh (the executable of every build is the
                                 one a clean build gives), NoopStable, KeyFunctional; Repro = the code of a package is a
                                 function of the values it reads
spec/buildcache/CacheKey.tla     layer B (report only): the key as a function of what collect.go's manifest contains, and the
                                 shape of the generated module main -> p1 -> p2
spec/buildcache/CacheProbe.tla   "is anything missing from the manifest?" as reachability: per input and kind of change
spec/buildcache/BuildCases.tla   TLC enumerates the canonical edit/build histories
spec/buildcache/BuildReplay.tla  the judge applied to the selected concrete histories: expected markers per build
binding: every selected history is replayed on a generated 3-package module with the REAL `llgo build` and a private
         persistent cache directory; every input controls a printed marker; after each build the executable is run and
         its markers are compared with Fresh, and with a clean build of the same sources.  Repro: the module is built
         twice into two empty caches and all cached archives / manifests are compared byte for byte.
"""
import hashlib
import itertools
import json
import os
import random
import re
import shutil
import subprocess
import threading
import time
from concurrent.futures import ThreadPoolExecutor

from . import common as C

SPEC = os.path.join(C.VERIF, "spec", "buildcache")
HARNESS = os.path.join(C.VERIF, "harness", "c13", "zz_verif_c13_test.go")
AR = os.path.join(C.TC, "bin", "llvm-ar")
PAR = 4

PKGS = ["main", "p1", "p2"]
XVAR = {"main/x": ("vmod", "xmain"), "p1/x": ("vmod/p1", "X"), "p2/x": ("vmod/p2", "X")}
FILE_OF = {"main/src": "msrc.go", "p1/src": "p1/src.go", "p2/src": "p2/src.go", "p1/emb": "p1/data/a.txt",
           "p2/emb": "p2/data/a.txt", "p1/c": "p1/_c/c.c", "p2/c": "p2/_c/c.c"}
ENV_SPELL = ["0", "TRUE", "off", "1", "false", "On"]
TRACE_LINE = {"main": "call vmod.main", "p1": "call vmod/p1.Marks", "p2": "call vmod/p2.Marks"}

# --------------------------------------------------------------------------- the generated module

MAIN_GO = '''package main

import (
	"reflect"

	"vmod/p1"
	"vmod/uvs"
)

var xmain = "x0"

type greeter struct{ n int }

var keepP *greeter
var keepS []greeter
var keepM map[string]greeter
var keepA [3]greeter

func main() {
	println("M", "main", "main/src", srcMain)
	println("M", "main", "main/x", xmain)
	println("M", "main", "tags", tagv)
	// types looked up through reflection: the entry module then carries the list of types reflection may have to find
	// (its order must not depend on the run: the two clean builds are compared byte for byte)
	_, _, _, _ = keepP, keepS, keepM, keepA
	uvs.Keep()
	t := reflect.TypeOf(greeter{41})
	println("M", "main", "refl", reflect.PointerTo(t).String(), reflect.SliceOf(t).String(), reflect.ArrayOf(3, t).String())
	p1.Marks()
}
'''

PKG_GO = '''package %(p)s

import (
	"embed"
	_ "unsafe"
%(imp)s)

// the C side file is named only here
const LLGoFiles = "_c/c.c"

//go:linkname cval C.%(p)s_cval
func cval() int32

//go:linkname copt C.%(p)s_copt
func copt() int32

// one embed variable, two files: the value of the input is the pair (where the boundary lies matters)
//go:embed data
var embfs embed.FS

func embMark() string {
	a, _ := embfs.ReadFile("data/a.txt")
	b, _ := embfs.ReadFile("data/b.txt")
	return string(a) + "|" + string(b)
}

var X = "x0"

func Marks() {
	println("M", "%(p)s", "%(p)s/src", Src)
	println("M", "%(p)s", "%(p)s/emb", embMark())
	println("M", "%(p)s", "%(p)s/c", cval())
	println("M", "%(p)s", "%(p)s/x", X)
	println("M", "%(p)s", "tags", tagv)
	println("M", "%(p)s", "opt", copt())
%(dep)s}
'''

# binding package with an order-sensitive link line: two builds of libval.so, the directory named first wins
P3_GO = '''package p3

import _ "unsafe"

const LLGoPackage = "link: -L%(root)s/libs/override -L%(root)s/libs/base -lval"

//go:linkname Get C.demo_val
func Get() int32
'''

# p2's build-tag marker does not come from a tag-selected Go file but from a tag-conditional #cgo line: the set of files
# of the package is the same with and without the tag
P2_TAGC = '''package p2

/*
#cgo vt CFLAGS: -DC13VT=1
#ifndef C13VT
#define C13VT 0
#endif
static int c13vt(void) { return C13VT; }
static int c13k1(void) { return 1; }
static int c13k2(void) { return 2; }
static int c13k3(void) { return 3; }
static int c13k4(void) { return 4; }
static int c13k5(void) { return 5; }
#define C13M6 6
*/
import "C"

// several C names: the generated definitions must come in the same order in every build
var tagv = int(C.c13vt()) + (int(C.c13k1()+C.c13k2()+C.c13k3()+C.c13k4()+C.c13k5()) + int(C.C13M6) - 21)
'''


def file_content(inp, ver):
    """content of a file input at version ver; the length does not depend on ver (ver < 900)"""
    n = 100 + ver
    pkg, kind = inp.split("/")
    if kind == "src":
        if pkg == "main":
            return "package main\n\nconst srcMain = %d\n" % n
        return "package %s\n\nconst Src = %d\n" % (pkg, n)
    if kind == "emb":
        return emb_files(ver)[0]
    if kind == "c":
        return ("int %s_cval(void) { return %d; }\n"
                "int %s_copt(void) {\n#ifdef __OPTIMIZE__\n\treturn 1;\n#else\n\treturn 0;\n#endif\n}\n" % (pkg, n, pkg))
    raise ValueError(inp)


def emb_files(ver):
    """the embedded pair at version ver: consecutive versions 2k, 2k+1 have the same concatenation and differ only in
    where the boundary between the two files lies"""
    s = "e%d" % (100 + ver // 2)
    cut = 2 + ver % 2
    return s[:cut], s[cut:]


def gen_module(d):
    files = {"go.mod": "module vmod\n\ngo 1.24\n", "main.go": MAIN_GO}
    for p in PKGS:
        pre = "" if p == "main" else p + "/"
        pk = "main" if p == "main" else p
        if p == "p2":
            files["p2/tagc.go"] = P2_TAGC
            continue
        files[pre + "tag_on.go"] = "//go:build vt\n\npackage %s\n\nconst tagv = 1\n" % pk
        files[pre + "tag_off.go"] = "//go:build !vt\n\npackage %s\n\nconst tagv = 0\n" % pk
    files["p1/p1.go"] = PKG_GO % {"p": "p1", "imp": '\t"vmod/p2"\n',
                                  "dep": '\tprintln("M", "p1", "p2/src", p2.Src)\n\tp2.Marks()\n'}
    files["p2/p2.go"] = PKG_GO % {"p": "p2", "imp": '\t"vmod/p3"\n', "dep": '\tprintln("M", "p2", "link", p3.Get())\n'}
    files["p3/p3.go"] = P3_GO % {"root": d}
    # the entry package uses reflect: llgo then keeps its libuv wrappers, whose uv_* functions the sandbox's stub libuv
    # lacks; a package of the module supplies trapping weak definitions (compiled and cached like any other package)
    from . import c15
    syms = set()
    if os.path.isdir(c15.UVSYMS_DIR):
        for fn in os.listdir(c15.UVSYMS_DIR):
            if fn.endswith(".go"):
                syms |= set(re.findall(r"C\.(uv_[a-z_0-9]+)", open(os.path.join(c15.UVSYMS_DIR, fn), errors="replace").read()))
    files["uvs/uvs.go"] = ('package uvs\n\nimport _ "unsafe"\n\nconst LLGoFiles = "_c/uv.c"\n\n//go:linkname keep C.verif_uvs_keep\n'
                           'func keep() int32\n\nfunc Keep() int32 { return keep() }\n')
    files["uvs/_c/uv.c"] = ("".join("__attribute__((weak)) void %s(void) { __builtin_trap(); }\n" % x for x in sorted(syms))
                            + "int verif_uvs_keep(void) { return 0; }\n")
    for sub, val in (("base", 1), ("override", 2)):
        ld = os.path.join(d, "libs", sub)
        os.makedirs(ld, exist_ok=True)
        csrc = os.path.join(ld, "val.c")
        with open(csrc, "w") as f:
            f.write("int demo_val(void) { return %d; }\n" % val)
        # shared objects: llgo adds an -rpath for every -L in the order of the link line, so the directory named first
        # wins at link time and at run time
        r = subprocess.run(["cc", "-shared", "-fPIC", "-o", os.path.join(ld, "libval.so"), csrc], capture_output=True, text=True)
        if r.returncode != 0:
            raise C.Undecided("cannot build libval.so for the link-order marker: %s" % (r.stdout + r.stderr)[-500:])
    for inp, path in FILE_OF.items():
        files[path] = file_content(inp, 0)
        if inp.endswith("/emb"):
            files[os.path.join(os.path.dirname(path), "b.txt")] = emb_files(0)[1]
    C.write_module(d, files, modname="vmod")


PY_MAIN = '''package main

import "github.com/goplus/lib/py"

func main() {
	l := py.List(int8(3), uint8(4), int16(5), uint16(6), int32(7), uint32(8))
	println("pylen", l.ListLen())
}
'''


def gen_py_module(d):
    """a second, unrelated program (calls Python): whatever it compiles under a key the module's build also uses must be
    the same code.  Returns False when the Python binding module is not available offline."""
    want = "github.com/goplus/lib v0.3.1"
    try:
        lines = [ln for ln in open(os.path.join(C.REPO, "go.sum")) if ln.startswith(want + " ") or ln.startswith(want + "/go.mod ")]
    except OSError:
        lines = []
    if len(lines) < 2 or subprocess.run(["pkg-config", "--libs", "python3-embed"], capture_output=True).returncode != 0:
        return False
    C.write_module(d, {"go.mod": "module c13py\n\ngo 1.24\n\nrequire github.com/goplus/lib v0.3.1\n",
                       "go.sum": "".join(lines), "main.go": PY_MAIN}, modname="c13py")
    return True


def apply_change(moddir, kind, inp, newver):
    """edit: ordinary rewrite (mtime moves forward); keep: rewrite of equal length with the old mtime restored;
    touch: only the mtime moves"""
    path = os.path.join(moddir, FILE_OF[inp])
    st = os.stat(path)
    if kind in ("edit", "keep"):
        data = file_content(inp, newver)
        if inp.endswith("/emb"):
            # the second file of the pair (sizes move by one byte when the boundary moves: a "keep" of this input
            # restores the time stamps only)
            bpath = os.path.join(os.path.dirname(path), "b.txt")
            bst = os.stat(bpath)
            with open(bpath, "w") as f:
                f.write(emb_files(newver)[1])
            if kind == "keep":
                os.utime(bpath, ns=(bst.st_atime_ns, bst.st_mtime_ns))
        elif len(data) != st.st_size:
            raise C.Undecided("generator: content length of %s changed" % inp)
        with open(path, "w") as f:
            f.write(data)
    if kind == "keep":
        os.utime(path, ns=(st.st_atime_ns, st.st_mtime_ns))
    else:
        now = os.stat(path).st_mtime_ns if kind == "edit" else time.time_ns()
        if now <= st.st_mtime_ns + 1000000:      # an edit made later carries a later time stamp
            now = st.st_mtime_ns + 1000000000
        os.utime(path, ns=(now, now))


# --------------------------------------------------------------------------- running builds

class Ctx:
    def __init__(self, chk):
        self.chk = chk
        self.rd = chk.rd.path
        self.llgo = C.llgo_binary()
        self.xdriver = None
        self.gocache_base = os.path.join(C.BUILD, "gocache-c13")
        os.makedirs(self.gocache_base, exist_ok=True)
        self.lock = threading.Lock()
        self.builds = 0
        self.build_secs = 0.0
        self.reads = None


def acquire_gocache(ctx):
    """go's own build cache is not under test, but llgo writes the objects of C side files next to the export files in
    it under names that do not depend on the module's location: concurrent builds must not share one. Persistent
    slots, one build at a time per slot (flock)."""
    import fcntl
    n = 0
    while True:
        d = os.path.join(ctx.gocache_base, "s%02d" % n)
        os.makedirs(d, exist_ok=True)
        f = open(os.path.join(d, ".lock"), "w")
        try:
            fcntl.flock(f, fcntl.LOCK_EX | fcntl.LOCK_NB)
            return d, f
        except OSError:
            f.close()
            n += 1
            if n > 200:
                raise C.Undecided("no free GOCACHE slot")


def build_cmd(ctx, moddir, cache, tmp, out, val, driver, gocache):
    args = ["-O2" if val["opt"] % 2 else "-O0", "-o", out]
    if val["tags"] % 2:
        args += ["-tags", "vt"]
    args.append(".")
    env = C.base_env({"XDG_CACHE_HOME": cache, "TMPDIR": tmp, "GOCACHE": gocache})
    for k in list(env):
        if k.startswith("LLGO_") and k not in ("LLGO_ROOT",):
            del env[k]
    if val["opt"] % 2:
        env["LLGO_VERIF_PASSES"] = C.O2STAR
    # the switch is spelled differently from version to version (odd = on); what counts is how llgo reads it
    env["LLGO_TRACE"] = ENV_SPELL[val.get("envver", val["env"]) % len(ENV_SPELL)]
    x = {}
    for inp, (pkg, var) in XVAR.items():
        if val[inp] > 0:
            x.setdefault(pkg, {})[var] = "x%d" % val[inp]
    if driver == "x":
        env["VERIF_C13_BUILD"] = json.dumps({"dir": moddir, "args": args, "x": x})
        cmd = [ctx.xdriver, "-test.run", "^TestVerifC13Build$", "-test.timeout", "3000s"]
    else:
        if x:
            raise C.Undecided("internal: -X history routed to the llgo command")
        cmd = [ctx.llgo, "build"] + args
    shown = {"cmd": "llgo build " + " ".join(args) if driver != "x" else "build.Do(%s) GlobalRewrites=%s" % (" ".join(args), json.dumps(x)),
             "env": {k: env[k] for k in ("LLGO_TRACE",) if k in env}}
    return cmd, env, shown


def do_build(ctx, moddir, cache, tmp, out, val, driver, timeout=1800):
    os.makedirs(tmp, exist_ok=True)
    gocache, lockf = acquire_gocache(ctx)
    try:
        cmd, env, shown = build_cmd(ctx, moddir, cache, tmp, out, val, driver, gocache)

        if os.path.exists(out):
            os.remove(out)
        t0 = time.time()
        try:
            r = subprocess.run(cmd, cwd=moddir, env=env, capture_output=True, text=True, timeout=timeout)
        except subprocess.TimeoutExpired:
            raise C.Undecided("build timed out: %s" % shown["cmd"])
    finally:
        lockf.close()
    dt = time.time() - t0
    with ctx.lock:
        ctx.builds += 1
        ctx.build_secs += dt
    if r.returncode != 0 or not os.path.exists(out):
        raise C.Undecided("build failed (%s in %s):\n%s" % (shown["cmd"], moddir, (r.stdout + r.stderr)[-3000:]))
    return shown


def observe(ctx, exe):
    """run the executable and read its markers: {(pkg, input): raw string}"""
    st, out, err = C.run_exe(exe, timeout=120)
    if st != 0:
        raise C.Undecided("generated program failed: status %s\n%s" % (st, err[-1500:]))
    marks = {}
    for line in err.splitlines():
        m = re.match(r"M (\S+) (\S+) (.*)$", line)
        if m:
            marks[(m.group(1), m.group(2))] = m.group(3)
    lines = set(out.splitlines())
    for p in PKGS:
        marks[(p, "env")] = "1" if TRACE_LINE[p] in lines else "0"
    return marks


def decode(inp, raw):
    """marker text -> value in the terms of the spec (None: unreadable)"""
    try:
        kind = inp.split("/")[-1]
        if kind in ("src", "c"):
            return int(raw) - 100
        if kind == "emb":
            a, b = raw.split("|")
            return 2 * (int((a + b)[1:]) - 100) + (len(a) - 2) if raw.startswith("e") and len(a) in (2, 3) else None
        if kind == "x":
            return int(raw[1:]) if raw.startswith("x") else None
        return int(raw)
    except ValueError:
        return None


def compare(reads, marks, val):
    """Fresh: every package shows the current value of every input it reads. -> [(pkg, input, want, got)]"""
    bad = []
    for p in PKGS:
        for i in reads[p]:
            got = decode(i, marks.get((p, i), ""))
            if got != val[i]:
                bad.append((p, i, val[i], got))
    return bad


# --------------------------------------------------------------------------- caches

def build_root(cache):
    return os.path.join(cache, "llgo", "build")


def strip_module(cache):
    b = build_root(cache)
    if os.path.isdir(b):
        for triple in os.listdir(b):
            shutil.rmtree(os.path.join(b, triple, "vmod"), ignore_errors=True)


def merge_cache(dst, src):
    s = os.path.join(src, "llgo")
    if os.path.isdir(s):
        shutil.copytree(s, os.path.join(dst, "llgo"), dirs_exist_ok=True)


def archive_payload(path):
    """member count and concatenated member contents (member names are temporary file names)"""
    names = subprocess.run([AR, "t", path], capture_output=True, text=True)
    body = subprocess.run([AR, "p", path], capture_output=True)
    if names.returncode != 0 or body.returncode != 0:
        raise C.Undecided("llvm-ar cannot read %s: %s" % (path, names.stderr))
    return len(names.stdout.split()), body.stdout


def cache_files(cache):
    out = {}
    b = build_root(cache)
    for root, _, files in os.walk(b):
        for f in files:
            p = os.path.join(root, f)
            out[os.path.relpath(p, b)] = p
    return out


def compare_caches(a, b, common_only=False):
    """Repro: same entries, same manifests, same object code. -> (list of (package, what), stats)
    common_only: the caches come from different programs; only entries stored under the same key in both are compared"""
    fa, fb = cache_files(a), cache_files(b)
    if common_only:
        both = set(fa) & set(fb)
        fa = {k: v for k, v in fa.items() if k in both}
        fb = {k: v for k, v in fb.items() if k in both}
    diffs = []
    stats = {"archives": 0, "archives_raw_identical": 0, "manifests": 0, "bytes": 0}

    def pkg_of(rel):
        return os.path.dirname(rel).split(os.sep, 1)[-1]
    pa = {}
    for rel in fa:
        pa.setdefault((pkg_of(rel), os.path.splitext(rel)[1]), []).append(rel)
    pb = {}
    for rel in fb:
        pb.setdefault((pkg_of(rel), os.path.splitext(rel)[1]), []).append(rel)
    for key in sorted(set(pa) | set(pb)):
        la, lb = sorted(pa.get(key, [])), sorted(pb.get(key, []))
        if la != lb:
            diffs.append((key[0], "cache entries differ: %s vs %s" % ([os.path.basename(x) for x in la],
                                                                       [os.path.basename(x) for x in lb])))
            continue
        for rel in la:
            da, db = open(fa[rel], "rb").read(), open(fb[rel], "rb").read()
            if rel.endswith(".a"):
                stats["archives"] += 1
                stats["bytes"] += len(da)
                if da == db:
                    stats["archives_raw_identical"] += 1
                    continue
                na, ba = archive_payload(fa[rel])
                nb, bb = archive_payload(fb[rel])
                if na != nb or ba != bb:
                    diffs.append((key[0], "object code in %s differs (%d/%d members, %d/%d bytes)" % (
                        os.path.basename(rel), na, nb, len(ba), len(bb))))
            else:
                stats["manifests"] += 1
                if da != db:
                    diffs.append((key[0], "manifest %s differs" % os.path.basename(rel)))
    return diffs, stats


# --------------------------------------------------------------------------- TLC side

def run_tlc(ctx, module, cfg, label, workers=4, timeout=1500, copy_extra=()):
    res = C.tlc(SPEC, module, cfg, ctx.rd, workers=workers, timeout=timeout, parse_json=False, copy_extra=copy_extra)
    return res


def model_checks(ctx, thorough, results):
    """layer A is consistent (a key exists under which Fresh holds); layer B: what the manifest misses"""
    chk = ctx.chk
    res = run_tlc(ctx, "BuildCases", "cases_ideal.cfg", "A/ideal-key-canonical")
    if not res.ok:
        raise C.Undecided("BuildCache: Fresh fails even with the ideal key (spec defect): %s" % res.violation)
    results.append((res, "BuildCache ideal key, canonical histories len 6: Fresh, NoopStable, KeyFunctional"))
    res = run_tlc(ctx, "CacheKey", "ideal_fresh.cfg", "A/ideal-key-all")
    if not res.ok:
        raise C.Undecided("BuildCache: Fresh fails even with the ideal key (spec defect): %s" % res.violation)
    results.append((res, "BuildCache ideal key, all histories len 4"))
    res = run_tlc(ctx, "CacheProbe", "probe_ideal.cfg", "A/probe-ideal")
    if not res.ok or any(True for _ in C.tlc_printed_iter(res)):
        raise C.Undecided("CacheProbe reports staleness under the ideal key (spec defect)")
    results.append((res, "CacheProbe ideal key: no input can go stale"))
    # layer B
    res = run_tlc(ctx, "CacheProbe", "probe_impl.cfg", "B/probe-manifest")
    if not res.ok:
        raise C.Undecided("CacheProbe (manifest key) failed: %s" % res.violation)
    results.append((res, "CacheProbe manifest key (layer B)"))
    missing = {}
    for r in C.tlc_printed_iter(res):
        k = (r["input"], r["kind"])
        if k not in missing or r["len"] < missing[k]["len"] or (r["len"] == missing[k]["len"] and r["h"] < missing[k]["h"]):
            missing[k] = r
    chk.cov["layerB_manifest_misses"] = [
        {"input": i, "change": k, "shortest_history": missing[(i, k)]["h"],
         "stale": ["%s shows old %s" % (p, j) for p, j in missing[(i, k)]["stale"]]}
        for (i, k) in sorted(missing)]
    res = C.tlc(SPEC, "CacheKey", "impl_fresh.cfg", ctx.rd, workers=1, timeout=600, parse_json=False)
    chk.cov["layerB_fresh"] = {"holds": res.ok, "tlc": res.violation}
    results.append((res, "CacheKey manifest key: Fresh " + ("holds" if res.ok else "violated (counterexample of length 3)")))
    return missing


def enumerate_histories(ctx, cfg, results, label):
    res = run_tlc(ctx, "BuildCases", cfg, label)
    if not res.ok:
        raise C.Undecided("BuildCases %s failed: %s" % (cfg, res.violation))
    results.append((res, "BuildCases/" + label))
    meta, hs = None, []
    for r in C.tlc_printed_iter(res):
        if "meta" in r:
            meta = r["meta"]
        elif "h" in r:
            hs.append(tuple(r["h"]))
    if meta is None or not hs:
        raise C.Undecided("BuildCases printed nothing")
    return meta, sorted(set(hs))


def simulate_histories(ctx, n, length, seed, results):
    """longer histories: TLC random walks through the same canonical next-state relation"""
    cfg = os.path.join(ctx.rd, "cases_sim.cfg")
    base = open(os.path.join(SPEC, "cases6w.cfg")).read()
    with open(cfg, "w") as f:
        f.write(base.replace("MaxLen = 6", "MaxLen = %d" % length))
    res = C.tlc(SPEC, "BuildCases", cfg, ctx.rd, workers=1, timeout=900, parse_json=False,
                simulate="num=%d" % (n * 6), depth=length + 1, tlc_seed=seed)
    results.append((res, "BuildCases/simulate len %d" % length))
    hs = []
    for r in C.tlc_printed_iter(res):
        if "h" in r and len(r["h"]) == length:
            hs.append(tuple(r["h"]))
    out = []
    for h in hs:
        if h not in out:
            out.append(h)
    return out[:n]


def rotations(meta, h):
    """all images of a canonical history under rotations of its input classes"""
    used = {s.split(":", 1)[1] for s in h}
    choices = []
    for c in meta["classes"]:
        if used & set(c):
            choices.append([{c[j]: c[(j + r) % len(c)] for j in range(len(c))} for r in range(len(c))])
    out = []
    for combo in itertools.product(*choices) if choices else [()]:
        m = {}
        for d in combo:
            m.update(d)
        img = tuple("%s:%s" % (s.split(":", 1)[0], m.get(s.split(":", 1)[1], s.split(":", 1)[1])) for s in h)
        out.append(normal(meta, img))
    return out


def normal(meta, h):
    """edits between two builds listed in the fixed order of the spec"""
    rank = {i: n for n, i in enumerate(meta["order"])}
    out, seg = [], []
    for s in h:
        a, i = s.split(":", 1)
        if a in ("edit", "keep", "touch"):
            seg.append(s)
        else:
            out += sorted(seg, key=lambda t: rank[t.split(":", 1)[1]])
            seg = []
            out.append(s)
    return tuple(out + seg)


def items_of(h):
    """what a history exercises: a change alone between two builds (solo), touches, no-op rebuild, cache clear"""
    it = set()
    seg = []
    for s in h:
        a, i = s.split(":", 1)
        if a in ("edit", "keep", "touch"):
            seg.append((a, i))
            continue
        if a in ("build", "noop"):
            if len(seg) == 1 and seg[0][0] != "touch":
                it.add(("solo",) + seg[0])
            for k, j in seg:
                if k == "touch":
                    it.add(("touch", j))
                it.add(("any", k, j))
            seg = []
            if a == "noop":
                it.add(("noop",))
        if a == "clear":
            it.add(("clear",))
    return it


def select_cover(meta, canon, limit):
    """deterministic greedy cover: every (kind of change, input) alone before a build, every touch, noop, clear"""
    cand = sorted({img for h in canon for img in rotations(meta, h)})
    cand_items = [(h, items_of(h)) for h in cand]
    want = set()
    for _, it in cand_items:
        want |= {x for x in it if x[0] != "any"}
    chosen, covered = [], set()
    while want - covered and len(chosen) < limit:
        best = None
        for h, it in cand_items:
            gain = len((it & want) - covered)
            nb = sum(1 for s in h if s.startswith(("build", "noop")))
            score = (gain, -nb)
            if gain and (best is None or score > best[0]):
                best = (score, h, it)
        if best is None:
            break
        chosen.append(best[1])
        covered |= best[2]
    return chosen, sorted(want - covered), cand


def judge(ctx, hists, results, label):
    """BuildReplay: TLC computes, for every build of every history, the values Fresh demands (and B's prediction)"""
    d = os.path.join(ctx.rd, "histdata-" + label)
    os.makedirs(d, exist_ok=True)
    rows = []
    for h in hists:
        acts = ", ".join('[a |-> "%s", i |-> "%s"]' % tuple(s.split(":", 1)) for s in h)
        rows.append("<< %s >>" % acts)
    with open(os.path.join(d, "HistData.tla"), "w") as f:
        f.write("------------------------------- MODULE HistData -------------------------------\n"
                "Hists == <<\n  %s\n>>\n"
                "=============================================================================\n" % ",\n  ".join(rows))
    res = C.tlc(SPEC, "BuildReplay", "replay.cfg", ctx.rd, workers=4, timeout=1500, parse_json=False,
                copy_extra=[os.path.join(d, "HistData.tla")])
    if not res.ok:
        raise C.Undecided("BuildReplay rejected a history handed to it: %s" % res.violation)
    results.append((res, "BuildReplay/" + label))
    obs = {}
    for r in C.tlc_printed_iter(res):
        if "k" in r:
            obs[r["k"] - 1] = r["obs"]
    if len(obs) != len(hists):
        raise C.Undecided("BuildReplay printed %d of %d histories" % (len(obs), len(hists)))
    return [obs[n] for n in range(len(hists))]


# --------------------------------------------------------------------------- replaying one history

def uses_x(h):
    return any(s.split(":", 1)[1] in XVAR for s in h)


def global_of(h):
    g = {s.split(":", 1)[1] for s in h} & {"tags", "opt", "env"}
    return sorted(g)


def replay_history(ctx, idx, h, obs, seeds, clean_every):
    """-> dict(mismatches=[...], negctl=(tried, flagged), evals=n, builds=[...])"""
    driver = "x" if uses_x(h) else "cli"
    seed = seeds[driver]
    hd = os.path.join(ctx.rd, "h%04d" % idx)
    mod, cache, tmp = os.path.join(hd, "mod"), os.path.join(hd, "cache"), os.path.join(hd, "tmp")
    gen_module(mod)
    shutil.copytree(seed, cache)
    ver = {i: 0 for i in list(FILE_OF) + list(XVAR) + ["tags", "opt", "env"]}
    changes = {i: [] for i in ver}
    out = {"mismatches": [], "neg_tried": 0, "neg_flagged": 0, "evals": 0, "log": [], "b_agree": 0, "b_disagree": []}
    nbuild = 0
    exe = os.path.join(hd, "out")
    last_val = None
    nbuilds_total = sum(1 for s in h if s.startswith(("build", "noop")))
    try:
        for step, s in enumerate(h):
            a, i = s.split(":", 1)
            if a in ("edit", "keep"):
                ver[i] += 1
                changes[i].append(a)
                if i in FILE_OF:
                    apply_change(mod, a, i, ver[i])
            elif a == "touch":
                apply_change(mod, a, i, ver[i])
            elif a == "clear":
                shutil.rmtree(cache)
                shutil.copytree(seed, cache)
            else:
                o = obs[nbuild]
                val = o["val"]
                # the driver's own bookkeeping must agree with the spec's state
                for j in ver:
                    want = ver[j] % 2 if j in ("tags", "opt", "env") else ver[j]
                    if want != val[j]:
                        raise C.Undecided("driver and BuildReplay disagree on the value of %s at step %d of %s" % (j, step, h))
                # negative control: the executable from before the changes must NOT pass for the new state
                if last_val is not None and any(val[j] != last_val[j] for j in val) and os.path.exists(exe):
                    out["neg_tried"] += 1
                    if compare(ctx.reads, observe(ctx, exe), val):
                        out["neg_flagged"] += 1
                shown = do_build(ctx, mod, cache, tmp, exe, dict(val, envver=ver["env"]), driver)
                marks = observe(ctx, exe)
                bad = compare(ctx.reads, marks, val)
                out["evals"] += sum(len(ctx.reads[p]) for p in PKGS)
                real_stale = sorted([p, j] for p, j, _, _ in bad)
                if real_stale == sorted(o["stale"]):
                    out["b_agree"] += 1
                else:
                    out["b_disagree"].append({"history": list(h[:step + 1]), "layerB": o["stale"], "real": real_stale})
                for p, j, want, got in bad:
                    if got is None or (j not in ("tags", "opt", "env") and got > want):
                        kinds = "wrong"
                    elif j in ("tags", "opt", "env"):
                        kinds = "edit"
                    else:
                        kinds = "+".join(sorted(set(changes[j][got:want])))
                    out["mismatches"].append({"key": "stale:%s:%s:%s" % (p, j, kinds), "pkg": p, "input": j, "want": want,
                                              "got": got, "raw": marks.get((p, j)), "step": step,
                                              "history": list(h[:step + 1]), "build": shown, "driver": driver,
                                              "layerB_predicts_stale": [p, j] in o["stale"]})
                out["log"].append({"step": step, "build": shown["cmd"], "stale": real_stale})
                nbuild += 1
                last_val = dict(val)
                # differential: a clean build of the same sources (fresh copy of the seed cache)
                if clean_every or nbuild == nbuilds_total:
                    cc = os.path.join(hd, "clean-cache")
                    shutil.rmtree(cc, ignore_errors=True)
                    shutil.copytree(seed, cc)
                    cexe = os.path.join(hd, "out-clean")
                    do_build(ctx, mod, cc, tmp, cexe, val, driver)
                    cmarks = observe(ctx, cexe)
                    out["evals"] += sum(len(ctx.reads[p]) for p in PKGS)
                    for p, j, want, got in compare(ctx.reads, cmarks, val):
                        out["mismatches"].append({"key": "clean-build-does-not-reflect:%s:%s" % (p, j), "pkg": p, "input": j,
                                                  "want": want, "got": got, "step": step, "history": list(h[:step + 1]),
                                                  "build": shown, "driver": driver})
                    reported = {(p, j) for p, j, _, _ in bad}
                    for k in sorted(set(marks) | set(cmarks)):
                        if marks.get(k) != cmarks.get(k) and k not in reported:
                            out["mismatches"].append({"key": "cached-differs-from-clean:%s:%s" % k, "pkg": k[0], "input": k[1],
                                                      "want": cmarks.get(k), "got": marks.get(k), "step": step,
                                                      "history": list(h[:step + 1]), "build": shown, "driver": driver})
                    shutil.rmtree(cc, ignore_errors=True)
    finally:
        if not ctx.chk.rd.keep:
            shutil.rmtree(hd, ignore_errors=True)
    return out


# --------------------------------------------------------------------------- main

def ensure_xdriver(ctx):
    src = open(HARNESS).read()
    tag = hashlib.sha256(src.encode()).hexdigest()[:10]
    out = os.path.join(C.tree_dir(), "c13-xdriver-" + tag)
    if not os.path.exists(out):
        t0 = time.time()
        built = C.gotest_compile_injected("cmd/internal/build", {"zz_verif_c13_test.go": src}, ctx.rd,
                                          tags="dev,verif", with_llvm=True)
        tmp = out + ".tmp%d" % os.getpid()
        shutil.copy(built, tmp)
        os.rename(tmp, out)
        C.log("built the -X build driver in %.1fs" % (time.time() - t0))
    ctx.xdriver = out


def check(chk):
    thorough = chk.tier == "thorough"
    sd = C.seed()
    ctx = Ctx(chk)
    rd = ctx.rd
    t_start = time.time()
    budget = (32 * 60) if thorough else None
    tlc_results = []
    zero = {i: 0 for i in list(FILE_OF) + list(XVAR) + ["tags", "opt", "env"]}

    # ---- warm builds (background): two clean builds for Repro + one per global setting + the -X driver
    seedmod = os.path.join(rd, "seedmod")
    gen_module(seedmod)
    pool = ThreadPoolExecutor(max_workers=8)

    def warm(name, val, driver):
        if driver == "x":
            ensure_xdriver(ctx)
        cache = os.path.join(rd, "warm-" + name)
        os.makedirs(cache, exist_ok=True)
        do_build(ctx, seedmod, cache, os.path.join(rd, "tmp-" + name), os.path.join(rd, "out-" + name), val, driver, timeout=2400)
        return cache
    t_warm = time.time()
    futs = {"A": pool.submit(warm, "A", zero, "cli"), "B": pool.submit(warm, "B", zero, "cli"),
            "X": pool.submit(warm, "X", zero, "x")}
    for g in ("tags", "opt", "env"):
        futs[g] = pool.submit(warm, g, dict(zero, **{g: 1}), "cli")
    if thorough:
        for g in ("tags", "opt"):
            futs[g + "2"] = pool.submit(warm, g + "2", dict(zero, **{g: 1}), "cli")
    pymod = os.path.join(rd, "pymod")
    have_py = gen_py_module(pymod)

    def warm_py():
        cache = os.path.join(rd, "warm-PY")
        os.makedirs(cache, exist_ok=True)
        do_build(ctx, pymod, cache, os.path.join(rd, "tmp-PY"), os.path.join(rd, "out-PY"), zero, "cli", timeout=2400)
        return cache
    if have_py:
        futs["PY"] = pool.submit(warm_py)

    # ---- TLC: the law is consistent, what layer B predicts, the histories
    fut_model = pool.submit(model_checks, ctx, thorough, tlc_results)
    meta, canon = enumerate_histories(ctx, "cases_quick.cfg", tlc_results, "len5")
    ctx.reads = meta["reads"]
    cover, uncovered, cand5 = select_cover(meta, canon, 16)
    if uncovered:
        raise C.Undecided("history selection does not cover %s" % uncovered)
    rng = random.Random(sd)
    hists = list(cover)
    extra_n = 3
    pool_h = cand5
    if thorough:
        _, canon6 = enumerate_histories(ctx, "cases6w.cfg", tlc_results, "len6")
        pool_h = sorted({img for h in canon6 for img in rotations(meta, h)})
        extra_n = 170
        chk.cov["canonical_histories_len6"] = len(canon6)
    chk.cov["canonical_histories_len5"] = len(canon)
    chk.cov["concrete_histories_available"] = len(pool_h)
    seeded = []
    while len(seeded) < extra_n:
        h = pool_h[rng.randrange(len(pool_h))]
        if h not in hists and h not in seeded:
            seeded.append(h)
    if thorough:
        sims = simulate_histories(ctx, 30, 10, sd, tlc_results)
        for h in sims:
            img = rotations(meta, h)
            seeded.append(img[rng.randrange(len(img))])
        chk.cov["simulated_long_histories"] = len(sims)
    hists += seeded
    obs = judge(ctx, hists, tlc_results, "selected")
    missing = fut_model.result()

    # ---- Repro
    caches = {k: f.result() for k, f in futs.items()}
    warm_wall = time.time() - t_warm
    repro_pairs = [("A", "B")] + ([("tags", "tags2"), ("opt", "opt2")] if thorough else [])
    repro_stats = []
    for a, b in repro_pairs:
        diffs, stats = compare_caches(caches[a], caches[b])
        stats["pair"] = "%s/%s" % (a, b)
        repro_stats.append(stats)
        if stats["archives"] < 20:
            raise C.Undecided("Repro: only %d archives found in the cache" % stats["archives"])
        for pkg, what in diffs:
            chk.reject("repro:%s" % pkg, "two clean builds of the same sources differ for package %s: %s" % (pkg, what),
                       {"package": pkg, "difference": what, "config": a,
                        "how": "generated module built twice with `llgo build` into two empty caches"})
        chk.cov["evaluations"] += stats["archives"] + stats["manifests"]
        # the entry package is never cached: its code is compared through the linked executables
        ea, eb = os.path.join(rd, "out-" + a), os.path.join(rd, "out-" + b)
        if not (os.path.exists(ea) and os.path.exists(eb)):
            raise C.Undecided("Repro: executables of the clean builds %s/%s are missing" % (a, b))
        da, db = open(ea, "rb").read(), open(eb, "rb").read()
        stats["executable_bytes"] = len(da)
        stats["executables_identical"] = da == db
        chk.cov["evaluations"] += 1
        if da != db:
            first = next((i for i in range(min(len(da), len(db))) if da[i] != db[i]), min(len(da), len(db)))
            chk.reject("repro:executable", "two clean builds of the same sources into two empty caches link different executables "
                       "(%d vs %d bytes, first difference at offset %d): the code of the entry package (never cached) differs "
                       "although every cached archive is the same" % (len(da), len(db), first),
                       {"config": a, "sizes": [len(da), len(db)], "first_difference": first,
                        "how": "generated module built twice with `llgo build` into two empty caches; executables compared byte for byte"})
    # one key, one code - also across programs: what the Python-calling program stored under keys the module's build uses
    if have_py:
        diffs, stats = compare_caches(caches["A"], caches["PY"], common_only=True)
        stats["pair"] = "A/PY (common keys)"
        repro_stats.append(stats)
        if stats["archives"] < 8:
            raise C.Undecided("cross-program comparison: only %d common cache entries" % stats["archives"])
        for pkg, what in diffs:
            chk.reject("samekey:%s" % pkg, "package %s was stored under the same cache key with different code by a build of "
                       "another program (one that calls Python): %s" % (pkg, what),
                       {"package": pkg, "difference": what,
                        "how": "`llgo build -O0` of the generated module into an empty cache, and of a program calling "
                               "py.List(int8, uint8, ...) into another empty cache; archives with equal fingerprints compared",
                        "python_program": PY_MAIN})
        chk.cov["evaluations"] += stats["archives"] + stats["manifests"]
    else:
        chk.assumptions.append("cross-program same-key comparison skipped: github.com/goplus/lib or python3-embed not available")
    # negative control for the Repro comparison: one object byte flipped in a copy of cache A must be noticed
    neg = os.path.join(rd, "warm-neg")
    shutil.copytree(caches["A"], neg)
    victim = sorted(p for r, p in cache_files(neg).items() if r.endswith(".a") and "vmod" in r)
    if not victim:
        raise C.Undecided("Repro: the module's archives are not in the cache")
    data = bytearray(open(victim[0], "rb").read())
    data[len(data) // 2] ^= 0x40
    with open(victim[0], "wb") as f:
        f.write(bytes(data))
    if not compare_caches(caches["A"], neg)[0]:
        raise C.Undecided("negative control: a flipped byte in a cached archive was not noticed by the Repro comparison")
    shutil.rmtree(neg, ignore_errors=True)
    chk.cov["repro"] = repro_stats

    # ---- seeds: archives of the runtime and the standard library for every setting, none of the module's
    seed_cli = os.path.join(rd, "seed-cli")
    os.makedirs(seed_cli)
    for k in ("A", "tags", "opt", "env"):
        merge_cache(seed_cli, caches[k])
    strip_module(seed_cli)
    seed_x = os.path.join(rd, "seed-x")
    os.makedirs(seed_x)
    merge_cache(seed_x, caches["X"])
    strip_module(seed_x)
    seeds = {"cli": seed_cli, "x": seed_x}

    # ---- replay
    stop_at = (t_start + budget) if budget else None
    n_cover = len(cover)

    def job(n):
        if stop_at and n >= n_cover and time.time() > stop_at:
            return None
        return replay_history(ctx, n, hists[n], obs[n], seeds, clean_every=thorough)
    with ThreadPoolExecutor(max_workers=PAR + (2 if thorough else 0)) as ex:
        outs = list(ex.map(job, range(len(hists))))
    pool.shutdown()

    done = [(n, o) for n, o in enumerate(outs) if o is not None]
    neg_tried = sum(o["neg_tried"] for _, o in done)
    neg_flagged = sum(o["neg_flagged"] for _, o in done)
    if neg_tried == 0 or neg_flagged != neg_tried:
        raise C.Undecided("negative control: the executable from before a change passed for the state after it "
                          "(%d of %d flagged): markers do not follow the inputs" % (neg_flagged, neg_tried))
    seen = {}
    for n, o in done:
        for m in o["mismatches"]:
            k = m["key"]
            if k not in seen or len(m["history"]) < len(seen[k]["history"]):
                seen[k] = m
    for k in sorted(seen):
        m = seen[k]
        desc = ("after %s the program built by `%s` shows %s=%s in package %s, current value is %s" % (
            " ; ".join(m["history"]), m["build"]["cmd"], m["input"], m["got"], m["pkg"], m["want"]))
        chk.reject(k, desc, m)
    actions = set()
    for n, o in done:
        for s in hists[n]:
            actions.add(s)
    b_agree = sum(o["b_agree"] for _, o in done)
    b_dis = [d for _, o in done for d in o["b_disagree"]]
    chk.cov["evaluations"] += sum(o["evals"] for _, o in done)
    chk.cov["traces_validated_against_impl"] = len(done)
    chk.cov["distinct_nontrivial"] = len({hists[n] for n, _ in done if any(s.startswith(("edit", "keep")) for s in hists[n])})
    chk.cov["distinct_actions_replayed"] = len(actions)
    chk.cov["histories"] = {"cover": n_cover, "seeded": len(hists) - n_cover, "replayed": len(done),
                            "with_-X_through_build.Do": sum(1 for n, _ in done if uses_x(hists[n]))}
    chk.cov["real_builds"] = ctx.builds
    chk.cov["mean_build_s"] = round(ctx.build_secs / max(1, ctx.builds), 1)
    chk.cov["warm_wall_s"] = round(warm_wall, 1)
    chk.cov["negative_controls"] = {"old_executable_vs_new_state": neg_tried, "flagged": neg_flagged, "flipped_archive_byte": "flagged"}
    chk.cov["layerB_agreement"] = {"builds_agreeing": b_agree, "disagreeing": len(b_dis), "examples": b_dis[:5]}
    chk.cov["distinct_findings"] = sorted(seen)
    for res, label in tlc_results:
        chk.add_tlc(res, label)
    chk.cov["rule"] = ("histories = canonical edit/build sequences enumerated by TLC (BuildCases) over 13 inputs of a generated "
                       "module main->p1->p2 (Go source, embedded file, LLGoFiles C file, -X value per package; tags, -O level, "
                       "LLGO_TRACE) x {ordinary edit, edit keeping size+mtime, touch} with builds, no-op rebuilds, cache clears; "
                       "deterministic cover (each change alone before a build, each touch, noop, clear) + VERIF_SEED sample; "
                       "each replayed with the real `llgo build` and a private persistent cache; evaluations = marker "
                       "comparisons (package x input it reads) + cache files compared for Repro; non-trivial = distinct "
                       "histories with a content change")
    for n in range(min(3, len(done))):
        chk.sample({"history": list(hists[n]), "expected_at_builds": [o["val"] for o in obs[n]], "real": outs[n]["log"]})
    chk.assumptions += [
        "markers: every input drives one printed value per package that reads it (validated on every run: the executable "
        "from before a change must fail the comparison for the state after it)",
        "`llgo build` accepts -ldflags but ignores it: -X overrides are reachable only through build.Config.GlobalRewrites; "
        "histories that change an -X value are built through an injected copy of runCmd that sets this field "
        "(harness/c13), all others through the llgo command",
        "optimised level = -O2 with the verif pass pipeline (LLVM 14); the observable is __OPTIMIZE__ in the C side file",
        "behaviour-affecting environment variable exercised: LLGO_TRACE (the other seven of collectEnvInputs have no "
        "effect a host program can print); ABI mode not exercised",
        "a cache clear / clean build starts from archives of the runtime and standard library built in the same run by the "
        "same compiler (none of the module's packages); go's own GOCACHE is shared and not under test",
        "at most one global setting is switched per history (cost of rebuilding the runtime)",
        "Repro compares the object code of archive members and the manifests; member names are temporary file names",
    ]


if __name__ == "__main__":
    C.main_wrapper("C13", check)

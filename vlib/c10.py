"""C10 — channels and select obey Go channel semantics under every schedule.

spec/chan/GoChan.tla       layer A: Go's channel/select semantics (BufSend, BufRecv, Rendezvous, RecvClosed, ...)
spec/chan/GoChanProg.tla   A closed over scenario scripts: TLC enumerates every legal outcome incl. legal deadlocks
spec/chan/GoChanTrace.tla  trace validation of API-level histories recorded from the real code
spec/chan/ChanImpl.tla     layer B: z_chan.go at lock/wait/signal granularity, model-checked against A
binding: runtime/internal/runtime/z_chan.go is copied from the working tree, its two imports redirected to
         scheduler-gate stand-ins, and driven through every interleaving (DFS, optionally preemption-bounded)
         plus seeded random schedules with spurious wake-ups; every observed outcome must be one GoChanProg
         allows and every distinct history must be accepted by GoChanTrace.
"""
import itertools
import json
import os
import random
import subprocess
from concurrent.futures import ThreadPoolExecutor

from . import common as C
from . import sched

SPEC = os.path.join(C.VERIF, "spec", "chan")


# --------------------------------------------------------------------------- scenarios

def op(k, c=0, v=0, cases=None, dflt=False, drop=False):
    if k == "send":
        cases = [{"send": True, "c": c, "v": v}]
    elif k == "recv":
        cases = [{"send": False, "c": c, "v": 0}]
    elif k == "close":
        cases = []
    return {"k": k, "c": c, "v": v, "cases": cases, "dflt": dflt, "drop": drop}


def sel(cases, dflt=False):
    return op("select", cases=[{"send": s, "c": c, "v": v} for (s, c, v) in cases], dflt=dflt)


def number_values(threads):
    """give every send a distinct value 10*thread + position"""
    out = []
    for ti, ops in enumerate(threads):
        new = []
        for oi, o in enumerate(ops):
            o = json.loads(json.dumps(o))
            val = 10 * (ti + 1) + oi + 1
            if o["k"] == "send":
                o["v"] = val
                o["cases"][0]["v"] = val
            elif o["k"] == "select":
                for ci, cs in enumerate(o["cases"]):
                    if cs["send"]:
                        cs["v"] = val * 10 + ci
            new.append(o)
        out.append(new)
    return out


def systematic():
    S = []

    def add(caps, threads, tag):
        S.append({"caps": caps, "threads": number_values(threads), "tag": tag})
    for cap in (0, 1, 2):
        for k in (1, 2, 3):
            for cl in (False, True):
                prod = [op("send")] * k + ([op("close")] if cl else [])
                for m in (k, k + 1):
                    add([cap], [prod, [op("recv")] * m], "pc")
                add([cap], [prod, [op("recv")] * ((k + 1) // 2), [op("recv")] * ((k + 1) // 2)], "p2c")
        # two senders, one receiver
        add([cap], [[op("send")], [op("send")], [op("recv"), op("recv")]], "2p1c")
        add([cap], [[op("send"), op("send")], [op("send")], [op("recv"), op("recv"), op("recv")]], "2p1c")
        # one sender two receivers (a delivered receiver must return)
        add([cap], [[op("send")], [op("recv")], [op("recv")]], "1p2c")
        add([cap], [[op("send"), op("send")], [op("recv")], [op("recv")]], "1p2c")
        # close racing with blocked receivers / senders, separate closer
        add([cap], [[op("recv")], [op("recv")], [op("close")]], "close")
        add([cap], [[op("send")], [op("recv")], [op("close")]], "close")
        add([cap], [[op("send"), op("send"), op("send")], [op("close")]], "close")
        add([cap], [[op("close")], [op("close")]], "close")
        add([cap], [[op("close"), op("send")]], "close")
        add([cap], [[op("send"), op("close"), op("recv"), op("recv")]], "close")
        # receive discarding the value
        add([cap], [[op("send"), op("send")], [op("recv", drop=True), op("recv")]], "drop")
        # non-blocking forms
        add([cap], [[sel([(True, 0, 0)], True)], [op("recv")]], "try")
        add([cap], [[sel([(False, 0, 0)], True)], [op("send")]], "try")
        add([cap], [[sel([(False, 0, 0)], True), sel([(False, 0, 0)], True)], [op("send"), op("close")]], "try")
        add([cap], [[sel([(True, 0, 0)], True), sel([(True, 0, 0)], True)], [op("recv")]], "try")
        # blocking one-case selects against plain ops and against each other
        add([cap], [[sel([(True, 0, 0)])], [op("recv")]], "sel1")
        add([cap], [[sel([(False, 0, 0)])], [op("send")]], "sel1")
        add([cap], [[sel([(True, 0, 0)])], [sel([(False, 0, 0)])]], "sel1")
        add([cap], [[sel([(False, 0, 0)])], [op("close")]], "sel1")
        add([cap], [[sel([(True, 0, 0)]), sel([(True, 0, 0)])], [sel([(False, 0, 0)]), op("recv")]], "sel1")
        # sequels: state left behind by a completed select must not confuse later (non-blocking) operations
        add([cap], [[sel([(True, 0, 0)])], [op("recv"), sel([(False, 0, 0)], True)]], "sequel")
        add([cap], [[sel([(True, 0, 0)]), op("send")], [op("recv"), op("recv")]], "sequel")
        add([cap], [[sel([(False, 0, 0)])], [op("send"), sel([(True, 0, 0)], True)]], "sequel")
        add([cap], [[sel([(False, 0, 0)]), op("recv")], [op("send"), op("send")]], "sequel")
        add([cap], [[sel([(True, 0, 0)]), sel([(False, 0, 0)], True)], [op("recv")]], "sequel")
        add([cap], [[sel([(True, 0, 0)])], [sel([(False, 0, 0)]), sel([(False, 0, 0)], True), sel([(True, 0, 0)], True)]], "sequel")
    for c0, c1 in ((0, 0), (0, 1), (1, 0), (1, 1), (0, 2)):
        add([c0, c1], [[sel([(True, 0, 0), (False, 1, 0)]), sel([(False, 0, 0)], True)], [op("recv", 0)]], "sequel2")
        add([c0, c1], [[sel([(True, 0, 0), (False, 1, 0)])], [op("send", 1), sel([(True, 0, 0)], True)]], "sequel2")
        add([c0, c1], [[sel([(True, 0, 0), (True, 1, 0)]), sel([(False, 0, 0)], True), sel([(False, 1, 0)], True)], [op("recv", 1)]], "sequel2")
        caps = [c0, c1]
        # two-case selects
        add(caps, [[sel([(True, 0, 0), (False, 1, 0)])], [op("recv", 0)]], "sel2")
        add(caps, [[sel([(True, 0, 0), (False, 1, 0)])], [op("send", 1)]], "sel2")
        add(caps, [[sel([(False, 0, 0), (False, 1, 0)])], [op("send", 1)], [op("send", 0)]], "sel2")
        add(caps, [[sel([(True, 0, 0), (True, 1, 0)])], [op("recv", 1)], [op("recv", 0)]], "sel2")
        # mirrored selects (the address-ordered probing is meant to let one side progress)
        add(caps, [[sel([(True, 0, 0), (False, 1, 0)])], [sel([(False, 0, 0), (True, 1, 0)])]], "mirror")
        add(caps, [[sel([(False, 1, 0), (True, 0, 0)])], [sel([(True, 1, 0), (False, 0, 0)])]], "mirror")
        add(caps, [[sel([(True, 0, 0), (False, 1, 0)]), sel([(True, 0, 0), (False, 1, 0)])],
                   [sel([(False, 0, 0), (True, 1, 0)]), sel([(False, 0, 0), (True, 1, 0)])]], "mirror")
        # a select that panics (send on a closed channel) must not stay registered on its other channels:
        # the goroutine may recover, and later non-blocking operations on those channels must still not block
        add(caps, [[op("close", 0), sel([(True, 0, 0), (True, 1, 0)])], [sel([(False, 1, 0)], True)]], "selpanic")
        add(caps, [[sel([(True, 0, 0), (True, 1, 0)])], [op("close", 0), sel([(False, 1, 0)], True)]], "selpanic")
        add(caps, [[sel([(True, 1, 0), (False, 0, 0), (True, 0, 0)])], [op("close", 0)], [sel([(False, 1, 0)], True), sel([(False, 1, 0)], True)]], "selpanic")
        add(caps, [[op("close", 1), sel([(False, 0, 0), (True, 1, 0)])], [sel([(True, 0, 0)], True), sel([(True, 0, 0)], True)]], "selpanic")
        # select with default among two cases
        add(caps, [[sel([(True, 0, 0), (False, 1, 0)], True)], [op("recv", 0)], [op("send", 1)]], "sel2d")
        # select against close
        add(caps, [[sel([(False, 0, 0), (False, 1, 0)])], [op("close", 1)]], "selclose")
        add(caps, [[sel([(True, 0, 0), (False, 1, 0)])], [op("close", 1)], [op("recv", 0)]], "selclose")
        # ping-pong over two channels
        add(caps, [[op("send", 0), op("recv", 1)], [op("recv", 0), op("send", 1)]], "pingpong")
        # same channel on both sides of one select
        add(caps, [[sel([(True, 0, 0), (False, 0, 0)])], [op("recv", 0)]], "selsame")
        add(caps, [[sel([(True, 0, 0), (False, 0, 0)])], [op("send", 0)]], "selsame")
        add(caps, [[sel([(True, 0, 0), (False, 0, 0)])], [sel([(True, 0, 0), (False, 0, 0)])]], "selsame")
    # ring-buffer arithmetic at every read position: rotate getp, fill through each kind of send, drain through each kind of receive
    for cap in (1, 2, 3):
        for rot in range(cap + 1):
            for sk in ("send", "sel", "try"):
                for rk in ("recv", "sel", "try"):
                    mk_s = {"send": lambda: op("send"), "sel": lambda: sel([(True, 0, 0)]), "try": lambda: sel([(True, 0, 0)], True)}[sk]
                    mk_r = {"recv": lambda: op("recv"), "sel": lambda: sel([(False, 0, 0)]), "try": lambda: sel([(False, 0, 0)], True)}[rk]
                    ops = [op("send")] * rot + [op("recv")] * rot + [mk_s() for _ in range(cap)] + [mk_r() for _ in range(cap)]
                    add([cap], [ops], "ring")
                    # the same with the drain in a second goroutine
                    add([cap], [[op("send")] * rot + [op("recv")] * rot + [mk_s() for _ in range(cap)], [mk_r() for _ in range(cap)]], "ring2")
    # select breaks ties by channel address: every two-channel scenario is also run with the address order reversed
    for s in list(S):
        if len(s["caps"]) == 2:
            S.append(dict(s, rev=True))
    return S


def random_scenarios(rng, n):
    S = []
    for _ in range(n):
        nch = rng.choice([1, 1, 2])
        caps = [rng.choice([0, 0, 1, 2]) for _ in range(nch)]
        nt = rng.choice([2, 2, 3])
        threads = []
        for _t in range(nt):
            ops = []
            for _o in range(rng.choice([1, 2, 2, 3] if nt == 2 else [1, 1, 2])):
                r = rng.random()
                c = rng.randrange(nch)
                if r < 0.3:
                    ops.append(op("send", c))
                elif r < 0.6:
                    ops.append(op("recv", c, drop=rng.random() < 0.15))
                elif r < 0.68:
                    ops.append(op("close", c))
                else:
                    ncase = rng.choice([1, 2, 2])
                    cases = [(rng.random() < 0.5, rng.randrange(nch), 0) for _ in range(ncase)]
                    ops.append(sel(cases, dflt=rng.random() < 0.35))
            threads.append(ops)
        S.append({"caps": caps, "threads": number_values(threads), "tag": "random", "rev": rng.random() < 0.4})
    return S


def known_class(sc):
    """Scenario classes in which llgo's select design is known to deviate (DESIGN.md, findings C10-K1..K3):
    (d1) a select with a send and a receive case on the same unbuffered channel;
    (d2) a blocking multi-case select with a send case on an unbuffered channel c (it is counted as a blocked
         sender while registered) together with a select/try receive on c in another goroutine.
    Only the representative scenarios listed in known-findings.txt are kept from these classes."""
    caps = sc["caps"]
    sel_send_multi = set()   # (thread, chan)
    sel_recv = set()
    for ti, ops in enumerate(sc["threads"]):
        for o in ops:
            if o["k"] != "select":
                continue
            sends = {cs["c"] for cs in o["cases"] if cs["send"] and caps[cs["c"]] == 0}
            recvs = {cs["c"] for cs in o["cases"] if not cs["send"] and caps[cs["c"]] == 0}
            if sends & recvs:
                return "d1"
            if not o["dflt"]:
                for c in sends:
                    sel_send_multi.add((ti, c))
                if any(cs["send"] for cs in o["cases"]):
                    for c in recvs:
                        sel_recv.add((ti, c))
    # (d3) a blocking select that sends on unbuffered c, and in another goroutine a blocking select that receives
    # from c and also has a send case: when that select probes its sends first it refuses select-only senders
    for (ta, c) in sel_send_multi:
        for (tb, c2) in sel_recv:
            if c == c2 and ta != tb:
                return "d3"
    return None


REPRESENTATIVES = [
    ([0], [[sel([(True, 0, 0), (False, 0, 0)])], [sel([(True, 0, 0), (False, 0, 0)])]], "K1"),
    ([0], [[sel([(False, 0, 0), (True, 0, 0)])], [op("send", 0), sel([(False, 0, 0)], True)]], "K2"),
    ([0, 0], [[sel([(True, 0, 0), (False, 1, 0)])], [op("send", 1)], [sel([(False, 0, 0)], True)]], "K3"),
    ([1, 0], [[sel([(True, 1, 0)])], [op("send", 0), sel([(False, 1, 0), (True, 0, 0)])]], "K4"),
]


def canon(sc):
    return json.dumps({"caps": sc["caps"], "threads": sc["threads"], "rev": bool(sc.get("rev"))}, sort_keys=True)


def short(sc):
    def o(x):
        if x["k"] == "send":
            return "s%d" % x["c"]
        if x["k"] == "recv":
            return ("r%d" % x["c"]) + ("_" if x["drop"] else "")
        if x["k"] == "close":
            return "c%d" % x["c"]
        return "sel(" + ",".join(("s%d" if cs["send"] else "r%d") % cs["c"] for cs in x["cases"]) + (",d" if x["dflt"] else "") + ")"
    return "caps=%s%s:" % ("".join(map(str, sc["caps"])), "rev" if sc.get("rev") else "") + "|".join(",".join(o(x) for x in t) for t in sc["threads"])


# --------------------------------------------------------------------------- outcome keys (must match chansched's)

def outcome_key_from_tlc(rec, nthreads):
    per = []
    for t in range(nthreads):
        rs = rec["res"][t] if t < len(rec["res"]) else []
        per.append(";".join("%d,%d,%s,%s" % (r["sel"], r["val"], "true" if r["ok"] else "false", r["pan"]) for r in rs))
    stuck = sorted(int(x) - 1 for x in rec["stuck"])
    end = "finished" if not stuck else "stuck"
    return "|".join(per) + "|" + end + "".join(",%d" % t for t in stuck)


# --------------------------------------------------------------------------- trace conversion

def to_trace(sc, hist, hid):
    ev = []
    for e in hist["ev"]:
        t = e["t"] + 1
        o = sc["threads"][e["t"]][e["op"]]
        if e["e"] == "call":
            ev.append({"e": "call", "t": t, "op": {"k": o["k"], "c": o["c"], "cases": o["cases"], "dflt": o["dflt"], "drop": o["drop"]}})
        else:
            ev.append({"e": "ret", "t": t, "r": {"sel": e["sel"], "val": e["val"], "ok": e["ok"], "pan": e.get("pan", "")}})
    ev.append({"e": "end", "stuck": [t + 1 for t in hist.get("stuck") or []]})
    return {"id": hid, "caps": sc["caps"], "n": len(sc["threads"]), "ev": ev}


# --------------------------------------------------------------------------- the check

def run_sched(binpath, scen_path, out_prefix, mode, budget, pb, spurious, sd, maxhist, shards, marker="CHANSCHED_DONE"):
    def one(i):
        out = "%s.%d" % (out_prefix, i)
        cmd = [binpath, "-in", scen_path, "-out", out, "-mode", mode, "-budget", str(budget), "-pb", str(pb),
               "-spurious", str(spurious), "-seed", str(sd), "-maxhist", str(maxhist), "-shard", str(i), "-shards", str(shards)]
        r = subprocess.run(cmd, capture_output=True, text=True, timeout=3000)
        if r.returncode != 0 or marker not in r.stdout:
            raise C.Undecided("chansched failed (%s):\n%s" % (mode, (r.stdout + r.stderr)[-3000:]))
        return [json.loads(l) for l in open(out)]
    with ThreadPoolExecutor(max_workers=shards) as ex:
        parts = list(ex.map(one, range(shards)))
    return [r for p in parts for r in p]


def check(chk):
    thorough = chk.tier == "thorough"
    sd = C.seed()
    rd = chk.rd.path
    rng = random.Random(sd)
    scen = [s for s in systematic() + random_scenarios(rng, 900 if thorough else 120) if not known_class(s)]
    scen += [{"caps": c, "threads": number_values(t), "tag": tag} for (c, t, tag) in REPRESENTATIVES]
    seen = set()
    uniq = []
    for s in scen:
        k = canon(s)
        if k not in seen:
            seen.add(k)
            uniq.append(s)
    scen = uniq
    for i, s in enumerate(scen):
        s["id"] = i + 1
    scen_path = os.path.join(rd, "scenarios.ndjson")
    with open(scen_path, "w") as f:
        for s in scen:
            f.write(json.dumps({"id": s["id"], "caps": s["caps"], "threads": s["threads"], "rev": bool(s.get("rev"))}) + "\n")
    byid = {s["id"]: s for s in scen}

    # ---- layer A: every outcome Go allows, per scenario
    resA = C.tlc(SPEC, "GoChanProg", "prog.cfg", rd, timeout=2400, copy_extra=[scen_path], parse_json=False)
    if not resA.ok:
        raise C.Undecided("GoChanProg: the language-level model violates its own invariants: %s" % resA.violation)
    chk.add_tlc(resA, "GoChanProg")
    allowed = {}
    for rec in C.tlc_printed_iter(resA):
        sc = byid[rec["id"]]
        allowed.setdefault(rec["id"], set()).add(outcome_key_from_tlc(rec, len(sc["threads"])))
    missing = [s["id"] for s in scen if s["id"] not in allowed]
    if missing:
        raise C.Undecided("GoChanProg printed no outcome for scenarios %s" % missing[:5])

    # ---- layer B: the implementation model against A (design-level; never the judge)
    implout = run_impl_model(chk, thorough, scen_path, allowed, byid)

    # ---- real code under the controlled scheduler
    binpath = sched.build(rd, "chansched")
    shards = C.NCPU
    runs = []
    runs.append(("dfs", run_sched(binpath, scen_path, os.path.join(rd, "dfs"), "dfs", 60000 if thorough else 6000,
                                  -1, 0, sd, 300 if thorough else 60, shards)))
    runs.append(("dfs-spurious", run_sched(binpath, scen_path, os.path.join(rd, "dfsp"), "dfs", 20000 if thorough else 2500,
                                           3 if thorough else 2, 1, sd, 40, shards)))
    runs.append(("random", run_sched(binpath, scen_path, os.path.join(rd, "rnd"), "random", 6000 if thorough else 600,
                                     -1, 2, sd, 40, shards)))
    total_exec = 0
    exhausted = 0
    outcomes_seen = 0
    traces = []
    trace_src = {}
    hist_total = 0
    crashes = []
    for mode, results in runs:
        for r in results:
            sc = byid[r["id"]]
            total_exec += r["execs"]
            if mode == "dfs" and r["exhausted"]:
                exhausted += 1
            crashes += [(sc, c) for c in (r.get("crashes") or [])]
            for ok, n in r["outcomes"].items():
                outcomes_seen += 1
                if ok not in allowed[r["id"]]:
                    key = "outcome:%s:%s" % (short(sc), ok)
                    chk.reject(key, "real z_chan.go reached an outcome Go does not allow (scenario %s, outcome %s, %d executions, e.g. schedule: %s)"
                               % (short(sc), ok, n, r["outsched"][ok][:400]),
                               {"scenario": sc, "outcome": ok, "allowed": sorted(allowed[r["id"]]), "schedule": r["outsched"][ok], "mode": mode})
            for h in r["hist"]:
                hist_total += 1
                hid = len(traces) + 1
                traces.append(to_trace(sc, h, hid))
                trace_src[hid] = (sc, h, mode)
    # conformance of the real code with the implementation model (drift measure, not a verdict)
    real_out = {}
    for mode, results in runs:
        for r in results:
            real_out.setdefault(r["id"], set()).update(r["outcomes"].keys())
    same = sum(1 for sid in implout if real_out.get(sid, set()) == implout[sid])
    chk.cov["conformance_real_vs_ChanImpl"] = {"scenarios_compared": len(implout), "identical_outcome_sets": same}
    for sc, c in crashes[:5]:
        chk.reject("crash:%s" % short(sc), "a model goroutine died with an unexpected panic: %s" % c, {"scenario": sc, "panic": c})

    # ---- trace validation of the distinct histories (bounded sample, seeded)
    cap = 60000 if thorough else 6000
    if len(traces) > cap:
        rng2 = random.Random(sd * 7 + 1)
        keep = sorted(rng2.sample(range(len(traces)), cap))
        traces = [traces[i] for i in keep]
    # negative controls: corrupt one received value / drop a send's partner
    neg_ids = []
    for tr in list(traces):
        if len(neg_ids) >= 3:
            break
        for i, e in enumerate(tr["ev"]):
            if e["e"] == "ret" and e["r"]["ok"] and e["r"]["val"] > 0:
                bad = json.loads(json.dumps(tr))
                bad["ev"][i]["r"]["val"] += 1
                bad["id"] = 10 ** 7 + len(neg_ids)
                neg_ids.append(bad["id"])
                traces.append(bad)
                break
    tpath = os.path.join(rd, "traces.ndjson")
    with open(tpath, "w") as f:
        for tr in traces:
            f.write(json.dumps(tr) + "\n")
    resT = C.tlc(SPEC, "GoChanTrace", "trace.cfg", rd, timeout=3000, copy_extra=[tpath], parse_json=False)
    if not resT.ok:
        # Safety violated inside a validated history is itself a rejection of that history, but TLC stops at the
        # first one; report it as undecided machinery only if it cannot be attributed
        raise C.Undecided("GoChanTrace stopped: %s" % resT.violation)
    chk.add_tlc(resT, "GoChanTrace")
    accepted = set()
    for rec in C.tlc_printed_iter(resT):
        accepted.add(rec["acc"])
    if not neg_ids or any(n in accepted for n in neg_ids):
        raise C.Undecided("negative control accepted by GoChanTrace: the trace spec is not binding")
    rejected = 0
    for tr in traces:
        if tr["id"] in neg_ids or tr["id"] in accepted:
            continue
        rejected += 1
        sc, h, mode = trace_src[tr["id"]]
        okey = None
        key = "history:%s:%s" % (short(sc), json.dumps([[e["t"], e["e"], e.get("sel"), e.get("val"), e.get("ok")] for e in h["ev"]], separators=(",", ":")))
        # a history whose outcome was already rejected is the same finding: do not report twice
        per_out = outcome_of_hist(sc, h)
        if per_out not in allowed[sc["id"]]:
            continue
        chk.reject(key, "history recorded from real z_chan.go is not a behaviour of GoChan (scenario %s; schedule %s)" % (short(sc), h["sched"][:400]),
                   {"scenario": sc, "history": h, "mode": mode})
    chk.cov["traces_validated_against_impl"] = len(traces) - len(neg_ids)
    chk.cov["evaluations"] = total_exec
    chk.cov["distinct_nontrivial"] = hist_total
    chk.cov["scenarios"] = len(scen)
    chk.cov["scenarios_exhausted_by_dfs"] = exhausted
    chk.cov["distinct_outcomes_seen"] = outcomes_seen
    chk.cov["histories_rejected"] = rejected
    chk.cov["exhaustive"] = exhausted == len(scen)
    chk.cov["rule"] = ("scenario = channel capacities + per-goroutine scripts of send/recv/close/select(+default); execution = one interleaving "
                       "of the real z_chan.go at lock/wait/signal granularity chosen by the controlled scheduler (DFS over all choices, "
                       "preemption-bounded DFS with a spurious wake-up, seeded random); distinct = distinct API-level history (call/ret order, "
                       "results, blocked set); evaluations = executions")
    chk.sample({"scenario": short(scen[0]), "allowed_outcomes": sorted(allowed[scen[0]["id"]])})
    if traces:
        chk.sample({"validated_history": traces[0]})
    # ---- binding 2: llgo-compiled channel programs (compiler lowering of send/recv/select/close/len/cap, real threads)
    from . import progs
    if os.environ.get("VERIF_NO_PROGS") != "1":      # (trial runs of seeded changes may skip the slow compiled part)
        progs.run_chan_programs(chk, thorough, sd)
    chk.assumptions += ["all shared fields of Chan/selectOp are accessed only under their mutex, so lock/wait/signal calls are the only scheduling points",
                        "the stand-in mutex/condvar implement POSIX semantics incl. spurious wake-ups and arbitrary choice of the waiter woken by Signal",
                        "compiled code ignores ChanSend's boolean result (ssa/datastruct.go Send), so completion without panic is the observable of a send"]


def outcome_of_hist(sc, h):
    per = [[] for _ in sc["threads"]]
    for e in h["ev"]:
        if e["e"] == "ret":
            per[e["t"]].append("%d,%d,%s,%s" % (e["sel"], e["val"], "true" if e["ok"] else "false", e.get("pan", "")))
    s = "|".join(";".join(p) for p in per) + "|" + h["end"]
    for t in h.get("stuck") or []:
        s += ",%d" % t
    return s


def run_impl_model(chk, thorough, scen_path, allowed, byid):
    """ChanImpl (z_chan.go incl. TrySelect/Select as PlusCal) over every scenario: its terminal outcomes must be outcomes
    the language-level model allows (B refines A at outcome level).  Design-level only: reported, never a verdict."""
    rd = chk.rd.path
    cfg = os.path.join(rd, "impl_run.cfg")
    C.write_cfg(cfg, constants={"HandOffBug": "FALSE", "SpuriousBudget": 2 if thorough else 1, "WithSelect": "TRUE", "SelPanicBug": "FALSE", "defaultInitValue": 0},
                invariants=["MutexOwnerSane", "CapBound", "SelCounts", "Withdrawn", "Emit"])
    res = C.tlc(SPEC, "ChanImpl", cfg, rd, timeout=3000, copy_extra=[scen_path], parse_json=False)
    chk.add_tlc(res, "ChanImpl")
    implout = {}
    for rec in C.tlc_printed_iter(res):
        sc = byid[rec["id"]]
        implout.setdefault(rec["id"], set()).add(outcome_key_from_tlc(rec, len(sc["threads"])))
    bad = []
    for sid, outs in implout.items():
        for o in outs:
            if o not in allowed[sid]:
                bad.append((short(byid[sid]), o))
    chk.cov["impl_model"] = {"ok": res.ok, "violation": res.violation, "scenarios": len(implout),
                             "outcomes_not_allowed_by_GoChan": bad[:10]}
    if bad or not res.ok:
        C.log("note: ChanImpl deviates from GoChan at design level: %s %s" % (res.violation, bad[:3]))
    return implout


if __name__ == "__main__":
    C.main_wrapper("C10", check)

"""C07, interface satisfaction: spec/typeid/MethodSets.tla enumerates (declared type, T or *T, interface) with the verdict of
x.(I) and the declaration every method of I reaches; a generated three-package program compiled by llgo performs every
assertion and every call through the interface and must agree."""
import os

from . import common as C

SPEC = os.path.join(C.VERIF, "spec", "typeid")
NAMES = ["A", "B", "c", "d"]
BASE = [["val", "none", "ptr", "none"], ["none", "ptr", "none", "val"], ["ptr", "val", "val", "none"], ["val", "none", "val", "ptr"]]
FOREIGN_BASE = 4      # declared in package p2 (MethodSets.ForeignBase)


def run(chk, thorough):
    rd = chk.rd.path
    res = C.tlc(SPEC, "MethodSets", "methodsets.cfg", chk.rd.sub("ms"), timeout=1800, parse_json=False)
    if not res.ok:
        raise C.Undecided("MethodSets.tla violates its own laws: %s" % res.violation)
    chk.add_tlc(res, "MethodSets")
    cases = list(C.tlc_printed_iter(res))
    if len(cases) < 5000:
        raise C.Undecided("MethodSets emitted only %d cases" % len(cases))
    # ---- render
    types = {}
    ifaces = {}
    for c in cases:
        tk = (tuple(c["own"]), c["emb"], c["base"])
        types.setdefault(tk, len(types) + 1)
        ik = (tuple(sorted(c["ms"])), c["alt"], c["foreign"])
        ifaces.setdefault(ik, len(ifaces) + 1)
    b2i = "func b2i(b bool) int { if b { return 1 }; return 0 }"
    p1 = ["package p1", "", b2i]
    p2 = ["package p2", "", b2i]
    p1[1:1] = ['import "c07m/p2"', "", "var _ p2.E4", ""]
    for b, own in enumerate(BASE, 1):
        out = p2 if b == FOREIGN_BASE else p1
        out.append("type E%d struct{ Pad int }" % b)
        for i, rk in enumerate(own):
            if rk != "none":
                out.append("func (e %sE%d) %s() int { return %d }" % ("*" if rk == "ptr" else "", b, NAMES[i], 9000 + b * 10 + i + 1))
    for (own, emb, base), tid in types.items():
        body = ""
        q = "p2." if base == FOREIGN_BASE else ""
        if emb == "val":
            body = "%sE%d" % (q, base)
        elif emb == "ptr":
            body = "*%sE%d" % (q, base)
        p1.append("type T%d struct{ %s; pad int }" % (tid, body) if body else "type T%d struct{ pad int }" % tid)
        for i, rk in enumerate(own):
            if rk != "none":
                p1.append("func (t %sT%d) %s() int { return %d }" % ("*" if rk == "ptr" else "", tid, NAMES[i], tid * 10 + i + 1))
        init = "T%d{E%d: &%sE%d{}}" % (tid, base, q, base) if emb == "ptr" else "T%d{}" % tid
        p1.append("func MkV%d() any { return %s }" % (tid, init))
        p1.append("func MkP%d() any { v := %s; return &v }" % (tid, init))
    for (ms, alt, foreign), iid in ifaces.items():
        out = p2 if foreign else p1
        meths = []
        for i in ms:
            ret = "string" if (alt and i == 1) else "int"
            meths.append("%s() %s" % (NAMES[i - 1], ret))
        out.append("type I%d interface { %s }" % (iid, "; ".join(meths)))
        calls = []
        for slot, i in enumerate([1, 2, 3, 4]):
            if i in ms and not (alt and i == 1):
                calls.append("r[%d] = v.%s()" % (slot, NAMES[i - 1]))
        # a second, separate conversion of the same value must compare equal to the first wherever interface values meet
        # (struct equality and interface-keyed maps go through the interface type's own equality function)
        calls.append("w, _ := x.(I%d); r[4] = b2i(any(struct{ i I%d }{v}) == any(struct{ i I%d }{w})); "
                     "m := map[I%d]int{v: 1}; m[w] += 2; r[4] += 10 * len(m) + 100 * m[v]" % (iid, iid, iid, iid))
        out.append("func Call%d(x any) (ok bool, r [5]int) { v, ok := x.(I%d); _ = v; if ok { %s }; return ok, r }" % (iid, iid, "; ".join(calls)))
    main = ["package main", "", 'import (', '\t"c07m/p1"', '\t"c07m/p2"', ")", "", "func show(k int, ok bool, r [5]int) { println(k, ok, r[0], r[1], r[2], r[3], r[4]) }", "", "func main() {"]
    expect = {}
    for k, c in enumerate(cases, 1):
        tid = types[(tuple(c["own"]), c["emb"], c["base"])]
        iid = ifaces[(tuple(sorted(c["ms"])), c["alt"], c["foreign"])]
        pk = "p2" if c["foreign"] else "p1"
        main.append("\t{ ok, r := %s.Call%d(p1.Mk%s%d()); show(%d, ok, r) }" % (pk, iid, "P" if c["ptr"] else "V", tid, k))
        r = [0, 0, 0, 0, 311 if c["ok"] else 0]     # equal (1), one map entry (10), both updates on it (300)
        if c["ok"]:
            for i in c["ms"]:
                if c["alt"] and i == 1:
                    continue
                rc = c["reach"][i - 1]
                r[i - 1] = tid * 10 + i if rc == 100 else 9000 + rc * 10 + i
        expect[k] = (c["ok"], r)
    main.append("}")
    d = os.path.join(rd, "c07m")
    C.write_module(d, {"p1/p1.go": "\n".join(p1) + "\n", "p2/p2.go": "\n".join(p2) + "\n", "main.go": "\n".join(main) + "\n"}, modname="c07m")

    def parse(text):
        out = {}
        for ln in text.splitlines():
            w = ln.split()
            if len(w) == 7 and w[0].isdigit():
                out[int(w[0])] = (w[1] == "true", [int(x) for x in w[2:]])
        return out
    ref = os.path.join(d, "ref.exe")
    ok, out = C.go_build(d, ref)
    if not ok:
        raise C.Undecided("reference toolchain rejects the method-set program (generator bug):\n" + out[-2500:])
    st, so, se = C.run_exe(ref, timeout=120, merge=True)
    refres = parse(so)
    bad = [k for k in expect if refres.get(k) != expect[k]]
    if bad:
        raise C.Undecided("MethodSets disagrees with the reference toolchain on %d cases, e.g. case %d: ref %s spec %s (%s)"
                          % (len(bad), bad[0], refres.get(bad[0]), expect[bad[0]], cases[bad[0] - 1]))
    # negative control
    probe = next(k for k in expect if expect[k][0])
    if (not expect[probe][0], expect[probe][1]) == refres.get(probe):
        raise C.Undecided("negative control failed")
    configs = [("O0", "")] + ([("O2", "")] if thorough else [])
    for opt, tags in configs:
        exe = os.path.join(d, "llgo-%s.exe" % opt)
        ok, out = C.llgo_build(d, exe, opt=opt, tags=tags, rundir=d)
        if not ok:
            if opt == "O0":
                raise C.Undecided("llgo cannot build the method-set program:\n" + out[-3000:])
            continue
        st, so, se = C.run_exe(exe, timeout=120, merge=True)
        got = parse(so)
        groups = {}
        for k in expect:
            if got.get(k) != expect[k]:
                c = cases[k - 1]
                g = got.get(k)
                kind = "died" if g is None else ("assert-accepted" if g[0] and not expect[k][0] else
                                                 "assert-rejected" if expect[k][0] and not g[0] else "wrong-method")
                why = []
                if c["foreign"]:
                    why.append("foreign-unexported")
                if c["alt"]:
                    why.append("signature")
                if any(i >= 3 for i in c["ms"]):
                    why.append("unexported")
                if c["emb"] != "none":
                    why.append("embedded-" + c["emb"])
                why.append("ptr" if c["ptr"] else "val")
                groups.setdefault("methodset:%s:%s" % (kind, "+".join(why)), []).append((k, c, g, expect[k]))
        for key, items in sorted(groups.items()):
            k, c, g, e = items[0]
            chk.reject(key, "%d cases: x.(I) / calls through I: llgo %s, Go %s for type own=%s emb=%s base=%s (%s) and interface methods %s%s%s (config %s)" % (
                len(items), g, e, c["own"], c["emb"], c["base"], "*T" if c["ptr"] else "T", [NAMES[i - 1] for i in c["ms"]],
                " alt-signature" if c["alt"] else "", " foreign-package" if c["foreign"] else "", opt), {"examples": [x[1] for x in items[:5]], "got": g, "want": e})
        chk.cov["evaluations"] += len(expect)
        chk.cov["traces_validated_against_impl"] += len(expect)
    chk.cov["methodset_cases"] = len(expect)
    chk.cov["distinct_nontrivial"] += sum(1 for k in expect if expect[k][0])
    chk.sample({"methodset_case": cases[len(cases) // 3], "expected": expect[len(cases) // 3 + 1]})

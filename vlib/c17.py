"""C17 — command lines, flags and directives are split and re-assembled without loss.

spec/tooltext/ShellSplit.tla      layer A: word splitting automaton (documented dialect + POSIX reading), producers,
                                  laws RoundTrip / Malformed; TLC enumerates every string / every argument list
spec/tooltext/PkgConfigSplit.tla  layer A: pkg-config flag grammar on its documented domain, producer, RoundTrip, NoLoss
spec/tooltext/TagExpr.tla         layer A: `// +build` lines, `//go:build` expressions, `-tags` values
spec/tooltext/Expand.tla          layer A: simultaneous substitution ({key} templates, $VAR / $(cmd));
                                  layer B (report only): the key-by-key / two-pass mechanisms of the code
binding: every TLC-printed case is replayed into the real function through test files injected with
         `go test -overlay` (harness/c17/*_test.go) and compared exactly; go/build/constraint validates TagExpr.
"""
import json
import os
import random
import subprocess
import time
from concurrent.futures import ThreadPoolExecutor

from . import common as C

SPEC = os.path.join(C.VERIF, "spec", "tooltext")
HARNESS = os.path.join(C.VERIF, "harness", "c17")
JAVA = "-Xss256m -XX:ParallelGCThreads=2 -Xmx4g"   # several TLC instances run side by side
JAVA_QUICK = JAVA + " -XX:TieredStopAtLevel=1"      # short runs: do not spend CPU in the optimising JIT
CHARS = ["", " ", "\t", '"', "'", "\\", "-", "$", "a", "é", "\u00a0"]

PKGS = {   # package dir -> (package name, specific harness file)
    "internal/shellparse": ("shellparse", "zz_verif_c17_shellparse_test.go"),
    "xtool/safesplit": ("safesplit", "zz_verif_c17_safesplit_test.go"),
    "internal/buildtags": ("buildtags", "zz_verif_c17_buildtags_test.go"),
    "internal/env": ("env", "zz_verif_c17_envbrace_test.go"),
    "xtool/env": ("env", "zz_verif_c17_envdollar_test.go"),
}


def txt(toks):
    return "".join(CHARS[k] for k in toks)


def toks_key(toks):
    return ".".join(map(str, toks)) or "empty"


# --------------------------------------------------------------------------- negative controls
# each takes the list of cases and returns ONE deliberately wrong case (or None if no suitable case exists)

def neg_shell_split(cases):
    for c in cases:
        if not c["doc"]["err"] and c["doc"]["words"] and c["doc"] == c["px"]:
            n = json.loads(json.dumps(c))
            n["doc"]["words"].append([8])
            n["px"]["words"].append([8])
            return n


def neg_shell_rt(cases):
    for c in cases:
        if c["args"]:
            n = json.loads(json.dumps(c))
            n["args"].append([8])
            return n


def neg_pkg_split(cases):
    for c in cases:
        if not c["doc"]["out"] and c["doc"]["parts"] and c["doc"] == c["px"] and not c["dashc"]:
            n = json.loads(json.dumps(c))
            n["doc"]["parts"].append([6, 8])
            n["px"]["parts"].append([6, 8])
            return n


def neg_pkg_rt(cases):
    for c in cases:
        if c["args"]:
            n = json.loads(json.dumps(c))
            n["args"] = n["args"] + [[6, 8]]
            n["px"] = {"out": True, "parts": []}
            return n


def neg_legacy(cases):
    for c in cases:
        n = json.loads(json.dumps(c))
        n["truth"][5] = not n["truth"][5]
        n["neg"] = True
        return n


def neg_gobuild(cases):
    for c in cases:
        n = json.loads(json.dumps(c))
        n["truth"][5] = not n["truth"][5]
        return n


def neg_tagsflag(cases):
    for c in cases:
        n = json.loads(json.dumps(c))
        n["union"] = n["union"] + [[3]]
        return n


def neg_brace(cases):
    for c in cases:
        if not c["braces"]:
            n = json.loads(json.dumps(c))
            n["exp"] = n["exp"] + [5]
            return n


def neg_dollar(cases):
    for c in cases:
        if not c["cmd"]:
            n = json.loads(json.dumps(c))
            n["exp"] = n["exp"] + [8]
            n["args"] = [n["exp"]]
            return n


# --------------------------------------------------------------------------- classification of disagreements
# returns (key, description).  Keys name a defect CLASS defined on the input (or on the layer-B explanation), so that
# they do not depend on the seed; anything that falls in no class is keyed by its own input.

def cls_shell_split(m):
    return "shell-split:%s:%s" % (m["kind"], toks_key(m["inp"])), \
        "Parse(%r) = %r err=%r; documented: %r err=%s" % (m["input"], m["got"], m["goterr"], m["want_doc"], m["want_doc_err"])


def cls_shell_rt(m):
    return "shell-roundtrip:%s:%s" % (m["kind"], "/".join(toks_key(a) for a in m["argtoks"])), \
        "Parse(Quote(%r)) = %r err=%r (command line %r)" % (m["args"], m["got"], m["goterr"], m["input"])


def cls_pkg_split(m):
    if m["kind"] == "altered-outside-domain":
        return "pkgsplit:not-a-flag:first-character-replaced", \
            "input that does not start with '-' is silently altered: SplitPkgConfigFlags(%r) = %r" % (m["input"], m["got"])
    if m.get("dashc"):
        return "pkgsplit:dash-right-after-flag-character", \
            "SplitPkgConfigFlags(%r) = %r, documented %r: a '-' directly after the flag character starts a new part" % (
                m["input"], m["got"], m["want_doc"])
    if any(w and w[-1] in " \t" for w in m["want_doc"]):
        return "pkgsplit:trailing-escaped-blank", \
            "SplitPkgConfigFlags(%r) = %r, documented %r: an escaped blank at the end of the content is dropped" % (
                m["input"], m["got"], m["want_doc"])
    return "pkgsplit:%s:%s" % (m["kind"], toks_key(m["inp"])), \
        "SplitPkgConfigFlags(%r) = %r, documented %r" % (m["input"], m["got"], m["want_doc"])


def cls_pkg_rt(m):
    a = m["argtoks"]   # with the leading dash
    if any(len(x) > 2 and x[2] == 6 for x in a):
        return "pkgsplit:dash-right-after-flag-character", \
            "flags %r written as %r split into %r" % (m["args"], m["input"], m["got"])
    if any(len(x) > 2 and x[-1] in (1, 2) for x in a):
        return "pkgsplit:trailing-escaped-blank", \
            "flags %r written as %r split into %r" % (m["args"], m["input"], m["got"])
    return "pkgsplit:roundtrip:%s" % "/".join(toks_key(x) for x in a), \
        "flags %r written as %r split into %r" % (m["args"], m["input"], m["got"])


def cls_tags(m):
    if m["kind"] == "legacy-eval":
        return "tags:legacy:%s:%s" % (m["line"].replace(" ", "_"), "+".join(m["tags"])), \
            "CheckTags(%r) says %r for `%s`, the go tool says %r" % (m["flags"], m["got"], m["line"], m["want"])
    return "tags:%s:%s" % (m["kind"], "|".join(m["flags"]).replace(" ", "_")), \
        "%s: flags %r got %r want %r" % (m["kind"], m["flags"], m.get("got"), m.get("want"))


def cls_brace(m):
    if m["explained_by_layerB"]:
        return "expand-brace:key-by-key-replacement", \
            "ExpandEnvWithDefault(%r, A=%r B=%r default=%r) gave %r in %d runs; simultaneous substitution gives %r" % (
                m["template"], m["A"], m["B"], m["default"], m["got_counts"], m["runs"], m["want"])
    return "expand-brace:%s:%r:%r:%r" % (m["template"], m["A"], m["B"], m["default"]), \
        "ExpandEnvWithDefault(%r, A=%r B=%r default=%r) gave %r; law: %r" % (
            m["template"], m["A"], m["B"], m["default"], m["got_counts"], m["want"])


def cls_dollar(m):
    if m.get("explained_by_layerB"):
        return "expand-dollar:command-output-rescanned", \
            "ExpandEnv(%r) with A=%r B=%r = %r; substituting exactly the referenced values gives %r" % (
                m["template"], m["A"], m["B"], m["got"], m["want"])
    return "expand-dollar:%s:%s:%r:%r" % (m["kind"], m["template"].replace(" ", "_"), m["A"], m["B"]), \
        "%s: template %r A=%r B=%r got %r / %r want %r / %r" % (
            m["kind"], m["template"], m["A"], m["B"], m["got"], m.get("got_args"), m["want"], m.get("want_args"))


CLASS_KEYS = {"pkgsplit:not-a-flag:first-character-replaced", "pkgsplit:dash-right-after-flag-character",
              "pkgsplit:trailing-escaped-blank", "expand-brace:key-by-key-replacement",
              "expand-dollar:command-output-rescanned"}


# --------------------------------------------------------------------------- suites

def suites(tier, sd):
    th = tier == "thorough"

    def sel(prune, mod):
        # quick: from size `prune` on, only cases with hash = seed (mod `mod`) are extended; thorough: everything
        return {"PruneAt": 0 if th else prune, "Sel": 0 if th else sd % mod, "Mod": 1 if th else mod}

    def shell(mode, maxlen=0, maxargs=0, arglen=0, prune=0, mod=1, nb=None):
        d = {"Mode": '"%s"' % mode, "MaxLen": maxlen, "MaxArgs": maxargs, "MaxArgLen": arglen}
        if nb is not None:      # ShellSplit only: with the non-ASCII Unicode space as 10th character
            d["WithNB"] = "TRUE" if nb else "FALSE"
        d.update(sel(prune, mod))
        return d

    def tag(mode, opts=0, terms=0, depth=0, grow=0, flags=0, val=0, prune=0, mod=1):
        d = {"Mode": '"%s"' % mode, "MaxOpts": opts, "MaxTerms": terms, "Depth": depth, "GrowWith": grow,
             "MaxFlags": flags, "MaxVal": val}
        d.update(sel(prune, mod))
        return d

    def exp(mode, segs, prune=0, mod=1):
        d = {"Mode": '"%s"' % mode, "MaxSeg": segs}
        d.update(sel(prune, mod))
        return d

    S = []

    def add(name, module, consts, invs, pkg, test, neg, cls, real=True, cost=1, post=None):
        S.append(dict(name=name, module=module, consts=consts, invs=invs, pkg=pkg, test=test, neg=neg, cls=cls,
                      real=real, cost=cost, post=post))

    add("shell-split", "ShellSplit", shell("split", maxlen=6, prune=4, mod=5, nb=False), ["LawMalformed", "LawPlain", "EmitSplit"],
        "internal/shellparse", "TestVerifC17ShellSplit", neg_shell_split, cls_shell_split, cost=3)
    add("shell-roundtrip-2x3", "ShellSplit", shell("roundtrip", maxargs=2, arglen=3, prune=5, mod=5, nb=False), ["LawRoundTrip", "EmitRoundTrip"],
        "internal/shellparse", "TestVerifC17ShellRoundTrip", neg_shell_rt, cls_shell_rt, cost=3)
    add("shell-split-unispace", "ShellSplit", shell("split", maxlen=5, prune=3, mod=3, nb=True),
        ["LawMalformed", "LawPlain", "EmitSplit"],
        "internal/shellparse", "TestVerifC17ShellSplit", neg_shell_split, cls_shell_split, cost=1)
    add("pkg-split", "PkgConfigSplit", shell("split", maxlen=6, prune=4, mod=5), ["LawNoLoss", "LawPartsStartWithDash", "EmitSplit"],
        "xtool/safesplit", "TestVerifC17PkgSplit", neg_pkg_split, cls_pkg_split, cost=3)
    add("pkg-roundtrip-2x3", "PkgConfigSplit", shell("roundtrip", maxargs=2, arglen=3, prune=5, mod=5), ["LawRoundTrip", "EmitRoundTrip"],
        "xtool/safesplit", "TestVerifC17PkgRoundTrip", neg_pkg_rt, cls_pkg_rt, cost=2)
    add("tags-legacy-2x3", "TagExpr", tag("legacy", opts=2, terms=3, prune=4, mod=3), ["LawLegacyIsDNF", "EmitLegacy"],
        "internal/buildtags", "TestVerifC17Legacy", neg_legacy, cls_tags, cost=2)
    add("tags-gobuild-d2", "TagExpr", tag("gobuild", depth=2), ["LawDeMorgan", "EmitGoBuild"],
        "internal/buildtags", "TestVerifC17GoBuild", neg_gobuild, cls_tags, real=False)
    add("tags-flag", "TagExpr", tag("tagsflag", flags=3, val=2, prune=2, mod=8), ["LawSpelling", "EmitTagsFlag"],
        "internal/buildtags", "TestVerifC17TagsFlag", neg_tagsflag, cls_tags, cost=2)
    add("expand-brace", "Expand", exp("brace", 4, prune=2, mod=6), ["LawLiteralUntouched", "LawCompositional", "EmitBrace"],
        "internal/env", "TestVerifC17Brace", neg_brace, cls_brace, cost=3)
    add("expand-dollar", "Expand", exp("dollar", 3 if th else 2), ["LawLiteralUntouched", "EmitDollar"],
        "xtool/env", "TestVerifC17Dollar", neg_dollar, cls_dollar, post=lambda cs: thin_dollar(cs, th, sd))
    if th:
        add("shell-roundtrip-3x2", "ShellSplit", shell("roundtrip", maxargs=3, arglen=2, nb=False), ["LawRoundTrip", "EmitRoundTrip"],
            "internal/shellparse", "TestVerifC17ShellRoundTrip", neg_shell_rt, cls_shell_rt, cost=3)
        add("pkg-roundtrip-3x2", "PkgConfigSplit", shell("roundtrip", maxargs=3, arglen=2), ["LawRoundTrip", "EmitRoundTrip"],
            "xtool/safesplit", "TestVerifC17PkgRoundTrip", neg_pkg_rt, cls_pkg_rt, cost=2)
        add("tags-legacy-3x2", "TagExpr", tag("legacy", opts=3, terms=2), ["LawLegacyIsDNF", "EmitLegacy"],
            "internal/buildtags", "TestVerifC17Legacy", neg_legacy, cls_tags, cost=2)
        add("tags-gobuild-d3", "TagExpr", tag("gobuild", depth=2, grow=2), ["LawDeMorgan", "EmitGoBuild"],
            "internal/buildtags", "TestVerifC17GoBuild", neg_gobuild, cls_tags, real=False, cost=2)
    return S


def thin_dollar(cases, thorough, sd):
    """every $(...) starts a process (~30 ms here): keep all command-free cases, the one-segment command templates
    with no variable set, and a seeded sample of the other templates with commands"""
    keep, rest = [], []
    for c in cases:
        plain = not c["cmd"] or (len(c["t"]) == 1 and c["a"] == [0] and c["b"] == [0])
        (keep if plain else rest).append(c)
    rnd = random.Random(sd)
    rnd.shuffle(rest)
    return keep + rest[:(1500 if thorough else 80)]


# --------------------------------------------------------------------------- machinery

def tlc_retry(*a, **kw):
    """TLC killed from outside (another check's timeout handler pkills every TLC on the machine): run it again"""
    for attempt in range(3):
        try:
            return C.tlc(*a, **kw)
        except C.Undecided as e:
            if attempt < 2 and ("(rc=143)" in str(e) or "(rc=137)" in str(e) or "(rc=-15)" in str(e)):
                C.log("TLC was terminated from outside, running it again")
                time.sleep(2)
                continue
            raise


BASH_SCRIPT = r'''while IFS= read -r line; do if eval "set -- $line" 2>/dev/null; then printf '%s' "$#"; for a in "$@"; do printf '\037%s' "$a"; done; printf '\n'; else echo ERR; fi; done'''


def posix_selfcheck(chk, cases):
    """validation of the specification only: the POSIX reading of ShellSplit.tla (field px) against a real shell,
    on every emitted string without '$' (the spec has no expansions)"""
    import shutil
    if not shutil.which("bash"):
        chk.assumptions.append("no bash on PATH: the POSIX reading of ShellSplit.tla was not validated against a shell")
        return 0
    sel = [c for c in cases if 7 not in c["inp"]]
    inp = "".join(txt(c["inp"]) + "\n" for c in sel)
    try:
        r = subprocess.run(["bash", "-c", BASH_SCRIPT], input=inp.encode(), capture_output=True, timeout=600)
    except subprocess.TimeoutExpired:
        raise C.Undecided("bash self-validation timed out")
    lines = r.stdout.decode("utf-8", "replace").split("\n")
    if r.returncode != 0 or len(lines) < len(sel):
        raise C.Undecided("bash self-validation did not complete: rc=%s %s" % (r.returncode, r.stderr[-300:]))
    for c, l in zip(sel, lines):
        got = {"err": True, "words": []} if l == "ERR" else {"err": False, "words": l.split("\037")[1:]}
        want = {"err": c["px"]["err"], "words": [txt(w) for w in c["px"]["words"]]}
        if got != want:
            raise C.Undecided("ShellSplit.tla (POSIX reading) disagrees with bash on %r: spec %r, bash %r (spec defect)" % (
                txt(c["inp"]), want, got))
    return len(sel)


def build_testbins(chk):
    common = open(os.path.join(HARNESS, "zz_verif_c17_common_test.go")).read()

    def one(item):
        pkg, (pkgname, hfile) = item
        files = {"zz_verif_c17_common_test.go": common.replace("package PKGNAME", "package " + pkgname, 1),
                 hfile: open(os.path.join(HARNESS, hfile)).read()}
        return pkg, C.gotest_compile_injected(pkg, files, chk.rd.path)

    with ThreadPoolExecutor(max_workers=len(PKGS)) as ex:
        return dict(ex.map(one, PKGS.items()))


def run_suite(chk, s, testbins, workers):
    rd = chk.rd.path
    name = s["name"]
    cfg = os.path.join(rd, name + ".cfg")
    C.write_cfg(cfg, constants=s["consts"], invariants=s["invs"])
    t0 = time.time()
    res = tlc_retry(SPEC, s["module"], cfg, rd, workers=workers, timeout=3000, parse_json=False,
                    java_opts=JAVA if chk.tier == "thorough" else JAVA_QUICK)
    if not res.ok:
        raise C.Undecided("%s: a law of the specification itself failed in TLC (spec defect): %s\n%s" % (
            name, res.violation, res.out[-1500:]))
    cases = list(C.tlc_printed_iter(res))
    if not cases:
        raise C.Undecided("%s emitted no cases" % name)
    if s["post"]:
        cases = s["post"](cases)
    nposix = posix_selfcheck(chk, cases) if s["name"].startswith("shell-split") else 0
    neg = s["neg"](cases)
    if neg is None:
        raise C.Undecided("%s: no case suitable for the negative control" % name)
    cases_path = os.path.join(rd, name + ".ndjson")
    with open(cases_path, "w") as f:
        f.write(json.dumps(neg) + "\n")
        for c in cases:
            f.write(json.dumps(c) + "\n")
    t1 = time.time()
    out = os.path.join(rd, name + ".mismatch.ndjson")
    stats_path = os.path.join(rd, name + ".stats.json")
    env = C.base_env({"VERIF_CASES": cases_path, "VERIF_OUT": out, "VERIF_STATS": stats_path, "TMPDIR": chk.rd.sub("tmp")})
    try:
        r = subprocess.run([testbins[s["pkg"]], "-test.run", s["test"] + "$", "-test.timeout", "3000s"], env=env,
                           capture_output=True, text=True, timeout=3100)
    except subprocess.TimeoutExpired:
        raise C.Undecided("%s: replay timed out" % name)
    if r.returncode != 0 or "VERIF_DONE %d" % (len(cases) + 1) not in r.stdout:
        raise C.Undecided("%s: replay did not complete:\n%s" % (name, (r.stdout + r.stderr)[-2000:]))
    stats = json.load(open(stats_path))
    mism = [json.loads(line) for line in open(out)]
    C.log("%-22s tlc %5.1fs (%d states)  replay %5.1fs  cases %d  disagreements %d" % (
        name, t1 - t0, res.distinct, time.time() - t1, len(cases), len([m for m in mism if m["case"] != 0])))
    return dict(suite=s, res=res, cases=cases, stats=stats, mism=mism, nposix=nposix)


def run_impl_model(chk):
    """layer B, report only: does the key-by-key mechanism refine simultaneous substitution? (it does not)"""
    cfg = os.path.join(chk.rd.path, "expand_implB.cfg")
    C.write_cfg(cfg, constants={"Mode": '"brace"', "MaxSeg": 2, "PruneAt": 0, "Sel": 0, "Mod": 1}, invariants=["LawOrderIndependent"])
    res = tlc_retry(SPEC, "Expand", cfg, chk.rd.path, workers=2, timeout=1200, parse_json=False, java_opts=JAVA)
    return res


def check(chk):
    thorough = chk.tier == "thorough"
    sd = C.seed()
    S = suites(chk.tier, sd)
    only = os.environ.get("VERIF_C17_ONLY")     # debugging aid: run the suites whose name starts with one of these
    if only:
        S = [s for s in S if any(s["name"].startswith(p) for p in only.split(","))]
        chk.assumptions.append("PARTIAL RUN: VERIF_C17_ONLY=" + only)
    testbins = build_testbins(chk)
    if not S:
        raise C.Undecided("no suite selected")
    njobs = 5 if thorough else 6
    workers = max(2, C.NCPU // 5)
    order = sorted(S, key=lambda s: -s["cost"])
    with ThreadPoolExecutor(max_workers=njobs) as ex:
        fut_b = ex.submit(run_impl_model, chk)
        futs = [ex.submit(run_suite, chk, s, testbins, workers) for s in order]
        results = [f.result() for f in futs]
        implb = fut_b.result()
    results.sort(key=lambda r: [s["name"] for s in S].index(r["suite"]["name"]))

    chk.add_tlc(implb, "Expand/implB key-by-key mechanism vs law (report only)")
    chk.cov["impl_model"] = [{"model": "Expand.SeqExpand (ReplaceAll key by key)", "refines_law": implb.ok,
                              "violation": implb.violation}]
    if not implb.ok:
        C.log("note: layer B (key-by-key ReplaceAll) does not refine simultaneous substitution: %s" % implb.violation)

    per_suite = {}
    groups = {}    # key of a defect class (or of one input) -> disagreements of all suites
    for r in results:
        s, name = r["suite"], r["suite"]["name"]
        chk.add_tlc(r["res"], "%s/%s" % (s["module"], name))
        n = len(r["cases"])
        mism = r["mism"]
        # negative control: case 0 carries a deliberately wrong expectation
        if not any(m["case"] == 0 for m in mism):
            raise C.Undecided("%s: negative control not flagged - the replay does not compare anything" % name)
        real = [m for m in mism if m["case"] != 0]
        bad_spec = [m for m in real if m["kind"] == "spec-disagrees-with-reference"]
        if bad_spec:
            raise C.Undecided("%s: the specification disagrees with go/build/constraint (spec defect): %s" % (name, bad_spec[0]))
        chk.cov["evaluations"] += n
        chk.cov["distinct_nontrivial"] += r["stats"].get("nontrivial", 0)
        if s["real"]:
            chk.cov["traces_validated_against_impl"] += n
        per_suite[name] = {"cases": n, "disagreements": len(real), "bounds": {k: v for k, v in s["consts"].items()},
                           "stats": r["stats"], "replayed_into_real_code": s["real"]}
        if r["nposix"]:
            per_suite[name]["posix_reading_validated_against_bash"] = r["nposix"]
        for m in real:
            if m["kind"] == "panic":
                key, desc = "%s:panic" % name, "the function panicked: %s on %s" % (m["detail"], m["line"][:200])
            else:
                key, desc = s["cls"](m)
            groups.setdefault(key, []).append((desc, name, m))
        if r["cases"]:
            chk.sample({"suite": name, "case": r["cases"][(sd * 7919) % n]}, limit=len(S))
    # defect classes: one finding per class; disagreements outside every class: the 5 smallest inputs per suite and kind
    singles = {}
    for key, ms in sorted(groups.items()):
        if key in CLASS_KEYS:
            ms.sort(key=lambda dm: (len(json.dumps(dm[2])), json.dumps(dm[2], sort_keys=True)))
            by_suite = {}
            for _, name, _m in ms:
                by_suite[name] = by_suite.get(name, 0) + 1
            chk.reject(key, "%s  [%d cases: %s]" % (ms[0][0], len(ms), ", ".join("%s %d" % kv for kv in sorted(by_suite.items()))),
                       {"count": len(ms), "by_suite": by_suite,
                        "smallest_examples": [dict(m, suite=name) for _, name, m in ms[:12]]})
        else:
            for desc, name, m in ms:
                singles.setdefault((name, m["kind"]), []).append((key, desc, m))
    for (name, kind), ms in sorted(singles.items()):
        ms.sort(key=lambda kdm: (len(json.dumps(kdm[2])), json.dumps(kdm[2], sort_keys=True)))
        for key, desc, m in ms[:5]:
            chk.reject(key, "%s  [one of %d disagreements of kind %s in suite %s]" % (desc, len(ms), kind, name),
                       dict(m, suite=name, disagreements_of_this_kind=len(ms)))
    chk.cov["suites"] = per_suite
    chk.cov["exhaustive"] = thorough
    chk.cov["rule"] = (
        "cases = TLC enumerations: every string over {space,tab,\",',\\,-,$,a,M} of length <= 6 for Parse and "
        "SplitPkgConfigFlags, M = any multi-byte letter, each case replayed with M = e-acute, a-grave (C3 A0), A-ring (C3 85), "
        "ellipsis (E2 80 A6) (quoted round trips also with U+00A0 / U+0085); every string of length <= 5 over that alphabet plus a "
        "non-ASCII Unicode space (U+00A0 and U+0085) for Parse; every argument list (<= 2 args x <= 3 chars; thorough also <= 3 x <= 2) quoted by the documented "
        "producers; every `+build` line of <= 2 options x <= 3 terms (thorough also 3 x 2) over 3 tags x all 8 tag sets, in both "
        "-tags spellings and separators; every go:build tree of depth <= 2 (thorough: + one more level) for the validation of the "
        "spec; every flag list of <= 3 elements for -tags; every {key} template of <= 4 segments x values x defaults, each run 32 "
        "times with both map insertion orders; every $VAR/${VAR}/$(cmd) template of <= 3 (quick 2) segments x values of A (8, incl. $B, ${B}, "
        "$(pkg-config ..), $(other), lone $) and B (4). quick extends, from a suite-specific size on, only the cases whose hash is "
        "VERIF_SEED modulo 3..8 (random subtrees), thorough everything. non-trivial = result differs from the trivial one (words/parts present, truth "
        "table not constant, expansion changes the text), measured by the replay")
    chk.assumptions += [
        "dialect of shellparse.Parse taken from its comments and example table: backslash is special only inside double quotes "
        "before \" or \\; where the documentation is silent (backslash outside quotes, \\$ in double quotes) both the literal and "
        "the POSIX sh reading are accepted, nothing else; touching quoted/unquoted pieces form one word (POSIX, doc silent)",
        "U+00A0 / U+0085 outside quotes: the documentation says only 'spaces'; the unchanged code splits at every unicode.IsSpace "
        "rune, POSIX sh does not: both accepted (the unchanged code takes the first); inside quotes they are literal; for "
        "SplitPkgConfigFlags only space and tab are blanks (doc: 'space'), U+00A0 is not enumerated there",
        "pkg-config grammar taken from the doc comment and example table of safesplit (incl. the table-only rule that an "
        "unescaped blank inside the content is kept as one space); a backslash before a non-blank: literal or quoting, both accepted",
        "/repo has no evaluator of //go:build of its own; those cases validate TagExpr.tla against go/build/constraint only; "
        "legacy lines are evaluated through CheckTags (the grammar of `#cgo <cond>` guards)",
        "several -tags flags: the union documented by llgo's own table is required; the go tool would keep the last one "
        "(counted in suites.tags-flag.stats, not judged)",
        "pkg-config is a stand-in script printing the outputs stated in Expand.tla; cases with $(cmd) are subsampled "
        "(process start ~30 ms): all one-segment templates + a seeded sample",
        "internal/build -X parsing and internal/clang flag merging are not covered (need the llvm14 build; left out for cost)",
    ]


if __name__ == "__main__":
    C.main_wrapper("C17", check)

"""C15, a sixth law (added after seeded change C15-5 was missed):
spec/reflect/ChanStr.tla   the spelling of every channel type of 1..3 nested directions over int (Type.String, %T, the type made
                           by reflect.ChanOf and its identity with the compiled type): parentheses exactly around a receive-only
                           channel that is the element of a bidirectional one.
The cases are rendered into the program of vlib/c15ro.py (one line per type)."""
import os

from . import common as C

SPEC = os.path.join(C.VERIF, "spec", "reflect")
FIELDS = ("string", "percentT", "chanof_string", "chanof_identical")
KW = {"both": "chan", "send": "chan<-", "recv": "<-chan"}
RDIR = {"both": "reflect.BothDir", "send": "reflect.SendDir", "recv": "reflect.RecvDir"}


def gosrc(dirs):
    """fully parenthesised Go source of the type"""
    s = "int"
    for d in reversed(dirs):
        s = "%s (%s)" % (KW[d], s)
    return s


def text(toks):
    return " ".join(toks).replace("( ", "(").replace(" )", ")")


def prepare(chk):
    res = C.tlc(SPEC, "ChanStr", "chanstr.cfg", chk.rd.sub("c15ch"), timeout=600, workers=2, parse_json=False)
    if not res.ok:
        raise C.Undecided("ChanStr violates its own laws: %s" % res.violation)
    chk.add_tlc(res, "ChanStr")
    recs = sorted(C.tlc_printed_iter(res), key=lambda r: (len(r["dirs"]), r["dirs"]))
    if len(recs) != 39:
        raise C.Undecided("ChanStr emitted %d types, 39 expected" % len(recs))
    src = ["""func chanStr(n int, v any, dir reflect.ChanDir, elem reflect.Type) {
	t := reflect.TypeOf(v)
	made, same := "panic", false
	func() {
		defer func() { recover() }()
		m := reflect.ChanOf(dir, elem)
		made, same = m.String(), m == t
	}()
	println("K", n, "|"+t.String()+"|"+fmt.Sprintf("%T", v)+"|"+made+"|", same)
}

func chanStrs() {"""]
    expect, meta = {}, {}
    for n, r in enumerate(recs, 1):
        d = r["dirs"]
        elem = "reflect.TypeOf((%s)(nil))" % gosrc(d[1:]) if len(d) > 1 else "reflect.TypeOf(0)"
        src.append("\tchanStr(%d, (%s)(nil), %s, %s)" % (n, gosrc(d), RDIR[d[0]], elem))
        t = text(r["toks"])
        expect["K %d" % n] = {"string": t, "percentT": t, "chanof_string": t, "chanof_identical": "true"}
        meta["K %d" % n] = r
    src.append("}")
    chk.cov["chan_strings"] = {"types": len(recs), "parenthesised": sum(1 for r in recs if r["class"] == "parenthesised"),
                               "directional_of_recv": sum(1 for r in recs if r["class"] == "directional-of-recv")}
    return "\n".join(src), "\tchanStrs()", expect, meta


def parse_line(ln, out):
    p = ln.split("|")
    if len(p) == 5 and p[0].split()[:1] == ["K"]:
        out["K %s" % p[0].split()[1]] = {"string": p[1], "percentT": p[2], "chanof_string": p[3], "chanof_identical": p[4].strip()}


def key_of(rec, field):
    return "chan-string:%s:%s" % (rec["class"], field)


def describe(rec, field, n, want, got):
    return ("%d types: %s of the channel type %s: Go says %s, llgo-compiled program %s"
            % (n, {"string": "reflect.Type.String()", "percentT": "fmt %T", "chanof_string": "String() of the type made by reflect.ChanOf(dir, elem)",
                   "chanof_identical": "reflect.ChanOf(dir, elem) == reflect.TypeOf(v)"}[field], gosrc(rec["dirs"]),
               (want or {}).get(field), (got or {}).get(field, "no line")))

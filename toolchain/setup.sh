#!/bin/bash
# Build the shim toolchain under /verif/toolchain (idempotent, offline).
set -e
T="$(cd "$(dirname "${BASH_SOURCE[0]}")" && pwd)"
mkdir -p "$T/lib" "$T/bin"
for t in llc llvm-link llvm-nm llvm-ar llvm-readelf llvm-objcopy llvm-objdump llvm-size llvm-strip llvm-dis llvm-as opt lld ld.lld wasm-ld; do
  [ -e "/usr/lib/llvm-14/bin/$t" ] && ln -sf "/usr/lib/llvm-14/bin/$t" "$T/bin/$t"
done
/usr/bin/clang -c "$T/src/uvstub.c" -o "$T/lib/uvstub.o"
rm -f "$T/lib/libuv.a"; /usr/lib/llvm-14/bin/llvm-ar rcs "$T/lib/libuv.a" "$T/lib/uvstub.o"
ln -sf /usr/lib/x86_64-linux-gnu/libgc.so.1 "$T/lib/libgc.so"
cat > "$T/overlay.json" <<EOJ
{"Replace": {"/repo/ssa/zz_verif_opaque.go": "$T/src/zz_verif_opaque.go"}}
EOJ
echo "toolchain ready: $T"

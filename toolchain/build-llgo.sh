#!/bin/bash
# usage: build-llgo.sh <out-binary> [repo-dir]   — builds cmd/llgo from the working tree with hooks on
set -e
T="$(cd "$(dirname "${BASH_SOURCE[0]}")" && pwd)"
. "$T/env.sh"
OUT="$1"; REPO="${2:-/repo}"
[ -f "$T/lib/libuv.a" ] || "$T/setup.sh" >/dev/null
OV="$T/overlay.json"
if [ "$REPO" != /repo ]; then
  OV="$(mktemp)"; echo "{\"Replace\": {\"$REPO/ssa/zz_verif_opaque.go\": \"$T/src/zz_verif_opaque.go\"}}" > "$OV"
fi
cd "$REPO" && go build -tags llvm14,dev,verif -overlay "$OV" -o "$OUT" ./cmd/llgo

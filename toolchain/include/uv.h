/* stub: libuv headers are not installed; timers / os/signal / net are not used by generated programs */
#ifndef VERIF_UV_STUB_H
#define VERIF_UV_STUB_H
#include <stdint.h>
typedef struct uv_loop_s { void *data; char pad[1024]; } uv_loop_t;
typedef struct uv_async_s { void *data; uv_loop_t *loop; char pad[256]; } uv_async_t;
typedef struct uv_timer_s { void *data; uv_loop_t *loop; char pad[256]; } uv_timer_t;
typedef struct uv_signal_s { void *data; uv_loop_t *loop; char pad[256]; } uv_signal_t;
typedef struct uv_tcp_s { void *data; uv_loop_t *loop; char pad[128]; struct { char pad[48]; int fd; } io_watcher; char pad2[128]; } uv_tcp_t;
typedef void (*uv_async_cb)(uv_async_t *);
typedef void (*uv_timer_cb)(uv_timer_t *);
typedef void (*uv_signal_cb)(uv_signal_t *, int);
int uv_async_init(uv_loop_t *, uv_async_t *, uv_async_cb);
int uv_timer_start(uv_timer_t *, uv_timer_cb, uint64_t, uint64_t);
int uv_signal_start(uv_signal_t *, uv_signal_cb, int);
int uv_signal_start_oneshot(uv_signal_t *, uv_signal_cb, int);
#endif

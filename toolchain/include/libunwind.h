/* stub: libunwind-dev is not installed; stack traces print nothing, panics still print and exit 2 */
#ifndef VERIF_LIBUNWIND_STUB_H
#define VERIF_LIBUNWIND_STUB_H
#include <stddef.h>
typedef unsigned long unw_word_t;
typedef struct { unw_word_t opaque[128]; } unw_cursor_t;
typedef struct { unw_word_t opaque[128]; } unw_context_t;
#define UNW_REG_IP 16
#define UNW_REG_SP 7
static inline int unw_getcontext(unw_context_t *c) { (void)c; return 0; }
static inline int unw_init_local(unw_cursor_t *c, unw_context_t *x) { (void)c; (void)x; return 0; }
static inline int unw_step(unw_cursor_t *c) { (void)c; return 0; }
static inline int unw_get_reg(unw_cursor_t *c, int r, unw_word_t *v) { (void)c; (void)r; *v = 0; return -1; }
static inline int unw_get_proc_name(unw_cursor_t *c, char *b, size_t n, unw_word_t *o) { (void)c; if (n) b[0] = 0; *o = 0; return -1; }
#endif

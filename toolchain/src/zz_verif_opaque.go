package ssa

import "github.com/xgo-dev/llvm"

// LLVM 14 (the only LLVM in this sandbox) defaults to typed pointers; llgo needs opaque ones.
func init() { llvm.ParseCommandLineOptions([]string{"llgo", "-opaque-pointers"}, "") }

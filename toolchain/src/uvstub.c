/* dummy member so that -luv resolves; all real references are dropped by --gc-sections */
int verif_uv_stub_present = 1;

# source this: environment for building and running llgo from /repo in this sandbox
VERIF_TC="$(cd "$(dirname "${BASH_SOURCE[0]}")" && pwd)"
export VERIF_GOROOT124=/root/go/pkg/mod/golang.org/toolchain@v0.0.1-go1.24.0.linux-amd64
export PATH="$VERIF_GOROOT124/bin:$VERIF_TC/bin:$PATH"
export GOTOOLCHAIN=local GOFLAGS=-mod=mod GOPROXY=off GONOSUMDB='*' GONOSUMCHECK=1 GOFLAGS=-mod=mod
export LLVM_CONFIG="$VERIF_TC/bin/llvm-config"
export LLGO_ROOT="${LLGO_ROOT:-/repo}"

---------------------------------- MODULE Embed ----------------------------------
(***************************************************************************)
(* Layer A for C16: which files a list of //go:embed patterns embeds.      *)
(*                                                                         *)
(* Transcribed from the documentation of package embed, of path.Match,     *)
(* of io/fs.ValidPath and of golang.org/x/mod/module.CheckFilePath, i.e.   *)
(* the rules the go command applies (not from llgo's code):                *)
(*   - a pattern is a slash-separated path.Match glob, relative to the     *)
(*     package directory (whose own location and name play no role);       *)
(*     it must not contain "." / ".." / empty elements,                    *)
(*     nor begin or end with a slash, nor be "."; the optional prefix      *)
(*     "all:" only changes how directories are walked;                     *)
(*   - the glob is matched element by element against directory entries    *)
(*     (a leading dot is NOT special for globs);                           *)
(*   - a match must lie in the package's module: no directory from the     *)
(*     match up to the package directory may contain go.mod, may be        *)
(*     reached through a symbolic link, or may carry a name that cannot    *)
(*     be part of a module (punctuation " * < > ? ` ' | / \ :, reserved    *)
(*     Windows device names, trailing dot, .git .hg .svn .bzr);            *)
(*   - a matched regular file is embedded (hidden or not: it was named);   *)
(*   - a matched directory embeds every regular file below it,             *)
(*     recursively, except entries whose name begins with "." or "_"       *)
(*     (unless all:), entries with unusable names, nested modules and      *)
(*     irregular files; a directory that yields nothing is an error;       *)
(*   - a matched symbolic link (any irregular file) is an error;           *)
(*   - each pattern must embed at least one file;                          *)
(*   - the result of a list of patterns is the union (a set: duplicates    *)
(*     collapse); if any pattern fails the whole list is rejected.         *)
(* embed.FS additionally stores the files plus their parent directories,   *)
(* sorted by directory then element name (FSEntries).                      *)
(*                                                                         *)
(* Text is modelled as sequences of one-character strings.  "U" stands for *)
(* one non-ASCII letter (the harness writes U+00E9).                       *)
(***************************************************************************)
EXTENDS Integers, Sequences, FiniteSets, SequencesExt

CONSTANTS NameUniverse,   \* the finite set of entry names the model uses  (only to tabulate IsBadName / SegMatch once)
          PatUniverse     \* the finite set of patterns the model uses

U == "U"

\* ------------------------------------------------------------------ characters
\* every character used by names or patterns, in increasing code-point (= UTF-8 byte) order
ByteOrder == <<" ", "*", "-", ".", "/", ":", "?", "[", "\\", "]", "^", "_",
               "a", "b", "c", "d", "e", "f", "g", "h", "i", "j", "k", "l", "m", "n", "o", "p", "q", "r", "s",
               "t", "u", "v", "w", "x", "y", "z", U>>
RankTab == [c \in { ByteOrder[i] : i \in 1..Len(ByteOrder) } |-> CHOOSE i \in 1..Len(ByteOrder) : ByteOrder[i] = c]
Rank(c) == RankTab[c]

\* s < t as strings (byte order)
LexLess(s, t) ==
  \E i \in 1..(IF Len(s) < Len(t) THEN Len(s) ELSE Len(t)) + 1 :
     /\ \A j \in 1..i-1 : s[j] = t[j]
     /\ \/ i = Len(s) + 1 /\ i <= Len(t)
        \/ i <= Len(s) /\ i <= Len(t) /\ Rank(s[i]) < Rank(t[i])

\* ------------------------------------------------------------------ names (module.CheckFilePath + VCS directories)
Letters == {"a", "b", "c", "d", "e", "f", "g", "h", "i", "j", "k", "l", "m", "n", "o", "p", "q", "r", "s",
            "t", "u", "v", "w", "x", "y", "z", U}
Digits == {"0", "1", "2", "3", "4", "5", "6", "7", "8", "9"}
AllowedPunct == {"!", "#", "$", "%", "&", "(", ")", "+", ",", "-", ".", "=", "@", "[", "]", "^", "_", "{", "}", "~", " "}
NameCharOK(c) == c \in Letters \cup Digits \cup AllowedPunct

Reserved == { <<"c", "o", "n">>, <<"p", "r", "n">>, <<"a", "u", "x">>, <<"n", "u", "l">> }
            \cup { <<"c", "o", "m", d>> : d \in Digits \ {"0"} } \cup { <<"l", "p", "t", d>> : d \in Digits \ {"0"} }
VCS == { <<".", "b", "z", "r">>, <<".", "h", "g">>, <<".", "g", "i", "t">>, <<".", "s", "v", "n">> }

BeforeDot(n) == IF \E i \in DOMAIN n : n[i] = "."
                  THEN SubSeq(n, 1, (CHOOSE i \in DOMAIN n : n[i] = "." /\ \A j \in 1..i-1 : n[j] # ".") - 1)
                  ELSE n

IsBadName(n) ==
  \/ n = <<>>
  \/ \A i \in DOMAIN n : n[i] = "."
  \/ n[Len(n)] = "."
  \/ \E i \in DOMAIN n : ~NameCharOK(n[i])
  \/ BeforeDot(n) \in Reserved          \* (case-insensitive in the reference; the model has lower case only)
  \/ n \in VCS

Hidden(n) == n[1] \in {".", "_"}

BadTab == [n \in NameUniverse |-> IsBadName(n)]        \* IsBadName, tabulated over the model's names
Bad(n) == BadTab[n]

\* ------------------------------------------------------------------ patterns
AllPrefix == <<"a", "l", "l", ":">>
HasAll(p) == Len(p) >= 4 /\ SubSeq(p, 1, 4) = AllPrefix
GlobOf(p) == IF HasAll(p) THEN SubSeq(p, 5, Len(p)) ELSE p

Split(s) ==
  LET RECURSIVE F(_, _, _)
      F(i, cur, acc) == IF i > Len(s) THEN Append(acc, cur)
                        ELSE IF s[i] = "/" THEN F(i + 1, <<>>, Append(acc, cur))
                        ELSE F(i + 1, Append(cur, s[i]), acc)
  IN F(1, <<>>, <<>>)

\* io/fs.ValidPath minus "."
ValidPath(g) == g # <<>> /\ LET sp == Split(g) IN \A i \in DOMAIN sp : sp[i] \notin { <<>>, <<".">>, <<".", ".">> }

\* path.Match grammar:  term = '*' | '?' | '[' ['^'] {range} ']' | c | '\\' c ;  range = c | '\\' c | lo '-' hi
BadClass == [ok |-> FALSE, neg |-> FALSE, rs |-> <<>>, next |-> 0]
ParseClass(s, j0) ==
  LET neg == j0 <= Len(s) /\ s[j0] = "^"
      j1  == IF neg THEN j0 + 1 ELSE j0
      NoC == [ok |-> FALSE, c |-> "", next |-> 0]
      GetC(j) == IF j > Len(s) THEN NoC
                 ELSE IF s[j] \in {"-", "]"} THEN NoC
                 ELSE IF s[j] = "\\" THEN (IF j + 1 > Len(s) THEN NoC ELSE [ok |-> TRUE, c |-> s[j + 1], next |-> j + 2])
                 ELSE [ok |-> TRUE, c |-> s[j], next |-> j + 1]
      RECURSIVE R(_, _)
      R(j, rs) == IF j > Len(s) THEN BadClass
                  ELSE IF s[j] = "]" /\ rs # <<>> THEN [ok |-> TRUE, neg |-> neg, rs |-> rs, next |-> j + 1]
                  ELSE LET lo == GetC(j) IN
                       IF ~lo.ok THEN BadClass
                       ELSE IF lo.next <= Len(s) /\ s[lo.next] = "-"
                              THEN LET hi == GetC(lo.next + 1) IN
                                   IF ~hi.ok THEN BadClass ELSE R(hi.next, Append(rs, <<lo.c, hi.c>>))
                              ELSE R(lo.next, Append(rs, <<lo.c, lo.c>>))
  IN R(j1, <<>>)

BadTerms == [ok |-> FALSE, ts |-> <<>>]
RECURSIVE ParseTerms(_, _, _)
ParseTerms(s, i, acc) ==
  IF i > Len(s) THEN [ok |-> TRUE, ts |-> acc]
  ELSE IF s[i] = "*" THEN ParseTerms(s, i + 1, Append(acc, [t |-> "star"]))
  ELSE IF s[i] = "?" THEN ParseTerms(s, i + 1, Append(acc, [t |-> "any"]))
  ELSE IF s[i] = "\\" THEN (IF i + 1 > Len(s) THEN BadTerms ELSE ParseTerms(s, i + 2, Append(acc, [t |-> "lit", c |-> s[i + 1]])))
  ELSE IF s[i] = "[" THEN (LET c == ParseClass(s, i + 1) IN
                           IF ~c.ok THEN BadTerms ELSE ParseTerms(s, c.next, Append(acc, [t |-> "cls", neg |-> c.neg, rs |-> c.rs])))
  ELSE ParseTerms(s, i + 1, Append(acc, [t |-> "lit", c |-> s[i]]))

Terms(seg) == ParseTerms(seg, 1, <<>>)

TermOK(t, c) ==
  CASE t.t = "any" -> TRUE
    [] t.t = "lit" -> c = t.c
    [] t.t = "cls" -> (\E i \in DOMAIN t.rs : Rank(t.rs[i][1]) <= Rank(c) /\ Rank(c) <= Rank(t.rs[i][2])) # t.neg

RECURSIVE MatchT(_, _, _, _)
MatchT(ts, i, name, j) ==
  IF i > Len(ts) THEN j > Len(name)
  ELSE IF ts[i].t = "star" THEN \E k \in j..Len(name) + 1 : MatchT(ts, i + 1, name, k)
  ELSE j <= Len(name) /\ TermOK(ts[i], name[j]) /\ MatchT(ts, i + 1, name, j + 1)

\* one pattern element against one directory-entry name ("/" never occurs in a name)
SegMatch(seg, name) == LET p == Terms(seg) IN p.ok /\ MatchT(p.ts, 1, name, 1)

\* a usable //go:embed glob: well-formed for path.Match, a valid slash path, not "."
ValidPattern(g) == ValidPath(g) /\ LET sp == Split(g) IN \A i \in DOMAIN sp : Terms(sp[i]).ok

\* the same three operators tabulated over the model's patterns and names
PatTab == [p \in PatUniverse |-> LET g == GlobOf(p) IN [all |-> HasAll(p), valid |-> ValidPattern(g), segs |-> Split(g)]]
SegUniverse == UNION { { PatTab[p].segs[i] : i \in DOMAIN PatTab[p].segs } : p \in { q \in PatUniverse : PatTab[q].valid } }
MatchTab == [seg \in SegUniverse |-> { n \in NameUniverse : SegMatch(seg, n) }]

\* ------------------------------------------------------------------ the directory
\* fs: set of entries [p |-> path (sequence of names), k |-> kind];  kinds: "f" regular file, "d" directory,
\* "m" directory that contains go.mod, "l"/"L" symbolic link to the sibling LinkA / LinkSub.
GOMOD == <<"g", "o", ".", "m", "o", "d">>
LinkA == <<"a">>
LinkSub == <<"s", "u", "b">>
NoEntry == [p |-> <<>>, k |-> "none"]
EntryAt(fs, p) == IF \E e \in fs : e.p = p THEN CHOOSE e \in fs : e.p = p ELSE NoEntry
IsDirKind(k) == k \in {"d", "m"}

\* the directory a textual path leads to when symbolic links are followed (stat), if it is one
NotDir == [ok |-> FALSE, p |-> <<>>]
RECURSIVE RealDir(_, _)
RealDir(fs, t) ==
  IF t = <<>> THEN [ok |-> TRUE, p |-> <<>>]
  ELSE LET par == RealDir(fs, Front(t)) IN
       IF ~par.ok THEN NotDir
       ELSE LET e == EntryAt(fs, Append(par.p, Last(t))) IN
            IF IsDirKind(e.k) THEN [ok |-> TRUE, p |-> e.p]
            ELSE IF e.k \in {"l", "L"}
                   THEN LET tg == EntryAt(fs, Append(par.p, IF e.k = "l" THEN LinkA ELSE LinkSub)) IN
                        IF IsDirKind(tg.k) THEN [ok |-> TRUE, p |-> tg.p] ELSE NotDir
            ELSE NotDir

\* kind of the entry a textual path names, not following a final symbolic link (lstat)
LKind(fs, t) == LET par == RealDir(fs, Front(t)) IN
                IF ~par.ok THEN "none" ELSE EntryAt(fs, Append(par.p, Last(t))).k

Children(fs, d) == { e.p[Len(e.p)] : e \in { x \in fs : Len(x.p) = Len(d) + 1 /\ SubSeq(x.p, 1, Len(d)) = d } }

\* textual paths matched by the glob elements segs[1..i]
RECURSIVE GlobMatches(_, _, _)
GlobMatches(fs, segs, i) ==
  IF i = 0 THEN { <<>> }
  ELSE UNION { LET d == RealDir(fs, t) IN
               IF ~d.ok THEN {} ELSE { Append(t, n) : n \in Children(fs, d.p) \cap MatchTab[segs[i]] }
               : t \in GlobMatches(fs, segs, i - 1) }

\* directory-listing order of matches: element by element
RECURSIVE PathLess(_, _)
PathLess(p, q) == IF p = <<>> THEN q # <<>>
                  ELSE IF q = <<>> THEN FALSE
                  ELSE IF p[1] = q[1] THEN PathLess(Tail(p), Tail(q))
                  ELSE LexLess(p[1], q[1])

\* why a match lies outside the module ("" if it does not); looked at from the match upwards
OutsideModule(fs, t) ==
  LET RECURSIVE Up(_)
      Up(j) == IF j = 0 THEN ""
               ELSE LET pre == SubSeq(t, 1, j)
                        rd  == RealDir(fs, pre)
                    IN IF rd.ok /\ EntryAt(fs, Append(rd.p, GOMOD)).k # "none" THEN "module"
                       ELSE IF j < Len(t) /\ ~IsDirKind(LKind(fs, pre)) THEN "nondir"
                       ELSE IF Bad(t[j]) THEN "badname"
                       ELSE Up(j - 1)
  IN Up(Len(t))

\* regular files a directory match contributes
Walk(fs, d, all) ==
  { e.p : e \in { x \in fs :
        /\ x.k = "f" /\ Len(x.p) > Len(d) /\ SubSeq(x.p, 1, Len(d)) = d
        /\ \A j \in Len(d) + 1..Len(x.p) : ~Bad(x.p[j]) /\ (all \/ ~Hidden(x.p[j]))
        /\ \A j \in Len(d) + 1..Len(x.p) - 1 : EntryAt(fs, SubSeq(x.p, 1, j)).k = "d" } }

Err(c) == [ok |-> FALSE, e |-> c, f |-> {}]
Ok(files) == [ok |-> TRUE, e |-> "", f |-> files]

\* error classes: syntax, nomatch, module, nondir, badname, irregular, emptydir
ResolveOne(fs, pat) ==
  LET all == PatTab[pat].all
  IN IF ~PatTab[pat].valid THEN Err("syntax")
     ELSE LET segs == PatTab[pat].segs
              ord  == SetToSortSeq(GlobMatches(fs, segs, Len(segs)), PathLess)
              One(t) == LET why == OutsideModule(fs, t)
                            k   == LKind(fs, t)
                        IN IF why # "" THEN Err(why)
                           ELSE IF k = "f" THEN Ok({t})
                           ELSE IF k = "d" THEN (LET w == Walk(fs, t, all) IN IF w = {} THEN Err("emptydir") ELSE Ok(w))
                           ELSE Err("irregular")
              \* matches are examined in directory order; the first unusable one rejects the pattern
              RECURSIVE Go(_, _)
              Go(i, acc) == IF i > Len(ord) THEN (IF acc = {} THEN Err("nomatch") ELSE Ok(acc))
                            ELSE LET o == One(ord[i]) IN IF ~o.ok THEN o ELSE Go(i + 1, acc \cup o.f)
          IN Go(1, {})

\* a list of patterns, given the outcome of each: all must succeed; the result is the union
Combine(rs) == IF \E i \in DOMAIN rs : ~rs[i].ok
                 THEN [ok |-> FALSE, e |-> [i \in DOMAIN rs |-> rs[i].e], f |-> {}]
                 ELSE [ok |-> TRUE, e |-> <<>>, f |-> UNION { rs[i].f : i \in DOMAIN rs }]

RECURSIVE ResolveEach(_, _)
ResolveEach(fs, pats) == IF pats = <<>> THEN <<>> ELSE <<ResolveOne(fs, Head(pats))>> \o ResolveEach(fs, Tail(pats))
Resolve(fs, pats) == Combine(ResolveEach(fs, pats))

\* ------------------------------------------------------------------ embed.FS table
RECURSIVE Flat(_)
Flat(p) == IF Len(p) = 1 THEN p[1] ELSE p[1] \o <<"/">> \o Flat(Tail(p))

DirKey(p) == IF Len(p) = 1 THEN <<".">> ELSE Flat(Front(p))
FSLess(x, y) == \/ LexLess(x.dk, y.dk)
                \/ x.dk = y.dk /\ LexLess(Last(x.p), Last(y.p))

\* the files plus every parent directory, sorted by (directory, element)
FSEntries(files) ==
  SetToSortSeq({ [p |-> p, dir |-> FALSE, dk |-> DirKey(p)] : p \in files }
               \cup UNION { { [p |-> SubSeq(p, 1, j), dir |-> TRUE, dk |-> DirKey(SubSeq(p, 1, j))] : j \in 1..Len(p) - 1 } : p \in files },
               FSLess)

\* the file list in byte order of the slash-joined names
SortedFiles(files) == LET fl == SetToSortSeq({ [p |-> p, s |-> Flat(p)] : p \in files }, LAMBDA x, y : LexLess(x.s, y.s))
                      IN [i \in 1..Len(fl) |-> fl[i].p]
=====================================================================================

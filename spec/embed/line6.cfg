SPECIFICATION Spec
CONSTANTS MaxLen = 6  Sel = 0  Mod = 1
INVARIANTS LawNoInvention LawPlainSplit Emit
CHECK_DEADLOCK FALSE

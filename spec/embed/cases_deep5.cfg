\* every tree of <= 5 nodes, depth <= 3, over {a, .h, ln, mod, sub} / {a, .h, _u, mod, sub}
SPECIFICATION Spec
CONSTANTS
  MaxNodes = 5  MaxDepth = 3
  TopNames = {1,3,10,11,12}  InnerNames = {1,3,4,11,12}
  Sel = 0  Mod = 1  Always = 0  PruneFrom = 99  PruneMod = 1
  NameUniverse <- AllNames
  PatUniverse <- AllPats
INVARIANTS Header Judge
CHECK_DEADLOCK FALSE

-------------------------------- MODULE EmbedCases --------------------------------
(***************************************************************************)
(* Case generator for C16.  TLC builds every package directory tree within *)
(* the bounds node by node (in sorted order, so each tree arises once and  *)
(* the work is spread over the workers) and prints, for every tree, what   *)
(* Embed!Resolve prescribes for every pattern of Pats and for every list   *)
(* of two patterns over PairPats.  The harness materialises each tree and  *)
(* replays every pattern list into the real internal/goembed.              *)
(*                                                                         *)
(* Every package directory holds its Go source file (z.go); a directory of *)
(* kind "m" holds a go.mod.  Names are chosen to hit each rule: plain      *)
(* (a, b.txt), hidden (.h), underscore (_u), VCS (.git), space (x y),      *)
(* non-ASCII (U), forbidden punctuation (c:d), reserved device name (aux), *)
(* symbolic link (ln), nested module (mod), sub-directory (sub), and a     *)
(* sibling directory sub-x: "sub-x/" sorts before "sub/" as a string but   *)
(* after it in the (directory, element) order embed.FS searches by.        *)
(***************************************************************************)
EXTENDS Embed, TLC, Json

CONSTANTS MaxNodes,    \* explicit nodes besides z.go / go.mod
          MaxDepth,    \* longest path
          TopNames,    \* name indices usable in the package directory
          InnerNames,  \* name indices usable below
          Sel, Mod,    \* seed filter: keep trees with hash % Mod = Sel (Mod = 1 keeps all) ...
          Always,      \* ... and every tree with at most this many nodes
          PruneFrom, PruneMod   \* sampling of the search itself: a tree with >= PruneFrom nodes is grown further only
                                \* if hash % PruneMod = Sel % PruneMod  (PruneMod = 1: the full graph)

NameTab == << <<"a">>,                        \*  1
              <<"b", ".", "t", "x", "t">>,    \*  2
              <<".", "h">>,                   \*  3
              <<"_", "u">>,                   \*  4
              <<".", "g", "i", "t">>,         \*  5
              <<"x", " ", "y">>,              \*  6
              <<U>>,                          \*  7
              <<"c", ":", "d">>,              \*  8
              <<"a", "u", "x">>,              \*  9
              <<"l", "n">>,                   \* 10
              <<"m", "o", "d">>,              \* 11
              <<"s", "u", "b">>,              \* 12
              <<"s", "u", "b", "-", "x">> >>  \* 13  a directory whose name extends "sub" by a byte below "/"
KindsOf == << {"f", "d"}, {"f"}, {"f", "d"}, {"f", "d"}, {"d"}, {"f"}, {"f"}, {"f", "d"}, {"f"}, {"l", "L"}, {"m"}, {"d"}, {"d"} >>
KindCode == [k \in {"f", "d", "m", "l", "L"} |-> CASE k = "f" -> 1 [] k = "d" -> 2 [] k = "m" -> 3 [] k = "l" -> 4 [] k = "L" -> 5]
ZGO == <<"z", ".", "g", "o">>

Pats == <<
  <<"a">>,  \*  1  a
  <<"b", ".", "t", "x", "t">>,  \*  2  b.txt
  <<".", "h">>,  \*  3  .h
  <<"_", "u">>,  \*  4  _u
  <<".", "g", "i", "t">>,  \*  5  .git
  <<"x", " ", "y">>,  \*  6  x y
  <<"U">>,  \*  7  U
  <<"c", ":", "d">>,  \*  8  c:d
  <<"a", "u", "x">>,  \*  9  aux
  <<"s", "u", "b">>,  \* 10  sub
  <<"m", "o", "d">>,  \* 11  mod
  <<"l", "n">>,  \* 12  ln
  <<"z", ".", "g", "o">>,  \* 13  z.go
  <<"*">>,  \* 14  *
  <<"?">>,  \* 15  ?
  <<".", "*">>,  \* 16  .*
  <<"*", ".", "t", "x", "t">>,  \* 17  *.txt
  <<"[", "a", "-", "c", "]", "*">>,  \* 18  [a-c]*
  <<"[", "^", "a", "-", "z", "]", "*">>,  \* 19  [^a-z]*
  <<"\\", "a">>,  \* 20  \a
  <<"s", "u", "b", "/", "*">>,  \* 21  sub/*
  <<"s", "u", "b", "/", "a">>,  \* 22  sub/a
  <<"s", "u", "b", "/", ".", "h">>,  \* 23  sub/.h
  <<"s", "u", "b", "/", "s", "u", "b">>,  \* 24  sub/sub
  <<"s", "u", "b", "/", "s", "u", "b", "/", "a">>,  \* 25  sub/sub/a
  <<"s", "u", "b", "/", "s", "u", "b", "/", "*">>,  \* 26  sub/sub/*
  <<"s", "u", "b", "/", "m", "o", "d">>,  \* 27  sub/mod
  <<"*", "/", "a">>,  \* 28  */a
  <<"*", "/", "*">>,  \* 29  */*
  <<"a", "/", "a">>,  \* 30  a/a
  <<"a", "/", "*">>,  \* 31  a/*
  <<".", "h", "/", "a">>,  \* 32  .h/a
  <<".", "h", "/", "*">>,  \* 33  .h/*
  <<"m", "o", "d", "/", "a">>,  \* 34  mod/a
  <<"m", "o", "d", "/", "g", "o", ".", "m", "o", "d">>,  \* 35  mod/go.mod
  <<"l", "n", "/", "a">>,  \* 36  ln/a
  <<"l", "n", "/", "*">>,  \* 37  ln/*
  <<"c", ":", "d", "/", "a">>,  \* 38  c:d/a
  <<".", "g", "i", "t", "/", "a">>,  \* 39  .git/a
  <<"*", "/", ".", "h">>,  \* 40  */.h
  <<"a", "l", "l", ":", "a">>,  \* 41  all:a
  <<"a", "l", "l", ":", "s", "u", "b">>,  \* 42  all:sub
  <<"a", "l", "l", ":", "*">>,  \* 43  all:*
  <<"a", "l", "l", ":", ".", "h">>,  \* 44  all:.h
  <<"a", "l", "l", ":", "s", "u", "b", "/", "s", "u", "b">>,  \* 45  all:sub/sub
  <<"a", "l", "l", ":", "s", "u", "b", "/", "*">>,  \* 46  all:sub/*
  <<"a", "l", "l", ":", "_", "u">>,  \* 47  all:_u
  <<"a", "l", "l", ":", "m", "o", "d">>,  \* 48  all:mod
  <<"a", "l", "l", ":", "l", "n">>,  \* 49  all:ln
  <<"a", "l", "l", ":", "a", "l", "l", ":", "a">>,  \* 50  all:all:a
  <<".", ".">>,  \* 51  ..
  <<"/", "a">>,  \* 52  /a
  <<".">>,  \* 53  .
  <<>>,  \* 54  (empty)
  <<"a", "/">>,  \* 55  a/
  <<"s", "u", "b", "/", "/", "a">>,  \* 56  sub//a
  <<".", "/", "a">>,  \* 57  ./a
  <<"s", "u", "b", "/", ".", ".", "/", "a">>,  \* 58  sub/../a
  <<"s", "u", "b", "/", ".">>,  \* 59  sub/.
  <<"[">>,  \* 60  [
  <<"a", "\\">>,  \* 61  a\
  <<"a", "l", "l", ":">>,  \* 62  all:
  <<"a", "l", "l", ":", ".">>,  \* 63  all:.
  <<"a", "l", "l", ":", "/", "a">>,  \* 64  all:/a
  <<"[", "a", "-", "]">>   \* 65  [a-]
>>
NP == Len(Pats)

\* lists of two patterns: every ordered pair (duplicates included) over these
PairPats == <<1, 2, 3, 4, 10, 11, 12, 14, 15, 21, 22, 24, 28, 42, 43, 51>>
NQ == Len(PairPats)
Pairs == [k \in 1..NQ * NQ |-> <<PairPats[((k - 1) \div NQ) + 1], PairPats[((k - 1) % NQ) + 1]>>]

VARIABLES tree,   \* set of [p |-> sequence of name indices, k |-> kind]
          last,   \* path of the node added last (nodes are added in increasing order)
          h       \* running hash for the seed filter
vars == <<tree, last, h>>

RECURSIVE IdxLess(_, _)
IdxLess(p, q) == IF p = <<>> THEN q # <<>>
                 ELSE IF q = <<>> THEN FALSE
                 ELSE IF p[1] = q[1] THEN IdxLess(Tail(p), Tail(q))
                 ELSE p[1] < q[1]

\* trees emitted on every run whatever the seed and the bounds (they are not grown further: `last` is beyond every path):
\* sibling directories sub and sub-x, each holding files, in the package directory and one level down
N(p, k) == [p |-> p, k |-> k]
FixedTrees == {
  { N(<<12>>, "d"), N(<<12, 1>>, "f"), N(<<13>>, "d"), N(<<13, 1>>, "f") },
  { N(<<1>>, "f"), N(<<12>>, "d"), N(<<12, 1>>, "f"), N(<<12, 3>>, "f"), N(<<13>>, "d"), N(<<13, 1>>, "f"), N(<<13, 4>>, "f") },
  { N(<<12>>, "d"), N(<<12, 12>>, "d"), N(<<12, 12, 1>>, "f"), N(<<12, 13>>, "d"), N(<<12, 13, 1>>, "f") },
  { N(<<12>>, "d"), N(<<12, 1>>, "f"), N(<<12, 12>>, "d"), N(<<12, 12, 1>>, "f"), N(<<12, 13>>, "d"), N(<<12, 13, 1>>, "f"),
    N(<<13>>, "d"), N(<<13, 1>>, "f"), N(<<13, 12>>, "d"), N(<<13, 12, 1>>, "f") } }

Init == /\ h = 0
        /\ \/ tree = {} /\ last = <<>>
           \/ tree \in FixedTrees /\ last = <<99>>

AddNode ==
  /\ Cardinality(tree) < MaxNodes
  /\ IF Cardinality(tree) < PruneFrom THEN TRUE ELSE (h % PruneMod) = (Sel % PruneMod)
  /\ \E par \in {<<>>} \cup { n.p : n \in { x \in tree : IsDirKind(x.k) } } :
       /\ Len(par) < MaxDepth
       /\ \E i \in (IF par = <<>> THEN TopNames ELSE InnerNames) : \E k \in KindsOf[i] :
            /\ IdxLess(last, Append(par, i))
            /\ tree' = tree \cup { [p |-> Append(par, i), k |-> k] }
            /\ last' = Append(par, i)
            /\ h' = (h * 31 + Len(par) * 101 + i * 7 + KindCode[k]) % 1000003

Next == AddNode
Spec == Init /\ [][Next]_vars

Selected == (h % Mod) = (Sel % Mod) \/ Cardinality(tree) <= Always \/ tree \in FixedTrees

\* ------------------------------------------------------------------ the directory the tree denotes
NamePath(ip) == [j \in 1..Len(ip) |-> NameTab[ip[j]]]
Expand(t) == { [p |-> NamePath(n.p), k |-> n.k] : n \in t }
             \cup { [p |-> Append(NamePath(n.p), GOMOD), k |-> "f"] : n \in { x \in t : x.k = "m" } }
             \cup { [p |-> <<ZGO>>, k |-> "f"] }

\* ------------------------------------------------------------------ universes for Embed's tables
AllNames == { NameTab[i] : i \in 1..Len(NameTab) } \cup { ZGO, GOMOD }
AllPats == { Pats[i] : i \in 1..NP }

\* ------------------------------------------------------------------ sanity of the law itself (checked on every tree)
\* the judged operator on explicit lists is the per-pattern composition used for emission
LawResolveIsCombine(fs, r1) ==
  \A k \in {1, NQ + 2, 2 * NQ + 5} : Resolve(fs, <<Pats[Pairs[k][1]], Pats[Pairs[k][2]]>>) = Combine(<<r1[Pairs[k][1]], r1[Pairs[k][2]]>>)
\* only regular files of the tree are ever embedded, never anything inside a nested module, through a link or below a bad name
LawOnlyRegularInModule(fs, r1) ==
  \A i \in 1..NP : r1[i].ok =>
       /\ r1[i].f # {}
       /\ \A p \in r1[i].f : /\ EntryAt(fs, p).k = "f"
                             /\ \A j \in 1..Len(p) : ~IsBadName(p[j])
                             /\ \A j \in 1..Len(p) - 1 : EntryAt(fs, SubSeq(p, 1, j)).k = "d"
\* all: only ever adds files
LawAllIsSuperset(fs, r1) ==
  \A pr \in {<<1, 41>>, <<10, 42>>, <<14, 43>>, <<21, 46>>, <<24, 45>>, <<3, 44>>, <<4, 47>>} :
       /\ r1[pr[1]].ok => r1[pr[2]].ok /\ r1[pr[1]].f \subseteq r1[pr[2]].f
       /\ ~r1[pr[2]].ok => ~r1[pr[1]].ok
\* an explicitly named regular file in the package directory is embedded whatever its first character
LawNamedHiddenFile(fs, r1) ==
  \A i \in {3, 4} : EntryAt(fs, <<Pats[i]>>).k = "f" => r1[i].ok /\ r1[i].f = { <<Pats[i]>> }

Laws(fs, r1) ==
  /\ LawResolveIsCombine(fs, r1) \/ Assert(FALSE, "LawResolveIsCombine")
  /\ LawOnlyRegularInModule(fs, r1) \/ Assert(FALSE, "LawOnlyRegularInModule")
  /\ LawAllIsSuperset(fs, r1) \/ Assert(FALSE, "LawAllIsSuperset")
  /\ LawNamedHiddenFile(fs, r1) \/ Assert(FALSE, "LawNamedHiddenFile")

\* ------------------------------------------------------------------ emission
RECURSIVE Str(_)
Str(s) == IF s = <<>> THEN "" ELSE s[1] \o Str(Tail(s))
PStr(p) == Str(Flat(p))

\* Where the package directory lives and what it is called is irrelevant to the law.  The harness gives the directory of
\* some trees a name containing glob metacharacters ("meta"), of the others a plain one.
Home == IF h % 5 = 2 THEN "meta" ELSE "plain"

TreeOut == LET s == SetToSortSeq(tree, LAMBDA x, y : IdxLess(x.p, y.p))
           IN [i \in 1..Len(s) |-> [p |-> PStr(NamePath(s[i].p)), k |-> s[i].k]]

Header == (tree = {}) => PrintT(ToJson([pats |-> [i \in 1..NP |-> Str(Pats[i])], pairs |-> Pairs]))

\* per tree:  "files" = the regular files of the directory (slash paths); file sets below are sets of indices into it;
\*   "one"[i] = outcome of the single pattern Pats[i]:                        {f: file set} or {e: class code}
\*   "two"[k] = outcome of the list <<Pats[Pairs[k][1]], Pats[Pairs[k][2]]>>: {f: file set} or {e: one class code per pattern}
\*   class codes: S syntax, N nomatch, M module, D nondir, B badname, I irregular, E emptydir, - this pattern is fine
\*   "fst"    = for every distinct file set some single pattern embeds: the embed.FS table {f: file set, d: entries in order}
Code(c) == CASE c = "syntax" -> "S" [] c = "nomatch" -> "N" [] c = "module" -> "M" [] c = "nondir" -> "D"
             [] c = "badname" -> "B" [] c = "irregular" -> "I" [] c = "emptydir" -> "E" [] c = "" -> "-"
Judge == Selected =>
  LET fs    == Expand(tree)
      r1    == ResolveEach(fs, Pats)
      files == SetToSeq({ e.p : e \in { x \in fs : x.k = "f" } })
      idx   == [p \in { files[i] : i \in 1..Len(files) } |-> CHOOSE i \in 1..Len(files) : files[i] = p]
      Out(r, e) == IF r.ok THEN [f |-> { idx[p] : p \in r.f }] ELSE [e |-> e]
      sets  == SetToSeq({ r1[i].f : i \in { j \in 1..NP : r1[j].ok } })
      FSStrs(s) == [i \in 1..Len(s) |-> IF s[i].dir THEN PStr(s[i].p) \o "/" ELSE PStr(s[i].p)]
  IN /\ Laws(fs, r1)
     /\ PrintT(ToJson([t     |-> TreeOut,
                       home  |-> Home,
                       files |-> [i \in 1..Len(files) |-> PStr(files[i])],
                       one   |-> [i \in 1..NP |-> Out(r1[i], Code(r1[i].e))],
                       two   |-> [k \in 1..NQ * NQ |-> LET r == Combine(<<r1[Pairs[k][1]], r1[Pairs[k][2]]>>) IN Out(r, Code(r.e[1]) \o Code(r.e[2]))],
                       fst   |-> [i \in 1..Len(sets) |-> [f |-> { idx[p] : p \in sets[i] }, d |-> FSStrs(FSEntries(sets[i]))]]]))
=====================================================================================

-------------------------------- MODULE EmbedLine --------------------------------
(***************************************************************************)
(* Layer A for the directive line of C16: what the line comment            *)
(*        "//" lead "go:embed" rest                                        *)
(* means to the Go toolchain (package embed: "patterns are separated by    *)
(* spaces; to allow for naming files with spaces in their names, patterns  *)
(* can be written as Go double-quoted or back-quoted string literals";     *)
(* cmd/compile: a directive is //go:name with nothing between // and go:). *)
(*                                                                         *)
(* Characters are tokens: "s" space, "t" tab, "x" a letter, "Q" the double *)
(* quote, "B" the back quote, "E" the backslash, "A" the apostrophe (which  *)
(* has no meaning in a directive).                                         *)
(* Outcome:                                                                *)
(*   notdirective  an ordinary comment (go:embedx, // go:embed ...)        *)
(*   rejected      a malformed directive: no pattern, unterminated or      *)
(*                 invalid string literal, literal not followed by a space *)
(*   pats          the patterns, in order, with the quoting removed        *)
(*   unspecified   a tab directly after go:embed (go/build and the         *)
(*                 compiler disagree there; nothing is demanded)           *)
(***************************************************************************)
EXTENDS Integers, Sequences, TLC, Json

CONSTANTS MaxLen,     \* longest `rest`
          Sel, Mod    \* seed filter

Sigma == {"s", "t", "x", "Q", "B", "E", "A"}
IsSpace(c) == c \in {"s", "t"}

Rejected == [kind |-> "rejected", ps |-> <<>>]

\* the value of an interpreted string literal body (between the quotes): only \\ and \" are escapes over this alphabet
RECURSIVE Unquote(_, _, _)
Unquote(b, i, acc) ==
  IF i > Len(b) THEN [ok |-> TRUE, v |-> acc]
  ELSE IF b[i] = "E"
         THEN IF i + 1 <= Len(b) /\ b[i + 1] \in {"E", "Q"} THEN Unquote(b, i + 2, Append(acc, b[i + 1]))
              ELSE [ok |-> FALSE, v |-> <<>>]
  ELSE IF b[i] = "Q" THEN [ok |-> FALSE, v |-> <<>>]
  ELSE Unquote(b, i + 1, Append(acc, b[i]))

\* index of the closing double quote of the literal opened at i (escapes skipped), 0 if none
RECURSIVE CloseQ(_, _)
CloseQ(a, j) == IF j > Len(a) THEN 0
                ELSE IF a[j] = "E" THEN CloseQ(a, j + 2)
                ELSE IF a[j] = "Q" THEN j
                ELSE CloseQ(a, j + 1)
RECURSIVE CloseB(_, _)
CloseB(a, j) == IF j > Len(a) THEN 0 ELSE IF a[j] = "B" THEN j ELSE CloseB(a, j + 1)
RECURSIVE EndBare(_, _)
EndBare(a, j) == IF j > Len(a) \/ IsSpace(a[j]) THEN j ELSE EndBare(a, j + 1)

RECURSIVE Fields(_, _, _)
Fields(a, i, acc) ==
  IF i > Len(a) THEN (IF acc = <<>> THEN Rejected ELSE [kind |-> "pats", ps |-> acc])
  ELSE IF IsSpace(a[i]) THEN Fields(a, i + 1, acc)
  ELSE IF a[i] = "B"
         THEN LET j == CloseB(a, i + 1) IN
              IF j = 0 \/ (j < Len(a) /\ ~IsSpace(a[j + 1])) THEN Rejected
              ELSE Fields(a, j + 1, Append(acc, SubSeq(a, i + 1, j - 1)))
  ELSE IF a[i] = "Q"
         THEN LET j == CloseQ(a, i + 1) IN
              IF j = 0 \/ (j < Len(a) /\ ~IsSpace(a[j + 1])) THEN Rejected
              ELSE LET u == Unquote(SubSeq(a, i + 1, j - 1), 1, <<>>) IN
                   IF ~u.ok THEN Rejected ELSE Fields(a, j + 1, Append(acc, u.v))
  ELSE LET j == EndBare(a, i) IN Fields(a, j, Append(acc, SubSeq(a, i, j - 1)))

Meaning(lead, rest) ==
  IF lead # <<>> THEN [kind |-> "notdirective", ps |-> <<>>]
  ELSE IF rest = <<>> THEN Rejected
  ELSE IF rest[1] = "s" THEN Fields(rest, 1, <<>>)
  ELSE IF rest[1] = "t" THEN [kind |-> "unspecified", ps |-> <<>>]
  ELSE [kind |-> "notdirective", ps |-> <<>>]

VARIABLES lead, rest, h
vars == <<lead, rest, h>>

Init == rest = <<>> /\ h = 0 /\ lead \in { <<>>, <<"s">> }
\* only lines that are directives are grown to full length
Next == /\ Len(rest) < (IF lead = <<>> /\ (rest = <<>> \/ rest[1] = "s") THEN MaxLen ELSE 2)
        /\ \E c \in Sigma : /\ rest' = Append(rest, c)
                            /\ h' = (h * 11 + (CASE c = "s" -> 1 [] c = "t" -> 2 [] c = "x" -> 3 [] c = "Q" -> 4 [] c = "B" -> 5 [] c = "E" -> 6 [] c = "A" -> 0)) % 1000003
        /\ UNCHANGED lead
Spec == Init /\ [][Next]_vars

RECURSIVE Str(_)
Str(s) == IF s = <<>> THEN "" ELSE s[1] \o Str(Tail(s))

\* quoting never invents or loses characters: the patterns' characters all occur in the line
LawNoInvention == LET m == Meaning(lead, rest) IN
  m.kind = "pats" => \A i \in DOMAIN m.ps : \A j \in DOMAIN m.ps[i] : \E k \in DOMAIN rest : rest[k] = m.ps[i][j]
\* a line without quote characters is split at white space only
LawPlainSplit == LET m == Meaning(lead, rest) IN
  (lead = <<>> /\ rest # <<>> /\ rest[1] = "s" /\ \A k \in DOMAIN rest : rest[k] \notin {"Q", "B"})
     => IF \A k \in DOMAIN rest : IsSpace(rest[k]) THEN m.kind = "rejected"
        ELSE m.kind = "pats" /\ \A i \in DOMAIN m.ps : m.ps[i] # <<>> /\ \A j \in DOMAIN m.ps[i] : ~IsSpace(m.ps[i][j])

Emit == ((h % Mod) = Sel \/ Len(rest) <= 3) =>
  LET m == Meaning(lead, rest) IN
  PrintT(ToJson([lead |-> Str(lead), rest |-> Str(rest), kind |-> m.kind, ps |-> [i \in DOMAIN m.ps |-> Str(m.ps[i])]]))
=====================================================================================

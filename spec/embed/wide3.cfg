SPECIFICATION Spec
CONSTANTS MaxNodes = 2  MaxDepth = 2  TopNames = {1,2,3,4,5,6,7,8,9,10,11,12}  InnerNames = {1,3,4,10,11,12}  Sel = 0  Mod = 1
  NameUniverse <- AllNames  PatUniverse <- AllPats
INVARIANTS Header Judge
CHECK_DEADLOCK FALSE

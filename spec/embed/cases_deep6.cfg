\* trees of <= 6 nodes, depth <= 3, over {a, .h, _u, ln, mod, sub} / {a, .h, mod, sub}; one twelfth by hash (173 254 in all)
SPECIFICATION Spec
CONSTANTS
  MaxNodes = 6  MaxDepth = 3
  TopNames = {1,3,4,10,11,12}  InnerNames = {1,3,11,12}
  Sel = 0  Mod = 12  Always = 0  PruneFrom = 99  PruneMod = 1
  NameUniverse <- AllNames
  PatUniverse <- AllPats
INVARIANTS Header Judge
CHECK_DEADLOCK FALSE

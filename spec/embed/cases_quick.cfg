\* quick tier: the search itself is sampled - trees of >= 2 nodes are grown further only for one hash class in twelve
SPECIFICATION Spec
CONSTANTS
  MaxNodes = 4  MaxDepth = 2
  TopNames = {1,2,3,4,5,6,7,8,9,10,11,12,13}  InnerNames = {1,3,4,10,11,12}
  Sel = 1  Mod = 1  Always = 2  PruneFrom = 2  PruneMod = 12
  NameUniverse <- AllNames
  PatUniverse <- AllPats
INVARIANTS Header Judge
CHECK_DEADLOCK FALSE

\* every tree of <= 4 nodes over all 12 names, depth <= 2 (thorough tier); the driver writes the same file with its seed
SPECIFICATION Spec
CONSTANTS
  MaxNodes = 4  MaxDepth = 2
  TopNames = {1,2,3,4,5,6,7,8,9,10,11,12,13}  InnerNames = {1,3,4,10,11,12}
  Sel = 0  Mod = 1  Always = 2  PruneFrom = 99  PruneMod = 1
  NameUniverse <- AllNames
  PatUniverse <- AllPats
INVARIANTS Header Judge
CHECK_DEADLOCK FALSE

-------------------------------- MODULE GoBuiltin --------------------------------
(***************************************************************************)
(* Go statements whose callee is not a function value: builtins and the    *)
(* sync/atomic functions, which llgo lowers as intrinsics (no function     *)
(* value travels to the new goroutine; the call is rebuilt inside the      *)
(* goroutine's start routine).  The law is GoStmt's: the call that runs is *)
(* the call written at the statement.  Two go statements in one function,  *)
(* callees b1 and b2 of identical argument types (pointer to a cell, a     *)
(* value), each on its own cell: afterwards each cell shows the effect of  *)
(* ITS callee.  TLC enumerates the ordered pairs and both orders in which  *)
(* the two goroutines may run, and prints the prescribed final cells.      *)
(***************************************************************************)
EXTENDS Naturals, Sequences, TLC, Json, Bitwise

CONSTANTS Builtins      \* subset of {"Add", "Store", "Swap", "And", "Or"}

VARIABLES b1, b2, x, y, ran
vars == <<b1, b2, x, y, ran>>

Init0 == 3      \* initial content of both cells
Arg   == 5      \* the value argument of both calls

Effect(b, cur, v) ==
  CASE b = "Add"   -> cur + v
    [] b = "Store" -> v
    [] b = "Swap"  -> v
    [] b = "And"   -> cur & v
    [] b = "Or"    -> cur | v

Init == /\ b1 \in Builtins /\ b2 \in Builtins
        /\ x = Init0 /\ y = Init0 /\ ran = {}

Run1 == 1 \notin ran /\ x' = Effect(b1, x, Arg) /\ ran' = ran \cup {1} /\ UNCHANGED <<b1, b2, y>>
Run2 == 2 \notin ran /\ y' = Effect(b2, y, Arg) /\ ran' = ran \cup {2} /\ UNCHANGED <<b1, b2, x>>
Next == Run1 \/ Run2
Spec == Init /\ [][Next]_vars

Done == ran = {1, 2}
\* each cell shows its own callee's effect, whatever the order
OwnEffect == Done => x = Effect(b1, Init0, Arg) /\ y = Effect(b2, Init0, Arg)
Emit == Done => PrintT(ToJson([b1 |-> b1, b2 |-> b2, x |-> x, y |-> y]))
=============================================================================

-------------------------------- MODULE GoSyncTrace --------------------------------
(* Trace validation of semaphore / notify-list histories recorded from the real sema_llgo.go
   (same scheme as GoChanTrace: one history per line of traces.ndjson, validated independently). *)
EXTENDS GoSync, TLC, Json, Integers

Traces == ndJsonDeserialize("traces.ndjson")
VARIABLES h, l
tvars == <<cnt, nwait, nnotify, pend, res, ticket, h, l>>
Ev == Traces[h].ev
More == l <= Len(Ev)

Init == /\ h \in 1..Len(Traces) /\ l = 1
        /\ LET tr == Traces[h] IN
             /\ cnt = tr.init
             /\ pend = [t \in 1..tr.n |-> NoOp]
             /\ res = [t \in 1..tr.n |-> <<>>]
             /\ ticket = [t \in 1..tr.n |-> 0]
        /\ nwait = 0 /\ nnotify = 0

TraceCall == /\ More /\ Ev[l].e = "call"
             /\ LET t == Ev[l].t IN /\ ~Pending(t) /\ res[t] = <<>>
                                    /\ pend' = [pend EXCEPT ![t] = Ev[l].op]
             /\ l' = l + 1
             /\ UNCHANGED <<cnt, nwait, nnotify, res, ticket, h>>
TraceRet ==  /\ More /\ Ev[l].e = "ret"
             /\ LET t == Ev[l].t IN /\ ~Pending(t) /\ res[t] = <<Ev[l].r>>
                                    /\ res' = [res EXCEPT ![t] = <<>>]
             /\ l' = l + 1
             /\ UNCHANGED <<cnt, nwait, nnotify, pend, ticket, h>>
TraceEnd ==  /\ More /\ Ev[l].e = "end"
             /\ {t \in Threads : Pending(t)} = {Ev[l].stuck[i] : i \in 1..Len(Ev[l].stuck)}
             /\ \A t \in Threads : res[t] = <<>>
             /\ \A t \in Threads : ~ENABLED Commit(t)
             /\ cnt = Ev[l].cnt /\ nwait = Ev[l].w /\ nnotify = Ev[l].n     \* final counters as observed
             /\ l' = l + 1
             /\ UNCHANGED <<cnt, nwait, nnotify, pend, res, ticket, h>>
Silent == More /\ Step /\ UNCHANGED <<h, l>>
Next == TraceCall \/ TraceRet \/ TraceEnd \/ Silent
Spec == Init /\ [][Next]_tvars
Accepted == ~More
EmitAccepted == Accepted => PrintT(ToJson([acc |-> Traces[h].id]))
Safety == NotifyBounded
=============================================================================

\* the semaphore before the fix: a failed CAS with units left falls through to cond.Wait (lost wake-up);
\* terminal outcomes printed by Emit are not all outcomes of GoSyncProg
SPECIFICATION Spec
CONSTANTS SleepOnLostRace = TRUE  TicketBug = FALSE  SpuriousBudget = 0  defaultInitValue = 0
INVARIANTS WaitersSane Emit
CHECK_DEADLOCK FALSE

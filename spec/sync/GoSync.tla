-------------------------------- MODULE GoSync --------------------------------
(***************************************************************************)
(* Layer A for C11: the contracts of the two primitives Go's sync package  *)
(* is built on and that llgo re-implements with pthreads.                  *)
(*                                                                         *)
(* Semaphore (runtime_Semacquire / runtime_Semrelease on a uint32):        *)
(*   Acquire completes only by consuming one unit; Release adds one unit;  *)
(*   units are conserved; a released unit is available to a blocked        *)
(*   waiter (no lost wake-up: checked at quiescence).                      *)
(* Notify list (sync.Cond): Add hands out tickets 0,1,2,...; Wait(t)       *)
(*   returns only once ticket t has been notified, i.e. t < notify;        *)
(*   NotifyOne notifies the oldest un-notified ticket (if any), NotifyAll  *)
(*   every ticket handed out so far.  Hence a Cond.Wait returns only after *)
(*   a Signal/Broadcast issued after it registered, and Signal releases    *)
(*   the longest waiter.                                                   *)
(* Mutex, RWMutex, WaitGroup and Once are Go's own code on top of these    *)
(* (MutexOverSema models Mutex).                                           *)
(***************************************************************************)
EXTENDS Naturals, Sequences, FiniteSets

VARIABLES cnt,      \* Seq(Nat): units of each semaphore
          nwait,    \* tickets handed out
          nnotify,  \* tickets notified
          pend,     \* [thread -> op in flight | NoOp]
          res,      \* [thread -> Seq(result)]
          ticket    \* [thread -> its last ticket]
syncVars == <<cnt, nwait, nnotify, pend, res, ticket>>

NoOp == [k |-> "none"]
Threads == DOMAIN pend
Pending(t) == pend[t].k # "none"
R(v) == [sel |-> 0, val |-> v, ok |-> FALSE, pan |-> ""]

Complete(t, r) == /\ res' = [res EXCEPT ![t] = Append(@, r)]
                  /\ pend' = [pend EXCEPT ![t] = NoOp]

Acquire(t) == /\ Pending(t) /\ pend[t].k = "acq"
              /\ cnt[pend[t].a + 1] > 0
              /\ cnt' = [cnt EXCEPT ![pend[t].a + 1] = @ - 1]
              /\ Complete(t, R(0))
              /\ UNCHANGED <<nwait, nnotify, ticket>>

Release(t) == /\ Pending(t) /\ pend[t].k = "rel"
              /\ cnt' = [cnt EXCEPT ![pend[t].a + 1] = @ + 1]
              /\ Complete(t, R(0))
              /\ UNCHANGED <<nwait, nnotify, ticket>>

Add(t) == /\ Pending(t) /\ pend[t].k = "add"
          /\ ticket' = [ticket EXCEPT ![t] = nwait]
          /\ nwait' = nwait + 1
          /\ Complete(t, R(nwait))
          /\ UNCHANGED <<cnt, nnotify>>

WaitReturn(t) == /\ Pending(t) /\ pend[t].k = "wait"
                 /\ ticket[t] < nnotify
                 /\ Complete(t, R(0))
                 /\ UNCHANGED <<cnt, nwait, nnotify, ticket>>

NotifyOne(t) == /\ Pending(t) /\ pend[t].k = "one"
                /\ nnotify' = IF nnotify < nwait THEN nnotify + 1 ELSE nnotify
                /\ Complete(t, R(0))
                /\ UNCHANGED <<cnt, nwait, ticket>>

NotifyAll(t) == /\ Pending(t) /\ pend[t].k = "all"
                /\ nnotify' = nwait
                /\ Complete(t, R(0))
                /\ UNCHANGED <<cnt, nwait, ticket>>

Commit(t) == Acquire(t) \/ Release(t) \/ Add(t) \/ WaitReturn(t) \/ NotifyOne(t) \/ NotifyAll(t)
Step == \E t \in Threads : Commit(t)

NotifyBounded == nnotify <= nwait
\* nothing can complete => no waiter's ticket is notified and no acquirer has a unit available
NoLostWakeup == (\A t \in Threads : ~ENABLED Commit(t)) =>
   \A t \in Threads : Pending(t) =>
       /\ (pend[t].k = "wait" => ticket[t] >= nnotify)
       /\ (pend[t].k = "acq"  => cnt[pend[t].a + 1] = 0)
=============================================================================

-------------------------------- MODULE RWMutexOverSema --------------------------------
(***************************************************************************)
(* Go's sync.RWMutex (Go 1.24) on the semaphore contract of GoSync:        *)
(* readerCount (negative while a writer is pending: minus MaxReaders),     *)
(* readerWait (readers the pending writer still waits for), writerSem,     *)
(* readerSem, and the inner mutex w that serialises writers (MutexOverSema *)
(* covers that algorithm; here it is an atomic lock).  llgo compiles this  *)
(* code unchanged and supplies only atomics and the semaphore, so the      *)
(* guarantees of the statement - a writer excludes everybody, readers      *)
(* exclude writers, every waiter is admitted after release - follow from   *)
(* this module given the contract that C11 checks on sema_llgo.go.         *)
(* One label per atomic operation / semaphore call.  Each thread chooses   *)
(* per round whether it reads or writes.                                   *)
(***************************************************************************)
EXTENDS Integers, FiniteSets, TLC

CONSTANTS NThreads, Rounds
MaxReaders == 64      \* rwmutexMaxReaders (1<<30 in the code; any bound above NThreads behaves alike)

(*--algorithm rwmutex
variables
  readerCount = 0,
  readerWait = 0,
  writerSem = 0,
  readerSem = 0,
  w = 0,               \* owner of the inner mutex, 0 = free
  readers = {},        \* threads inside a read-side critical section
  writers = {},        \* threads inside the write-side critical section
  admitted = 0;        \* completed critical sections

process t \in 1..NThreads
variables round = 0, r = 0, i = 0;
begin
 Loop:
  while round < Rounds do
    round := round + 1;
    either
      \* ---------------------------------------------------------------- RLock
 RAdd:  r := readerCount + 1; readerCount := readerCount + 1;
 RChk:  if r < 0 then
 RSem:    await readerSem > 0; readerSem := readerSem - 1;      \* runtime_SemacquireRWMutexR
        end if;
 RCS:   readers := readers \cup {self};
 RLeave: readers := readers \ {self}; admitted := admitted + 1;
      \* ---------------------------------------------------------------- RUnlock
 RUAdd: r := readerCount - 1; readerCount := readerCount - 1;
 RUChk: if r < 0 then
          \* rUnlockSlow: a writer is pending
          assert ~(r + 1 = 0 \/ r + 1 = 0 - MaxReaders);          \* "RUnlock of unlocked RWMutex"
 RUWait:  i := readerWait - 1; readerWait := readerWait - 1;
 RUSem:   if i = 0 then
            writerSem := writerSem + 1;                          \* the last reader unblocks the writer
          end if;
        end if;
    or
      \* ---------------------------------------------------------------- Lock
 WLock: await w = 0; w := self;                                  \* rw.w.Lock()
 WAnn:  r := readerCount; readerCount := readerCount - MaxReaders;  \* r = readerCount.Add(-max) + max = old value
 WWait: if r # 0 then
          i := readerWait + r; readerWait := readerWait + r;
 WChk:    if i # 0 then
 WSem:      await writerSem > 0; writerSem := writerSem - 1;     \* runtime_SemacquireRWMutex
          end if;
        end if;
 WCS:   writers := writers \cup {self};
 WLeave: writers := writers \ {self}; admitted := admitted + 1;
      \* ---------------------------------------------------------------- Unlock
 WUAdd: r := readerCount + MaxReaders; readerCount := readerCount + MaxReaders;
        i := 0;
 WUChk: assert r < MaxReaders;                                   \* "Unlock of unlocked RWMutex"
 WURel: while i < r do
          readerSem := readerSem + 1; i := i + 1;                \* unblock blocked readers
        end while;
 WUnl:  w := 0;                                                  \* rw.w.Unlock()
    end either;
  end while;
end process;
end algorithm; *)
\* BEGIN TRANSLATION
VARIABLES pc, readerCount, readerWait, writerSem, readerSem, w, readers, 
          writers, admitted, round, r, i

vars == << pc, readerCount, readerWait, writerSem, readerSem, w, readers, 
           writers, admitted, round, r, i >>

ProcSet == (1..NThreads)

Init == (* Global variables *)
        /\ readerCount = 0
        /\ readerWait = 0
        /\ writerSem = 0
        /\ readerSem = 0
        /\ w = 0
        /\ readers = {}
        /\ writers = {}
        /\ admitted = 0
        (* Process t *)
        /\ round = [self \in 1..NThreads |-> 0]
        /\ r = [self \in 1..NThreads |-> 0]
        /\ i = [self \in 1..NThreads |-> 0]
        /\ pc = [self \in ProcSet |-> "Loop"]

Loop(self) == /\ pc[self] = "Loop"
              /\ IF round[self] < Rounds
                    THEN /\ round' = [round EXCEPT ![self] = round[self] + 1]
                         /\ \/ /\ pc' = [pc EXCEPT ![self] = "RAdd"]
                            \/ /\ pc' = [pc EXCEPT ![self] = "WLock"]
                    ELSE /\ pc' = [pc EXCEPT ![self] = "Done"]
                         /\ round' = round
              /\ UNCHANGED << readerCount, readerWait, writerSem, readerSem, w, 
                              readers, writers, admitted, r, i >>

RAdd(self) == /\ pc[self] = "RAdd"
              /\ r' = [r EXCEPT ![self] = readerCount + 1]
              /\ readerCount' = readerCount + 1
              /\ pc' = [pc EXCEPT ![self] = "RChk"]
              /\ UNCHANGED << readerWait, writerSem, readerSem, w, readers, 
                              writers, admitted, round, i >>

RChk(self) == /\ pc[self] = "RChk"
              /\ IF r[self] < 0
                    THEN /\ pc' = [pc EXCEPT ![self] = "RSem"]
                    ELSE /\ pc' = [pc EXCEPT ![self] = "RCS"]
              /\ UNCHANGED << readerCount, readerWait, writerSem, readerSem, w, 
                              readers, writers, admitted, round, r, i >>

RSem(self) == /\ pc[self] = "RSem"
              /\ readerSem > 0
              /\ readerSem' = readerSem - 1
              /\ pc' = [pc EXCEPT ![self] = "RCS"]
              /\ UNCHANGED << readerCount, readerWait, writerSem, w, readers, 
                              writers, admitted, round, r, i >>

RCS(self) == /\ pc[self] = "RCS"
             /\ readers' = (readers \cup {self})
             /\ pc' = [pc EXCEPT ![self] = "RLeave"]
             /\ UNCHANGED << readerCount, readerWait, writerSem, readerSem, w, 
                             writers, admitted, round, r, i >>

RLeave(self) == /\ pc[self] = "RLeave"
                /\ readers' = readers \ {self}
                /\ admitted' = admitted + 1
                /\ pc' = [pc EXCEPT ![self] = "RUAdd"]
                /\ UNCHANGED << readerCount, readerWait, writerSem, readerSem, 
                                w, writers, round, r, i >>

RUAdd(self) == /\ pc[self] = "RUAdd"
               /\ r' = [r EXCEPT ![self] = readerCount - 1]
               /\ readerCount' = readerCount - 1
               /\ pc' = [pc EXCEPT ![self] = "RUChk"]
               /\ UNCHANGED << readerWait, writerSem, readerSem, w, readers, 
                               writers, admitted, round, i >>

RUChk(self) == /\ pc[self] = "RUChk"
               /\ IF r[self] < 0
                     THEN /\ Assert(~(r[self] + 1 = 0 \/ r[self] + 1 = 0 - MaxReaders), 
                                    "Failure of assertion at line 49, column 11.")
                          /\ pc' = [pc EXCEPT ![self] = "RUWait"]
                     ELSE /\ pc' = [pc EXCEPT ![self] = "Loop"]
               /\ UNCHANGED << readerCount, readerWait, writerSem, readerSem, 
                               w, readers, writers, admitted, round, r, i >>

RUWait(self) == /\ pc[self] = "RUWait"
                /\ i' = [i EXCEPT ![self] = readerWait - 1]
                /\ readerWait' = readerWait - 1
                /\ pc' = [pc EXCEPT ![self] = "RUSem"]
                /\ UNCHANGED << readerCount, writerSem, readerSem, w, readers, 
                                writers, admitted, round, r >>

RUSem(self) == /\ pc[self] = "RUSem"
               /\ IF i[self] = 0
                     THEN /\ writerSem' = writerSem + 1
                     ELSE /\ TRUE
                          /\ UNCHANGED writerSem
               /\ pc' = [pc EXCEPT ![self] = "Loop"]
               /\ UNCHANGED << readerCount, readerWait, readerSem, w, readers, 
                               writers, admitted, round, r, i >>

WLock(self) == /\ pc[self] = "WLock"
               /\ w = 0
               /\ w' = self
               /\ pc' = [pc EXCEPT ![self] = "WAnn"]
               /\ UNCHANGED << readerCount, readerWait, writerSem, readerSem, 
                               readers, writers, admitted, round, r, i >>

WAnn(self) == /\ pc[self] = "WAnn"
              /\ r' = [r EXCEPT ![self] = readerCount]
              /\ readerCount' = readerCount - MaxReaders
              /\ pc' = [pc EXCEPT ![self] = "WWait"]
              /\ UNCHANGED << readerWait, writerSem, readerSem, w, readers, 
                              writers, admitted, round, i >>

WWait(self) == /\ pc[self] = "WWait"
               /\ IF r[self] # 0
                     THEN /\ i' = [i EXCEPT ![self] = readerWait + r[self]]
                          /\ readerWait' = readerWait + r[self]
                          /\ pc' = [pc EXCEPT ![self] = "WChk"]
                     ELSE /\ pc' = [pc EXCEPT ![self] = "WCS"]
                          /\ UNCHANGED << readerWait, i >>
               /\ UNCHANGED << readerCount, writerSem, readerSem, w, readers, 
                               writers, admitted, round, r >>

WChk(self) == /\ pc[self] = "WChk"
              /\ IF i[self] # 0
                    THEN /\ pc' = [pc EXCEPT ![self] = "WSem"]
                    ELSE /\ pc' = [pc EXCEPT ![self] = "WCS"]
              /\ UNCHANGED << readerCount, readerWait, writerSem, readerSem, w, 
                              readers, writers, admitted, round, r, i >>

WSem(self) == /\ pc[self] = "WSem"
              /\ writerSem > 0
              /\ writerSem' = writerSem - 1
              /\ pc' = [pc EXCEPT ![self] = "WCS"]
              /\ UNCHANGED << readerCount, readerWait, readerSem, w, readers, 
                              writers, admitted, round, r, i >>

WCS(self) == /\ pc[self] = "WCS"
             /\ writers' = (writers \cup {self})
             /\ pc' = [pc EXCEPT ![self] = "WLeave"]
             /\ UNCHANGED << readerCount, readerWait, writerSem, readerSem, w, 
                             readers, admitted, round, r, i >>

WLeave(self) == /\ pc[self] = "WLeave"
                /\ writers' = writers \ {self}
                /\ admitted' = admitted + 1
                /\ pc' = [pc EXCEPT ![self] = "WUAdd"]
                /\ UNCHANGED << readerCount, readerWait, writerSem, readerSem, 
                                w, readers, round, r, i >>

WUAdd(self) == /\ pc[self] = "WUAdd"
               /\ r' = [r EXCEPT ![self] = readerCount + MaxReaders]
               /\ readerCount' = readerCount + MaxReaders
               /\ i' = [i EXCEPT ![self] = 0]
               /\ pc' = [pc EXCEPT ![self] = "WUChk"]
               /\ UNCHANGED << readerWait, writerSem, readerSem, w, readers, 
                               writers, admitted, round >>

WUChk(self) == /\ pc[self] = "WUChk"
               /\ Assert(r[self] < MaxReaders, 
                         "Failure of assertion at line 70, column 9.")
               /\ pc' = [pc EXCEPT ![self] = "WURel"]
               /\ UNCHANGED << readerCount, readerWait, writerSem, readerSem, 
                               w, readers, writers, admitted, round, r, i >>

WURel(self) == /\ pc[self] = "WURel"
               /\ IF i[self] < r[self]
                     THEN /\ readerSem' = readerSem + 1
                          /\ i' = [i EXCEPT ![self] = i[self] + 1]
                          /\ pc' = [pc EXCEPT ![self] = "WURel"]
                     ELSE /\ pc' = [pc EXCEPT ![self] = "WUnl"]
                          /\ UNCHANGED << readerSem, i >>
               /\ UNCHANGED << readerCount, readerWait, writerSem, w, readers, 
                               writers, admitted, round, r >>

WUnl(self) == /\ pc[self] = "WUnl"
              /\ w' = 0
              /\ pc' = [pc EXCEPT ![self] = "Loop"]
              /\ UNCHANGED << readerCount, readerWait, writerSem, readerSem, 
                              readers, writers, admitted, round, r, i >>

t(self) == Loop(self) \/ RAdd(self) \/ RChk(self) \/ RSem(self)
              \/ RCS(self) \/ RLeave(self) \/ RUAdd(self) \/ RUChk(self)
              \/ RUWait(self) \/ RUSem(self) \/ WLock(self) \/ WAnn(self)
              \/ WWait(self) \/ WChk(self) \/ WSem(self) \/ WCS(self)
              \/ WLeave(self) \/ WUAdd(self) \/ WUChk(self) \/ WURel(self)
              \/ WUnl(self)

(* Allow infinite stuttering to prevent deadlock on termination. *)
Terminating == /\ \A self \in ProcSet: pc[self] = "Done"
               /\ UNCHANGED vars

Next == (\E self \in 1..NThreads: t(self))
           \/ Terminating

Spec == Init /\ [][Next]_vars

Termination == <>(\A self \in ProcSet: pc[self] = "Done")

\* END TRANSLATION

\* a writer excludes everybody; readers exclude writers
MutualExclusion == /\ Cardinality(writers) <= 1
                   /\ writers # {} => readers = {}
\* at the end nothing is left over: no units, no counts, everybody was admitted
AllDone == \A p \in 1..NThreads : pc[p] = "Done"
CleanEnd == AllDone => /\ readerCount = 0 /\ readerWait = 0 /\ writerSem = 0 /\ readerSem = 0 /\ w = 0
                       /\ admitted = NThreads * Rounds
\* every waiter is admitted after release: the only state without a successor is the one where all are done
NoLostWaiter == (\A p \in 1..NThreads : ~ENABLED t(p)) => AllDone
Sane == readerWait >= 0 - NThreads /\ readerWait <= NThreads /\ writerSem \in 0..1 /\ readerSem \in 0..NThreads
=============================================================================

SPECIFICATION Spec
CONSTANTS NThreads = 3  Rounds = 2  defaultInitValue = 0
INVARIANTS MutualExclusion NoLostWaiter CleanEnd StateSane
CHECK_DEADLOCK FALSE

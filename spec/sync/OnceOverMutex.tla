-------------------------------- MODULE OnceOverMutex --------------------------------
(***************************************************************************)
(* Go's sync.Once: an atomic done flag checked on the fast path, a mutex   *)
(* and a second check on the slow path; done is stored after f returned.   *)
(* f runs exactly once and no Do returns before f has returned.            *)
(***************************************************************************)
EXTENDS Integers, FiniteSets, TLC

CONSTANTS NThreads

(*--algorithm once
variables doneFlag = 0, m = 0, calls = 0, finished = 0, retd = {};

process t \in 1..NThreads
begin
 Fast: if doneFlag # 0 then goto Ret; end if;
 Lock: await m = 0; m := self;
 Slow: if doneFlag = 0 then
 F1:     calls := calls + 1;              \* f() starts
 F2:     finished := finished + 1;        \* f() returns
 Store:  doneFlag := 1;                   \* defer o.done.Store(1)
       end if;
 Unl:  m := 0;
 Ret:  retd := retd \cup {self};
end process;
end algorithm; *)
\* BEGIN TRANSLATION
VARIABLES pc, doneFlag, m, calls, finished, retd

vars == << pc, doneFlag, m, calls, finished, retd >>

ProcSet == (1..NThreads)

Init == (* Global variables *)
        /\ doneFlag = 0
        /\ m = 0
        /\ calls = 0
        /\ finished = 0
        /\ retd = {}
        /\ pc = [self \in ProcSet |-> "Fast"]

Fast(self) == /\ pc[self] = "Fast"
              /\ IF doneFlag # 0
                    THEN /\ pc' = [pc EXCEPT ![self] = "Ret"]
                    ELSE /\ pc' = [pc EXCEPT ![self] = "Lock"]
              /\ UNCHANGED << doneFlag, m, calls, finished, retd >>

Lock(self) == /\ pc[self] = "Lock"
              /\ m = 0
              /\ m' = self
              /\ pc' = [pc EXCEPT ![self] = "Slow"]
              /\ UNCHANGED << doneFlag, calls, finished, retd >>

Slow(self) == /\ pc[self] = "Slow"
              /\ IF doneFlag = 0
                    THEN /\ pc' = [pc EXCEPT ![self] = "F1"]
                    ELSE /\ pc' = [pc EXCEPT ![self] = "Unl"]
              /\ UNCHANGED << doneFlag, m, calls, finished, retd >>

F1(self) == /\ pc[self] = "F1"
            /\ calls' = calls + 1
            /\ pc' = [pc EXCEPT ![self] = "F2"]
            /\ UNCHANGED << doneFlag, m, finished, retd >>

F2(self) == /\ pc[self] = "F2"
            /\ finished' = finished + 1
            /\ pc' = [pc EXCEPT ![self] = "Store"]
            /\ UNCHANGED << doneFlag, m, calls, retd >>

Store(self) == /\ pc[self] = "Store"
               /\ doneFlag' = 1
               /\ pc' = [pc EXCEPT ![self] = "Unl"]
               /\ UNCHANGED << m, calls, finished, retd >>

Unl(self) == /\ pc[self] = "Unl"
             /\ m' = 0
             /\ pc' = [pc EXCEPT ![self] = "Ret"]
             /\ UNCHANGED << doneFlag, calls, finished, retd >>

Ret(self) == /\ pc[self] = "Ret"
             /\ retd' = (retd \cup {self})
             /\ pc' = [pc EXCEPT ![self] = "Done"]
             /\ UNCHANGED << doneFlag, m, calls, finished >>

t(self) == Fast(self) \/ Lock(self) \/ Slow(self) \/ F1(self) \/ F2(self)
              \/ Store(self) \/ Unl(self) \/ Ret(self)

(* Allow infinite stuttering to prevent deadlock on termination. *)
Terminating == /\ \A self \in ProcSet: pc[self] = "Done"
               /\ UNCHANGED vars

Next == (\E self \in 1..NThreads: t(self))
           \/ Terminating

Spec == Init /\ [][Next]_vars

Termination == <>(\A self \in ProcSet: pc[self] = "Done")

\* END TRANSLATION

ExactlyOnce == calls <= 1
BeforeAnyReturn == retd # {} => finished = 1
AllDone == \A p \in 1..NThreads : pc[p] = "Done"
NoLostWaiter == (\A p \in 1..NThreads : ~ENABLED t(p)) => AllDone
=============================================================================

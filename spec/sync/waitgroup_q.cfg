SPECIFICATION Spec
CONSTANTS NWorkers = 2  NWaiters = 2  defaultInitValue = 0
INVARIANTS WaitAfterZero CleanEnd NoLostWaiter
CHECK_DEADLOCK FALSE

\* the notify list before the fix: Wait loops while notify = t, NotifyOne uses Signal
SPECIFICATION Spec
CONSTANTS SleepOnLostRace = FALSE  TicketBug = TRUE  SpuriousBudget = 0  defaultInitValue = 0
INVARIANTS WaitersSane Emit
CHECK_DEADLOCK FALSE

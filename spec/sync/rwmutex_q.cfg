SPECIFICATION Spec
CONSTANTS NThreads = 3  Rounds = 2  defaultInitValue = 0
INVARIANTS MutualExclusion CleanEnd NoLostWaiter Sane
CHECK_DEADLOCK FALSE

SPECIFICATION Spec
INVARIANTS NotifyBounded TerminalNoLostWakeup Emit
CHECK_DEADLOCK FALSE

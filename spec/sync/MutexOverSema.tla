-------------------------------- MODULE MutexOverSema --------------------------------
(***************************************************************************)
(* Go's sync.Mutex (internal/sync, Go 1.24, normal and starvation mode)    *)
(* running on the semaphore contract of GoSync: Semacquire consumes a unit *)
(* and blocks while there is none, Semrelease adds a unit (with `handoff`  *)
(* the woken waiter runs next; not modelled separately).  llgo compiles    *)
(* Go's own Mutex unchanged and supplies only the semaphore, so mutual     *)
(* exclusion and admission of every waiter follow from this module given   *)
(* that sema_llgo.go meets the contract (C11's scheduler-based check).     *)
(* state word:  bit 0 locked, bit 1 woken, bit 2 starving, bits 3.. waiters*)
(* runtime_canSpin is false in llgo, so there is no spinning phase.        *)
(* Whether a waiter finds that it waited "too long" (starvation threshold) *)
(* depends on time: modelled as a nondeterministic choice.                 *)
(***************************************************************************)
EXTENDS Integers, FiniteSets, TLC

CONSTANTS NThreads, Rounds

Locked == 1
Woken == 2
Starving == 4
WShift == 8          \* 1 << 3
HasBit(s, b) == (s \div b) % 2 = 1
Waiters(s) == s \div WShift

(*--algorithm mutex
variables
  state = 0,         \* the mutex word
  sema = 0,          \* semaphore units
  incs = {};         \* threads inside the critical section

process t \in 1..NThreads
variables round = 0, old = 0, new = 0, awoke = FALSE, starving = FALSE, waited = FALSE;
begin
 Loop:
  while round < Rounds do
    round := round + 1; awoke := FALSE; starving := FALSE; waited := FALSE;
 Fast:                                                \* CompareAndSwap(&state, 0, locked)
    if state = 0 then state := Locked; goto CS; end if;
 Slow:                                                \* lockSlow loop iteration: old := m.state (re-read after a failed CAS)
    old := state;
 Compute:
    new := LET n1 == IF ~HasBit(old, Starving) /\ ~HasBit(old, Locked) THEN old + Locked ELSE old
               n2 == IF HasBit(old, Locked) \/ HasBit(old, Starving) THEN n1 + WShift ELSE n1
               n3 == IF starving /\ HasBit(old, Locked) /\ ~HasBit(n2, Starving) THEN n2 + Starving ELSE n2
               n4 == IF awoke /\ HasBit(n3, Woken) THEN n3 - Woken ELSE n3
           IN n4;
 Cas:
    if state = old then
      state := new;
      if ~HasBit(old, Locked) /\ ~HasBit(old, Starving) then
        goto CS;                                      \* locked the mutex with CAS
      end if;
    else
      goto Slow;
    end if;
 Acquire:                                             \* runtime_SemacquireMutex
    await sema > 0; sema := sema - 1;
    waited := TRUE;
    either starving := TRUE; or skip; end either;     \* waited longer than the starvation threshold?
    old := state;
 AfterWake:
    if HasBit(old, Starving) then
      \* ownership was handed off: fix up the state and enter
      new := old + Locked - WShift - (IF ~starving \/ Waiters(old) = 1 THEN Starving ELSE 0);
 Handoff:
      state := state + (new - old);                   \* AddInt32(&state, delta)
      goto CS;
    else
      awoke := TRUE;
      goto Slow;
    end if;
 CS:
    incs := incs \cup {self};
 Leave:
    incs := incs \ {self};
 Unlock:                                              \* new := AddInt32(&state, -locked)
    new := state - Locked; state := state - Locked;
 UCheck:
    if new = 0 then goto Loop; end if;
 USlow:
    if ~HasBit(new, Starving) then
      old := new;
 ULoop:
      if Waiters(old) = 0 \/ HasBit(old, Locked) \/ HasBit(old, Woken) \/ HasBit(old, Starving) then
        goto Loop;
      else
        new := (old - WShift) + Woken;
 UCas:
        if state = old then
          state := new; sema := sema + 1;              \* runtime_Semrelease(&sema, false)
          goto Loop;
        else
          old := state; goto ULoop;
        end if;
      end if;
    else
      sema := sema + 1;                                \* starving: hand off to the next waiter
    end if;
  end while;
end process;
end algorithm; *)
\* BEGIN TRANSLATION
VARIABLES pc, state, sema, incs, round, old, new, awoke, starving, waited

vars == << pc, state, sema, incs, round, old, new, awoke, starving, waited >>

ProcSet == (1..NThreads)

Init == (* Global variables *)
        /\ state = 0
        /\ sema = 0
        /\ incs = {}
        (* Process t *)
        /\ round = [self \in 1..NThreads |-> 0]
        /\ old = [self \in 1..NThreads |-> 0]
        /\ new = [self \in 1..NThreads |-> 0]
        /\ awoke = [self \in 1..NThreads |-> FALSE]
        /\ starving = [self \in 1..NThreads |-> FALSE]
        /\ waited = [self \in 1..NThreads |-> FALSE]
        /\ pc = [self \in ProcSet |-> "Loop"]

Loop(self) == /\ pc[self] = "Loop"
              /\ IF round[self] < Rounds
                    THEN /\ round' = [round EXCEPT ![self] = round[self] + 1]
                         /\ awoke' = [awoke EXCEPT ![self] = FALSE]
                         /\ starving' = [starving EXCEPT ![self] = FALSE]
                         /\ waited' = [waited EXCEPT ![self] = FALSE]
                         /\ pc' = [pc EXCEPT ![self] = "Fast"]
                    ELSE /\ pc' = [pc EXCEPT ![self] = "Done"]
                         /\ UNCHANGED << round, awoke, starving, waited >>
              /\ UNCHANGED << state, sema, incs, old, new >>

Fast(self) == /\ pc[self] = "Fast"
              /\ IF state = 0
                    THEN /\ state' = Locked
                         /\ pc' = [pc EXCEPT ![self] = "CS"]
                    ELSE /\ pc' = [pc EXCEPT ![self] = "Slow"]
                         /\ state' = state
              /\ UNCHANGED << sema, incs, round, old, new, awoke, starving, 
                              waited >>

Slow(self) == /\ pc[self] = "Slow"
              /\ old' = [old EXCEPT ![self] = state]
              /\ pc' = [pc EXCEPT ![self] = "Compute"]
              /\ UNCHANGED << state, sema, incs, round, new, awoke, starving, 
                              waited >>

Compute(self) == /\ pc[self] = "Compute"
                 /\ new' = [new EXCEPT ![self] = LET n1 == IF ~HasBit(old[self], Starving) /\ ~HasBit(old[self], Locked) THEN old[self] + Locked ELSE old[self]
                                                     n2 == IF HasBit(old[self], Locked) \/ HasBit(old[self], Starving) THEN n1 + WShift ELSE n1
                                                     n3 == IF starving[self] /\ HasBit(old[self], Locked) /\ ~HasBit(n2, Starving) THEN n2 + Starving ELSE n2
                                                     n4 == IF awoke[self] /\ HasBit(n3, Woken) THEN n3 - Woken ELSE n3
                                                 IN n4]
                 /\ pc' = [pc EXCEPT ![self] = "Cas"]
                 /\ UNCHANGED << state, sema, incs, round, old, awoke, 
                                 starving, waited >>

Cas(self) == /\ pc[self] = "Cas"
             /\ IF state = old[self]
                   THEN /\ state' = new[self]
                        /\ IF ~HasBit(old[self], Locked) /\ ~HasBit(old[self], Starving)
                              THEN /\ pc' = [pc EXCEPT ![self] = "CS"]
                              ELSE /\ pc' = [pc EXCEPT ![self] = "Acquire"]
                   ELSE /\ pc' = [pc EXCEPT ![self] = "Slow"]
                        /\ state' = state
             /\ UNCHANGED << sema, incs, round, old, new, awoke, starving, 
                             waited >>

Acquire(self) == /\ pc[self] = "Acquire"
                 /\ sema > 0
                 /\ sema' = sema - 1
                 /\ waited' = [waited EXCEPT ![self] = TRUE]
                 /\ \/ /\ starving' = [starving EXCEPT ![self] = TRUE]
                    \/ /\ TRUE
                       /\ UNCHANGED starving
                 /\ old' = [old EXCEPT ![self] = state]
                 /\ pc' = [pc EXCEPT ![self] = "AfterWake"]
                 /\ UNCHANGED << state, incs, round, new, awoke >>

AfterWake(self) == /\ pc[self] = "AfterWake"
                   /\ IF HasBit(old[self], Starving)
                         THEN /\ new' = [new EXCEPT ![self] = old[self] + Locked - WShift - (IF ~starving[self] \/ Waiters(old[self]) = 1 THEN Starving ELSE 0)]
                              /\ pc' = [pc EXCEPT ![self] = "Handoff"]
                              /\ awoke' = awoke
                         ELSE /\ awoke' = [awoke EXCEPT ![self] = TRUE]
                              /\ pc' = [pc EXCEPT ![self] = "Slow"]
                              /\ new' = new
                   /\ UNCHANGED << state, sema, incs, round, old, starving, 
                                   waited >>

Handoff(self) == /\ pc[self] = "Handoff"
                 /\ state' = state + (new[self] - old[self])
                 /\ pc' = [pc EXCEPT ![self] = "CS"]
                 /\ UNCHANGED << sema, incs, round, old, new, awoke, starving, 
                                 waited >>

CS(self) == /\ pc[self] = "CS"
            /\ incs' = (incs \cup {self})
            /\ pc' = [pc EXCEPT ![self] = "Leave"]
            /\ UNCHANGED << state, sema, round, old, new, awoke, starving, 
                            waited >>

Leave(self) == /\ pc[self] = "Leave"
               /\ incs' = incs \ {self}
               /\ pc' = [pc EXCEPT ![self] = "Unlock"]
               /\ UNCHANGED << state, sema, round, old, new, awoke, starving, 
                               waited >>

Unlock(self) == /\ pc[self] = "Unlock"
                /\ new' = [new EXCEPT ![self] = state - Locked]
                /\ state' = state - Locked
                /\ pc' = [pc EXCEPT ![self] = "UCheck"]
                /\ UNCHANGED << sema, incs, round, old, awoke, starving, 
                                waited >>

UCheck(self) == /\ pc[self] = "UCheck"
                /\ IF new[self] = 0
                      THEN /\ pc' = [pc EXCEPT ![self] = "Loop"]
                      ELSE /\ pc' = [pc EXCEPT ![self] = "USlow"]
                /\ UNCHANGED << state, sema, incs, round, old, new, awoke, 
                                starving, waited >>

USlow(self) == /\ pc[self] = "USlow"
               /\ IF ~HasBit(new[self], Starving)
                     THEN /\ old' = [old EXCEPT ![self] = new[self]]
                          /\ pc' = [pc EXCEPT ![self] = "ULoop"]
                          /\ sema' = sema
                     ELSE /\ sema' = sema + 1
                          /\ pc' = [pc EXCEPT ![self] = "Loop"]
                          /\ old' = old
               /\ UNCHANGED << state, incs, round, new, awoke, starving, 
                               waited >>

ULoop(self) == /\ pc[self] = "ULoop"
               /\ IF Waiters(old[self]) = 0 \/ HasBit(old[self], Locked) \/ HasBit(old[self], Woken) \/ HasBit(old[self], Starving)
                     THEN /\ pc' = [pc EXCEPT ![self] = "Loop"]
                          /\ new' = new
                     ELSE /\ new' = [new EXCEPT ![self] = (old[self] - WShift) + Woken]
                          /\ pc' = [pc EXCEPT ![self] = "UCas"]
               /\ UNCHANGED << state, sema, incs, round, old, awoke, starving, 
                               waited >>

UCas(self) == /\ pc[self] = "UCas"
              /\ IF state = old[self]
                    THEN /\ state' = new[self]
                         /\ sema' = sema + 1
                         /\ pc' = [pc EXCEPT ![self] = "Loop"]
                         /\ old' = old
                    ELSE /\ old' = [old EXCEPT ![self] = state]
                         /\ pc' = [pc EXCEPT ![self] = "ULoop"]
                         /\ UNCHANGED << state, sema >>
              /\ UNCHANGED << incs, round, new, awoke, starving, waited >>

t(self) == Loop(self) \/ Fast(self) \/ Slow(self) \/ Compute(self)
              \/ Cas(self) \/ Acquire(self) \/ AfterWake(self)
              \/ Handoff(self) \/ CS(self) \/ Leave(self) \/ Unlock(self)
              \/ UCheck(self) \/ USlow(self) \/ ULoop(self) \/ UCas(self)

(* Allow infinite stuttering to prevent deadlock on termination. *)
Terminating == /\ \A self \in ProcSet: pc[self] = "Done"
               /\ UNCHANGED vars

Next == (\E self \in 1..NThreads: t(self))
           \/ Terminating

Spec == Init /\ [][Next]_vars

Termination == <>(\A self \in ProcSet: pc[self] = "Done")

\* END TRANSLATION

MutualExclusion == Cardinality(incs) <= 1
AllDone == \A x \in 1..NThreads : pc[x] = "Done"
\* every waiter is admitted: no reachable state in which nothing can move before all are done
NoLostWaiter == (\A x \in 1..NThreads : ~ENABLED t(x)) => AllDone
\* when all are done the mutex is free and no unit is left over
CleanEnd == AllDone => state = 0 /\ sema = 0
StateSane == state >= 0
=============================================================================

-------------------------------- MODULE GoStmt --------------------------------
(***************************************************************************)
(* Layer A for the first clause of C11: "a go statement runs its call      *)
(* exactly once in a new goroutine with the function value and arguments   *)
(* as evaluated at the go statement".                                      *)
(*                                                                         *)
(* Go spec, "Go statements": the function value and parameters to the call *)
(* are evaluated as usual in the calling goroutine; the call itself runs   *)
(* in the new goroutine.  "As usual" = operands left to right, each once:  *)
(* function value (incl. the receiver of a method value: a value receiver  *)
(* is copied, a pointer receiver keeps pointing where it pointed, an       *)
(* interface receiver is dispatched on the dynamic type it holds then),    *)
(* then the arguments.                                                     *)
(*                                                                         *)
(* The model has one parent and one child.  The parent                     *)
(*   Eval    evaluates callee, receiver and arguments into a snapshot      *)
(*   Mutate  afterwards overwrites every variable it evaluated from (the   *)
(*           function variable, the receiver variable, the argument        *)
(*           variables) with different values                              *)
(*   Join    waits for the child and reads what it observed                *)
(* and the child Run observes callee identity, receiver state and the      *)
(* argument values.  Run may happen before or after Mutate: TLC explores   *)
(* both, and the invariant says the observation is the snapshot either way *)
(* and that the call ran exactly once.  Variables hold small codes; code c *)
(* of kind k at position i stands for a Go value the harness builds from   *)
(* (k, c) - so aggregates, strings, interfaces ... are all "values that    *)
(* differ iff their codes differ".  Reference kinds (pointer, slice, map,  *)
(* chan, func) are re-pointed by Mutate, never written through: writing    *)
(* through them after the go statement would be a data race.               *)
(*                                                                         *)
(* Cases = call form x argument kinds (0..MaxArgs arguments) x whether the *)
(* arguments are plain variables or calls with a side effect (a counter):  *)
(* TLC prints each case with the observation it prescribes; the harness    *)
(* renders one Go function per case, llgo compiles them, and the printed   *)
(* observation must equal the prescribed one.                              *)
(***************************************************************************)
EXTENDS Naturals, Sequences, FiniteSets, TLC, Json

CONSTANTS Forms,     \* call forms
          Kinds,     \* argument kinds
          MaxArgs

VARIABLES form, kinds, sidefx,   \* the case
          env,       \* parent's variables: [fn, recv, args, counter]
          snap,      \* what Eval captured (NoneRec before)
          seen,      \* what the child observed (NoneRec before)
          runs,      \* how often the call ran
          phase      \* "build" | "eval" | "spawned" | "mutated" | "joined"
vars == <<form, kinds, sidefx, env, snap, seen, runs, phase>>

\* forms whose callee is held in a variable the parent can overwrite / that have a receiver
HasFnVar(f)  == f \in {"funcvar", "boundvar"}
HasRecv(f)   == f \in {"valmethod", "ptrmethod", "ifacemethod", "boundvar", "promoted", "methodexpr", "genmethod"}
RecvCopied(f) == f \in {"valmethod", "boundvar", "promoted", "methodexpr", "genmethod"}   \* value receiver: copied at the go statement

NoneRec == [fn |-> 0, recv |-> 0, args |-> <<>>]
Before(i) == 10 * i + 1          \* code of argument i before Mutate
After(i)  == 10 * i + 6

Init == /\ form \in Forms
        /\ kinds = <<>>
        /\ sidefx \in BOOLEAN
        /\ env = [fn |-> 1, recv |-> 3, args |-> <<>>, counter |-> 0]
        /\ snap = NoneRec /\ seen = NoneRec /\ runs = 0
        /\ phase = "build"

\* build the case step by step (spreads the enumeration over workers)
AddArg == /\ phase = "build" /\ Len(kinds) < MaxArgs
          /\ \E k \in Kinds : kinds' = Append(kinds, k)
          /\ env' = [env EXCEPT !.args = Append(@, Before(Len(kinds) + 1))]
          /\ UNCHANGED <<form, sidefx, snap, seen, runs, phase>>
Built  == /\ phase = "build"
          /\ (sidefx => Len(kinds) > 0)
          /\ phase' = "eval"
          /\ UNCHANGED <<form, kinds, sidefx, env, snap, seen, runs>>

\* the go statement: operands evaluated left to right, each once.  With side effects every argument expression is a call
\* next(v) that increments a counter and returns v + 100 * (counter value): position in the evaluation order is observable.
Eval == /\ phase = "eval"
        /\ LET n == Len(kinds)
               argv == [i \in 1..n |-> IF sidefx THEN env.args[i] + 100 * i ELSE env.args[i]]
           IN /\ snap' = [fn |-> env.fn, recv |-> IF HasRecv(form) THEN env.recv ELSE 0, args |-> argv]
              /\ env' = [env EXCEPT !.counter = IF sidefx THEN n ELSE 0]
        /\ phase' = "spawned"
        /\ UNCHANGED <<form, kinds, sidefx, seen, runs>>

\* the parent overwrites everything it evaluated from
Mutate == /\ phase = "spawned"
          /\ env' = [env EXCEPT !.fn = 2, !.recv = 8, !.args = [i \in 1..Len(kinds) |-> After(i)]]
          /\ phase' = "mutated"
          /\ UNCHANGED <<form, kinds, sidefx, snap, seen, runs>>

\* the child: runs whenever the scheduler lets it, with what the go statement evaluated
Run == /\ phase \in {"spawned", "mutated"} /\ runs = 0
       /\ seen' = snap
       /\ runs' = 1
       /\ UNCHANGED <<form, kinds, sidefx, env, snap, phase>>

Join == /\ phase = "mutated" /\ runs = 1
        /\ phase' = "joined"
        /\ UNCHANGED <<form, kinds, sidefx, env, snap, seen, runs>>

Next == AddArg \/ Built \/ Eval \/ Mutate \/ Run \/ Join
Spec == Init /\ [][Next]_vars

\* the law
ExactlyOnce == runs <= 1 /\ (phase = "joined" => runs = 1)
SeesSnapshot == seen.fn # 0 => /\ seen = snap
                                 /\ seen.fn = 1
                                 /\ (HasRecv(form) => seen.recv = 3)
                                 /\ \A i \in 1..Len(kinds) : seen.args[i] = Before(i) + (IF sidefx THEN 100 * i ELSE 0)
Emit == phase = "joined" =>
          PrintT(ToJson([form |-> form, kinds |-> kinds, sidefx |-> sidefx,
                         fn |-> seen.fn, recv |-> seen.recv, args |-> seen.args, counter |-> env.counter]))
=============================================================================

-------------------------------- MODULE GoSyncProg --------------------------------
(* GoSync closed over scenario scripts: TLC prints every terminal outcome the contracts allow. *)
EXTENDS GoSync, TLC, Json, Integers

Scenarios == ndJsonDeserialize("scenarios.ndjson")
VARIABLES sc, pc
vars == <<cnt, nwait, nnotify, pend, res, ticket, sc, pc>>

Init == /\ sc \in 1..Len(Scenarios)
        /\ LET s == Scenarios[sc] IN
             /\ cnt = s.init
             /\ pend = [t \in 1..Len(s.threads) |-> NoOp]
             /\ res = [t \in 1..Len(s.threads) |-> <<>>]
             /\ ticket = [t \in 1..Len(s.threads) |-> 0]
             /\ pc = [t \in 1..Len(s.threads) |-> 1]
        /\ nwait = 0 /\ nnotify = 0

Prog(t) == Scenarios[sc].threads[t]
Call(t) == /\ ~Pending(t) /\ pc[t] <= Len(Prog(t))
           /\ pend' = [pend EXCEPT ![t] = Prog(t)[pc[t]]]
           /\ pc' = [pc EXCEPT ![t] = @ + 1]
           /\ UNCHANGED <<cnt, nwait, nnotify, res, ticket, sc>>

Next == (\E t \in Threads : Call(t)) \/ (Step /\ UNCHANGED <<sc, pc>>)
Spec == Init /\ [][Next]_vars
Terminal == ~ENABLED Next
Emit == Terminal => PrintT(ToJson([id |-> Scenarios[sc].id, res |-> res, stuck |-> {t \in Threads : Pending(t)},
                                   cnt |-> cnt, w |-> nwait, n |-> nnotify]))
TerminalNoLostWakeup == Terminal => NoLostWakeup
=============================================================================

-------------------------------- MODULE AtomicSC --------------------------------
(***************************************************************************)
(* Layer A for the sync/atomic clause of C11: "sync/atomic operations of   *)
(* every width are indivisible and appear in one total order".             *)
(*                                                                         *)
(* Go's memory model: all atomic operations of a program behave as though  *)
(* executed in some sequentially consistent order.  So a program whose     *)
(* shared accesses are all atomic has exactly the outcomes of the          *)
(* interleavings of its operations over ONE memory, each operation being   *)
(* one indivisible step:                                                   *)
(*   ld  r := mem[l]                                                       *)
(*   st  mem[l] := v                                                       *)
(*   add mem[l] := mem[l] + v ; r := new value                             *)
(*   swp r := mem[l] ; mem[l] := v                                         *)
(*   cas IF mem[l] = v THEN mem[l] := w, r := 1 ELSE r := 0                *)
(*   and / or  mem[l] := mem[l] op v ; r := old value   (Go 1.23 And/Or)   *)
(* Values are small naturals; the harness embeds value v into each width   *)
(* as v * pattern (every half / byte lane carries v), so a torn access     *)
(* would produce a value outside the embedding.                            *)
(*                                                                         *)
(* The module is closed over litmus programs read from programs.ndjson;    *)
(* TLC prints every terminal outcome (registers per thread + final memory).*)
(* The llgo-compiled runner executes each program many times with real     *)
(* threads; every outcome it observes must be in the printed set.          *)
(***************************************************************************)
EXTENDS Naturals, Sequences, FiniteSets, TLC, Json, Bitwise

Programs == ndJsonDeserialize("programs.ndjson")

VARIABLES pg,     \* index of the program
          mem,    \* Seq(Nat): one cell per location
          pc,     \* [thread -> next op]
          regs    \* [thread -> Seq(Nat)] results of value-returning ops, in program order
scVars == <<pg, mem, pc, regs>>

P == Programs[pg]
Threads == 1..Len(P.threads)
Op(t) == P.threads[t][pc[t]]
Returns(k) == k \in {"ld", "add", "swp", "cas", "and", "or"}

\* effect of one operation on a cell: <<new cell value, result>>
Effect(o, cur) ==
  CASE o.k = "ld"  -> <<cur, cur>>
    [] o.k = "st"  -> <<o.v, 0>>
    [] o.k = "add" -> <<cur + o.v, cur + o.v>>
    [] o.k = "swp" -> <<o.v, cur>>
    [] o.k = "cas" -> IF cur = o.v THEN <<o.w, 1>> ELSE <<cur, 0>>
    [] o.k = "and" -> <<cur & o.v, cur>>
    [] o.k = "or"  -> <<cur | o.v, cur>>

Init == /\ pg \in 1..Len(Programs)
        /\ mem = Programs[pg].init
        /\ pc = [t \in 1..Len(Programs[pg].threads) |-> 1]
        /\ regs = [t \in 1..Len(Programs[pg].threads) |-> <<>>]

Step(t) == /\ pc[t] <= Len(P.threads[t])
           /\ LET o == Op(t)
                  e == Effect(o, mem[o.l + 1])
              IN /\ mem' = [mem EXCEPT ![o.l + 1] = e[1]]
                 /\ regs' = [regs EXCEPT ![t] = IF Returns(o.k) THEN Append(@, e[2]) ELSE @]
           /\ pc' = [pc EXCEPT ![t] = @ + 1]
           /\ UNCHANGED pg

Next == \E t \in Threads : Step(t)
Spec == Init /\ [][Next]_scVars

Terminal == \A t \in Threads : pc[t] > Len(P.threads[t])
Emit == Terminal => PrintT(ToJson([id |-> P.id, regs |-> regs, mem |-> mem]))

\* sanity of the spec itself: a location only ever holds a value some operation could produce
TypeOK == \A i \in 1..Len(mem) : mem[i] \in 0..63
=============================================================================

SPECIFICATION Spec
CONSTANTS NThreads = 3  defaultInitValue = 0
INVARIANTS ExactlyOnce BeforeAnyReturn NoLostWaiter
CHECK_DEADLOCK FALSE

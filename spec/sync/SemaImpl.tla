-------------------------------- MODULE SemaImpl --------------------------------
(***************************************************************************)
(* Layer B for C11: runtime/internal/lib/runtime/sema_llgo.go as a PlusCal *)
(* algorithm, one label per scheduling point of the real code: every       *)
(* atomic operation (load, compare-and-swap, add, store), every mutex      *)
(* acquisition, every return from cond.Wait (wake-up + re-acquisition) and *)
(* every Signal / Broadcast.  The same grain as the controlled scheduler   *)
(* that drives the real source (atomics are scheduling points there too).  *)
(*                                                                         *)
(*   semaAcquire   fast path: v := load; if v # 0 and CAS(v, v-1) return   *)
(*                 slow path under st.mu: retry while v # 0, else          *)
(*                 waiters++, cond.Wait, waiters--                         *)
(*   semaRelease   add 1; lock st.mu; if waiters # 0 Signal; unlock        *)
(*   notifyListAdd / Wait(t) / NotifyOne / NotifyAll with the ticket       *)
(*                 counters `wait` and `notify` and one condition variable *)
(* Two switches restore the code as it was before the "fix:" commits so    *)
(* that TLC re-finds the defects:                                          *)
(*   SleepOnLostRace   a failed CAS with v # 0 falls through to cond.Wait  *)
(*   TicketBug         Wait loops while notify = t and NotifyOne Signals   *)
(* Scenarios come from the same file as GoSyncProg; the terminal outcomes  *)
(* printed here must be outcomes GoSyncProg allows.                        *)
(***************************************************************************)
EXTENDS Naturals, Sequences, FiniteSets, TLC, Json, Integers

CONSTANTS SleepOnLostRace, TicketBug, SpuriousBudget

Scenarios == ndJsonDeserialize("scenarios.ndjson")
MaxThreads == 4
Small == {i \in 1..Len(Scenarios) : Len(Scenarios[i].threads) <= MaxThreads /\ Len(Scenarios[i].init) = 1}

(*--algorithm semaimpl
variables
  sc \in Small,
  NT = Len(Scenarios[sc].threads),
  cnt = Scenarios[sc].init[1],        \* the semaphore word
  smu = 0,                            \* owner of st.mu (0 = free)
  ssleep = {},                        \* threads inside st.cond.Wait
  waiters = 0,
  nwait = 0, nnotify = 0,             \* notifyList.wait / notify
  nmu = 0, nsleep = {},               \* notify state mutex / condition variable
  res = [t \in 1..MaxThreads |-> <<>>],
  spur = SpuriousBudget;

define
  Prog(t) == IF t <= NT THEN Scenarios[sc].threads[t] ELSE <<>>
  R(v) == [sel |-> 0, val |-> v, ok |-> FALSE, pan |-> ""]
end define;

process thr \in 1..MaxThreads
variables pc0 = 1, op = "none", v = 0, ticket = 0, casok = FALSE;
begin
 Loop:
  while pc0 <= Len(Prog(self)) do
    op := Prog(self)[pc0].k; pc0 := pc0 + 1;
    if op = "acq" then
 A1:  v := cnt;                                            \* LoadUint32
 A2:  if v # 0 /\ cnt = v then cnt := v - 1; casok := TRUE; else casok := FALSE; end if;   \* CompareAndSwap
      if casok then
        res[self] := Append(res[self], R(0));
      else
 A3:    await smu = 0; smu := self;                        \* st.mu.Lock
 A4:    v := cnt;                                          \* LoadUint32 (slow path)
 A5:    if v # 0 /\ cnt = v then cnt := v - 1; casok := TRUE; else casok := FALSE; end if;
        if casok then
          smu := 0;
          res[self] := Append(res[self], R(0));
        elsif v # 0 /\ ~SleepOnLostRace then
          goto A4;                                         \* lost a race while units remain: retry
        else
          waiters := waiters + 1;
          smu := 0; ssleep := ssleep \cup {self};          \* cond.Wait: release and sleep
 A6:      await self \notin ssleep /\ smu = 0; smu := self; \* woken: re-acquire
          waiters := waiters - 1;
          goto A4;
        end if;
      end if;
    elsif op = "rel" then
 L1:  cnt := cnt + 1;                                      \* AddUint32
 L2:  await smu = 0;                                       \* lock; if waiters # 0 then Signal; unlock
      if waiters # 0 /\ ssleep # {} then
        with w \in ssleep do ssleep := ssleep \ {w}; end with;
      end if;
      res[self] := Append(res[self], R(0));
    elsif op = "add" then
 D1:  ticket := nwait; nwait := nwait + 1;                 \* AddUint32(&l.wait, 1) - 1
      res[self] := Append(res[self], R(ticket));
    elsif op = "wait" then
 W1:  await nmu = 0; nmu := self;
 W2:  v := nnotify;                                        \* LoadUint32(&l.notify)
      if (IF TicketBug THEN v = ticket ELSE v <= ticket) then
        nmu := 0; nsleep := nsleep \cup {self};
 W3:    await self \notin nsleep /\ nmu = 0; nmu := self;
        goto W2;
      else
        nmu := 0;
        res[self] := Append(res[self], R(0));
      end if;
    elsif op = "one" then
 O1:  await nmu = 0; nmu := self;
 O2:  v := nnotify;                                        \* LoadUint32(&l.notify)
 O3:  if v # nwait then                                    \* LoadUint32(&l.wait)
 O4:    nnotify := nnotify + 1;                            \* AddUint32(&l.notify, 1)
        if TicketBug then
          if nsleep # {} then with w \in nsleep do nsleep := nsleep \ {w}; end with; end if;   \* Signal
        else
          nsleep := {};                                    \* Broadcast
        end if;
      end if;
 O5:  nmu := 0;
      res[self] := Append(res[self], R(0));
    elsif op = "all" then
 B1:  await nmu = 0; nmu := self;
 B2:  v := nwait;                                          \* LoadUint32(&l.wait)
 B3:  nnotify := v;                                        \* StoreUint32(&l.notify, ...)
      nsleep := {};                                        \* Broadcast (under the mutex)
 B4:  nmu := 0;
      res[self] := Append(res[self], R(0));
    end if;
  end while;
end process;

process spurious = 0
begin
 Sp: while spur > 0 do
       either
         with t \in ssleep do ssleep := ssleep \ {t}; end with;
       or
         with t \in nsleep do nsleep := nsleep \ {t}; end with;
       end either;
       spur := spur - 1;
     end while;
end process;
end algorithm; *)
\* BEGIN TRANSLATION
VARIABLES pc, sc, NT, cnt, smu, ssleep, waiters, nwait, nnotify, nmu, nsleep, 
          res, spur

(* define statement *)
Prog(t) == IF t <= NT THEN Scenarios[sc].threads[t] ELSE <<>>
R(v) == [sel |-> 0, val |-> v, ok |-> FALSE, pan |-> ""]

VARIABLES pc0, op, v, ticket, casok

vars == << pc, sc, NT, cnt, smu, ssleep, waiters, nwait, nnotify, nmu, nsleep, 
           res, spur, pc0, op, v, ticket, casok >>

ProcSet == (1..MaxThreads) \cup {0}

Init == (* Global variables *)
        /\ sc \in Small
        /\ NT = Len(Scenarios[sc].threads)
        /\ cnt = Scenarios[sc].init[1]
        /\ smu = 0
        /\ ssleep = {}
        /\ waiters = 0
        /\ nwait = 0
        /\ nnotify = 0
        /\ nmu = 0
        /\ nsleep = {}
        /\ res = [t \in 1..MaxThreads |-> <<>>]
        /\ spur = SpuriousBudget
        (* Process thr *)
        /\ pc0 = [self \in 1..MaxThreads |-> 1]
        /\ op = [self \in 1..MaxThreads |-> "none"]
        /\ v = [self \in 1..MaxThreads |-> 0]
        /\ ticket = [self \in 1..MaxThreads |-> 0]
        /\ casok = [self \in 1..MaxThreads |-> FALSE]
        /\ pc = [self \in ProcSet |-> CASE self \in 1..MaxThreads -> "Loop"
                                        [] self = 0 -> "Sp"]

Loop(self) == /\ pc[self] = "Loop"
              /\ IF pc0[self] <= Len(Prog(self))
                    THEN /\ op' = [op EXCEPT ![self] = Prog(self)[pc0[self]].k]
                         /\ pc0' = [pc0 EXCEPT ![self] = pc0[self] + 1]
                         /\ IF op'[self] = "acq"
                               THEN /\ pc' = [pc EXCEPT ![self] = "A1"]
                               ELSE /\ IF op'[self] = "rel"
                                          THEN /\ pc' = [pc EXCEPT ![self] = "L1"]
                                          ELSE /\ IF op'[self] = "add"
                                                     THEN /\ pc' = [pc EXCEPT ![self] = "D1"]
                                                     ELSE /\ IF op'[self] = "wait"
                                                                THEN /\ pc' = [pc EXCEPT ![self] = "W1"]
                                                                ELSE /\ IF op'[self] = "one"
                                                                           THEN /\ pc' = [pc EXCEPT ![self] = "O1"]
                                                                           ELSE /\ IF op'[self] = "all"
                                                                                      THEN /\ pc' = [pc EXCEPT ![self] = "B1"]
                                                                                      ELSE /\ pc' = [pc EXCEPT ![self] = "Loop"]
                    ELSE /\ pc' = [pc EXCEPT ![self] = "Done"]
                         /\ UNCHANGED << pc0, op >>
              /\ UNCHANGED << sc, NT, cnt, smu, ssleep, waiters, nwait, 
                              nnotify, nmu, nsleep, res, spur, v, ticket, 
                              casok >>

A1(self) == /\ pc[self] = "A1"
            /\ v' = [v EXCEPT ![self] = cnt]
            /\ pc' = [pc EXCEPT ![self] = "A2"]
            /\ UNCHANGED << sc, NT, cnt, smu, ssleep, waiters, nwait, nnotify, 
                            nmu, nsleep, res, spur, pc0, op, ticket, casok >>

A2(self) == /\ pc[self] = "A2"
            /\ IF v[self] # 0 /\ cnt = v[self]
                  THEN /\ cnt' = v[self] - 1
                       /\ casok' = [casok EXCEPT ![self] = TRUE]
                  ELSE /\ casok' = [casok EXCEPT ![self] = FALSE]
                       /\ cnt' = cnt
            /\ IF casok'[self]
                  THEN /\ res' = [res EXCEPT ![self] = Append(res[self], R(0))]
                       /\ pc' = [pc EXCEPT ![self] = "Loop"]
                  ELSE /\ pc' = [pc EXCEPT ![self] = "A3"]
                       /\ res' = res
            /\ UNCHANGED << sc, NT, smu, ssleep, waiters, nwait, nnotify, nmu, 
                            nsleep, spur, pc0, op, v, ticket >>

A3(self) == /\ pc[self] = "A3"
            /\ smu = 0
            /\ smu' = self
            /\ pc' = [pc EXCEPT ![self] = "A4"]
            /\ UNCHANGED << sc, NT, cnt, ssleep, waiters, nwait, nnotify, nmu, 
                            nsleep, res, spur, pc0, op, v, ticket, casok >>

A4(self) == /\ pc[self] = "A4"
            /\ v' = [v EXCEPT ![self] = cnt]
            /\ pc' = [pc EXCEPT ![self] = "A5"]
            /\ UNCHANGED << sc, NT, cnt, smu, ssleep, waiters, nwait, nnotify, 
                            nmu, nsleep, res, spur, pc0, op, ticket, casok >>

A5(self) == /\ pc[self] = "A5"
            /\ IF v[self] # 0 /\ cnt = v[self]
                  THEN /\ cnt' = v[self] - 1
                       /\ casok' = [casok EXCEPT ![self] = TRUE]
                  ELSE /\ casok' = [casok EXCEPT ![self] = FALSE]
                       /\ cnt' = cnt
            /\ IF casok'[self]
                  THEN /\ smu' = 0
                       /\ res' = [res EXCEPT ![self] = Append(res[self], R(0))]
                       /\ pc' = [pc EXCEPT ![self] = "Loop"]
                       /\ UNCHANGED << ssleep, waiters >>
                  ELSE /\ IF v[self] # 0 /\ ~SleepOnLostRace
                             THEN /\ pc' = [pc EXCEPT ![self] = "A4"]
                                  /\ UNCHANGED << smu, ssleep, waiters >>
                             ELSE /\ waiters' = waiters + 1
                                  /\ smu' = 0
                                  /\ ssleep' = (ssleep \cup {self})
                                  /\ pc' = [pc EXCEPT ![self] = "A6"]
                       /\ res' = res
            /\ UNCHANGED << sc, NT, nwait, nnotify, nmu, nsleep, spur, pc0, op, 
                            v, ticket >>

A6(self) == /\ pc[self] = "A6"
            /\ self \notin ssleep /\ smu = 0
            /\ smu' = self
            /\ waiters' = waiters - 1
            /\ pc' = [pc EXCEPT ![self] = "A4"]
            /\ UNCHANGED << sc, NT, cnt, ssleep, nwait, nnotify, nmu, nsleep, 
                            res, spur, pc0, op, v, ticket, casok >>

L1(self) == /\ pc[self] = "L1"
            /\ cnt' = cnt + 1
            /\ pc' = [pc EXCEPT ![self] = "L2"]
            /\ UNCHANGED << sc, NT, smu, ssleep, waiters, nwait, nnotify, nmu, 
                            nsleep, res, spur, pc0, op, v, ticket, casok >>

L2(self) == /\ pc[self] = "L2"
            /\ smu = 0
            /\ IF waiters # 0 /\ ssleep # {}
                  THEN /\ \E w \in ssleep:
                            ssleep' = ssleep \ {w}
                  ELSE /\ TRUE
                       /\ UNCHANGED ssleep
            /\ res' = [res EXCEPT ![self] = Append(res[self], R(0))]
            /\ pc' = [pc EXCEPT ![self] = "Loop"]
            /\ UNCHANGED << sc, NT, cnt, smu, waiters, nwait, nnotify, nmu, 
                            nsleep, spur, pc0, op, v, ticket, casok >>

D1(self) == /\ pc[self] = "D1"
            /\ ticket' = [ticket EXCEPT ![self] = nwait]
            /\ nwait' = nwait + 1
            /\ res' = [res EXCEPT ![self] = Append(res[self], R(ticket'[self]))]
            /\ pc' = [pc EXCEPT ![self] = "Loop"]
            /\ UNCHANGED << sc, NT, cnt, smu, ssleep, waiters, nnotify, nmu, 
                            nsleep, spur, pc0, op, v, casok >>

W1(self) == /\ pc[self] = "W1"
            /\ nmu = 0
            /\ nmu' = self
            /\ pc' = [pc EXCEPT ![self] = "W2"]
            /\ UNCHANGED << sc, NT, cnt, smu, ssleep, waiters, nwait, nnotify, 
                            nsleep, res, spur, pc0, op, v, ticket, casok >>

W2(self) == /\ pc[self] = "W2"
            /\ v' = [v EXCEPT ![self] = nnotify]
            /\ IF (IF TicketBug THEN v'[self] = ticket[self] ELSE v'[self] <= ticket[self])
                  THEN /\ nmu' = 0
                       /\ nsleep' = (nsleep \cup {self})
                       /\ pc' = [pc EXCEPT ![self] = "W3"]
                       /\ res' = res
                  ELSE /\ nmu' = 0
                       /\ res' = [res EXCEPT ![self] = Append(res[self], R(0))]
                       /\ pc' = [pc EXCEPT ![self] = "Loop"]
                       /\ UNCHANGED nsleep
            /\ UNCHANGED << sc, NT, cnt, smu, ssleep, waiters, nwait, nnotify, 
                            spur, pc0, op, ticket, casok >>

W3(self) == /\ pc[self] = "W3"
            /\ self \notin nsleep /\ nmu = 0
            /\ nmu' = self
            /\ pc' = [pc EXCEPT ![self] = "W2"]
            /\ UNCHANGED << sc, NT, cnt, smu, ssleep, waiters, nwait, nnotify, 
                            nsleep, res, spur, pc0, op, v, ticket, casok >>

O1(self) == /\ pc[self] = "O1"
            /\ nmu = 0
            /\ nmu' = self
            /\ pc' = [pc EXCEPT ![self] = "O2"]
            /\ UNCHANGED << sc, NT, cnt, smu, ssleep, waiters, nwait, nnotify, 
                            nsleep, res, spur, pc0, op, v, ticket, casok >>

O2(self) == /\ pc[self] = "O2"
            /\ v' = [v EXCEPT ![self] = nnotify]
            /\ pc' = [pc EXCEPT ![self] = "O3"]
            /\ UNCHANGED << sc, NT, cnt, smu, ssleep, waiters, nwait, nnotify, 
                            nmu, nsleep, res, spur, pc0, op, ticket, casok >>

O3(self) == /\ pc[self] = "O3"
            /\ IF v[self] # nwait
                  THEN /\ pc' = [pc EXCEPT ![self] = "O4"]
                  ELSE /\ pc' = [pc EXCEPT ![self] = "O5"]
            /\ UNCHANGED << sc, NT, cnt, smu, ssleep, waiters, nwait, nnotify, 
                            nmu, nsleep, res, spur, pc0, op, v, ticket, casok >>

O4(self) == /\ pc[self] = "O4"
            /\ nnotify' = nnotify + 1
            /\ IF TicketBug
                  THEN /\ IF nsleep # {}
                             THEN /\ \E w \in nsleep:
                                       nsleep' = nsleep \ {w}
                             ELSE /\ TRUE
                                  /\ UNCHANGED nsleep
                  ELSE /\ nsleep' = {}
            /\ pc' = [pc EXCEPT ![self] = "O5"]
            /\ UNCHANGED << sc, NT, cnt, smu, ssleep, waiters, nwait, nmu, res, 
                            spur, pc0, op, v, ticket, casok >>

O5(self) == /\ pc[self] = "O5"
            /\ nmu' = 0
            /\ res' = [res EXCEPT ![self] = Append(res[self], R(0))]
            /\ pc' = [pc EXCEPT ![self] = "Loop"]
            /\ UNCHANGED << sc, NT, cnt, smu, ssleep, waiters, nwait, nnotify, 
                            nsleep, spur, pc0, op, v, ticket, casok >>

B1(self) == /\ pc[self] = "B1"
            /\ nmu = 0
            /\ nmu' = self
            /\ pc' = [pc EXCEPT ![self] = "B2"]
            /\ UNCHANGED << sc, NT, cnt, smu, ssleep, waiters, nwait, nnotify, 
                            nsleep, res, spur, pc0, op, v, ticket, casok >>

B2(self) == /\ pc[self] = "B2"
            /\ v' = [v EXCEPT ![self] = nwait]
            /\ pc' = [pc EXCEPT ![self] = "B3"]
            /\ UNCHANGED << sc, NT, cnt, smu, ssleep, waiters, nwait, nnotify, 
                            nmu, nsleep, res, spur, pc0, op, ticket, casok >>

B3(self) == /\ pc[self] = "B3"
            /\ nnotify' = v[self]
            /\ nsleep' = {}
            /\ pc' = [pc EXCEPT ![self] = "B4"]
            /\ UNCHANGED << sc, NT, cnt, smu, ssleep, waiters, nwait, nmu, res, 
                            spur, pc0, op, v, ticket, casok >>

B4(self) == /\ pc[self] = "B4"
            /\ nmu' = 0
            /\ res' = [res EXCEPT ![self] = Append(res[self], R(0))]
            /\ pc' = [pc EXCEPT ![self] = "Loop"]
            /\ UNCHANGED << sc, NT, cnt, smu, ssleep, waiters, nwait, nnotify, 
                            nsleep, spur, pc0, op, v, ticket, casok >>

thr(self) == Loop(self) \/ A1(self) \/ A2(self) \/ A3(self) \/ A4(self)
                \/ A5(self) \/ A6(self) \/ L1(self) \/ L2(self) \/ D1(self)
                \/ W1(self) \/ W2(self) \/ W3(self) \/ O1(self) \/ O2(self)
                \/ O3(self) \/ O4(self) \/ O5(self) \/ B1(self) \/ B2(self)
                \/ B3(self) \/ B4(self)

Sp == /\ pc[0] = "Sp"
      /\ IF spur > 0
            THEN /\ \/ /\ \E t \in ssleep:
                            ssleep' = ssleep \ {t}
                       /\ UNCHANGED nsleep
                    \/ /\ \E t \in nsleep:
                            nsleep' = nsleep \ {t}
                       /\ UNCHANGED ssleep
                 /\ spur' = spur - 1
                 /\ pc' = [pc EXCEPT ![0] = "Sp"]
            ELSE /\ pc' = [pc EXCEPT ![0] = "Done"]
                 /\ UNCHANGED << ssleep, nsleep, spur >>
      /\ UNCHANGED << sc, NT, cnt, smu, waiters, nwait, nnotify, nmu, res, pc0, 
                      op, v, ticket, casok >>

spurious == Sp

(* Allow infinite stuttering to prevent deadlock on termination. *)
Terminating == /\ \A self \in ProcSet: pc[self] = "Done"
               /\ UNCHANGED vars

Next == spurious
           \/ (\E self \in 1..MaxThreads: thr(self))
           \/ Terminating

Spec == Init /\ [][Next]_vars

Termination == <>(\A self \in ProcSet: pc[self] = "Done")

\* END TRANSLATION

Finished(t) == pc[t] = "Done"
NoThreadStep == \A t \in 1..MaxThreads : ~ENABLED thr(t)
Terminal == NoThreadStep
Emit == Terminal =>
  PrintT(ToJson([id |-> Scenarios[sc].id, res |-> [t \in 1..NT |-> res[t]],
                 stuck |-> {t \in 1..NT : ~Finished(t)}, cnt |-> <<cnt>>, w |-> nwait, n |-> nnotify]))
WaitersSane == waiters <= MaxThreads
NotifyBounded == TicketBug \/ nnotify <= nwait
=============================================================================

-------------------------------- MODULE AtomicTSO --------------------------------
(***************************************************************************)
(* Layer B for the sync/atomic clause of C11: what the machine does with   *)
(* the instructions llgo's lowering selects (cl/instr.go atomicLoad/Store/ *)
(* RMW/CmpXchg -> LLVM seq_cst -> x86).  x86-TSO: one memory, one FIFO     *)
(* store buffer per hardware thread, loads forward from the own buffer,    *)
(* buffered stores reach memory at arbitrary later moments.                *)
(*                                                                         *)
(*   StoreFence = TRUE   an atomic store is `xchg` (or mov+mfence): the    *)
(*                       buffer is drained and memory written at once      *)
(*   StoreFence = FALSE  an atomic store is a plain `mov` (what a          *)
(*                       monotonic/release store, or a non-atomic one,     *)
(*                       becomes) - the design error of seeded change      *)
(*                       C11-3                                             *)
(*   RMWLocked  = TRUE   add/swap/cas/and/or carry the lock prefix         *)
(*   RMWLocked  = FALSE  they are a load followed by a store               *)
(*                                                                         *)
(* Report only (never a verdict): with both switches TRUE the outcome sets *)
(* must equal AtomicSC's for every program; with one FALSE the programs    *)
(* whose sets grow are the litmus tests with the power to expose that      *)
(* lowering, which the evidence lists next to what the real runs observed. *)
(***************************************************************************)
EXTENDS Naturals, Sequences, FiniteSets, TLC, Json, Bitwise

CONSTANTS StoreFence, RMWLocked

Programs == ndJsonDeserialize("programs.ndjson")

VARIABLES pg, mem, buf, pc, regs, tmp
tsoVars == <<pg, mem, buf, pc, regs, tmp>>

P == Programs[pg]
Threads == 1..Len(P.threads)
Op(t) == P.threads[t][pc[t]]
Returns(k) == k \in {"ld", "add", "swp", "cas", "and", "or"}
IsRMW(k) == k \in {"add", "swp", "cas", "and", "or"}
None == 99

Effect(o, cur) ==
  CASE o.k = "ld"  -> <<cur, cur>>
    [] o.k = "st"  -> <<o.v, 0>>
    [] o.k = "add" -> <<cur + o.v, cur + o.v>>
    [] o.k = "swp" -> <<o.v, cur>>
    [] o.k = "cas" -> IF cur = o.v THEN <<o.w, 1>> ELSE <<cur, 0>>
    [] o.k = "and" -> <<cur & o.v, cur>>
    [] o.k = "or"  -> <<cur | o.v, cur>>

\* the value thread t sees at location l: youngest own buffered store, else memory
RECURSIVE Latest(_, _, _)
Latest(b, l, dflt) == IF b = <<>> THEN dflt
                      ELSE IF b[Len(b)][1] = l THEN b[Len(b)][2] ELSE Latest(SubSeq(b, 1, Len(b) - 1), l, dflt)
View(t, l) == Latest(buf[t], l, mem[l + 1])

Init == /\ pg \in 1..Len(Programs)
        /\ mem = Programs[pg].init
        /\ buf = [t \in 1..Len(Programs[pg].threads) |-> <<>>]
        /\ pc = [t \in 1..Len(Programs[pg].threads) |-> 1]
        /\ regs = [t \in 1..Len(Programs[pg].threads) |-> <<>>]
        /\ tmp = [t \in 1..Len(Programs[pg].threads) |-> None]

Advance(t) == pc' = [pc EXCEPT ![t] = @ + 1]

Load(t) == /\ pc[t] <= Len(P.threads[t]) /\ Op(t).k = "ld"
           /\ regs' = [regs EXCEPT ![t] = Append(@, View(t, Op(t).l))]
           /\ Advance(t) /\ UNCHANGED <<pg, mem, buf, tmp>>

Store(t) == /\ pc[t] <= Len(P.threads[t]) /\ Op(t).k = "st"
            /\ IF StoreFence
               THEN /\ buf[t] = <<>>                                   \* xchg: own buffer drained first
                    /\ mem' = [mem EXCEPT ![Op(t).l + 1] = Op(t).v]
                    /\ UNCHANGED buf
               ELSE /\ buf' = [buf EXCEPT ![t] = Append(@, <<Op(t).l, Op(t).v>>)]
                    /\ UNCHANGED mem
            /\ Advance(t) /\ UNCHANGED <<pg, regs, tmp>>

LockedRMW(t) == /\ RMWLocked /\ pc[t] <= Len(P.threads[t]) /\ IsRMW(Op(t).k)
                /\ buf[t] = <<>>
                /\ LET e == Effect(Op(t), mem[Op(t).l + 1])
                   IN /\ mem' = [mem EXCEPT ![Op(t).l + 1] = e[1]]
                      /\ regs' = [regs EXCEPT ![t] = Append(@, e[2])]
                /\ Advance(t) /\ UNCHANGED <<pg, buf, tmp>>

\* unlocked read-modify-write: the load half ...
SplitRead(t) == /\ ~RMWLocked /\ pc[t] <= Len(P.threads[t]) /\ IsRMW(Op(t).k) /\ tmp[t] = None
                /\ tmp' = [tmp EXCEPT ![t] = View(t, Op(t).l)]
                /\ UNCHANGED <<pg, mem, buf, pc, regs>>
\* ... and the store half
SplitWrite(t) == /\ ~RMWLocked /\ pc[t] <= Len(P.threads[t]) /\ IsRMW(Op(t).k) /\ tmp[t] # None
                 /\ LET e == Effect(Op(t), tmp[t])
                    IN /\ buf' = [buf EXCEPT ![t] = IF e[1] = tmp[t] /\ Op(t).k = "cas" THEN @ ELSE Append(@, <<Op(t).l, e[1]>>)]
                       /\ regs' = [regs EXCEPT ![t] = Append(@, e[2])]
                 /\ tmp' = [tmp EXCEPT ![t] = None]
                 /\ Advance(t) /\ UNCHANGED <<pg, mem>>

Flush(t) == /\ buf[t] # <<>>
            /\ mem' = [mem EXCEPT ![Head(buf[t])[1] + 1] = Head(buf[t])[2]]
            /\ buf' = [buf EXCEPT ![t] = Tail(@)]
            /\ UNCHANGED <<pg, pc, regs, tmp>>

Next == \E t \in Threads : Load(t) \/ Store(t) \/ LockedRMW(t) \/ SplitRead(t) \/ SplitWrite(t) \/ Flush(t)
Spec == Init /\ [][Next]_tsoVars

Terminal == \A t \in Threads : pc[t] > Len(P.threads[t]) /\ buf[t] = <<>>
Emit == Terminal => PrintT(ToJson([id |-> P.id, regs |-> regs, mem |-> mem]))
BufBounded == \A t \in Threads : Len(buf[t]) <= 8
=============================================================================

-------------------------------- MODULE WaitGroupOverSema --------------------------------
(***************************************************************************)
(* Go's sync.WaitGroup (Go 1.24: one 64-bit word, counter in the high half *)
(* and the number of waiters in the low half, plus a semaphore) on the     *)
(* semaphore contract of GoSync.  Main adds NWorkers before starting them; *)
(* every worker calls Done once; NWaiters goroutines call Wait at any      *)
(* time.  Wait returns only after the counter reached zero; every waiter   *)
(* returns; the misuse panics of the code are unreachable in this (legal)  *)
(* usage.  One label per atomic operation / semaphore call.                *)
(***************************************************************************)
EXTENDS Integers, FiniteSets, TLC

CONSTANTS NWorkers, NWaiters

(*--algorithm waitgroup
variables
  v = NWorkers,        \* counter (high 32 bits); Add(NWorkers) happened before the goroutines start
  wn = 0,              \* waiters (low 32 bits)
  sema = 0,
  done = 0,            \* workers that have called Done
  returned = {};       \* waiters whose Wait returned

process worker \in 1..NWorkers
variables sv = 0, sw = 0;
begin
 Work: done := done + 1;
 Add:  sv := v - 1; sw := wn; v := v - 1;                         \* state := wg.state.Add(uint64(-1) << 32)
 Chk:  assert sv >= 0;                                            \* "negative WaitGroup counter"
       if sv > 0 \/ sw = 0 then
         goto Fin;
       end if;
 Reload: assert v = sv /\ wn = sw;                                \* "Add called concurrently with Wait"
 Reset: v := 0; wn := 0;                                          \* wg.state.Store(0)
 Rel:  while sw # 0 do
         sema := sema + 1; sw := sw - 1;                          \* runtime_Semrelease(&wg.sema, false, 0)
       end while;
 Fin:  skip;
end process;

process waiter \in (NWorkers + 1)..(NWorkers + NWaiters)
variables lv = 0, lw = 0;
begin
 Load: lv := v; lw := wn;                                         \* state := wg.state.Load()
 Zero: if lv = 0 then
         returned := returned \cup {self};
         goto WFin;
       end if;
 Cas:  if v = lv /\ wn = lw then                                  \* CompareAndSwap(state, state+1)
         wn := wn + 1;
       else
         goto Load;
       end if;
 Sem:  await sema > 0; sema := sema - 1;                          \* runtime_SemacquireWaitGroup
 Reuse: assert v = 0 /\ wn = 0;                                   \* "WaitGroup is reused before previous Wait has returned"
       returned := returned \cup {self};
 WFin: skip;
end process;
end algorithm; *)
\* BEGIN TRANSLATION
VARIABLES pc, v, wn, sema, done, returned, sv, sw, lv, lw

vars == << pc, v, wn, sema, done, returned, sv, sw, lv, lw >>

ProcSet == (1..NWorkers) \cup ((NWorkers + 1)..(NWorkers + NWaiters))

Init == (* Global variables *)
        /\ v = NWorkers
        /\ wn = 0
        /\ sema = 0
        /\ done = 0
        /\ returned = {}
        (* Process worker *)
        /\ sv = [self \in 1..NWorkers |-> 0]
        /\ sw = [self \in 1..NWorkers |-> 0]
        (* Process waiter *)
        /\ lv = [self \in (NWorkers + 1)..(NWorkers + NWaiters) |-> 0]
        /\ lw = [self \in (NWorkers + 1)..(NWorkers + NWaiters) |-> 0]
        /\ pc = [self \in ProcSet |-> CASE self \in 1..NWorkers -> "Work"
                                        [] self \in (NWorkers + 1)..(NWorkers + NWaiters) -> "Load"]

Work(self) == /\ pc[self] = "Work"
              /\ done' = done + 1
              /\ pc' = [pc EXCEPT ![self] = "Add"]
              /\ UNCHANGED << v, wn, sema, returned, sv, sw, lv, lw >>

Add(self) == /\ pc[self] = "Add"
             /\ sv' = [sv EXCEPT ![self] = v - 1]
             /\ sw' = [sw EXCEPT ![self] = wn]
             /\ v' = v - 1
             /\ pc' = [pc EXCEPT ![self] = "Chk"]
             /\ UNCHANGED << wn, sema, done, returned, lv, lw >>

Chk(self) == /\ pc[self] = "Chk"
             /\ Assert(sv[self] >= 0, 
                       "Failure of assertion at line 28, column 8.")
             /\ IF sv[self] > 0 \/ sw[self] = 0
                   THEN /\ pc' = [pc EXCEPT ![self] = "Fin"]
                   ELSE /\ pc' = [pc EXCEPT ![self] = "Reload"]
             /\ UNCHANGED << v, wn, sema, done, returned, sv, sw, lv, lw >>

Reload(self) == /\ pc[self] = "Reload"
                /\ Assert(v = sv[self] /\ wn = sw[self], 
                          "Failure of assertion at line 32, column 10.")
                /\ pc' = [pc EXCEPT ![self] = "Reset"]
                /\ UNCHANGED << v, wn, sema, done, returned, sv, sw, lv, lw >>

Reset(self) == /\ pc[self] = "Reset"
               /\ v' = 0
               /\ wn' = 0
               /\ pc' = [pc EXCEPT ![self] = "Rel"]
               /\ UNCHANGED << sema, done, returned, sv, sw, lv, lw >>

Rel(self) == /\ pc[self] = "Rel"
             /\ IF sw[self] # 0
                   THEN /\ sema' = sema + 1
                        /\ sw' = [sw EXCEPT ![self] = sw[self] - 1]
                        /\ pc' = [pc EXCEPT ![self] = "Rel"]
                   ELSE /\ pc' = [pc EXCEPT ![self] = "Fin"]
                        /\ UNCHANGED << sema, sw >>
             /\ UNCHANGED << v, wn, done, returned, sv, lv, lw >>

Fin(self) == /\ pc[self] = "Fin"
             /\ TRUE
             /\ pc' = [pc EXCEPT ![self] = "Done"]
             /\ UNCHANGED << v, wn, sema, done, returned, sv, sw, lv, lw >>

worker(self) == Work(self) \/ Add(self) \/ Chk(self) \/ Reload(self)
                   \/ Reset(self) \/ Rel(self) \/ Fin(self)

Load(self) == /\ pc[self] = "Load"
              /\ lv' = [lv EXCEPT ![self] = v]
              /\ lw' = [lw EXCEPT ![self] = wn]
              /\ pc' = [pc EXCEPT ![self] = "Zero"]
              /\ UNCHANGED << v, wn, sema, done, returned, sv, sw >>

Zero(self) == /\ pc[self] = "Zero"
              /\ IF lv[self] = 0
                    THEN /\ returned' = (returned \cup {self})
                         /\ pc' = [pc EXCEPT ![self] = "WFin"]
                    ELSE /\ pc' = [pc EXCEPT ![self] = "Cas"]
                         /\ UNCHANGED returned
              /\ UNCHANGED << v, wn, sema, done, sv, sw, lv, lw >>

Cas(self) == /\ pc[self] = "Cas"
             /\ IF v = lv[self] /\ wn = lw[self]
                   THEN /\ wn' = wn + 1
                        /\ pc' = [pc EXCEPT ![self] = "Sem"]
                   ELSE /\ pc' = [pc EXCEPT ![self] = "Load"]
                        /\ wn' = wn
             /\ UNCHANGED << v, sema, done, returned, sv, sw, lv, lw >>

Sem(self) == /\ pc[self] = "Sem"
             /\ sema > 0
             /\ sema' = sema - 1
             /\ pc' = [pc EXCEPT ![self] = "Reuse"]
             /\ UNCHANGED << v, wn, done, returned, sv, sw, lv, lw >>

Reuse(self) == /\ pc[self] = "Reuse"
               /\ Assert(v = 0 /\ wn = 0, 
                         "Failure of assertion at line 54, column 9.")
               /\ returned' = (returned \cup {self})
               /\ pc' = [pc EXCEPT ![self] = "WFin"]
               /\ UNCHANGED << v, wn, sema, done, sv, sw, lv, lw >>

WFin(self) == /\ pc[self] = "WFin"
              /\ TRUE
              /\ pc' = [pc EXCEPT ![self] = "Done"]
              /\ UNCHANGED << v, wn, sema, done, returned, sv, sw, lv, lw >>

waiter(self) == Load(self) \/ Zero(self) \/ Cas(self) \/ Sem(self)
                   \/ Reuse(self) \/ WFin(self)

(* Allow infinite stuttering to prevent deadlock on termination. *)
Terminating == /\ \A self \in ProcSet: pc[self] = "Done"
               /\ UNCHANGED vars

Next == (\E self \in 1..NWorkers: worker(self))
           \/ (\E self \in (NWorkers + 1)..(NWorkers + NWaiters): waiter(self))
           \/ Terminating

Spec == Init /\ [][Next]_vars

Termination == <>(\A self \in ProcSet: pc[self] = "Done")

\* END TRANSLATION

\* Wait returns only after the counter reached zero, i.e. after every worker called Done
WaitAfterZero == returned # {} => done = NWorkers
AllDone == \A p \in 1..(NWorkers + NWaiters) : pc[p] = "Done"
\* every waiter returns, nothing is left over
NoLostWaiter == (\A p \in 1..NWorkers : ~ENABLED worker(p)) /\ (\A p \in (NWorkers + 1)..(NWorkers + NWaiters) : ~ENABLED waiter(p)) => AllDone
CleanEnd == AllDone => sema = 0 /\ v = 0 /\ wn = 0 /\ Cardinality(returned) = NWaiters
=============================================================================

SPECIFICATION Spec
INVARIANTS Reflexive Symmetric Emit
CHECK_DEADLOCK FALSE

-------------------------------- MODULE GenericLocal --------------------------------
(***************************************************************************)
(* Layer A for C07 (third part): identity of types that are *produced* by  *)
(* generic code - type arguments that mention function-local types, and    *)
(* types declared inside generic functions.                                *)
(*                                                                         *)
(* A type value is  producer(argument type).  The argument types:          *)
(*   int64, uint64, a package-level named type N,                          *)
(*   the local type T of function f and the local type T of function g     *)
(*   (same name, different declarations), and struct{A T} / []T over both  *)
(* The producers (all in one package):                                     *)
(*   arg   the argument type itself                                        *)
(*   H     func H[X any]: yields X - transparent                           *)
(*   GL    type L struct{ x X } declared inside func G[X any]              *)
(*   GM    type M struct{ m int } declared inside the same G (no X in it)  *)
(*   CL CM the same two declarations L and M, but the value is made by a   *)
(*         function literal nested in G - transparent w.r.t. GL / GM       *)
(*   Box   package-level generic type Box[X]                               *)
(*                                                                         *)
(* Go's rules (spec "Type identity", "Type declarations", "Instantiations")*)
(*   a named type is identical only to a type that originates in the same  *)
(*   type declaration with identical type arguments; a declaration inside  *)
(*   a function is one declaration per function (the T of f is not the T   *)
(*   of g); instantiating a generic function substitutes the type          *)
(*   arguments throughout its body, so a type declaration in the body is a *)
(*   separate declaration for every instantiation - G[A].M and G[B].M are  *)
(*   identical iff A and B are, whether or not M mentions X.               *)
(*   struct / slice: identical field names and identical component types.  *)
(* A named term therefore carries: name, the function it is declared in    *)
(* ("" = package level), the type arguments of that function's             *)
(* instantiation, and its own type arguments.                              *)
(*                                                                         *)
(* TLC enumerates all ordered pairs of type values with the verdict, the   *)
(* size of the identity class of the first one, and (once) the number of   *)
(* classes = the number of keys of a map[any]int holding one value of each *)
(***************************************************************************)
EXTENDS Integers, Sequences, FiniteSets, TLC, Json

B(n) == [k |-> "basic", n |-> n]
Nm(name, fn, inst, targs) == [k |-> "named", name |-> name, fn |-> fn, inst |-> inst, targs |-> targs]
St(t) == [k |-> "struct", f |-> t]          \* struct{ A t }
Sl(t) == [k |-> "slice", e |-> t]           \* []t

RECURSIVE Identical(_, _)
IdSeq(s, t) == Len(s) = Len(t) /\ \A i \in 1..Len(s) : Identical(s[i], t[i])
Identical(t, u) ==
  IF t.k # u.k THEN FALSE
  ELSE CASE t.k = "basic" -> t.n = u.n
         [] t.k = "named" -> t.name = u.name /\ t.fn = u.fn /\ IdSeq(t.inst, u.inst) /\ IdSeq(t.targs, u.targs)
         [] t.k = "struct" -> Identical(t.f, u.f)
         [] t.k = "slice" -> Identical(t.e, u.e)

\* ------------------------------------------------------------------ the world
Tf == Nm("T", "f", <<>>, <<>>)
Tg == Nm("T", "g", <<>>, <<>>)
ArgNames == {"int64", "uint64", "N", "Tf", "Tg", "sTf", "sTg", "lTf", "lTg"}
Arg(a) == CASE a = "int64" -> B("int64")
            [] a = "uint64" -> B("uint64")
            [] a = "N" -> Nm("N", "", <<>>, <<>>)
            [] a = "Tf" -> Tf
            [] a = "Tg" -> Tg
            [] a = "sTf" -> St(Tf)
            [] a = "sTg" -> St(Tg)
            [] a = "lTf" -> Sl(Tf)
            [] a = "lTg" -> Sl(Tg)
\* coarse kind of an argument (names the class of a finding): does it mention a function-local type?
ArgKind(a) == IF a \in {"int64", "uint64", "N"} THEN "plain" ELSE "local"

Producers == {"arg", "H", "GL", "GM", "CL", "CM", "Box"}
Produce(p, a) ==
  CASE p \in {"arg", "H"} -> Arg(a)
    [] p \in {"GL", "CL"} -> Nm("L", "G", <<Arg(a)>>, <<>>)
    [] p \in {"GM", "CM"} -> Nm("M", "G", <<Arg(a)>>, <<>>)
    [] p = "Box" -> Nm("Box", "", <<>>, <<Arg(a)>>)
ProdKind(p) == CASE p = "arg" -> "arg" [] p = "H" -> "H" [] p \in {"GL", "GM"} -> "G" [] p \in {"CL", "CM"} -> "Gclosure" [] p = "Box" -> "Box"

Values == Producers \X ArgNames
Same(v, w) == Identical(Produce(v[1], v[2]), Produce(w[1], w[2]))
Class(v) == {w \in Values : Same(v, w)}
Classes == {Class(v) : v \in Values}

\* the relation is an equivalence (so that "number of map keys" is well defined)
ASSUME \A v \in Values : Same(v, v)
ASSUME \A v, w \in Values : Same(v, w) = Same(w, v)
ASSUME \A c, d \in Classes : c = d \/ c \cap d = {}
\* what the text above promises
ASSUME ~Same(<<"GM", "int64">>, <<"GM", "uint64">>) /\ ~Same(<<"GL", "Tf">>, <<"GL", "Tg">>)
ASSUME Same(<<"CL", "sTf">>, <<"GL", "sTf">>) /\ Same(<<"H", "lTg">>, <<"arg", "lTg">>) /\ ~Same(<<"GL", "N">>, <<"GM", "N">>)
ASSUME PrintT(ToJson([nclasses |-> Cardinality(Classes), nvalues |-> Cardinality(Values)]))

VARIABLES v, w
Init == v \in Values /\ w \in Values
Next == UNCHANGED <<v, w>>
Spec == Init /\ [][Next]_<<v, w>>

Emit == PrintT(ToJson([p1 |-> v[1], a1 |-> v[2], p2 |-> w[1], a2 |-> w[2],
                       pk1 |-> ProdKind(v[1]), ak1 |-> ArgKind(v[2]), pk2 |-> ProdKind(w[1]), ak2 |-> ArgKind(w[2]),
                       same |-> Same(v, w), cls |-> Cardinality(Class(v))]))
=============================================================================

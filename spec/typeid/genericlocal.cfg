SPECIFICATION Spec
INVARIANTS Emit
CHECK_DEADLOCK FALSE

SPECIFICATION Spec
INVARIANTS PtrSuperset OwnShadows Emit
CHECK_DEADLOCK FALSE

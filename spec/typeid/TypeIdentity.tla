-------------------------------- MODULE TypeIdentity --------------------------------
(***************************************************************************)
(* Layer A for C07: Go's type identity, transcribed from the language      *)
(* specification ("Type identity"), over a recursive grammar of type terms.*)
(*                                                                         *)
(*   basic      identical iff the same predeclared type (byte = uint8)     *)
(*   named      identical iff they originate in the same type declaration  *)
(*              (package, name, scope of a function-local declaration) and *)
(*              all type arguments are identical                           *)
(*   pointer, slice      identical element types                           *)
(*   array      identical element types and the same length                *)
(*   map        identical key and element types                            *)
(*   chan       identical element types and the same direction             *)
(*   func       same number of parameters and results, corresponding types *)
(*              identical, both variadic or neither                        *)
(*   struct     same sequence of fields: same names, identical types, same *)
(*              embedded-ness, same tags; non-exported field names from    *)
(*              different packages are always different                    *)
(*   interface  same set of methods (order irrelevant): same names and     *)
(*              identical signatures; non-exported names per package       *)
(* The property: two types share a run-time descriptor (hence compare      *)
(* equal in assertions, switches, interface ==, map keys) exactly when     *)
(* Identical holds.  TLC enumerates base terms and, for each, every        *)
(* single-point mutation (the near-miss pairs), with the verdict.          *)
(***************************************************************************)
EXTENDS Integers, Sequences, FiniteSets, TLC, Json

B(n) == [k |-> "basic", n |-> n]
N(pkg, name, scope, targs) == [k |-> "named", pkg |-> pkg, name |-> name, scope |-> scope, targs |-> targs]
P(e) == [k |-> "ptr", e |-> e]
S(e) == [k |-> "slice", e |-> e]
A(n, e) == [k |-> "array", n |-> n, e |-> e]
M(key, e) == [k |-> "map", key |-> key, e |-> e]
C(dir, e) == [k |-> "chan", dir |-> dir, e |-> e]
F(ps, rs, v) == [k |-> "func", params |-> ps, results |-> rs, variadic |-> v]
Fld(name, type, tag, emb, fpkg) == [name |-> name, type |-> type, tag |-> tag, emb |-> emb, fpkg |-> fpkg]
ST(fs) == [k |-> "struct", fields |-> fs]
Mth(name, mpkg, sig) == [name |-> name, mpkg |-> mpkg, sig |-> sig]
I(ms) == [k |-> "iface", methods |-> ms]

Canon(n) == IF n = "byte" THEN "uint8" ELSE IF n = "rune" THEN "int32" ELSE n
Exported(name) == name \in {"A", "Bb", "M", "Q"}          \* the upper-case names used by the grammar

RECURSIVE Identical(_, _)
IdSeq(s, t) == Len(s) = Len(t) /\ \A i \in 1..Len(s) : Identical(s[i], t[i])
SameFieldName(f, g) == f.name = g.name /\ (Exported(f.name) \/ f.fpkg = g.fpkg)
SameMethodName(m, n) == m.name = n.name /\ (Exported(m.name) \/ m.mpkg = n.mpkg)
Identical(t, u) ==
  IF t.k # u.k THEN FALSE
  ELSE CASE t.k = "basic" -> Canon(t.n) = Canon(u.n)
         [] t.k = "named" -> t.pkg = u.pkg /\ t.name = u.name /\ t.scope = u.scope /\ IdSeq(t.targs, u.targs)
         [] t.k \in {"ptr", "slice"} -> Identical(t.e, u.e)
         [] t.k = "array" -> t.n = u.n /\ Identical(t.e, u.e)
         [] t.k = "map" -> Identical(t.key, u.key) /\ Identical(t.e, u.e)
         [] t.k = "chan" -> t.dir = u.dir /\ Identical(t.e, u.e)
         [] t.k = "func" -> IdSeq(t.params, u.params) /\ IdSeq(t.results, u.results) /\ t.variadic = u.variadic
         [] t.k = "struct" -> /\ Len(t.fields) = Len(u.fields)
                              /\ \A i \in 1..Len(t.fields) :
                                   LET f == t.fields[i] g == u.fields[i] IN
                                     /\ f.emb = g.emb /\ f.tag = g.tag /\ Identical(f.type, g.type)
                                     /\ (f.emb \/ SameFieldName(f, g))        \* an embedded field is named by its type
         [] t.k = "iface" -> /\ Len(t.methods) = Len(u.methods)
                             /\ \A i \in 1..Len(t.methods) : \E j \in 1..Len(u.methods) :
                                  SameMethodName(t.methods[i], u.methods[j]) /\ Identical(t.methods[i].sig, u.methods[j].sig)
                             /\ \A j \in 1..Len(u.methods) : \E i \in 1..Len(t.methods) :
                                  SameMethodName(t.methods[i], u.methods[j]) /\ Identical(t.methods[i].sig, u.methods[j].sig)

\* ------------------------------------------------------------------ the grammar's base terms
T1 == N("p1", "T", "", <<>>)
Leaves == { B("int"), B("uint8"), B("byte"), B("string"),
            T1, N("p2", "T", "", <<>>), N("p1", "U", "", <<>>),
            N("p1", "T", ".0", <<>>), N("p1", "T", ".1", <<>>), N("p1", "T", ".0.0", <<>>),
            N("p1", "T", ".0.0.0", <<>>), N("p1", "T", ".0.0.1", <<>>), N("p1", "T", ".0.1.0", <<>>), N("p1", "T", ".1.0.0", <<>>),
            N("p1", "G", "", <<B("int")>>), N("p1", "G", "", <<B("string")>>), N("p1", "G", "", <<T1>>),
            N("p1", "G", "", <<N("p1", "T", ".0", <<>>)>>), N("p1", "G", "", <<C("recv", B("int"))>>),
            N("p1", "G", "", <<C("both", C("recv", B("int")))>>), N("p1", "G", "", <<C("recv", C("both", B("int")))>>) }
Small == { B("int"), B("string"), T1, N("p2", "T", "", <<>>) }
Sig0 == F(<<>>, <<>>, FALSE)
Level1 ==
  {P(x) : x \in Leaves} \cup {S(x) : x \in Leaves} \cup {A(2, x) : x \in Small} \cup {A(3, x) : x \in Small}
  \cup {M(x, y) : x \in Small, y \in Small}
  \cup {C(d, x) : d \in {"both", "send", "recv"}, x \in Small}
  \cup {F(<<x>>, <<y>>, FALSE) : x \in Small, y \in Small}
  \cup {F(<<x, S(y)>>, <<>>, v) : x \in Small, y \in Small, v \in BOOLEAN}
  \cup {F(<<>>, <<x, y>>, FALSE) : x \in Small, y \in Small}
  \cup {ST(<<Fld("A", x, "", FALSE, "p1")>>) : x \in Small}
  \cup {ST(<<Fld("A", x, "t1", FALSE, "p1"), Fld("b", y, "", FALSE, "p1")>>) : x \in Small, y \in Small}
  \cup {ST(<<Fld("", x, "", TRUE, "p1"), Fld("Bb", B("int"), "", FALSE, "p1")>>) : x \in {T1, N("p2", "T", "", <<>>), P(T1)}}
  \cup {I(<<Mth("M", "p1", F(<<x>>, <<>>, FALSE))>>) : x \in Small}
  \cup {I(<<Mth("M", "p1", Sig0), Mth("q", "p1", F(<<>>, <<x>>, FALSE))>>) : x \in Small}
  \cup {I(<<>>)}
Mid == {P(T1), S(B("int")), A(2, B("int")), M(B("string"), T1), C("recv", B("int")), F(<<B("int")>>, <<B("string")>>, FALSE),
        ST(<<Fld("A", B("int"), "t1", FALSE, "p1")>>), I(<<Mth("M", "p1", Sig0)>>)}
Level2 ==
  {P(x) : x \in Mid} \cup {S(x) : x \in Mid} \cup {M(B("string"), x) : x \in Mid} \cup {C("both", x) : x \in Mid}
  \cup {F(<<x>>, <<y>>, FALSE) : x \in Mid, y \in Mid}
  \cup {ST(<<Fld("A", x, "", FALSE, "p1"), Fld("b", y, "t2", FALSE, "p1")>>) : x \in Mid, y \in Mid}
  \cup {N("p1", "G", "", <<x>>) : x \in Mid}
Terms == Leaves \cup Level1 \cup Level2

\* ------------------------------------------------------------------ single-point mutations
Repl(s, i, x) == [s EXCEPT ![i] = x]
Swap(s) == IF Len(s) >= 2 THEN {Repl(Repl(s, 1, s[2]), 2, s[1])} ELSE {}
Drop1(s) == IF Len(s) >= 1 THEN {Tail(s)} ELSE {}
OtherPkg(p) == IF p = "p1" THEN "p2" ELSE "p1"

RECURSIVE Mut(_)
MutSeq(s) == UNION {{Repl(s, i, x) : x \in Mut(s[i])} : i \in 1..Len(s)}
Mut(t) ==
  CASE t.k = "basic" -> {B(n) : n \in {"int", "uint8", "byte", "string", "int32"} \ {t.n}}
    [] t.k = "named" -> {[t EXCEPT !.pkg = OtherPkg(t.pkg)], [t EXCEPT !.name = IF t.name = "T" THEN "U" ELSE "T"],
                         [t EXCEPT !.scope = IF t.scope = "" THEN ".0" ELSE IF t.scope = ".0" THEN ".1" ELSE ""],
                         [t EXCEPT !.scope = IF t.scope = ".0.0.0" THEN ".0.0.1" ELSE IF t.scope = ".0.0.1" THEN ".0.1.0"
                                             ELSE IF t.scope = ".0.1.0" THEN ".1.0.0" ELSE IF t.scope = ".1.0.0" THEN ".0.0" ELSE t.scope \o ".0"]}
                        \cup {[t EXCEPT !.targs = s] : s \in MutSeq(t.targs)}
    [] t.k = "ptr" -> {P(x) : x \in Mut(t.e)} \cup {S(t.e)}
    [] t.k = "slice" -> {S(x) : x \in Mut(t.e)} \cup {P(t.e), A(2, t.e)}
    [] t.k = "array" -> {A(t.n, x) : x \in Mut(t.e)} \cup {A(t.n + 1, t.e), S(t.e)}
    [] t.k = "map" -> {M(x, t.e) : x \in Mut(t.key)} \cup {M(t.key, x) : x \in Mut(t.e)} \cup {M(t.e, t.key)}
    [] t.k = "chan" -> {C(t.dir, x) : x \in Mut(t.e)} \cup {C(d, t.e) : d \in {"both", "send", "recv"} \ {t.dir}}
    [] t.k = "func" -> {[t EXCEPT !.params = s] : s \in MutSeq(t.params) \cup Swap(t.params) \cup Drop1(t.params)}
                       \cup {[t EXCEPT !.results = s] : s \in MutSeq(t.results) \cup Swap(t.results)}
                       \cup (IF Len(t.params) >= 1 THEN {F(Tail(t.params), <<Head(t.params)>> \o t.results, FALSE)} ELSE {})
                       \cup (IF Len(t.params) >= 1 /\ t.params[Len(t.params)].k = "slice"
                               THEN {[t EXCEPT !.variadic = ~t.variadic]} ELSE {})
    [] t.k = "struct" ->
         UNION {{[t EXCEPT !.fields = Repl(t.fields, i, g)] :
                   g \in {[t.fields[i] EXCEPT !.name = IF t.fields[i].emb THEN "" ELSE IF @ = "A" THEN "Bb" ELSE IF @ = "b" THEN "c" ELSE "A"],
                          [t.fields[i] EXCEPT !.tag = IF @ = "" THEN "t1" ELSE IF @ = "t1" THEN "t2" ELSE ""],
                          [t.fields[i] EXCEPT !.fpkg = OtherPkg(@)]}
                         \cup {[t.fields[i] EXCEPT !.type = x] : x \in Mut(t.fields[i].type)}
                         \cup (IF t.fields[i].type.k = "named" /\ t.fields[i].type.targs = <<>> /\ t.fields[i].type.scope = ""
                                 THEN {[t.fields[i] EXCEPT !.emb = ~@, !.name = IF t.fields[i].emb THEN "A" ELSE ""]} ELSE {})}
                : i \in 1..Len(t.fields)}
         \cup {[t EXCEPT !.fields = s] : s \in Swap(t.fields) \cup Drop1(t.fields)}
    [] t.k = "iface" ->
         UNION {{[t EXCEPT !.methods = Repl(t.methods, i, g)] :
                   g \in {[t.methods[i] EXCEPT !.name = IF @ = "M" THEN "Q" ELSE IF @ = "q" THEN "r" ELSE "M"],
                          [t.methods[i] EXCEPT !.mpkg = OtherPkg(@)]}
                         \cup {[t.methods[i] EXCEPT !.sig = x] : x \in Mut(t.methods[i].sig)}}
                : i \in 1..Len(t.methods)}
         \cup {[t EXCEPT !.methods = s] : s \in Swap(t.methods) \cup Drop1(t.methods)}

\* a mutated term must still be a term Go can express
RECURSIVE WellFormed(_)
WellFormed(t) ==
  CASE t.k \in {"basic"} -> TRUE
    [] t.k = "named" -> \A i \in 1..Len(t.targs) : WellFormed(t.targs[i])
    [] t.k \in {"ptr", "slice", "array", "chan"} -> WellFormed(t.e)
    [] t.k = "map" -> WellFormed(t.key) /\ WellFormed(t.e) /\ t.key.k \notin {"slice", "map", "func"}
    [] t.k = "func" -> /\ \A i \in 1..Len(t.params) : WellFormed(t.params[i])
                       /\ \A i \in 1..Len(t.results) : WellFormed(t.results[i])
                       /\ (t.variadic => Len(t.params) >= 1 /\ t.params[Len(t.params)].k = "slice")
    [] t.k = "struct" -> /\ \A i \in 1..Len(t.fields) : WellFormed(t.fields[i].type)
                         /\ \A i, j \in 1..Len(t.fields) : i # j /\ ~t.fields[i].emb /\ ~t.fields[j].emb => t.fields[i].name # t.fields[j].name
                         /\ \A i \in 1..Len(t.fields) : t.fields[i].emb =>
                               (t.fields[i].type.k = "named" \/ (t.fields[i].type.k = "ptr" /\ t.fields[i].type.e.k = "named"))
    [] t.k = "iface" -> /\ \A i \in 1..Len(t.methods) : WellFormed(t.methods[i].sig)
                        /\ \A i, j \in 1..Len(t.methods) : i # j => t.methods[i].name # t.methods[j].name

VARIABLES t, u
Init == t \in Terms /\ u = t
Next == /\ u = t /\ t' = t /\ u' \in {x \in Mut(t) : WellFormed(x)}
Spec == Init /\ [][Next]_<<t, u>>

\* laws of the relation itself
Reflexive == Identical(t, t) /\ Identical(u, u)
Symmetric == Identical(t, u) = Identical(u, t)
Emit == PrintT(ToJson([t |-> t, u |-> u, same |-> Identical(t, u)]))
=============================================================================

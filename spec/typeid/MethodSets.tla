-------------------------------- MODULE MethodSets --------------------------------
(***************************************************************************)
(* Layer A for C07 (second half): method sets and interface satisfaction.  *)
(*                                                                         *)
(* A declared struct type has, per method name, no method, a method with   *)
(* value receiver or one with pointer receiver, and optionally embeds one  *)
(* other declared type by value or by pointer.  Go's rules:                *)
(*   method set of T   : methods declared with receiver T, plus promoted   *)
(*                       methods of an embedded S: those of S if embedded  *)
(*                       by value, those of *S if embedded as *S           *)
(*   method set of *T  : methods declared with receiver T or *T, plus all  *)
(*                       methods of *S for an embedded S or *S             *)
(*   a method declared on the outer type shadows a promoted one            *)
(*   an interface is implemented iff every one of its methods is in the    *)
(*   method set with the identical signature; an unexported method name    *)
(*   belongs to its package, so a type of another package never has it     *)
(* For each (type, T or *T, interface) TLC prints whether the assertion    *)
(* x.(I) must succeed and, if so, which declaration each method of I       *)
(* reaches (the type that declares it).                                    *)
(***************************************************************************)
EXTENDS Integers, Sequences, FiniteSets, TLC, Json

Names == <<"A", "B", "c", "d">>
NIdx == 1..4
RK == {"none", "val", "ptr"}

\* a type: own[i] \in RK for method Names[i]; emb \in {"none","val","ptr"}; base = id of the embedded type (0 = none)
\* embedded base types (fixed menu): 1: A val, c ptr   2: B ptr, d val   3: A ptr, B val, c val
\* 4: A val, c val, d ptr - declared in the OTHER package: its unexported methods c, d are promoted into the
\*    method set of the embedding type with the other package's names
Base == << [own |-> <<"val", "none", "ptr", "none">>],
           [own |-> <<"none", "ptr", "none", "val">>],
           [own |-> <<"ptr", "val", "val", "none">>],
           [own |-> <<"val", "none", "val", "ptr">>] >>
ForeignBase == 4

\* declaration reached by method i on a value (ptr = FALSE) or pointer (ptr = TRUE) of type t; 0 = not in the method set;
\* 100 = declared by the type itself, b = declared by embedded base type b
Reach(t, i, ptr) ==
  IF t.own[i] = "val" THEN 100
  ELSE IF t.own[i] = "ptr" THEN (IF ptr THEN 100 ELSE 0)
  ELSE IF t.emb = "none" THEN 0
  ELSE LET b == Base[t.base].own[i] IN
       IF b = "none" THEN 0
       ELSE IF b = "val" THEN t.base
       ELSE \* pointer-receiver method of the embedded type
            IF t.emb = "ptr" \/ ptr THEN t.base ELSE 0

\* interfaces: non-empty subsets of the names with at most 3 methods; `alt` = the signature of "A" differs (returns string)
\* `foreign` = the unexported names belong to another package
Ifaces == {[ms |-> s, alt |-> a, foreign |-> f] : s \in {x \in SUBSET NIdx : x # {} /\ Cardinality(x) <= 3},
                                                   a \in BOOLEAN, f \in BOOLEAN}
WellFormedIface(I) == (I.alt => 1 \in I.ms) /\ (I.foreign => (3 \in I.ms \/ 4 \in I.ms))

Implements(t, ptr, I) ==
  \A i \in I.ms : /\ Reach(t, i, ptr) # 0
                  /\ ~(I.alt /\ i = 1)                       \* signature mismatch on A
                  \* an unexported name belongs to a package: the interface's and the method's must be the same one
                  /\ (i \in {3, 4} => (I.foreign <=> Reach(t, i, ptr) = ForeignBase))

VARIABLES t, ptr, I
Types == {[own |-> o, emb |-> e, base |-> b] : o \in [NIdx -> RK], e \in {"none", "val", "ptr"}, b \in 0..4}
\* (a type that embeds the foreign base declares no unexported methods itself: its own c and the promoted c would be two
\* different methods, which the one-slot-per-name representation cannot hold)
WellFormedType(x) == /\ (x.emb = "none") = (x.base = 0)
                     /\ (x.base = ForeignBase => x.own[3] = "none" /\ x.own[4] = "none")
\* keep the enumeration small: with an embedded type the outer type declares at most one method itself
SmallType(x) == x.emb = "none" \/ Cardinality({i \in NIdx : x.own[i] # "none"}) <= 1

Init == /\ t \in {x \in Types : WellFormedType(x) /\ SmallType(x)}
        /\ ptr \in BOOLEAN
        /\ I \in {x \in Ifaces : WellFormedIface(x)}
Next == UNCHANGED <<t, ptr, I>>
Spec == Init /\ [][Next]_<<t, ptr, I>>

\* laws of the definition itself
PtrSuperset == \A i \in NIdx : Reach(t, i, FALSE) # 0 => Reach(t, i, TRUE) = Reach(t, i, FALSE)
OwnShadows == \A i \in NIdx : t.own[i] = "val" => Reach(t, i, ptr) = 100

Emit == PrintT(ToJson([own |-> t.own, emb |-> t.emb, base |-> t.base, ptr |-> ptr,
                       ms |-> I.ms, alt |-> I.alt, foreign |-> I.foreign,
                       ok |-> Implements(t, ptr, I),
                       reach |-> [i \in NIdx |-> Reach(t, i, ptr)]]))
=============================================================================

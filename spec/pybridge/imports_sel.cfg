SPECIFICATION Spec
CONSTANTS
  Mode = "sel"
  UseBindings = {}
  BlankBindings = {}
  SitePatterns = {}
  SelShapes <- MCSelShapes
  KeepTrace = TRUE
INVARIANTS ImportedAtMostOnce LoadedBeforeUse ExactlyTheUsedOnes OnlyWhenNeeded Emit
CHECK_DEADLOCK FALSE

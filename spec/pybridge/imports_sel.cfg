SPECIFICATION Spec
CONSTANTS
  Mode = "sel"
  UseBindings = {}
  SitePatterns = {}
  SelShapes <- MCSelShapes
  KeepTrace = TRUE
INVARIANTS ImportedAtMostOnce LoadedBeforeUse ExactlyTheUsedOnes OnlyWhenNeeded Emit
CHECK_DEADLOCK FALSE

SPECIFICATION Spec
CONSTANTS
  ShapeUniverse <- SelShapes
  KeepTrace = TRUE
INVARIANTS ImportedAtMostOnce LoadedBeforeUse ExactlyTheUsedOnes OnlyWhenNeeded Emit
CHECK_DEADLOCK FALSE

-------------------------------- MODULE PyImports --------------------------------
(***************************************************************************)
(* Layer A for the second sentence of C19: "Each Python module used by a   *)
(* program is imported once, before its first use, in whichever package    *)
(* first needs it."                                                        *)
(*                                                                         *)
(* A program shape is a set of Go packages (main, a, b; main imports the   *)
(* others, a may import b), and for each package the set of Python binding *)
(* packages it imports and the place where it calls them (package-level    *)
(* variable initialiser, init function, or code reached from main.main).   *)
(* Two binding packages (vmod, vmod2) bind the same Python module.         *)
(*                                                                         *)
(* Go only fixes that a package is initialised after everything it         *)
(* imports; the spec therefore allows every topological order.  A binding  *)
(* package's initialisation imports its Python module unless some other    *)
(* package's initialisation already did.                                   *)
(* Events:  <<"I", module>>   the interpreter is asked to import module    *)
(*          <<"M", pkg>>      Go package pkg starts its own initialisers   *)
(*          <<"U", pkg, bnd>> pkg calls into binding bnd                   *)
(***************************************************************************)
EXTENDS Integers, Sequences, FiniteSets, TLC, Json

CONSTANTS ShapeUniverse,     \* the set of program shapes to explore (AllShapes, QuickShapes, or a generated selection)
          KeepTrace          \* TRUE: record the event trace (for the binding); FALSE: only counters (all shapes)

Bindings == {"math", "json", "vmod", "vmod2"}
BindOrder == <<"json", "math", "vmod", "vmod2">>       \* order of the calls inside one package (program text order)
ModOf == [math |-> "math", json |-> "json", vmod |-> "vmod", vmod2 |-> "vmod"]
Mods == {"math", "json", "vmod"}
RunOrder == <<"a", "b", "main">>                        \* main.main runs a's, then b's, then its own calls
Sites == {"var", "init", "run"}
GoPkgs == {"main", "a", "b"}

\* shapes over the given package sets / site choices (SiteOf: package -> allowed sites)
ShapesOver(PkgSets, SiteOf) ==
  UNION { { [pkgs |-> ps, ab |-> ab, uses |-> u, site |-> s] :
              u \in [ps -> SUBSET Bindings],
              s \in {f \in [ps -> Sites] : \A p \in ps : f[p] \in SiteOf[p]} }
          : ps \in PkgSets, ab \in BOOLEAN }
AllPkgSets == {{"main"}, {"main", "a"}, {"main", "a", "b"}}
AllShapes   == ShapesOver(AllPkgSets, [p \in GoPkgs |-> Sites])
QuickShapes == ShapesOver(AllPkgSets, [main |-> {"run"}, a |-> {"init"}, b |-> {"var"}])
\* "a imports b" only means something when both exist; keep one representative otherwise
WellFormed(sh) == (~({"a", "b"} \subseteq sh.pkgs)) => sh.ab = FALSE

VARIABLES shape, inited, loaded, icount, trace, phase, bad
vars == <<shape, inited, loaded, icount, trace, phase, bad>>

GoDeps(p) == CASE p = "main" -> shape.pkgs \ {"main"}
               [] p = "a"    -> IF shape.ab THEN {"b"} \cap shape.pkgs ELSE {}
               [] OTHER      -> {}
Deps(n) == IF n \in Bindings THEN {} ELSE GoDeps(n) \cup shape.uses[n]
Nodes == shape.pkgs \cup UNION {shape.uses[p] : p \in shape.pkgs}
UsedMods == {ModOf[b] : b \in Nodes \cap Bindings}

Init == /\ shape \in {sh \in ShapeUniverse : WellFormed(sh)}
        /\ inited = {} /\ loaded = {} /\ icount = [m \in Mods |-> 0]
        /\ trace = <<>> /\ phase = "init" /\ bad = FALSE

Log(evs) == IF KeepTrace THEN trace' = trace \o evs ELSE trace' = trace

UsesOf(p) == SelectSeq(BindOrder, LAMBDA b : b \in shape.uses[p])
UseEvents(p) == [i \in 1..Len(UsesOf(p)) |-> <<"U", p, UsesOf(p)[i]>>]

InitBinding(b) ==
  /\ phase = "init" /\ b \in (Nodes \cap Bindings) \ inited
  /\ inited' = inited \cup {b}
  /\ IF ModOf[b] \in loaded
       THEN UNCHANGED <<loaded, icount, trace>>
       ELSE /\ loaded' = loaded \cup {ModOf[b]}
            /\ icount' = [icount EXCEPT ![ModOf[b]] = @ + 1]
            /\ Log(<< <<"I", ModOf[b]>> >>)
  /\ UNCHANGED <<shape, phase, bad>>

InitPkg(p) ==
  /\ phase = "init" /\ p \in shape.pkgs \ inited /\ Deps(p) \subseteq inited
  /\ inited' = inited \cup {p}
  /\ LET early == shape.site[p] \in {"var", "init"} IN
       /\ Log(<< <<"M", p>> >> \o (IF early THEN UseEvents(p) ELSE <<>>))
       /\ bad' = (bad \/ (early /\ \E b \in shape.uses[p] : ModOf[b] \notin loaded))
  /\ UNCHANGED <<shape, loaded, icount, phase>>

RunMain ==
  /\ phase = "init" /\ inited = Nodes
  /\ phase' = "done"
  /\ LET late == SelectSeq(RunOrder, LAMBDA p : p \in shape.pkgs /\ shape.site[p] = "run")
         RECURSIVE Cat(_)
         Cat(s) == IF s = <<>> THEN <<>> ELSE UseEvents(Head(s)) \o Cat(Tail(s))
     IN /\ Log(Cat(late))
        /\ bad' = (bad \/ \E i \in 1..Len(late) : \E b \in shape.uses[late[i]] : ModOf[b] \notin loaded)
  /\ UNCHANGED <<shape, inited, loaded, icount>>

Next == (\E b \in Bindings : InitBinding(b)) \/ (\E p \in {"main", "a", "b"} : InitPkg(p)) \/ RunMain
Spec == Init /\ [][Next]_vars

\* ---- the property's clauses as invariants of the machine
ImportedAtMostOnce == \A m \in Mods : icount[m] <= 1
LoadedBeforeUse    == ~bad
ExactlyTheUsedOnes == phase = "done" => \A m \in Mods : icount[m] = (IF m \in UsedMods THEN 1 ELSE 0)
OnlyWhenNeeded     == \A m \in Mods : icount[m] > 0 => m \in UsedMods

ShapeJson == [pkgs |-> shape.pkgs, ab |-> shape.ab,
              uses |-> [p \in shape.pkgs |-> UsesOf(p)], site |-> shape.site]
Emit == phase = "done" => PrintT(ToJson([shape |-> ShapeJson, icount |-> icount, trace |-> trace]))
=============================================================================

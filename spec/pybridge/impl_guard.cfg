SPECIFICATION Spec
CONSTANTS
  UseBindings = {"math", "vmod", "vmod2"}
  ImportGuard = TRUE
INVARIANTS ImportedAtMostOnce LoadedBeforeUse ExactlyTheUsedOnes EveryPackageInitialisedOnce
CHECK_DEADLOCK FALSE

-------------------------------- MODULE PyImportImpl --------------------------------
(***************************************************************************)
(* Layer B for C19 (never the judge; reported only): the mechanism llgo    *)
(* uses to import Python modules, checked against the clauses of layer A   *)
(* (PyImports.tla) on every program shape.                                 *)
(*                                                                         *)
(*  - every Go package, binding packages included, has an init function    *)
(*    with a run-once flag; it first calls the init functions of the       *)
(*    packages it imports (depth first, from main.init)                    *)
(*  - a binding package's init then tests the link-once global             *)
(*    __llgo_py.<module>, shared by all bindings of that module, and calls *)
(*    PyImport_ImportModule only if it is still nil (cl/compile.go,        *)
(*    compileBlock, pyModInit) -- ImportGuard = FALSE models dropping that *)
(*    test                                                                 *)
(*  - a Go package that calls Python functions fills its own table of      *)
(*    function objects from the module global right after its imports'     *)
(*    inits returned (ssa/package.go AfterInit -> llgoLoadPyModSyms), i.e. *)
(*    before its variable initialisers run                                 *)
(***************************************************************************)
EXTENDS Integers, Sequences, FiniteSets, TLC

CONSTANTS UseBindings, ImportGuard

Bindings == {"math", "json", "vmod", "vmod2"}
ModOf == [math |-> "math", json |-> "json", vmod |-> "vmod", vmod2 |-> "vmod"]
Mods == {"math", "json", "vmod"}
GoPkgs == {"main", "a", "b"}
PkgSets == {{"main"}, {"main", "a"}, {"main", "a", "b"}}
Pattern == [main |-> "run", a |-> "init", b |-> "var"]
Rank == [a |-> 1, b |-> 2, main |-> 3]
ABChoices(ps) == IF {"a", "b"} \subseteq ps THEN BOOLEAN ELSE {FALSE}

VARIABLES shape, todo, guard, modptr, icount, syms, stack, phase, bad
vars == <<shape, todo, guard, modptr, icount, syms, stack, phase, bad>>

GoDeps(p) == CASE p = "main" -> shape.pkgs \ {"main"}
               [] p = "a"    -> IF shape.ab THEN {"b"} \cap shape.pkgs ELSE {}
               [] OTHER      -> {}
Deps(n) == IF n \in Bindings THEN {} ELSE GoDeps(n) \cup shape.uses[n]
UsedMods == {ModOf[b] : b \in UNION {shape.uses[p] : p \in shape.pkgs}}

Init == /\ \E ps \in PkgSets, ab \in BOOLEAN :
              /\ ab \in ABChoices(ps)
              /\ shape = [pkgs |-> ps, ab |-> ab, uses |-> [p \in ps |-> {}], site |-> [p \in ps |-> Pattern[p]]]
              /\ todo = ps
        /\ guard = {} /\ modptr = {} /\ icount = [m \in Mods |-> 0] /\ syms = {}
        /\ stack = <<>> /\ phase = "boot" /\ bad = FALSE

Describe(p) ==
  /\ p \in todo /\ \A q \in todo : Rank[p] <= Rank[q]
  /\ \E u \in SUBSET UseBindings : shape' = [shape EXCEPT !.uses[p] = u]
  /\ todo' = todo \ {p}
  /\ UNCHANGED <<guard, modptr, icount, syms, stack, phase, bad>>

\* entry: Py_Initialize, runtime init, then main.init
Boot ==
  /\ todo = {} /\ phase = "boot"
  /\ phase' = "init" /\ guard' = {"main"}
  /\ stack' = << [n |-> "main", rest |-> Deps("main")] >>
  /\ UNCHANGED <<shape, todo, modptr, icount, syms, bad>>

Top == stack[Len(stack)]
Pop == SubSeq(stack, 1, Len(stack) - 1)

\* call the init function of one imported package (any order)
CallDep ==
  /\ phase = "init" /\ stack # <<>> /\ Top.rest # {}
  /\ \E d \in Top.rest :
       LET st1 == [stack EXCEPT ![Len(stack)].rest = @ \ {d}] IN
       IF d \in guard
         THEN stack' = st1 /\ UNCHANGED guard
         ELSE stack' = Append(st1, [n |-> d, rest |-> Deps(d)]) /\ guard' = guard \cup {d}
  /\ UNCHANGED <<shape, todo, modptr, icount, syms, phase, bad>>

EarlyUse(p) == shape.site[p] \in {"var", "init"}

\* the package's own part of init, after all imports returned
Body ==
  /\ phase = "init" /\ stack # <<>> /\ Top.rest = {}
  /\ LET n == Top.n IN
       IF n \in Bindings
         THEN /\ IF ImportGuard /\ ModOf[n] \in modptr
                   THEN UNCHANGED <<modptr, icount>>
                   ELSE modptr' = modptr \cup {ModOf[n]} /\ icount' = [icount EXCEPT ![ModOf[n]] = @ + 1]
              /\ UNCHANGED <<syms, bad>>
         ELSE /\ syms' = syms \cup {<<n, b>> : b \in shape.uses[n]}               \* llgoLoadPyModSyms(module global, ...)
              /\ bad' = (bad \/ \E b \in shape.uses[n] : ModOf[b] \notin modptr)   \* PyObject_GetAttrString(NULL, ...)
              /\ UNCHANGED <<modptr, icount>>
  /\ stack' = Pop
  /\ UNCHANGED <<shape, todo, guard, phase>>

\* main.main: every call goes through the calling package's table of function objects
RunMain ==
  /\ phase = "init" /\ stack = <<>>
  /\ phase' = "done"
  /\ bad' = (bad \/ \E p \in shape.pkgs : \E b \in shape.uses[p] : <<p, b>> \notin syms)
  /\ UNCHANGED <<shape, todo, guard, modptr, icount, syms, stack>>

Next == (\E p \in GoPkgs : Describe(p)) \/ Boot \/ CallDep \/ Body \/ RunMain
Spec == Init /\ [][Next]_vars

\* ---- the clauses of layer A
ImportedAtMostOnce == \A m \in Mods : icount[m] <= 1
LoadedBeforeUse    == ~bad
ExactlyTheUsedOnes == phase = "done" => \A m \in Mods : icount[m] = (IF m \in UsedMods THEN 1 ELSE 0)
EveryPackageInitialisedOnce == phase = "done" => guard = shape.pkgs \cup UNION {shape.uses[p] : p \in shape.pkgs}
=============================================================================

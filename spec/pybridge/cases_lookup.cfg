SPECIFICATION Spec
CONSTANTS Family = "lookup"
INVARIANTS LawRoundTrip LawTyped LawCallOrder Emit
CHECK_DEADLOCK FALSE

SPECIFICATION Spec
CONSTANTS Family = "nested"
INVARIANTS LawRoundTrip LawTyped LawCallOrder Emit
CHECK_DEADLOCK FALSE

SPECIFICATION Spec
CONSTANTS
  ShapeUniverse <- AllShapes
  KeepTrace = FALSE
INVARIANTS ImportedAtMostOnce LoadedBeforeUse ExactlyTheUsedOnes OnlyWhenNeeded Emit
CHECK_DEADLOCK FALSE

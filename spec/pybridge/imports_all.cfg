SPECIFICATION Spec
CONSTANTS
  Mode = "enum"
  UseBindings = {"math", "json", "vmod", "vmod2"}
  BlankBindings = {"math"}
  SitePatterns <- ThoroughPatterns
  SelShapes = {}
  KeepTrace = FALSE
INVARIANTS ImportedAtMostOnce LoadedBeforeUse ExactlyTheUsedOnes OnlyWhenNeeded Emit
CHECK_DEADLOCK FALSE

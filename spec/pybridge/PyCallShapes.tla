-------------------------------- MODULE PyCallShapes --------------------------------
(***************************************************************************)
(* Case generator for the call sentence of C19 seen from the Go side:      *)
(* "a Python callable invoked from Go receives the positional arguments in *)
(* order and its result is returned to Go", for the ways a Go program can  *)
(* declare and call a binding, and "attribute lookups by name resolve to   *)
(* the same objects CPython itself resolves" for function objects that are *)
(* handed to Python as arguments.                                          *)
(*                                                                         *)
(*  dual     two Go declarations bound to ONE Python attribute with        *)
(*           different numbers of parameters (as lib/py/math binds         *)
(*           math.log as Log(x) and LogOf(x, base)); the program calls the *)
(*           one with "first" parameters, then the one with "second"       *)
(*  govar    a binding declared with an ordinary Go variadic parameter     *)
(*           f(fixed..., rest ...*Object) called with literal arguments    *)
(*           or with a slice (rest...) of 0..3 objects                     *)
(*  hypot    lib/py/math.Hypot(coordinates ...*Object), exact cases        *)
(*  funcref  a Python function named through its Go binding is itself an   *)
(*           argument of a call (std.Print(std.Abs))                       *)
(*  colookup one Go package calls functions of several modules, among them *)
(*           a package module and its dotted submodule whose attribute     *)
(*           names sort before and after the submodule's name (every       *)
(*           non-empty subset of four symbols): each name must resolve in  *)
(*           ITS module, whatever else the calling package binds           *)
(*  site     the kind of place the call is written in: for every kind a    *)
(*           Python function that the whole program calls from that kind   *)
(*           of place ONLY (plain function, closure, method, package-level *)
(*           initialiser, init function, instance of a generic function,   *)
(*           method of an instance of a generic type, generic function of  *)
(*           another package instantiated here)                            *)
(*                                                                         *)
(* Nothing here says how a call is lowered: Call (PyBridge) is the law.    *)
(***************************************************************************)
EXTENDS PyBridge, Json

CONSTANT Family      \* "dual" | "govar" | "hypot" | "funcref" | "colookup" | "site" | "all"

\* position i of every call carries the i-th of four different objects: a dropped, repeated or displaced argument shows
ArgSeq == << GoInt("i64", [neg |-> FALSE, m |-> Small(7)]), GoString(<<97>>), GoFloat("f64", "half"),
             GoInt("i64", [neg |-> TRUE, m |-> Small(2)]) >>
Arities == 0..3
Args(n) == SubSeq(ArgSeq, 1, n)

\* a function object is identified by the module that defines it and its name there; naming it through a binding of
\* module M, attribute A denotes what CPython's getattr(import_module(M), A) yields (python3 validates the table)
FuncRef(mod, attr) == [k |-> "funcref", mod |-> mod, attr |-> attr]
Resolve == [vmod |-> [who |-> [t |-> "func", mod |-> "vmod", name |-> "who"]],
            vpk_sub |-> [who |-> [t |-> "func", mod |-> "vpk.sub", name |-> "who"]],
            builtins |-> [abs |-> [t |-> "func", mod |-> "builtins", name |-> "abs"]]]
Refs == {FuncRef("vmod", "who"), FuncRef("vpk_sub", "who"), FuncRef("builtins", "abs")}

ArgToPy(a) == IF a.k = "funcref" THEN Resolve[a.mod][a.attr] ELSE ToPy(a)
\* the callables of the test module return the tuple of what they received (as Call of PyBridge, with function arguments)
CallT(args) == LET recv == [i \in DOMAIN args |-> ArgToPy(args[i])]
               IN [args |-> args, recv |-> recv, ret |-> [t |-> "tuple", items |-> recv]]

DualCases  == {[fam |-> "dual", first |-> a, second |-> b] : a \in Arities, b \in Arities}
GoVarCases == {[fam |-> "govar", fixed |-> f, form |-> fm, nvar |-> n] : f \in {0, 1}, fm \in {"lit", "spread"}, n \in Arities}
HypotCases == {[fam |-> "hypot", coords |-> c] : c \in {<<>>, <<3>>, <<3, 4>>, <<2, 3, 6>>}}
RefCases   == {[fam |-> "funcref", n |-> n, pos |-> p, ref |-> r] : n \in 1..3, p \in 1..3, r \in Refs}
RefSel     == {c \in RefCases : c.pos <= c.n}

\* the functions a package may call, in program text order: module, attribute, and what calling it returns (the namespaces
\* of vmod and vpk.sub are PyBridge's; vpk is the package module of vpk.sub: "alpha" < "sub" < "zeta"; python3 validates)
VpkSpace == [alpha |-> PyText(<<112, 97>>), zeta |-> PyText(<<112, 122>>)]
Sym(mod, attr, val) == [mod |-> mod, attr |-> attr, py |-> val]
Syms == << Sym("vmod", "who", Lookup("vmod", "who")), Sym("vpk", "alpha", VpkSpace["alpha"]),
           Sym("vpk_sub", "who", Lookup("vpk_sub", "who")), Sym("vpk", "zeta", VpkSpace["zeta"]) >>
CoLookupCases == {[fam |-> "colookup", sel |-> s] : s \in (SUBSET DOMAIN Syms) \ {{}}}
Selected(c) == SelectSeq(Syms, LAMBDA y : \E i \in c.sel : Syms[i] = y)

SiteKinds == {"func", "closure", "method", "pkgvar", "initfn", "generic", "genmethod", "xgeneric"}
SiteCases == {[fam |-> "site", site |-> k] : k \in SiteKinds}

\* the calls a case makes, in program order
Calls(c) ==
  CASE c.fam = "dual"    -> << CallT(Args(c.first)), CallT(Args(c.second)) >>
    [] c.fam = "govar"   -> << CallT(Args(c.fixed + c.nvar)) >>
    [] c.fam = "site"    -> << CallT(Args(1)) >>        \* where a call is written changes nothing about what it delivers
    [] c.fam = "funcref" -> << CallT([i \in 1..c.n |-> IF i = c.pos THEN c.ref ELSE ArgSeq[i]]) >>
    [] OTHER             -> << >>

\* math.hypot: the Euclidean norm; the cases are chosen so that it is a whole number
RECURSIVE SumSq(_)
SumSq(s) == IF s = <<>> THEN 0 ELSE Head(s) * Head(s) + SumSq(Tail(s))
Hypot(s) == CHOOSE r \in 0..100 : r * r = SumSq(s)

VARIABLE case
Init == CASE Family = "dual"    -> case \in DualCases
          [] Family = "govar"   -> case \in GoVarCases
          [] Family = "hypot"   -> case \in HypotCases
          [] Family = "funcref" -> case \in RefSel
          [] Family = "colookup" -> case \in CoLookupCases
          [] Family = "site"    -> case \in SiteCases
          [] Family = "all"     -> case \in DualCases \cup GoVarCases \cup HypotCases \cup RefSel \cup CoLookupCases \cup SiteCases
Next == UNCHANGED case
Spec == Init /\ [][Next]_case

\* every call hands over all its positional arguments, position by position, and returns what the callable returns
LawAllDelivered == \A k \in DOMAIN Calls(case) :
                     LET c == Calls(case)[k] IN /\ DOMAIN c.recv = DOMAIN c.args
                                                /\ \A i \in DOMAIN c.args : c.recv[i] = ArgToPy(c.args[i])
                                                /\ c.ret.items = c.recv
\* a function argument arrives as the object its name resolves to, never as something else
LawSameObject == case.fam = "funcref" =>
                   LET c == Calls(case)[1] IN c.recv[case.pos] = Resolve[case.ref.mod][case.ref.attr]
\* a name resolves in its own module: what the package gets for (mod, attr) does not depend on the other names it binds
LawOwnModule == case.fam = "colookup" =>
                  \A i \in case.sel : \E k \in DOMAIN Selected(case) : Selected(case)[k] = Syms[i]
LawHypot == case.fam = "hypot" => Hypot(case.coords) * Hypot(case.coords) = SumSq(case.coords)

Emit ==
  CASE case.fam = "dual"    -> PrintT(ToJson([fam |-> "dual", first |-> case.first, second |-> case.second, calls |-> Calls(case)]))
    [] case.fam = "govar"   -> PrintT(ToJson([fam |-> "govar", fixed |-> case.fixed, form |-> case.form, nvar |-> case.nvar,
                                              calls |-> Calls(case)]))
    [] case.fam = "funcref" -> PrintT(ToJson([fam |-> "funcref", n |-> case.n, pos |-> case.pos, ref |-> case.ref,
                                              calls |-> Calls(case)]))
    [] case.fam = "colookup" -> PrintT(ToJson([fam |-> "colookup", sel |-> SelectSeq(<<1, 2, 3, 4>>, LAMBDA i : i \in case.sel),
                                               syms |-> Selected(case)]))
    [] case.fam = "site"    -> PrintT(ToJson([fam |-> "site", site |-> case.site, calls |-> Calls(case)]))
    [] case.fam = "hypot"   -> PrintT(ToJson([fam |-> "hypot", coords |-> case.coords,
                                              ret |-> [t |-> "float", whole |-> Hypot(case.coords)]]))
=============================================================================

-------------------------------- MODULE PyBridge --------------------------------
(***************************************************************************)
(* Layer A for C19: what it means that Go and Python exchange values and   *)
(* calls without loss.  Nothing here mentions how llgo lowers anything.    *)
(*                                                                         *)
(*  Go values (terms "g") and Python objects (terms "o") are records.      *)
(*  ToPy   : the Python object a Go value denotes                          *)
(*  FromPy : the Go value read back from an object with the accessor of    *)
(*           the Go kind that was sent                                     *)
(*  RoundTrip : FromPy(g, ToPy(g)) = g                                     *)
(*  Call   : a callable receives the positional arguments in order and its *)
(*           result is what Go gets                                        *)
(*  Lookup : module attributes by name (the namespace of the test modules  *)
(*           is transcribed; python3 validates the transcription)          *)
(*                                                                         *)
(* Integers are sign + four 16-bit limbs (most significant first) because  *)
(* TLC integers are 32 bit; floats are named tokens (the harness owns the  *)
(* token -> IEEE bits table, python3 validates it); text is a sequence of  *)
(* code points and the spec computes its UTF-8 bytes itself.               *)
(***************************************************************************)
EXTENDS Integers, Sequences, FiniteSets, TLC

\* ------------------------------------------------------------------ integers
LimbIx == 1..4
Zero4  == [i \in LimbIx |-> 0]
P2(k)   == [i \in LimbIx |-> IF (4 - i) = k \div 16 THEN 2^(k % 16) ELSE 0]                \* 2^k, k < 64
P2m1(k) == [i \in LimbIx |-> LET j == 4 - i IN
                              IF j < k \div 16 THEN 65535
                              ELSE IF j = k \div 16 THEN 2^(k % 16) - 1 ELSE 0]            \* 2^k - 1, k <= 64
P2p1(k) == [i \in LimbIx |-> IF i = 4 THEN P2(k)[4] + 1 ELSE P2(k)[i]]                     \* 2^k + 1, 1 <= k < 64
Small(n) == [i \in LimbIx |-> IF i = 4 THEN n ELSE 0]

RECURSIVE LeqFrom(_, _, _)
LeqFrom(a, b, i) == IF i > 4 THEN TRUE
                    ELSE IF a[i] < b[i] THEN TRUE
                    ELSE IF a[i] > b[i] THEN FALSE
                    ELSE LeqFrom(a, b, i + 1)
Leq(a, b) == LeqFrom(a, b, 1)

BoundaryBits == {7, 8, 15, 16, 31, 32, 53, 63}
Magnitudes == {Small(0), Small(1), Small(2)} \cup {P2m1(64)}
              \cup UNION {{P2m1(k), P2(k), P2p1(k)} : k \in BoundaryBits}
IntValues == {[neg |-> FALSE, m |-> x] : x \in Magnitudes}
             \cup {[neg |-> TRUE, m |-> x] : x \in Magnitudes \ {Zero4}}

SignedKinds   == {"i8", "i16", "i32", "i64", "int"}
UnsignedKinds == {"u8", "u16", "u32", "u64", "uint", "uintptr"}
IntKinds == SignedKinds \cup UnsignedKinds
Bits(k) == CASE k \in {"i8", "u8"} -> 8 [] k \in {"i16", "u16"} -> 16 [] k \in {"i32", "u32"} -> 32
             [] OTHER -> 64                     \* int, uint, uintptr are 64 bit on the platform under test
InRange(k, v) ==
  IF k \in SignedKinds
    THEN IF v.neg THEN Leq(v.m, P2(Bits(k) - 1)) ELSE Leq(v.m, P2m1(Bits(k) - 1))
    ELSE ~v.neg /\ Leq(v.m, P2m1(Bits(k)))

\* ------------------------------------------------------------------ floats
F32Exact == {"pz", "nz", "pinf", "ninf", "nan", "half", "one", "m1p5", "f32max", "f32den", "p2_24"}
F64Only  == {"e300", "p2_53m1", "f64den", "tenth", "f64max"}
FloatTokens == F32Exact \cup F64Only
FloatKinds == {"f32", "f64"}

\* ------------------------------------------------------------------ text and bytes
CodePoints == {0, 97, 233, 8364, 128512}          \* NUL, 'a', e-acute (2 bytes), euro (3 bytes), emoji (4 bytes)
ByteVals   == {0, 97, 128, 195, 255}              \* incl. lone continuation byte, lead byte without tail, 0xFF
MaxText == 3
SeqsUpTo(S, n) == UNION {[1..k -> S] : k \in 0..n}
Texts == SeqsUpTo(CodePoints, MaxText)
ByteStrings == SeqsUpTo(ByteVals, MaxText)

Utf8(cp) ==
  LET lo(x) == 128 + (x % 64) IN
  IF cp < 128 THEN << cp >>
  ELSE IF cp < 2048 THEN << 192 + (cp \div 64), lo(cp) >>
  ELSE IF cp < 65536 THEN << 224 + (cp \div 4096), lo(cp \div 64), lo(cp) >>
  ELSE << 240 + (cp \div 262144), lo(cp \div 4096), lo(cp \div 64), lo(cp) >>
RECURSIVE Utf8Seq(_)
Utf8Seq(cps) == IF cps = <<>> THEN <<>> ELSE Utf8(Head(cps)) \o Utf8Seq(Tail(cps))

\* ------------------------------------------------------------------ Go values
GoInt(k, v)    == [k |-> k, neg |-> v.neg, m |-> v.m]
GoFloat(k, f)  == [k |-> k, f |-> f]
GoBool(b)      == [k |-> "bool", v |-> b]
GoString(cps)  == [k |-> "string", bytes |-> Utf8Seq(cps)]        \* a Go string IS its bytes
GoSlice(b)     == [k |-> "bytes", b |-> b]                        \* []byte
GoArray(b)     == [k |-> "array", b |-> b]                        \* [N]byte
GoList(items)  == [k |-> "list", items |-> items]                 \* py.List(items...)
GoTuple(items) == [k |-> "tuple", items |-> items]                \* py.Tuple(items...)

IntLeaves    == {GoInt(k, v) : k \in IntKinds, v \in IntValues}
IntLeavesOK  == {g \in IntLeaves : InRange(g.k, g)}
FloatLeaves  == {GoFloat("f64", f) : f \in FloatTokens} \cup {GoFloat("f32", f) : f \in F32Exact}
BoolLeaves   == {GoBool(TRUE), GoBool(FALSE)}
StringLeaves == {GoString(c) : c \in Texts}
SliceLeaves  == {GoSlice(b) : b \in ByteStrings}
ArrayLeaves  == {GoArray(b) : b \in ByteStrings}
Leaves == IntLeavesOK \cup FloatLeaves \cup BoolLeaves \cup StringLeaves \cup SliceLeaves \cup ArrayLeaves

\* ------------------------------------------------------------------ ToPy / FromPy
\* the text a valid UTF-8 Go string denotes: the code point sequence whose encoding it is
\* (tabulated once; TLC caches constant-level definitions)
DecodeTable == [b \in {Utf8Seq(c) : c \in Texts} |-> CHOOSE c \in Texts : Utf8Seq(c) = b]
Decode(bytes) == DecodeTable[bytes]

RECURSIVE ToPy(_)
ToPy(g) ==
  CASE g.k \in IntKinds   -> [t |-> "int", neg |-> g.neg, m |-> g.m]
    [] g.k \in FloatKinds -> [t |-> "float", f |-> g.f]
    [] g.k = "bool"       -> [t |-> "bool", v |-> g.v]
    [] g.k = "string"     -> [t |-> "str", cps |-> Decode(g.bytes)]
    [] g.k = "bytes"      -> [t |-> "bytearray", b |-> g.b]
    [] g.k = "array"      -> [t |-> "bytes", b |-> g.b]
    [] g.k = "list"       -> [t |-> "list", items |-> [i \in DOMAIN g.items |-> ToPy(g.items[i])]]
    [] g.k = "tuple"      -> [t |-> "tuple", items |-> [i \in DOMAIN g.items |-> ToPy(g.items[i])]]

Err == [k |-> "error"]

\* read an object back with the accessors that belong to the Go value that was sent (g is only used for its kinds)
RECURSIVE FromPy(_, _)
FromPy(g, o) ==
  CASE g.k \in IntKinds   -> IF o.t = "int" /\ InRange(g.k, o) THEN [k |-> g.k, neg |-> o.neg, m |-> o.m] ELSE Err
    [] g.k \in FloatKinds -> IF o.t = "float" THEN [k |-> g.k, f |-> o.f] ELSE Err
    [] g.k = "bool"       -> IF o.t = "bool" THEN [k |-> "bool", v |-> o.v] ELSE Err
    [] g.k = "string"     -> IF o.t = "str" THEN [k |-> "string", bytes |-> Utf8Seq(o.cps)] ELSE Err
    [] g.k = "bytes"      -> IF o.t = "bytearray" THEN [k |-> "bytes", b |-> o.b] ELSE Err
    [] g.k = "array"      -> IF o.t = "bytes" THEN [k |-> "array", b |-> o.b] ELSE Err
    [] g.k \in {"list", "tuple"} ->
         IF o.t = g.k /\ DOMAIN o.items = DOMAIN g.items
           THEN [k |-> g.k, items |-> [i \in DOMAIN g.items |-> FromPy(g.items[i], o.items[i])]]
           ELSE Err

RoundTrip(g) == FromPy(g, ToPy(g)) = g

\* ------------------------------------------------------------------ calls
\* the test module's callables f0..f6 and fv(*a) return the tuple of what they received
Call(args) ==
  LET recv == [i \in DOMAIN args |-> ToPy(args[i])]
  IN [recv |-> recv, ret |-> [t |-> "tuple", items |-> recv]]

\* ------------------------------------------------------------------ name lookup
\* namespaces of the test modules (transcribed from harness/c19/pylib; python3 validates) and two stdlib names
PyText(cps) == [t |-> "str", cps |-> cps]
Namespace ==
  [ vmod    |-> [name |-> PyText(<<118, 109, 111, 100>>), who |-> PyText(<<118>>), tick |-> [t |-> "int", neg |-> FALSE, m |-> Small(0)]],
    vpk_sub |-> [name |-> PyText(<<115, 117, 98>>),       who |-> PyText(<<115>>), tick |-> [t |-> "int", neg |-> FALSE, m |-> Small(7)]] ]
Lookup(mod, attr) == Namespace[mod][attr]
=============================================================================

SPECIFICATION Spec
CONSTANTS Family = "all"
INVARIANTS LawAllDelivered LawSameObject LawHypot LawOwnModule Emit
CHECK_DEADLOCK FALSE

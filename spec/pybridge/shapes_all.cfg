SPECIFICATION Spec
CONSTANTS Family = "all"
INVARIANTS LawAllDelivered LawSameObject LawHypot Emit
CHECK_DEADLOCK FALSE

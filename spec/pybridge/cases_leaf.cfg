SPECIFICATION Spec
CONSTANTS Family = "leaf"
INVARIANTS LawRoundTrip LawTyped LawCallOrder Emit
CHECK_DEADLOCK FALSE

SPECIFICATION Spec
CONSTANTS Family = "calls"
INVARIANTS LawRoundTrip LawTyped LawCallOrder Emit
CHECK_DEADLOCK FALSE

\* the mechanism without the nil test on the module global: TLC reports ImportedAtMostOnce violated
SPECIFICATION Spec
CONSTANTS
  UseBindings = {"vmod", "vmod2"}
  ImportGuard = FALSE
INVARIANTS ImportedAtMostOnce LoadedBeforeUse EveryPackageInitialisedOnce
CHECK_DEADLOCK FALSE

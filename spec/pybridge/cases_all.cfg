SPECIFICATION Spec
CONSTANTS Family = "all"
INVARIANTS LawRoundTrip LawTyped LawCallOrder Emit
CHECK_DEADLOCK FALSE

-------------------------------- MODULE PyCases --------------------------------
(***************************************************************************)
(* Case generator for C19 (values, nested containers, calls, lookups).     *)
(* TLC enumerates every case of the selected family as an initial state,   *)
(* checks the RoundTrip law on it and prints the case together with what   *)
(* the spec says Python must receive ("py") and Go must read back ("back").*)
(***************************************************************************)
EXTENDS PyBridge, Json

CONSTANT Family      \* "leaf" | "nested" | "calls" | "lookup" | "all"

\* ---- leaf cases: every Go leaf value through every API route that accepts its kind
Routes(g) ==
  {"list1", "tuple1"}
  \cup (IF g.k = "i64" THEN {"longlong", "long"} ELSE {})
  \cup (IF g.k = "u64" THEN {"ulonglong", "ulong"} ELSE {})
  \cup (IF g.k = "uintptr" THEN {"uintptr"} ELSE {})
  \cup (IF g.k = "f64" THEN {"float"} ELSE {})
  \cup (IF g.k = "string" THEN {"gostring"} ELSE {})
  \cup (IF g.k = "string" /\ Len(Decode(g.bytes)) <= 2 THEN {"strlit"} ELSE {})
\* a []byte value is its len bytes; what lies behind them in the backing array is not part of the value.  Every []byte leaf
\* is therefore also presented as a slice with spare capacity that holds other bytes: "spare" = a sub-slice b[i:j] of a
\* longer array, "grown" = appended to an empty slice of capacity 16
Forms(g) == IF g.k = "bytes" THEN {"exact", "spare", "grown"} ELSE {"exact"}
LeafCases == {[fam |-> "leaf", route |-> r, go |-> g, form |-> f] :
                 g \in Leaves, r \in {"list1", "tuple1", "longlong", "long", "ulonglong", "ulong", "uintptr", "float", "gostring", "strlit"},
                 f \in {"exact", "spare", "grown"}}
LeafSel == {c \in LeafCases : c.route \in Routes(c.go) /\ c.form \in Forms(c.go)}

\* ---- nested cases: containers of depth <= 2
I64Min == GoInt("i64", [neg |-> TRUE, m |-> P2(63)])
U64Max == GoInt("u64", [neg |-> FALSE, m |-> P2m1(64)])
NL4 == {I64Min, U64Max, GoString(<<233, 0, 97>>), GoFloat("f64", "nz")}
NL6 == NL4 \cup {GoSlice(<<255, 0>>), GoBool(TRUE)}
Cont(S, n) == {GoList(s) : s \in SeqsUpTo(S, n)} \cup {GoTuple(s) : s \in SeqsUpTo(S, n)}
Inner == Cont(NL4, 2)
NestedCases == Cont(NL4 \cup Inner, 2) \cup Cont(NL6, 3)

\* ---- calls: arity 0..6, fixed-arity callables f0..f6 and the variadic fv
Atoms == {GoInt("i64", [neg |-> FALSE, m |-> Small(7)]), GoString(<<97>>), GoFloat("f64", "half")}
CallCases == {[fam |-> "calls", variadic |-> v, args |-> a] : v \in BOOLEAN, a \in SeqsUpTo(Atoms, 6)}

\* ---- lookups
LookupCases == {[fam |-> "lookup", mod |-> m, attr |-> a] : m \in {"vmod", "vpk_sub"}, a \in {"name", "who", "tick"}}

VARIABLE case
Init == CASE Family = "leaf"   -> case \in LeafSel
          [] Family = "nested" -> case \in {[fam |-> "nested", go |-> g] : g \in NestedCases}
          [] Family = "calls"  -> case \in CallCases
          [] Family = "lookup" -> case \in LookupCases
          [] Family = "all"    -> case \in LeafSel \cup {[fam |-> "nested", go |-> g] : g \in NestedCases}
                                         \cup CallCases \cup LookupCases
Next == UNCHANGED case
Spec == Init /\ [][Next]_case

HasValue == case.fam \in {"leaf", "nested"}

\* the law of the property, checked on every enumerated value
LawRoundTrip == HasValue => RoundTrip(case.go)
\* what Python sees has the type the Go kind maps to, never an error
LawTyped == HasValue => FromPy(case.go, ToPy(case.go)) # Err
\* a call hands over exactly Len(args) objects, position by position
LawCallOrder == case.fam = "calls" =>
                  LET c == Call(case.args) IN /\ DOMAIN c.recv = DOMAIN case.args
                                              /\ \A i \in DOMAIN case.args : c.recv[i] = ToPy(case.args[i])
                                              /\ c.ret.items = c.recv

Emit ==
  CASE case.fam = "leaf"   -> PrintT(ToJson([fam |-> "leaf", route |-> case.route, form |-> case.form, go |-> case.go, py |-> ToPy(case.go),
                                             back |-> FromPy(case.go, ToPy(case.go))]))
    [] case.fam = "nested" -> PrintT(ToJson([fam |-> "nested", go |-> case.go, py |-> ToPy(case.go),
                                             back |-> FromPy(case.go, ToPy(case.go))]))
    [] case.fam = "calls"  -> PrintT(ToJson([fam |-> "calls", variadic |-> case.variadic, args |-> case.args,
                                             recv |-> Call(case.args).recv, ret |-> Call(case.args).ret]))
    [] case.fam = "lookup" -> PrintT(ToJson([fam |-> "lookup", mod |-> case.mod, attr |-> case.attr,
                                             py |-> Lookup(case.mod, case.attr)]))
=============================================================================

SPECIFICATION Spec
CONSTANTS
  Mode = "enum"
  UseBindings = {"math", "vmod", "vmod2"}
  BlankBindings = {"math"}
  SitePatterns <- QuickPatterns
  SelShapes = {}
  KeepTrace = FALSE
INVARIANTS ImportedAtMostOnce LoadedBeforeUse ExactlyTheUsedOnes OnlyWhenNeeded Emit
CHECK_DEADLOCK FALSE

SPECIFICATION Spec
CONSTANTS
  ShapeUniverse <- QuickShapes
  KeepTrace = FALSE
INVARIANTS ImportedAtMostOnce LoadedBeforeUse ExactlyTheUsedOnes OnlyWhenNeeded Emit
CHECK_DEADLOCK FALSE

SPECIFICATION Spec
CONSTANTS Tier = "quick"
INVARIANTS LawSizeMultipleOfAlign LawOffsetsAligned LawZeroTailInside Emit
CHECK_DEADLOCK FALSE

---------------------------------- MODULE Layout ----------------------------------
(***************************************************************************)
(* Layer A for C08: the memory layout of Go types, as one set of recursive *)
(* operators Size / Align / Offsets over type terms, parameterised by a    *)
(* target profile                                                          *)
(*    [ptr, int, a64, maxalign, zpad]                                      *)
(*      ptr       bytes of a pointer / uintptr / unsafe.Pointer            *)
(*      int       bytes of int / uint                                      *)
(*      a64       alignment of int64, uint64, float64 (and therefore of    *)
(*                complex128, whose alignment is that of its parts)        *)
(*      maxalign  no alignment exceeds it                                  *)
(*      zpad      a non-empty struct that ends in a zero-size field gets   *)
(*                one byte of padding (so that the address of that field   *)
(*                is inside the object) - what Go does                     *)
(*                                                                         *)
(* Transcribed from the Go specification, "Size and alignment guarantees": *)
(*   - sizes of the numeric types are fixed; a complex is two floats       *)
(*   - for a variable x of struct type, Alignof(x) is the largest of the   *)
(*     Alignof(x.f) of its fields, but at least 1                          *)
(*   - for a variable x of array type, Alignof(x) is that of an element    *)
(*   - a struct or array has size zero if it contains no fields (elements) *)
(*     of size greater than zero                                           *)
(* and from the documented representation of the remaining kinds: string = *)
(* (pointer, length), slice = (pointer, length, capacity), interface =     *)
(* (type word, data word), map / chan / pointer = one word; in llgo a      *)
(* function value is a closure pair (code pointer, context pointer) = two  *)
(* words.  Struct fields are laid out in declaration order, each at the    *)
(* next offset that is a multiple of its alignment; the size of a struct   *)
(* is a multiple of its alignment; an array is its elements back to back.  *)
(* A map's bucket is 8 top-hash bytes, 8 keys, 8 elements and an overflow  *)
(* word; keys / elements larger than 128 bytes are kept by pointer.        *)
(*                                                                         *)
(* The property (C08): for every term and every target, the numbers used   *)
(* to fold unsafe.Sizeof/Alignof/Offsetof (a), used by generated code (b)  *)
(* and recorded in type descriptors (c) are the same numbers (Agree); on   *)
(* the host profile they are Lay(t, AMD64), which for C-compatible terms   *)
(* is also the C compiler's layout.                                        *)
(*                                                                         *)
(* TLC enumerates the type terms step by step (Next) and prints each one   *)
(* with its layout under every profile of the finite family below.         *)
(***************************************************************************)
EXTENDS Integers, Sequences, FiniteSets, TLC, Json

\* ------------------------------------------------------------------ type terms
B(n)       == [k |-> "basic", n |-> n]
P(e)       == [k |-> "ptr", e |-> e]
SL(e)      == [k |-> "slice", e |-> e]
IFC(m)     == [k |-> "iface", m |-> m]           \* m = number of methods (0 = empty interface)
MP(key, e) == [k |-> "map", key |-> key, e |-> e]
CH(e)      == [k |-> "chan", e |-> e]
FN         == [k |-> "func"]
AR(len, e) == [k |-> "array", len |-> len, e |-> e]
ST(fs)     == [k |-> "struct", fields |-> fs]    \* fs = sequence of field types, in declaration order
NM(u)      == [k |-> "named", u |-> u]           \* a defined type with underlying type u
AL(u)      == [k |-> "alias", u |-> u]           \* an alias declaration: denotes the very type u

Min(a, b) == IF a < b THEN a ELSE b
Max(a, b) == IF a > b THEN a ELSE b
RoundUp(x, a) == ((x + a - 1) \div a) * a

\* ------------------------------------------------------------------ profiles
Prof(ptr, a64, zpad) == [ptr |-> ptr, int |-> ptr, a64 |-> a64, maxalign |-> Max(ptr, a64), zpad |-> zpad]
AMD64 == Prof(8, 8, TRUE)                        \* also arm64
\* the finite family an observed computation is fitted against (reported, not demanded, off the host)
ProfileNames == <<"p64", "p64nz", "p32a4", "p32a4nz", "p32a8", "p32a8nz">>
Profiles == <<AMD64, Prof(8, 8, FALSE), Prof(4, 4, TRUE), Prof(4, 4, FALSE), Prof(4, 8, TRUE), Prof(4, 8, FALSE)>>

\* ------------------------------------------------------------------ the layout
BasicSize(n, p) ==
  CASE n \in {"bool", "int8", "uint8"} -> 1
    [] n \in {"int16", "uint16"} -> 2
    [] n \in {"int32", "uint32", "float32"} -> 4
    [] n \in {"int64", "uint64", "float64", "complex64"} -> 8
    [] n = "complex128" -> 16
    [] n \in {"int", "uint"} -> p.int
    [] n \in {"uintptr", "unsafeptr"} -> p.ptr
    [] n = "string" -> 2 * p.ptr

BasicAlign(n, p) ==
  CASE n = "complex64" -> 4                                      \* that of float32
    [] n \in {"int64", "uint64", "float64", "complex128"} -> p.a64
    [] n = "string" -> p.ptr
    [] OTHER -> Min(BasicSize(n, p), p.maxalign)

\* TL(t, p) = [s |-> size, a |-> alignment, o |-> field offsets (structs; <<>> otherwise)] of type term t on profile p
RECURSIVE TL(_, _), Place(_, _, _)
Only(S) == CHOOSE x \in S : TRUE      \* {e : x \in {d}} binds x to d once (TLC re-evaluates LET definitions at every use)
\* Place(fs, i, p): fields fs[1..i] laid out in declaration order, each at the next multiple of its alignment:
\*   o = their offsets, e = first byte after field i, a = largest field alignment (at least 1), z = field i has size 0
Place(fs, i, p) ==
  IF i = 0 THEN [o |-> <<>>, e |-> 0, a |-> 1, z |-> FALSE]
  ELSE Only({[o |-> Append(prev.o, RoundUp(prev.e, f.a)), e |-> RoundUp(prev.e, f.a) + f.s, a |-> Max(prev.a, f.a), z |-> f.s = 0] :
               prev \in {Place(fs, i - 1, p)}, f \in {TL(fs[i], p)}})
TL(t, p) ==
  CASE t.k = "basic" -> [s |-> BasicSize(t.n, p), a |-> BasicAlign(t.n, p), o |-> <<>>]
    [] t.k \in {"ptr", "map", "chan"} -> [s |-> p.ptr, a |-> p.ptr, o |-> <<>>]             \* one word
    [] t.k \in {"iface", "func"} -> [s |-> 2 * p.ptr, a |-> p.ptr, o |-> <<>>]              \* two words
    [] t.k = "slice" -> [s |-> 3 * p.ptr, a |-> p.ptr, o |-> <<>>]                          \* three words
    [] t.k = "array" -> Only({[s |-> t.len * e.s, a |-> e.a, o |-> <<>>] : e \in {TL(t.e, p)}})
    [] t.k \in {"named", "alias"} -> TL(t.u, p)
    [] t.k = "struct" ->
         \* size: end of the last field, plus one byte if that field is empty and the struct is not (zpad),
         \* rounded up to the struct's alignment
         Only({[s |-> RoundUp(IF p.zpad /\ pl.z /\ pl.e > 0 THEN pl.e + 1 ELSE pl.e, pl.a), a |-> pl.a, o |-> pl.o] :
                 pl \in {Place(t.fields, Len(t.fields), p)}})
Size(t, p) == TL(t, p).s
Align(t, p) == TL(t, p).a
Offsets(t, p) == TL(t, p).o

\* map descriptors: slot sizes and the bucket
MaxSlot == 128
Slot(x, p) == IF Size(x, p) > MaxSlot THEN P(x) ELSE x
Bucket(t, p) == ST(<<AR(8, B("uint8")), AR(8, Slot(t.key, p)), AR(8, Slot(t.e, p)), B("uintptr")>>)
RECURSIVE Under(_)
Under(t) == IF t.k \in {"named", "alias"} THEN Under(t.u) ELSE t

\* what is compared: <<size, alignment, field offsets, map slots (key slot, element slot, bucket size; maps only)>>
Lay(t, p) == Only({<<l.s, l.a, l.o,
                     IF Under(t).k = "map"
                       THEN <<Size(Slot(Under(t).key, p), p), Size(Slot(Under(t).e, p), p), Size(Bucket(Under(t), p), p)>>
                       ELSE <<>> >> : l \in {TL(t, p)}})

\* the first sentence of the property, as a predicate on three observed layouts
Agree(a, b, c) == a = b /\ b = c

\* ------------------------------------------------------------------ classes of terms
RECURSIVE Comparable(_), CCompat(_)
Comparable(t) ==
  CASE t.k \in {"basic", "ptr", "chan", "iface"} -> TRUE
    [] t.k \in {"func", "slice", "map"} -> FALSE
    [] t.k = "array" -> Comparable(t.e)
    [] t.k \in {"named", "alias"} -> Comparable(t.u)
    [] t.k = "struct" -> \A i \in 1..Len(t.fields) : Comparable(t.fields[i])
\* "made only of C-compatible fields": fixed-width integers, floats, complex (C99 _Complex), pointers, non-empty
\* arrays and non-empty structs of those
CCompat(t) ==
  CASE t.k = "basic" -> t.n # "string"
    [] t.k = "ptr" -> TRUE
    [] t.k \in {"func", "slice", "map", "chan", "iface"} -> FALSE
    [] t.k = "array" -> t.len > 0 /\ CCompat(t.e)
    [] t.k \in {"named", "alias"} -> CCompat(t.u)
    [] t.k = "struct" -> Len(t.fields) > 0 /\ \A i \in 1..Len(t.fields) : CCompat(t.fields[i])

\* ------------------------------------------------------------------ the grammar, enumerated step by step
CONSTANT Tier       \* "quick": a sub-grammar (narrower menus for 3/4-field structs and for what gets wrapped); "thorough": all
Full == Tier = "thorough"
Scalars == {B(n) : n \in {"bool", "int8", "uint8", "int16", "uint16", "int32", "uint32", "int64", "uint64", "int", "uint",
                          "uintptr", "float32", "float64", "complex64", "complex128", "string", "unsafeptr"}}
Words == {P(B("int64")), P(FN), SL(B("int8")), SL(FN), IFC(0), IFC(1), MP(B("int32"), B("int64")), MP(B("string"), FN),
          CH(B("int64")), CH(FN), FN, AL(FN),
          MP(B("int8"), AR(17, B("int64"))), MP(AR(17, B("int64")), B("int8")),     \* slots larger than MaxSlot
          MP(B("int8"), AR(16, B("int64"))), MP(AR(16, B("int64")), B("int8")),     \* slots of exactly MaxSlot bytes: still inline
          MP(B("int8"), AR(15, B("int64")))}
Zeros == {ST(<<>>), AR(0, B("int64")), AR(0, B("int8")), AR(0, FN)}
Leaves == Scalars \cup Words \cup Zeros
\* field menus: structs of <= 2 fields over all leaves, 3 fields over M3, 4 fields over M4
M4 == {B("int8"), B("int32"), B("int64"), B("complex128"), B("string"), FN, ST(<<>>), AR(0, B("int64"))}
M3 == M4 \cup {B("bool"), B("int16"), B("float32"), B("float64"), B("int"), P(B("int64")), SL(B("int8")), IFC(0)}
Pads == {B("int8"), B("int64"), FN, ST(<<>>)}
PadPairs == IF Full THEN Pads \X Pads
            ELSE {<<B("int8"), B("int8")>>, <<B("int64"), ST(<<>>)>>, <<FN, B("int8")>>, <<ST(<<>>), B("int64")>>}

Menu3 == IF Full THEN M3 ELSE M4
Menu4 == IF Full THEN M4 ELSE M4 \ {B("int32"), B("string")}

VARIABLES t, ph, sm \* the term built so far; phase: 0 root, 1 leaf, 2 flat struct, 3 one wrapper, 4 two wrappers;
                    \* sm: the wrapped inner term was small (gets a second wrapper)
vars == <<t, ph, sm>>
Root == [k |-> "root"]

InM(fs, M) == \A i \in 1..Len(fs) : fs[i] \in M
\* inner terms that get wrapped: leaves, flat structs of <= 2 fields, flat 3-field structs over M4
Wrappable1 == \/ ph = 1
              \/ ph = 2 /\ Full /\ (Len(t.fields) <= 2 \/ (Len(t.fields) = 3 /\ InM(t.fields, M4)))
              \/ ph = 2 /\ ~Full /\ Len(t.fields) <= 2 /\ InM(t.fields, M3)
\* terms that get a second wrapper: a wrapped leaf of M4 or a wrapped flat struct of <= 2 fields over M4
Small(x) == \/ x \in M4
            \/ x.k = "struct" /\ Len(x.fields) <= (IF Full THEN 2 ELSE 1) /\ InM(x.fields, M4)
Wrappable2 == ph = 3 /\ sm

Wrap1(x) == {AR(0, x), AR(1, x), AR(3, x), NM(x), AL(x), P(x)}
            \cup {ST(<<p, x>>) : p \in Pads} \cup {ST(<<x, p>>) : p \in Pads}
            \cup {ST(<<pq[1], x, pq[2]>>) : pq \in PadPairs}
            \cup {MP(B("int8"), x)}
            \cup (IF Comparable(x) THEN {MP(x, B("int64"))} ELSE {})
Wrap2(x) == {AR(0, x), AR(3, x), NM(x), AL(x), ST(<<B("int8"), x>>), ST(<<x, B("int8")>>), ST(<<x, ST(<<>>)>>),
             ST(<<FN, x, B("int64")>>), MP(B("int8"), x)}

Init == t = Root /\ ph = 0 /\ sm = FALSE
Next ==
  \/ /\ ph = 0
     /\ \/ t' \in Leaves /\ ph' = 1
        \/ t' \in {ST(<<f>>) : f \in Leaves} /\ ph' = 2
     /\ sm' = FALSE
  \/ /\ ph = 2                                                     \* one more field
     /\ \/ Len(t.fields) = 1 /\ t' \in {ST(Append(t.fields, f)) : f \in Leaves}
        \/ Len(t.fields) = 2 /\ InM(t.fields, Menu3) /\ t' \in {ST(Append(t.fields, f)) : f \in Menu3}
        \/ Len(t.fields) = 3 /\ InM(t.fields, Menu4) /\ t' \in {ST(Append(t.fields, f)) : f \in Menu4}
     /\ ph' = 2 /\ sm' = FALSE
  \/ /\ Wrappable1 /\ t' \in Wrap1(t) /\ ph' = 3 /\ sm' = Small(t)
  \/ /\ Wrappable2 /\ t' \in Wrap2(t) /\ ph' = 4 /\ sm' = FALSE
Spec == Init /\ [][Next]_vars

\* ------------------------------------------------------------------ laws of the layout itself (checked on every term)
AllProfiles == {Profiles[n] : n \in DOMAIN Profiles}
FieldsOf(x) == IF Under(x).k = "struct" THEN Under(x).fields ELSE <<>>
LawSizeMultipleOfAlign == ph = 0 \/ \A p \in AllProfiles : \A l \in {TL(t, p)} : l.s % l.a = 0
LawOffsetsAligned ==
  ph = 0 \/ \A p \in AllProfiles : \A l \in {TL(t, p)}, fs \in {FieldsOf(t)} : \A i \in 1..Len(fs) : \A f \in {TL(fs[i], p)} :
           /\ l.o[i] % f.a = 0                                         \* every field aligned
           /\ l.o[i] + f.s <= l.s                                      \* inside the struct
           /\ (i > 1 => l.o[i] >= l.o[i - 1] + Size(fs[i - 1], p))     \* in declaration order, no overlap
\* the reason for zpad: the address of every field of a non-empty struct is inside the object
LawZeroTailInside ==
  ph = 0 \/ \A p \in AllProfiles : p.zpad => \A l \in {TL(t, p)} :
     l.s > 0 => \A i \in 1..Len(l.o) : l.o[i] < l.s

Emit == ph = 0 \/ PrintT(ToJson([t |-> t, ph |-> ph, cc |-> CCompat(t),
                                 L |-> [n \in DOMAIN Profiles |-> Lay(t, Profiles[n])]]))    \* in the order of ProfileNames
=============================================================================

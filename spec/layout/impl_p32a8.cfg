SPECIFICATION Spec
CONSTANTS Tier = "quick"  ProfileIndex = 5  SeesAlias = TRUE
INVARIANTS ImplMatchesLayout
CHECK_DEADLOCK FALSE

SPECIFICATION Spec
CONSTANTS Tier = "quick"  ProfileIndex = 1  SeesAlias = FALSE
INVARIANTS ImplMatchesLayout
CHECK_DEADLOCK FALSE

SPECIFICATION Spec
CONSTANTS Tier = "quick"  ProfileIndex = 3  SeesAlias = TRUE
INVARIANTS ImplMatchesLayout
CHECK_DEADLOCK FALSE

SPECIFICATION Spec
INVARIANTS LawSizeMultipleOfAlign LawOffsetsAligned LawZeroTailInside Emit
CHECK_DEADLOCK FALSE

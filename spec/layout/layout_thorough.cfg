SPECIFICATION Spec
CONSTANTS Tier = "thorough"
INVARIANTS LawSizeMultipleOfAlign LawOffsetsAligned LawZeroTailInside Emit
CHECK_DEADLOCK FALSE

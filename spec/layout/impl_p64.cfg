SPECIFICATION Spec
CONSTANTS Tier = "quick"  ProfileIndex = 1  SeesAlias = TRUE
INVARIANTS ImplMatchesLayout
CHECK_DEADLOCK FALSE

-------------------------------- MODULE LayoutImpl --------------------------------
(***************************************************************************)
(* Layer B for C08 (never the judge; reported only): the mechanism behind  *)
(* the compile-time numbers, ssa/type.go goProgram.Sizeof / Offsetsof /    *)
(* extraSize.  go/types lays a type out with a function value as ONE word  *)
(* (its own notion of func); llgo's function values are two words, so the  *)
(* wrapper adds the missing words AFTERWARDS:                              *)
(*    Sizeof(T)      = round(base.Sizeof(T) + Extra(T), base.Alignof(T))   *)
(*    Offsetsof(fs)i = base.Offsetsof(fs)i + sum of Extra(fs[j]), j < i    *)
(*    Extra(T)       = one word per function value contained in T          *)
(* Checked against layer A (Layout.tla) over the same term grammar:        *)
(*   - profile p64 / p32a4 (no alignment exceeds a word): the mechanism is *)
(*     exact, provided Extra looks through alias declarations              *)
(*     (SeesAlias = FALSE models extraSize as written: it has no case for  *)
(*     *types.Alias and counts no word behind an alias)                    *)
(*   - profile p32a8 (32-bit words, 64-bit scalars aligned to 8 - the LLVM *)
(*     data layout of arm and wasm32): adding words afterwards does not    *)
(*     commute with padding; TLC returns a shortest counterexample term    *)
(***************************************************************************)
EXTENDS Layout

CONSTANTS ProfileIndex,     \* index into Profiles
          SeesAlias         \* does Extra look through an alias declaration?

Pf == Profiles[ProfileIndex]

\* the term as go/types' own sizes see it: a function value is a single word
RECURSIVE OneWord(_)
OneWord(x) ==
  CASE x.k = "func" -> B("uintptr")
    [] x.k = "array" -> AR(x.len, OneWord(x.e))
    [] x.k = "struct" -> ST([i \in 1..Len(x.fields) |-> OneWord(x.fields[i])])
    [] x.k \in {"named", "alias"} -> [x EXCEPT !.u = OneWord(x.u)]
    [] OTHER -> x

RECURSIVE Extra(_), SumExtra(_, _)
SumExtra(fs, n) == IF n = 0 THEN 0 ELSE SumExtra(fs, n - 1) + Extra(fs[n])
Extra(x) ==
  CASE x.k = "func" -> Pf.ptr
    [] x.k = "struct" -> SumExtra(x.fields, Len(x.fields))
    [] x.k = "array" -> x.len * Extra(x.e)
    [] x.k = "named" -> Extra(x.u)
    [] x.k = "alias" -> IF SeesAlias THEN Extra(x.u) ELSE 0
    [] OTHER -> 0

ImplSize(x) == LET base == Size(OneWord(x), Pf) + Extra(x) IN
               IF Under(x).k \in {"struct", "array"} THEN RoundUp(base, Align(OneWord(x), Pf)) ELSE base
ImplOffsets(x) == LET fs == FieldsOf(x)
                      bo == Offsets(OneWord(x), Pf) IN
                  [i \in 1..Len(fs) |-> bo[i] + SumExtra(fs, i - 1)]

ImplMatchesLayout == ph = 0 \/ (ImplSize(t) = Size(t, Pf) /\ ImplOffsets(t) = Offsets(t, Pf))
=============================================================================

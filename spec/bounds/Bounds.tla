-------------------------------- MODULE Bounds --------------------------------
(***************************************************************************)
(* Layer A for C03 (index and slice expressions): when Go mandates a       *)
(* run-time panic and what the result is otherwise.                        *)
(*                                                                         *)
(* An operand has a length and a capacity (arrays and pointers to arrays:  *)
(* cap = len; strings: no capacity, bound is len).  Index values are       *)
(* abstract integers: anything beyond the small lengths used here behaves  *)
(* alike, so the harness instantiates Big / Huge / Min with the maximum of *)
(* the index type, 2^32 (64-bit types only: catches truncation to 32 bits),*)
(* 2^63 and the minimum of signed types.                                   *)
(*   index   a[i]        panics unless 0 <= i < len                        *)
(*   slice2  a[i:j]      panics unless 0 <= i <= j <= bound, bound = cap   *)
(*                       (len for strings); omitted i = 0, omitted j = len *)
(*                       result: len j-i, cap cap-i, window starts at i    *)
(*   slice3  a[i:j:k]    panics unless 0 <= i <= j <= k <= cap;            *)
(*                       result: len j-i, cap k-i                          *)
(* A value that does not fit the index type is not a case (the harness     *)
(* only sends representable values).                                       *)
(***************************************************************************)
EXTENDS Integers, Sequences, TLC, Json

Big  == 1000      \* max of the index type
Huge == 900       \* 2^32 (types of at least 64 bits) / 2^63 (unsigned 64)
Min  == 0 - 1000  \* min of a signed index type
Omitted == 0 - 7777

Kinds == {"array", "ptrarray", "slice", "string"}
Lens == 0..3
IdxVals == {0 - 1, 0, 1, 2, 3, 4, Big, Huge, Min}
Signed == {"int8", "int32", "int64", "int"}
Unsigned == {"uint8", "uint32", "uint64", "uint"}
Wide == {"int64", "int", "uint64", "uint"}
IdxTypes == Signed \cup Unsigned

Representable(t, v) ==
  /\ (v < 0 => t \in Signed)
  /\ (v = Huge => t \in Wide)

VARIABLE c
Cases ==
  { cs \in [kind : Kinds, form : {"index", "slice2", "slice3"}, ty : IdxTypes, len : Lens, cap : Lens,
            i : IdxVals \cup {Omitted}, j : IdxVals \cup {Omitted}, k : IdxVals \cup {Omitted}] :
      /\ cs.cap >= cs.len
      /\ (cs.kind \in {"array", "ptrarray", "string"} => cs.cap = cs.len)
      /\ (cs.kind \in {"array", "ptrarray"} => cs.len = 3)              \* the harness uses [3]int
      /\ (cs.form = "index"  => cs.i # Omitted /\ cs.j = Omitted /\ cs.k = Omitted)
      /\ (cs.form = "slice2" => cs.k = Omitted)
      /\ (cs.form = "slice3" => cs.j # Omitted /\ cs.k # Omitted /\ cs.kind # "string")
      /\ \A v \in {cs.i, cs.j, cs.k} : v = Omitted \/ Representable(cs.ty, v) }

Bound(cs) == IF cs.kind = "string" THEN cs.len ELSE cs.cap
I(cs) == IF cs.i = Omitted THEN 0 ELSE cs.i
J(cs) == IF cs.j = Omitted THEN cs.len ELSE cs.j

InRange(cs) ==
  CASE cs.form = "index"  -> 0 <= cs.i /\ cs.i < cs.len
    [] cs.form = "slice2" -> 0 <= I(cs) /\ I(cs) <= J(cs) /\ J(cs) <= Bound(cs)
    [] cs.form = "slice3" -> 0 <= I(cs) /\ I(cs) <= cs.j /\ cs.j <= cs.k /\ cs.k <= cs.cap

Result(cs) ==
  IF ~InRange(cs) THEN [panic |-> TRUE, len |-> 0, cap |-> 0, first |-> 0]
  ELSE CASE cs.form = "index"  -> [panic |-> FALSE, len |-> 0, cap |-> 0, first |-> cs.i]
         [] cs.form = "slice2" -> [panic |-> FALSE, len |-> J(cs) - I(cs),
                                   cap |-> IF cs.kind = "string" THEN 0 ELSE cs.cap - I(cs), first |-> I(cs)]
         [] cs.form = "slice3" -> [panic |-> FALSE, len |-> cs.j - I(cs), cap |-> cs.k - I(cs), first |-> I(cs)]

Init == c \in Cases
Next == UNCHANGED c
Spec == Init /\ [][Next]_c

\* laws of the definition itself (vacuity / sanity)
LawLenLeCap == ~Result(c).panic /\ c.form # "index" /\ c.kind # "string" => Result(c).len <= Result(c).cap
LawWindowInside == ~Result(c).panic /\ c.form # "index" => Result(c).first + Result(c).len <= Bound(c)
LawOmittedIsDefault == c.form = "slice2" /\ c.i = Omitted /\ c.j = Omitted => ~Result(c).panic /\ Result(c).len = c.len

Emit == PrintT(ToJson([cs |-> c, r |-> Result(c)]))
=============================================================================

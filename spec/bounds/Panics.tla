-------------------------------- MODULE Panics --------------------------------
(***************************************************************************)
(* Layer A for C03 (the other mandated run-time panics): for every         *)
(* operation and every state of its operands, whether Go mandates a panic  *)
(* and of which kind; "No operation whose operands are in range panics".   *)
(* Each case is repeated `rep` times in one goroutine with a recover in    *)
(* between: the n-th occurrence must behave like the first.                *)
(***************************************************************************)
EXTENDS Integers, Sequences, TLC, Json

Ops == {
  "mapwrite", "mapread", "mapdelete", "maplen",          \* operand: nil / empty / nonempty map
  "deref", "fieldsmall", "fieldlarge", "ptrarrayindex", "ptrarraylen", "methodptr", \* operand: nil / valid pointer
  "derefdiscard", "derefdiscardstruct", "derefdiscardarray", \* _ = *p : the operand is evaluated although the value is dropped
  "rangeptrarraykey", "rangeptrarrayval",                 \* for i := range *p (not evaluated: length is constant) / for _, v := range *p
  "assertemptyiface",                                     \* x.(any) for x of a non-empty interface type: nil / match
  \* arrays whose constant length sits at the edge of the index type's range: index = len-1 ("last") or = len ("len");
  \* with len = max+1 every value of the type is in range ("full": the one legitimate elision of the check)
  "edgearr8", "edgeptr8", "edgestore8", "edgearr16", "edgeptr16", "edgeptr32", "edgefull8", "edgefull16",
  "callfunc",                                              \* operand: nil / valid func value
  "assertconcrete", "assertiface", "assertcomma",         \* operand: nil iface / matching dyn type / other dyn type
  "divint", "modint", "divint8", "divuint", "divconstzerovar", \* operand: zero / nonzero divisor
  "makeslice", "makeslicecap", "makechan", "makemap",     \* operand: n in {-1, 0, 3}; (len 3, cap 2)
  "slice2array", "slice2arrayptr",                        \* operand: slice len in {2, 3, 4} converted to [3]int
  "chansend", "chanclose", "chanrecv",                    \* operand: nil(skip: blocks) / open / closed channel
  "ifacemethod"                                           \* operand: nil interface / non-nil
}

States(op) ==
  CASE op \in {"mapwrite", "mapread", "mapdelete", "maplen"} -> {"nil", "empty", "nonempty"}
    [] op \in {"deref", "fieldsmall", "fieldlarge", "ptrarrayindex", "ptrarraylen", "methodptr", "callfunc", "ifacemethod",
                "derefdiscard", "derefdiscardstruct", "derefdiscardarray", "rangeptrarraykey", "rangeptrarrayval"} -> {"nil", "valid"}
    [] op = "assertemptyiface" -> {"nil", "match"}
    [] op \in {"edgearr8", "edgeptr8", "edgestore8", "edgearr16", "edgeptr16", "edgeptr32"} -> {"last", "len"}
    [] op \in {"edgefull8", "edgefull16"} -> {"last"}
    [] op \in {"assertconcrete", "assertiface", "assertcomma"} -> {"nil", "match", "other"}
    [] op \in {"divint", "modint", "divint8", "divuint", "divconstzerovar"} -> {"zero", "nonzero"}
    [] op \in {"makeslice", "makechan", "makemap"} -> {"neg", "zero", "pos"}
    [] op = "makeslicecap" -> {"caplt", "capeq"}
    [] op \in {"slice2array", "slice2arrayptr"} -> {"short", "exact", "long"}
    [] op = "chansend" -> {"open", "closed"}
    [] op = "chanclose" -> {"nil", "open", "closed"}
    [] op = "chanrecv" -> {"open", "closed"}

\* the kind of panic Go mandates, or "none"
Mandated(op, st) ==
  CASE op = "mapwrite" -> IF st = "nil" THEN "nilmap" ELSE "none"
    [] op \in {"mapread", "mapdelete", "maplen"} -> "none"
    [] op \in {"deref", "fieldsmall", "fieldlarge", "ptrarrayindex", "methodptr", "callfunc", "ifacemethod",
                "derefdiscard", "derefdiscardstruct", "derefdiscardarray", "rangeptrarrayval"} ->
         IF st = "nil" THEN "nilderef" ELSE "none"
    [] op \in {"ptrarraylen", "rangeptrarraykey"} -> "none" \* len of a nil *[3]int is 3 and a key-only range over *p does not evaluate *p
    [] op = "assertemptyiface" -> IF st = "match" THEN "none" ELSE "assert"
    [] op \in {"edgearr8", "edgeptr8", "edgestore8", "edgearr16", "edgeptr16", "edgeptr32"} -> IF st = "len" THEN "bounds" ELSE "none"
    [] op \in {"edgefull8", "edgefull16"} -> "none"
    [] op \in {"assertconcrete", "assertiface"} -> IF st = "match" THEN "none" ELSE "assert"
    [] op = "assertcomma" -> "none"
    [] op \in {"divint", "modint", "divint8", "divuint", "divconstzerovar"} -> IF st = "zero" THEN "divide" ELSE "none"
    [] op \in {"makeslice", "makechan"} -> IF st = "neg" THEN "makerange" ELSE "none"
    [] op = "makemap" -> "none"                            \* a negative hint to make(map) is not an error at run time... (see note)
    [] op = "makeslicecap" -> IF st = "caplt" THEN "makerange" ELSE "none"
    [] op \in {"slice2array", "slice2arrayptr"} -> IF st = "short" THEN "slice2array" ELSE "none"
    [] op = "chansend" -> IF st = "closed" THEN "chan" ELSE "none"
    [] op = "chanclose" -> IF st = "open" THEN "none" ELSE "chan"
    [] op = "chanrecv" -> "none"

VARIABLE c
Cases == {cs \in [op : Ops, st : {"nil", "empty", "nonempty", "valid", "match", "other", "zero", "nonzero", "neg", "pos",
                                  "caplt", "capeq", "short", "exact", "long", "open", "closed", "last", "len"}, rep : 1..3] :
             cs.st \in States(cs.op)}
Init == c \in Cases
Next == UNCHANGED c
Spec == Init /\ [][Next]_c
\* every occurrence behaves the same: the expectation does not depend on rep
Emit == PrintT(ToJson([cs |-> c, panic |-> Mandated(c.op, c.st)]))
=============================================================================

SPECIFICATION Spec
INVARIANTS LawLenLeCap LawWindowInside LawOmittedIsDefault Emit
CHECK_DEADLOCK FALSE

-------------------------------- MODULE GoChan --------------------------------
(***************************************************************************)
(* Layer A for C10: what the Go language allows channels and select to do. *)
(*                                                                         *)
(* State: for every channel its capacity, buffer and closed flag; for      *)
(* every goroutine the operation it is currently executing (if any) and    *)
(* the results of the operations it has completed.  An operation is a      *)
(* select over one or more cases, blocking or with a default; a plain send *)
(* or receive is the one-case blocking select; close is separate.          *)
(*                                                                         *)
(* An operation that has been called becomes *visible to others* by the    *)
(* silent step Arrive (the goroutine has parked): only arrived partners    *)
(* make a case "ready" for the purpose of taking a default, which is what  *)
(* Go guarantees (a goroutine that merely started executing a send is not  *)
(* yet a partner).  Completion is one of                                   *)
(*     BufSend  BufRecv  Rendezvous  RecvClosed  SendClosed(panic)         *)
(*     TakeDefault  Close  CloseClosed(panic)                              *)
(* The module is used three ways: closed over scenario programs            *)
(* (GoChanProg: all legal outcomes incl. legal deadlocks), driven by a     *)
(* recorded history (GoChanTrace), and as the property that the            *)
(* implementation model ChanImpl is checked against.                       *)
(***************************************************************************)
EXTENDS Naturals, Sequences, FiniteSets

CONSTANT AtomicDefault   \* TRUE: Go's one-instant rule for select-default; FALSE: case-by-case reading (see TakeDefault)

VARIABLES caps,     \* Seq(Nat)            capacity of channel c
          buf,      \* [chan -> Seq(val)]  buffered values, oldest first
          closed,   \* [chan -> BOOLEAN]
          pend,     \* [thread -> op]      the operation in flight, or NoOp
          res,      \* [thread -> Seq(result)]
          sent,     \* history: [chan -> Seq(val)] values handed to the channel, in commit order
          rcvd      \* history: [chan -> Seq(val)] values delivered, in commit order
chanVars == <<caps, buf, closed, pend, res, sent, rcvd>>

NoOp == [k |-> "none"]
Chans == 1..Len(caps)
Threads == DOMAIN pend
Pending(t) == pend[t].k # "none"
Ch(cs) == cs.c + 1                      \* scenario files number channels from 0

\* result records mirror what the harness logs for an operation
\* (a receive that discards its value - `<-ch` - reports 0: the harness cannot observe what was delivered)
Result(t, i, v, ok, pan) ==
  [sel |-> IF pend[t].k = "select" THEN i ELSE 0, val |-> IF pend[t].drop THEN 0 ELSE v, ok |-> ok, pan |-> pan]

Complete(t, r) ==
  /\ res' = [res EXCEPT ![t] = Append(@, r)]
  /\ pend' = [pend EXCEPT ![t] = NoOp]

SendCase(t, i) == Pending(t) /\ pend[t].k # "close" /\ i \in DOMAIN pend[t].cases /\ pend[t].cases[i].send
RecvCase(t, i) == Pending(t) /\ pend[t].k # "close" /\ i \in DOMAIN pend[t].cases /\ ~pend[t].cases[i].send

\* ---------------------------------------------------------------- completing actions
BufSend(t, i) ==
  /\ SendCase(t, i)
  /\ LET cs == pend[t].cases[i] c == Ch(cs) IN
       /\ ~closed[c] /\ Len(buf[c]) < caps[c]
       /\ buf' = [buf EXCEPT ![c] = Append(@, cs.v)]
       /\ sent' = [sent EXCEPT ![c] = Append(@, cs.v)]
       /\ Complete(t, Result(t, i, 0, FALSE, ""))
  /\ UNCHANGED <<caps, closed, rcvd>>

BufRecv(t, i) ==
  /\ RecvCase(t, i)
  /\ LET cs == pend[t].cases[i] c == Ch(cs) IN
       /\ buf[c] # <<>>
       /\ buf' = [buf EXCEPT ![c] = Tail(@)]
       /\ rcvd' = [rcvd EXCEPT ![c] = Append(@, Head(buf[c]))]
       /\ Complete(t, Result(t, i, Head(buf[c]), TRUE, ""))
  /\ UNCHANGED <<caps, closed, sent>>

\* sender t (case i) hands its value directly to receiver u (case j); both complete together
Rendezvous(t, i, u, j) ==
  /\ t # u /\ SendCase(t, i) /\ RecvCase(u, j)
  /\ LET cs == pend[t].cases[i] c == Ch(cs) IN
       /\ Ch(pend[u].cases[j]) = c
       /\ ~closed[c] /\ buf[c] = <<>>
       /\ sent' = [sent EXCEPT ![c] = Append(@, cs.v)]
       /\ rcvd' = [rcvd EXCEPT ![c] = Append(@, cs.v)]
       /\ res' = [res EXCEPT ![t] = Append(@, Result(t, i, 0, FALSE, "")),
                             ![u] = Append(@, Result(u, j, cs.v, TRUE, ""))]
       /\ pend' = [pend EXCEPT ![t] = NoOp, ![u] = NoOp]
  /\ UNCHANGED <<caps, buf, closed>>

RecvClosed(t, i) ==
  /\ RecvCase(t, i)
  /\ LET c == Ch(pend[t].cases[i]) IN closed[c] /\ buf[c] = <<>>
  /\ Complete(t, Result(t, i, 0, FALSE, ""))
  /\ UNCHANGED <<caps, buf, closed, sent, rcvd>>

SendClosed(t, i) ==
  /\ SendCase(t, i)
  /\ closed[Ch(pend[t].cases[i])]
  /\ Complete(t, [sel |-> 0, val |-> 0, ok |-> FALSE, pan |-> "sendclosed"])
  /\ UNCHANGED <<caps, buf, closed, sent, rcvd>>

\* readiness as seen by a select that may take its default: only *arrived* partners count
PartnerArrived(t, c, wantSend) ==
  \E u \in Threads \ {t} : Pending(u) /\ pend[u].k # "close" /\ pend[u].arrived
       /\ \E j \in DOMAIN pend[u].cases : pend[u].cases[j].send = wantSend /\ Ch(pend[u].cases[j]) = c

CaseReady(t, i) ==
  LET cs == pend[t].cases[i] c == Ch(cs) IN
    IF cs.send THEN closed[c] \/ Len(buf[c]) < caps[c] \/ (buf[c] = <<>> /\ PartnerArrived(t, c, FALSE))
               ELSE buf[c] # <<>> \/ closed[c] \/ PartnerArrived(t, c, TRUE)

\* Go evaluates all cases of a select in one atomic step, so default is legal only when no case is
\* ready *at one instant* (AtomicDefault = TRUE).  llgo polls the cases one after the other under
\* per-channel locks; the statement's wording ("takes default only when none was ready") is judged with
\* the weaker reading AtomicDefault = FALSE: every case must have been unready at some instant while the
\* select was executing (recorded in pend[t].unready by the silent step NoteUnready).  The difference
\* is a documented finding, demonstrated by one listed scenario under AtomicDefault = TRUE.
NoteUnready(t, i) ==
  /\ ~AtomicDefault
  /\ Pending(t) /\ pend[t].k = "select" /\ pend[t].dflt
  /\ i \in DOMAIN pend[t].cases /\ i \notin pend[t].unready
  /\ ~CaseReady(t, i)
  /\ pend' = [pend EXCEPT ![t].unready = @ \cup {i}]
  /\ UNCHANGED <<caps, buf, closed, res, sent, rcvd>>

TakeDefault(t) ==
  /\ Pending(t) /\ pend[t].k = "select" /\ pend[t].dflt
  /\ IF AtomicDefault THEN \A i \in DOMAIN pend[t].cases : ~CaseReady(t, i)
                      ELSE \A i \in DOMAIN pend[t].cases : i \in pend[t].unready \/ ~CaseReady(t, i)
  /\ Complete(t, [sel |-> 0, val |-> 0, ok |-> FALSE, pan |-> ""])
  /\ UNCHANGED <<caps, buf, closed, sent, rcvd>>

Close(t) ==
  /\ Pending(t) /\ pend[t].k = "close"
  /\ LET c == pend[t].c + 1 IN
       IF closed[c]
         THEN /\ Complete(t, [sel |-> 0, val |-> 0, ok |-> FALSE, pan |-> "closeclosed"])
              /\ UNCHANGED closed
         ELSE /\ closed' = [closed EXCEPT ![c] = TRUE]
              /\ Complete(t, [sel |-> 0, val |-> 0, ok |-> FALSE, pan |-> ""])
  /\ UNCHANGED <<caps, buf, sent, rcvd>>

\* a blocking operation parks and thereby becomes visible as a partner
Arrive(t) ==
  /\ Pending(t) /\ pend[t].k # "close" /\ ~pend[t].arrived
  /\ ~(pend[t].k = "select" /\ pend[t].dflt)          \* a select with default never parks
  /\ pend' = [pend EXCEPT ![t].arrived = TRUE]
  /\ UNCHANGED <<caps, buf, closed, res, sent, rcvd>>

Commit(t) ==
  \/ \E i \in 1..4 : BufSend(t, i) \/ BufRecv(t, i) \/ RecvClosed(t, i) \/ SendClosed(t, i)
  \/ \E i \in 1..4, u \in Threads, j \in 1..4 : Rendezvous(t, i, u, j)
  \/ TakeDefault(t) \/ Close(t)

Step == \E t \in Threads : Commit(t) \/ Arrive(t) \/ \E i \in 1..4 : NoteUnready(t, i)

\* ---------------------------------------------------------------- the statement's invariants
IsPrefix(s, t) == Len(s) <= Len(t) /\ \A i \in 1..Len(s) : s[i] = t[i]

\* every value sent is received at most once, in send order, and nothing else is received
ExactlyOnceFIFO == \A c \in Chans : IsPrefix(rcvd[c], sent[c])
\* what is sent and not yet received is exactly what the buffer holds
Conservation    == \A c \in Chans : sent[c] = rcvd[c] \o buf[c]
CapBound        == \A c \in Chans : Len(buf[c]) <= caps[c]

\* No group of goroutines stays blocked while two of their operations could complete together:
\* in a state where nothing more can happen, no pending pair matches and no pending case is ready alone.
NoStuckPair ==
  (\A t \in Threads : ~ENABLED Commit(t)) =>
     \A t \in Threads : Pending(t) /\ pend[t].k # "close" =>
        \A i \in DOMAIN pend[t].cases :
           LET cs == pend[t].cases[i] c == Ch(cs) IN
             /\ ~closed[c]
             /\ (cs.send => Len(buf[c]) >= caps[c])
             /\ (~cs.send => buf[c] = <<>>)
=============================================================================

-------------------------------- MODULE GoChanTrace --------------------------------
(***************************************************************************)
(* Trace validation for C10: is a history recorded from the real channel   *)
(* implementation a behaviour of GoChan?                                   *)
(*                                                                         *)
(* traces.ndjson holds one history per line:                               *)
(*   [id, caps, n, ev]   ev = sequence of                                  *)
(*      [e |-> "call", t, op]     goroutine t starts operation op          *)
(*      [e |-> "ret",  t, r]      ... and returns result r                 *)
(*      [e |-> "end",  stuck]     the execution is over: the goroutines in *)
(*                                `stuck` are blocked and nothing can move *)
(* Each history is validated independently (Init picks one), so one TLC    *)
(* run judges thousands.  Between two recorded events GoChan may take any  *)
(* number of its completing steps (they are not observable); a `ret` is    *)
(* accepted only if the abstract operation has completed with exactly the  *)
(* logged result; `end` only if GoChan agrees that nothing can complete    *)
(* (NoStuckPair) and exactly the logged goroutines are pending.            *)
(* A history is accepted iff some behaviour consumes all of its events;    *)
(* then "ACC" and the id are printed.                                      *)
(***************************************************************************)
EXTENDS GoChan, TLC, Json, Integers

Traces == ndJsonDeserialize("traces.ndjson")

VARIABLES h, l
tvars == <<caps, buf, closed, pend, res, sent, rcvd, h, l>>

Ev == Traces[h].ev
More == l <= Len(Ev)

Init ==
  /\ h \in 1..Len(Traces) /\ l = 1
  /\ LET tr == Traces[h] IN
       /\ caps = tr.caps
       /\ buf = [c \in 1..Len(tr.caps) |-> <<>>]
       /\ closed = [c \in 1..Len(tr.caps) |-> FALSE]
       /\ sent = [c \in 1..Len(tr.caps) |-> <<>>]
       /\ rcvd = [c \in 1..Len(tr.caps) |-> <<>>]
       /\ pend = [t \in 1..tr.n |-> NoOp]
       /\ res = [t \in 1..tr.n |-> <<>>]

TraceCall ==
  /\ More /\ Ev[l].e = "call"
  /\ LET t == Ev[l].t op == Ev[l].op IN
       /\ ~Pending(t) /\ res[t] = <<>>
       /\ pend' = [pend EXCEPT ![t] = [k |-> op.k, c |-> op.c, cases |-> op.cases, dflt |-> op.dflt, drop |-> op.drop, arrived |-> FALSE, unready |-> {}]]
  /\ l' = l + 1
  /\ UNCHANGED <<caps, buf, closed, res, sent, rcvd, h>>

TraceRet ==
  /\ More /\ Ev[l].e = "ret"
  /\ LET t == Ev[l].t IN
       /\ ~Pending(t)
       /\ res[t] = <<Ev[l].r>>                         \* completed, with exactly the logged result
       /\ res' = [res EXCEPT ![t] = <<>>]
  /\ l' = l + 1
  /\ UNCHANGED <<caps, buf, closed, pend, sent, rcvd, h>>

TraceEnd ==
  /\ More /\ Ev[l].e = "end"
  /\ {t \in Threads : Pending(t)} = {Ev[l].stuck[i] : i \in 1..Len(Ev[l].stuck)}
  /\ \A t \in Threads : res[t] = <<>>
  /\ \A t \in Threads : ~ENABLED Commit(t)             \* nothing could have completed: not a lost wake-up
  /\ l' = l + 1
  /\ UNCHANGED <<caps, buf, closed, pend, res, sent, rcvd, h>>

Silent == More /\ Step /\ UNCHANGED <<h, l>>

Next == TraceCall \/ TraceRet \/ TraceEnd \/ Silent
Spec == Init /\ [][Next]_tvars

Accepted == ~More
EmitAccepted == Accepted => PrintT(ToJson([acc |-> Traces[h].id]))

\* the statement's invariants are evaluated in every state of every validated history
Safety == ExactlyOnceFIFO /\ Conservation /\ CapBound
=============================================================================

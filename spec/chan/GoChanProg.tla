-------------------------------- MODULE GoChanProg --------------------------------
(***************************************************************************)
(* GoChan closed over scenario programs.  A scenario gives channel         *)
(* capacities and, per goroutine, a script of operations.  TLC explores    *)
(* every behaviour Go allows and prints each terminal outcome (results per *)
(* goroutine + the set of goroutines legally blocked forever).  The set of *)
(* outcomes per scenario is the oracle the real executions are judged by.  *)
(* A goroutine whose operation panics stops (the harness scripts do too).  *)
(***************************************************************************)
EXTENDS GoChan, TLC, Json, Integers

Scenarios == ndJsonDeserialize("scenarios.ndjson")

VARIABLES sc, pc
vars == <<caps, buf, closed, pend, res, sent, rcvd, sc, pc>>

Init ==
  /\ sc \in 1..Len(Scenarios)
  /\ LET s == Scenarios[sc] IN
       /\ caps = s.caps
       /\ buf = [c \in 1..Len(s.caps) |-> <<>>]
       /\ closed = [c \in 1..Len(s.caps) |-> FALSE]
       /\ sent = [c \in 1..Len(s.caps) |-> <<>>]
       /\ rcvd = [c \in 1..Len(s.caps) |-> <<>>]
       /\ pend = [t \in 1..Len(s.threads) |-> NoOp]
       /\ res = [t \in 1..Len(s.threads) |-> <<>>]
       /\ pc = [t \in 1..Len(s.threads) |-> 1]

Prog(t) == Scenarios[sc].threads[t]
Panicked(t) == res[t] # <<>> /\ res[t][Len(res[t])].pan # ""

Call(t) ==
  /\ ~Pending(t) /\ pc[t] <= Len(Prog(t)) /\ ~Panicked(t)
  /\ LET op == Prog(t)[pc[t]] IN
       pend' = [pend EXCEPT ![t] = [k |-> op.k, c |-> op.c, cases |-> op.cases, dflt |-> op.dflt, drop |-> op.drop, arrived |-> FALSE, unready |-> {}]]
  /\ pc' = [pc EXCEPT ![t] = @ + 1]
  /\ UNCHANGED <<caps, buf, closed, res, sent, rcvd, sc>>

Next == \/ \E t \in Threads : Call(t)
        \/ (Step /\ UNCHANGED <<sc, pc>>)

Spec == Init /\ [][Next]_vars

Terminal == ~ENABLED Next

Emit == Terminal =>
  PrintT(ToJson([id |-> Scenarios[sc].id, res |-> res, stuck |-> {t \in Threads : Pending(t)}]))

\* a legal deadlock really is one: NoStuckPair holds in every terminal state of the language-level model
TerminalNoStuckPair == Terminal => NoStuckPair
=============================================================================

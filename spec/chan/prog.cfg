SPECIFICATION Spec
CONSTANTS AtomicDefault = FALSE
INVARIANTS ExactlyOnceFIFO Conservation CapBound TerminalNoStuckPair Emit
CHECK_DEADLOCK FALSE

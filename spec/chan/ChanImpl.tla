-------------------------------- MODULE ChanImpl --------------------------------
(***************************************************************************)
(* Layer B for C10: runtime/internal/runtime/z_chan.go (ChanSend, ChanRecv,*)
(* ChanClose) as a PlusCal algorithm with one label per scheduling point   *)
(* of the real code: acquiring the channel mutex, returning from           *)
(* cond.Wait (wake-up + re-acquisition), and cond.Broadcast.  Unlock and   *)
(* the entry into cond.Wait are not scheduling points (they commute with   *)
(* everything other threads can do) - the same grain as the controlled     *)
(* scheduler that drives the real source.                                  *)
(*                                                                         *)
(* The unbuffered hand-off is modelled as the code does it: the receiver   *)
(* publishes getp = 1, the address of its buffer (downer) and of its       *)
(* completion flag, and waits for *its* flag; the sender copies, sets the  *)
(* flag and clears getp.  HandOffBug = TRUE restores the pre-fix code      *)
(* (wait on getp, ok := ~closed) so that TLC re-finds the two defects.     *)
(* Scenarios come from the same file as GoChanProg.  select is modelled as *)
(* the code does it: TrySelect polls the cases in order; Select registers  *)
(* its selectOp on every channel (counting itself as a blocked sender on   *)
(* unbuffered ones), polls by direction (sends first when the lowest send  *)
(* channel address is below the lowest receive address), sleeps on its     *)
(* semaphore and finally withdraws.  notifyOps is one atomic step inside   *)
(* the notifier's critical section (the selectOp mutex guards one flag).   *)
(* Terminal outcomes are printed and must be outcomes GoChanProg allows.   *)
(***************************************************************************)
EXTENDS Naturals, Sequences, FiniteSets, TLC, Json, Integers

CONSTANTS HandOffBug, SpuriousBudget

Scenarios == ndJsonDeserialize("scenarios.ndjson")
HasSelect(s) == \E t \in 1..Len(s.threads) : \E i \in 1..Len(s.threads[t]) : s.threads[t][i].k = "select"
CONSTANT WithSelect
CONSTANT SelPanicBug   \* TRUE restores the code before fix 75a5786: Select panics on a closed send channel while still registered
Supported == {i \in 1..Len(Scenarios) : WithSelect \/ ~HasSelect(Scenarios[i])}
MaxThreads == 3
MaxChans == 2

(*--algorithm chanimpl
variables
  sc \in Supported,
  NT = Len(Scenarios[sc].threads),
  NC = Len(Scenarios[sc].caps),
  cap = [x \in 1..MaxChans |-> IF x <= NC THEN Scenarios[sc].caps[x] ELSE 0],
  mu = [x \in 1..MaxChans |-> 0],             \* owner thread of the channel mutex, 0 = free
  sleepers = [x \in 1..MaxChans |-> {}],      \* threads inside cond.Wait
  getp = [x \in 1..MaxChans |-> 0],           \* chanHasRecv flag (unbuffered)
  q = [x \in 1..MaxChans |-> <<>>],           \* ring buffer contents, oldest first (len = Len(q))
  closed = [x \in 1..MaxChans |-> FALSE],
  sends = [x \in 1..MaxChans |-> 0],
  selsends = [x \in 1..MaxChans |-> 0],       \* how many of `sends` are registered select-sends
  sops = [x \in 1..MaxChans |-> [t \in 1..MaxThreads |-> 0]],   \* p.sops as a bag of selectOps (one per thread)
  sem = [t \in 1..MaxThreads |-> FALSE],      \* selectOp.sem
  selsleep = {},                              \* threads inside selectOp.wait's cond.Wait
  downer = [x \in 1..MaxChans |-> 0],         \* thread whose buffer / done flag p.data, p.done point to
  doneF = [t \in 1..MaxThreads |-> FALSE],
  slot = [t \in 1..MaxThreads |-> 0],
  res = [t \in 1..MaxThreads |-> <<>>],
  tok = [t \in 1..MaxThreads |-> FALSE],      \* results of the try operations: tryOK, recvOK, "channel is closed"
  trok = [t \in 1..MaxThreads |-> FALSE],
  tcl = [t \in 1..MaxThreads |-> FALSE],
  spur = SpuriousBudget;

define
  Prog(t) == IF t <= NT THEN Scenarios[sc].threads[t] ELSE <<>>
  R(v, ok, pan) == [sel |-> 0, val |-> v, ok |-> ok, pan |-> pan]
  \* channel addresses ascend with the index unless the scenario says rev
  Addr(x) == IF Scenarios[sc].rev THEN 0 - x ELSE x
  CaseIdx(o, snd) == {j \in 1..Len(o.cases) : o.cases[j].send = snd}
  Addrs(o, snd) == {Addr(o.cases[j].c) : j \in CaseIdx(o, snd)}
  MinOf(S) == CHOOSE x \in S : \A y \in S : x <= y
  SendFirst(o) == IF Addrs(o, TRUE) = {} THEN FALSE
                  ELSE IF Addrs(o, FALSE) = {} THEN TRUE
                  ELSE MinOf(Addrs(o, TRUE)) < MinOf(Addrs(o, FALSE))
  SendChans(o) == {o.cases[j].c + 1 : j \in CaseIdx(o, TRUE)}
  PassSends(o, pass) == IF SendFirst(o) THEN pass = 1 ELSE pass = 2
end define;

macro lock(c) begin await mu[c] = 0; mu[c] := self; end macro;
macro unlock(c) begin mu[c] := 0; end macro;
\* notifyOps: every registered selectOp gets its flag set and its sleeper (if any) signalled
macro notify(ch) begin
  sem := [t \in 1..MaxThreads |-> sem[t] \/ sops[ch][t] > 0];
  selsleep := {t \in selsleep : sops[ch][t] = 0};
end macro;

\* cond.Wait: release the mutex and sleep (no scheduling point), then wake up and re-acquire (one step)
procedure wait(wc)
begin
 W1: mu[wc] := 0; sleepers[wc] := sleepers[wc] \cup {self};
 W2: await self \notin sleepers[wc] /\ mu[wc] = 0; mu[wc] := self;
     return;
end procedure;

\* chanTrySend: one critical section, then the broadcast
procedure trysend(tsc, tsv)
begin
 TSa: await mu[tsc] = 0;
      if closed[tsc] then
        tok[self] := FALSE; tcl[self] := TRUE;
        return;
      elsif cap[tsc] = 0 then
        if getp[tsc] # 1 then
          tok[self] := FALSE; tcl[self] := FALSE;
          return;
        else
          slot[downer[tsc]] := tsv; doneF[downer[tsc]] := TRUE; getp[tsc] := 0;
          tcl[self] := FALSE;
          notify(tsc);
        end if;
      else
        if Len(q[tsc]) = cap[tsc] then
          tok[self] := FALSE; tcl[self] := FALSE;
          return;
        else
          q[tsc] := Append(q[tsc], tsv);
          tcl[self] := FALSE;
          notify(tsc);
        end if;
      end if;
 TSb: sleepers[tsc] := {};                     \* cond.Broadcast
      tok[self] := TRUE;
      return;
end procedure;

\* chanTryRecv(p, v, size, acceptSelectSend)
procedure tryrecv(trc, tracc)
begin
 TRa: await mu[trc] = 0;
      if cap[trc] = 0 then
        if sends[trc] = 0 \/ getp[trc] = 1 \/ closed[trc] then
          tok[self] := closed[trc]; trok[self] := FALSE;
          return;
        elsif ~tracc /\ sends[trc] = selsends[trc] then
          tok[self] := FALSE; trok[self] := FALSE;
          return;
        else
          getp[trc] := 1; downer[trc] := self; doneF[self] := FALSE; slot[self] := 0;
          notify(trc);
        end if;
      else
        if Len(q[trc]) = 0 then
          tok[self] := closed[trc]; trok[self] := FALSE;
          return;
        else
          slot[self] := Head(q[trc]); q[trc] := Tail(q[trc]);
          notify(trc);
        end if;
      end if;
 TRb: sleepers[trc] := {};                     \* cond.Broadcast
      if cap[trc] # 0 then
        tok[self] := TRUE; trok[self] := TRUE;
        return;
      end if;
 TRc: lock(trc);
 TRd: while ~doneF[self] /\ ~closed[trc] /\ sends[trc] # 0 do
        call wait(trc);
      end while;
      if ~doneF[self] /\ ~closed[trc] then       \* the select-send it published for has left: withdraw
        getp[trc] := 0;
      end if;
      tok[self] := doneF[self]; trok[self] := doneF[self];
      unlock(trc);
      return;
end procedure;

process thr \in 1..MaxThreads
variables pc0 = 1, op = [k |-> "none"], c = 1, drop = FALSE, ci = 1, pass = 1, isel = 0;
begin
 Loop:
  while pc0 <= Len(Prog(self)) do
    op := Prog(self)[pc0]; c := Prog(self)[pc0].c + 1; drop := Prog(self)[pc0].drop; pc0 := pc0 + 1;
    if op.k = "send" then
 S1:  lock(c);
      if cap[c] = 0 then
 S2:    while getp[c] # 1 /\ ~closed[c] do
          sends[c] := sends[c] + 1;
          if sends[c] = 1 \/ sends[c] - 1 = selsends[c] then
            notify(c);
          end if;
          call wait(c);
 S3:      sends[c] := sends[c] - 1;
        end while;
        if closed[c] then
          unlock(c); res[self] := Append(res[self], R(0, FALSE, "sendclosed")); pc0 := 99;
          goto Loop;
        else
          slot[downer[c]] := op.v; doneF[downer[c]] := TRUE; getp[c] := 0;
        end if;
      else
 S4:    while Len(q[c]) = cap[c] /\ ~closed[c] do
          call wait(c);
        end while;
 S5:    if closed[c] then
          unlock(c); res[self] := Append(res[self], R(0, FALSE, "sendclosed")); pc0 := 99;
          goto Loop;
        else
          q[c] := Append(q[c], op.v);
        end if;
      end if;
 S6:  notify(c); unlock(c);
 S7:  sleepers[c] := {};                       \* cond.Broadcast
      res[self] := Append(res[self], R(0, FALSE, ""));
    elsif op.k = "recv" then
      doneF[self] := FALSE; slot[self] := 0;
 R1:  lock(c);
      if cap[c] = 0 then
 R2:    while getp[c] = 1 /\ ~closed[c] do
          call wait(c);
        end while;
 R3:    if closed[c] then
          unlock(c); res[self] := Append(res[self], R(0, FALSE, ""));
          goto Loop;
        else
          getp[c] := 1; downer[c] := self;
          notify(c);
          unlock(c);
        end if;
 R4:    sleepers[c] := {};                     \* cond.Broadcast
 R5:    lock(c);
 R6:    while (IF HandOffBug THEN getp[c] = 1 ELSE ~doneF[self]) /\ ~closed[c] do
          call wait(c);
        end while;
 R7:    res[self] := Append(res[self], R(IF drop THEN 0 ELSE slot[self], IF HandOffBug THEN ~closed[c] ELSE doneF[self], ""));
        unlock(c);
      else
 R8:    while Len(q[c]) = 0 /\ ~closed[c] do
          call wait(c);
        end while;
 R9:    if Len(q[c]) = 0 then                  \* closed and drained
          unlock(c); res[self] := Append(res[self], R(0, FALSE, ""));
          goto Loop;
        else
          slot[self] := Head(q[c]); q[c] := Tail(q[c]);
          notify(c);
          unlock(c);
        end if;
 R10:   sleepers[c] := {};                     \* cond.Broadcast
        res[self] := Append(res[self], R(IF drop THEN 0 ELSE slot[self], TRUE, ""));
      end if;
    elsif op.k = "close" then
 C1:  await mu[c] = 0;                         \* lock; the whole critical section; unlock
      if closed[c] then
        res[self] := Append(res[self], R(0, FALSE, "closeclosed")); pc0 := 99;
        goto Loop;
      else
        closed[c] := TRUE;
        notify(c);
      end if;
 C2:  sleepers[c] := {};                       \* cond.Broadcast
      res[self] := Append(res[self], R(0, FALSE, ""));
    elsif op.k = "select" /\ op.dflt then
      \* TrySelect: the cases in source order; a send on a closed channel panics at once
      ci := 1; tok[self] := FALSE; trok[self] := FALSE; tcl[self] := FALSE;
 T1:  while ci <= Len(op.cases) /\ ~tok[self] /\ ~tcl[self] do
        c := op.cases[ci].c + 1;
        if op.cases[ci].send then
          call trysend(c, op.cases[ci].v);
        else
          call tryrecv(c, TRUE);
        end if;
 T2:    if ~tok[self] /\ ~tcl[self] then
          ci := ci + 1;
        end if;
      end while;
      if tcl[self] then
        res[self] := Append(res[self], R(0, FALSE, "sendclosed")); pc0 := 99;
      elsif tok[self] then
        res[self] := Append(res[self], [sel |-> ci, val |-> IF trok[self] /\ ~drop THEN slot[self] ELSE 0, ok |-> trok[self], pan |-> ""]);
      else
        res[self] := Append(res[self], R(0, FALSE, ""));
      end if;
    elsif op.k = "select" then
      \* Select: prepareSelect on every case, in order
      ci := 1; tok[self] := FALSE; trok[self] := FALSE; tcl[self] := FALSE; sem[self] := FALSE;
 P1:  while ci <= Len(op.cases) do
        c := op.cases[ci].c + 1;
        await mu[c] = 0;
        sops[c][self] := sops[c][self] + 1;
        if cap[c] = 0 /\ op.cases[ci].send then
          sends[c] := sends[c] + 1; selsends[c] := selsends[c] + 1;
          notify(c);
        end if;
        ci := ci + 1;
      end while;
 L1:  pass := 1;
 L2:  while pass <= 2 /\ ~tok[self] /\ ~tcl[self] do
        ci := 1;
 L3:    while ci <= Len(op.cases) /\ ~tok[self] /\ ~tcl[self] do
          if op.cases[ci].send = PassSends(op, pass) then
            c := op.cases[ci].c + 1;
            if op.cases[ci].send then
              call trysend(c, op.cases[ci].v);
            else
              call tryrecv(c, (~SendFirst(op)) /\ (c \notin SendChans(op)));
            end if;
          end if;
 L4:      if ~tok[self] /\ ~tcl[self] then
            ci := ci + 1;
          end if;
        end while;
        if ~tok[self] /\ ~tcl[self] then
          pass := pass + 1;
        end if;
      end while;
      if ~tok[self] /\ ~tcl[self] then
        \* selectOp.wait(): `if !sem { cond.Wait }; sem = false`
 W3:    if sem[self] then
          sem[self] := FALSE;
        else
          selsleep := selsleep \cup {self};
 W4:      await self \notin selsleep;
          sem[self] := FALSE;
        end if;
 W5:    goto L1;
      end if;
 E0:  if SelPanicBug /\ tcl[self] then
        res[self] := Append(res[self], R(0, FALSE, "sendclosed")); pc0 := 99;
        goto Loop;
      end if;
 E1:  isel := ci; ci := 1;
 E2:  while ci <= Len(op.cases) do                \* endSelect on every case
        c := op.cases[ci].c + 1;
        await mu[c] = 0;
        sops[c][self] := sops[c][self] - 1;
        if cap[c] = 0 /\ op.cases[ci].send then
          sends[c] := sends[c] - 1; selsends[c] := selsends[c] - 1;
 E3:      sleepers[c] := {};                      \* cond.Broadcast
        end if;
 E4:    ci := ci + 1;
      end while;
      if tcl[self] then
        res[self] := Append(res[self], R(0, FALSE, "sendclosed")); pc0 := 99;
      else
        res[self] := Append(res[self], [sel |-> isel, val |-> IF trok[self] /\ ~drop THEN slot[self] ELSE 0, ok |-> trok[self], pan |-> ""]);
      end if;
    end if;
  end while;
end process;

\* POSIX allows cond.Wait to return without a signal
process spurious = 0
begin
 Sp: while spur > 0 do
       either
         with ch \in {x \in 1..MaxChans : sleepers[x] # {}} do
           with t \in sleepers[ch] do
             sleepers[ch] := sleepers[ch] \ {t};
           end with;
         end with;
       or
         with t \in selsleep do
           selsleep := selsleep \ {t};
         end with;
       end either;
       spur := spur - 1;
     end while;
end process;
end algorithm; *)
\* BEGIN TRANSLATION
CONSTANT defaultInitValue
VARIABLES pc, sc, NT, NC, cap, mu, sleepers, getp, q, closed, sends, selsends, 
          sops, sem, selsleep, downer, doneF, slot, res, tok, trok, tcl, spur, 
          stack

(* define statement *)
Prog(t) == IF t <= NT THEN Scenarios[sc].threads[t] ELSE <<>>
R(v, ok, pan) == [sel |-> 0, val |-> v, ok |-> ok, pan |-> pan]

Addr(x) == IF Scenarios[sc].rev THEN 0 - x ELSE x
CaseIdx(o, snd) == {j \in 1..Len(o.cases) : o.cases[j].send = snd}
Addrs(o, snd) == {Addr(o.cases[j].c) : j \in CaseIdx(o, snd)}
MinOf(S) == CHOOSE x \in S : \A y \in S : x <= y
SendFirst(o) == IF Addrs(o, TRUE) = {} THEN FALSE
                ELSE IF Addrs(o, FALSE) = {} THEN TRUE
                ELSE MinOf(Addrs(o, TRUE)) < MinOf(Addrs(o, FALSE))
SendChans(o) == {o.cases[j].c + 1 : j \in CaseIdx(o, TRUE)}
PassSends(o, pass) == IF SendFirst(o) THEN pass = 1 ELSE pass = 2

VARIABLES wc, tsc, tsv, trc, tracc, pc0, op, c, drop, ci, pass, isel

vars == << pc, sc, NT, NC, cap, mu, sleepers, getp, q, closed, sends, 
           selsends, sops, sem, selsleep, downer, doneF, slot, res, tok, trok, 
           tcl, spur, stack, wc, tsc, tsv, trc, tracc, pc0, op, c, drop, ci, 
           pass, isel >>

ProcSet == (1..MaxThreads) \cup {0}

Init == (* Global variables *)
        /\ sc \in Supported
        /\ NT = Len(Scenarios[sc].threads)
        /\ NC = Len(Scenarios[sc].caps)
        /\ cap = [x \in 1..MaxChans |-> IF x <= NC THEN Scenarios[sc].caps[x] ELSE 0]
        /\ mu = [x \in 1..MaxChans |-> 0]
        /\ sleepers = [x \in 1..MaxChans |-> {}]
        /\ getp = [x \in 1..MaxChans |-> 0]
        /\ q = [x \in 1..MaxChans |-> <<>>]
        /\ closed = [x \in 1..MaxChans |-> FALSE]
        /\ sends = [x \in 1..MaxChans |-> 0]
        /\ selsends = [x \in 1..MaxChans |-> 0]
        /\ sops = [x \in 1..MaxChans |-> [t \in 1..MaxThreads |-> 0]]
        /\ sem = [t \in 1..MaxThreads |-> FALSE]
        /\ selsleep = {}
        /\ downer = [x \in 1..MaxChans |-> 0]
        /\ doneF = [t \in 1..MaxThreads |-> FALSE]
        /\ slot = [t \in 1..MaxThreads |-> 0]
        /\ res = [t \in 1..MaxThreads |-> <<>>]
        /\ tok = [t \in 1..MaxThreads |-> FALSE]
        /\ trok = [t \in 1..MaxThreads |-> FALSE]
        /\ tcl = [t \in 1..MaxThreads |-> FALSE]
        /\ spur = SpuriousBudget
        (* Procedure wait *)
        /\ wc = [ self \in ProcSet |-> defaultInitValue]
        (* Procedure trysend *)
        /\ tsc = [ self \in ProcSet |-> defaultInitValue]
        /\ tsv = [ self \in ProcSet |-> defaultInitValue]
        (* Procedure tryrecv *)
        /\ trc = [ self \in ProcSet |-> defaultInitValue]
        /\ tracc = [ self \in ProcSet |-> defaultInitValue]
        (* Process thr *)
        /\ pc0 = [self \in 1..MaxThreads |-> 1]
        /\ op = [self \in 1..MaxThreads |-> [k |-> "none"]]
        /\ c = [self \in 1..MaxThreads |-> 1]
        /\ drop = [self \in 1..MaxThreads |-> FALSE]
        /\ ci = [self \in 1..MaxThreads |-> 1]
        /\ pass = [self \in 1..MaxThreads |-> 1]
        /\ isel = [self \in 1..MaxThreads |-> 0]
        /\ stack = [self \in ProcSet |-> << >>]
        /\ pc = [self \in ProcSet |-> CASE self \in 1..MaxThreads -> "Loop"
                                        [] self = 0 -> "Sp"]

W1(self) == /\ pc[self] = "W1"
            /\ mu' = [mu EXCEPT ![wc[self]] = 0]
            /\ sleepers' = [sleepers EXCEPT ![wc[self]] = sleepers[wc[self]] \cup {self}]
            /\ pc' = [pc EXCEPT ![self] = "W2"]
            /\ UNCHANGED << sc, NT, NC, cap, getp, q, closed, sends, selsends, 
                            sops, sem, selsleep, downer, doneF, slot, res, tok, 
                            trok, tcl, spur, stack, wc, tsc, tsv, trc, tracc, 
                            pc0, op, c, drop, ci, pass, isel >>

W2(self) == /\ pc[self] = "W2"
            /\ self \notin sleepers[wc[self]] /\ mu[wc[self]] = 0
            /\ mu' = [mu EXCEPT ![wc[self]] = self]
            /\ pc' = [pc EXCEPT ![self] = Head(stack[self]).pc]
            /\ wc' = [wc EXCEPT ![self] = Head(stack[self]).wc]
            /\ stack' = [stack EXCEPT ![self] = Tail(stack[self])]
            /\ UNCHANGED << sc, NT, NC, cap, sleepers, getp, q, closed, sends, 
                            selsends, sops, sem, selsleep, downer, doneF, slot, 
                            res, tok, trok, tcl, spur, tsc, tsv, trc, tracc, 
                            pc0, op, c, drop, ci, pass, isel >>

wait(self) == W1(self) \/ W2(self)

TSa(self) == /\ pc[self] = "TSa"
             /\ mu[tsc[self]] = 0
             /\ IF closed[tsc[self]]
                   THEN /\ tok' = [tok EXCEPT ![self] = FALSE]
                        /\ tcl' = [tcl EXCEPT ![self] = TRUE]
                        /\ pc' = [pc EXCEPT ![self] = Head(stack[self]).pc]
                        /\ tsc' = [tsc EXCEPT ![self] = Head(stack[self]).tsc]
                        /\ tsv' = [tsv EXCEPT ![self] = Head(stack[self]).tsv]
                        /\ stack' = [stack EXCEPT ![self] = Tail(stack[self])]
                        /\ UNCHANGED << getp, q, sem, selsleep, doneF, slot >>
                   ELSE /\ IF cap[tsc[self]] = 0
                              THEN /\ IF getp[tsc[self]] # 1
                                         THEN /\ tok' = [tok EXCEPT ![self] = FALSE]
                                              /\ tcl' = [tcl EXCEPT ![self] = FALSE]
                                              /\ pc' = [pc EXCEPT ![self] = Head(stack[self]).pc]
                                              /\ tsc' = [tsc EXCEPT ![self] = Head(stack[self]).tsc]
                                              /\ tsv' = [tsv EXCEPT ![self] = Head(stack[self]).tsv]
                                              /\ stack' = [stack EXCEPT ![self] = Tail(stack[self])]
                                              /\ UNCHANGED << getp, sem, 
                                                              selsleep, doneF, 
                                                              slot >>
                                         ELSE /\ slot' = [slot EXCEPT ![downer[tsc[self]]] = tsv[self]]
                                              /\ doneF' = [doneF EXCEPT ![downer[tsc[self]]] = TRUE]
                                              /\ getp' = [getp EXCEPT ![tsc[self]] = 0]
                                              /\ tcl' = [tcl EXCEPT ![self] = FALSE]
                                              /\ sem' = [t \in 1..MaxThreads |-> sem[t] \/ sops[tsc[self]][t] > 0]
                                              /\ selsleep' = {t \in selsleep : sops[tsc[self]][t] = 0}
                                              /\ pc' = [pc EXCEPT ![self] = "TSb"]
                                              /\ UNCHANGED << tok, stack, tsc, 
                                                              tsv >>
                                   /\ q' = q
                              ELSE /\ IF Len(q[tsc[self]]) = cap[tsc[self]]
                                         THEN /\ tok' = [tok EXCEPT ![self] = FALSE]
                                              /\ tcl' = [tcl EXCEPT ![self] = FALSE]
                                              /\ pc' = [pc EXCEPT ![self] = Head(stack[self]).pc]
                                              /\ tsc' = [tsc EXCEPT ![self] = Head(stack[self]).tsc]
                                              /\ tsv' = [tsv EXCEPT ![self] = Head(stack[self]).tsv]
                                              /\ stack' = [stack EXCEPT ![self] = Tail(stack[self])]
                                              /\ UNCHANGED << q, sem, selsleep >>
                                         ELSE /\ q' = [q EXCEPT ![tsc[self]] = Append(q[tsc[self]], tsv[self])]
                                              /\ tcl' = [tcl EXCEPT ![self] = FALSE]
                                              /\ sem' = [t \in 1..MaxThreads |-> sem[t] \/ sops[tsc[self]][t] > 0]
                                              /\ selsleep' = {t \in selsleep : sops[tsc[self]][t] = 0}
                                              /\ pc' = [pc EXCEPT ![self] = "TSb"]
                                              /\ UNCHANGED << tok, stack, tsc, 
                                                              tsv >>
                                   /\ UNCHANGED << getp, doneF, slot >>
             /\ UNCHANGED << sc, NT, NC, cap, mu, sleepers, closed, sends, 
                             selsends, sops, downer, res, trok, spur, wc, trc, 
                             tracc, pc0, op, c, drop, ci, pass, isel >>

TSb(self) == /\ pc[self] = "TSb"
             /\ sleepers' = [sleepers EXCEPT ![tsc[self]] = {}]
             /\ tok' = [tok EXCEPT ![self] = TRUE]
             /\ pc' = [pc EXCEPT ![self] = Head(stack[self]).pc]
             /\ tsc' = [tsc EXCEPT ![self] = Head(stack[self]).tsc]
             /\ tsv' = [tsv EXCEPT ![self] = Head(stack[self]).tsv]
             /\ stack' = [stack EXCEPT ![self] = Tail(stack[self])]
             /\ UNCHANGED << sc, NT, NC, cap, mu, getp, q, closed, sends, 
                             selsends, sops, sem, selsleep, downer, doneF, 
                             slot, res, trok, tcl, spur, wc, trc, tracc, pc0, 
                             op, c, drop, ci, pass, isel >>

trysend(self) == TSa(self) \/ TSb(self)

TRa(self) == /\ pc[self] = "TRa"
             /\ mu[trc[self]] = 0
             /\ IF cap[trc[self]] = 0
                   THEN /\ IF sends[trc[self]] = 0 \/ getp[trc[self]] = 1 \/ closed[trc[self]]
                              THEN /\ tok' = [tok EXCEPT ![self] = closed[trc[self]]]
                                   /\ trok' = [trok EXCEPT ![self] = FALSE]
                                   /\ pc' = [pc EXCEPT ![self] = Head(stack[self]).pc]
                                   /\ trc' = [trc EXCEPT ![self] = Head(stack[self]).trc]
                                   /\ tracc' = [tracc EXCEPT ![self] = Head(stack[self]).tracc]
                                   /\ stack' = [stack EXCEPT ![self] = Tail(stack[self])]
                                   /\ UNCHANGED << getp, sem, selsleep, downer, 
                                                   doneF, slot >>
                              ELSE /\ IF ~tracc[self] /\ sends[trc[self]] = selsends[trc[self]]
                                         THEN /\ tok' = [tok EXCEPT ![self] = FALSE]
                                              /\ trok' = [trok EXCEPT ![self] = FALSE]
                                              /\ pc' = [pc EXCEPT ![self] = Head(stack[self]).pc]
                                              /\ trc' = [trc EXCEPT ![self] = Head(stack[self]).trc]
                                              /\ tracc' = [tracc EXCEPT ![self] = Head(stack[self]).tracc]
                                              /\ stack' = [stack EXCEPT ![self] = Tail(stack[self])]
                                              /\ UNCHANGED << getp, sem, 
                                                              selsleep, downer, 
                                                              doneF, slot >>
                                         ELSE /\ getp' = [getp EXCEPT ![trc[self]] = 1]
                                              /\ downer' = [downer EXCEPT ![trc[self]] = self]
                                              /\ doneF' = [doneF EXCEPT ![self] = FALSE]
                                              /\ slot' = [slot EXCEPT ![self] = 0]
                                              /\ sem' = [t \in 1..MaxThreads |-> sem[t] \/ sops[trc[self]][t] > 0]
                                              /\ selsleep' = {t \in selsleep : sops[trc[self]][t] = 0}
                                              /\ pc' = [pc EXCEPT ![self] = "TRb"]
                                              /\ UNCHANGED << tok, trok, stack, 
                                                              trc, tracc >>
                        /\ q' = q
                   ELSE /\ IF Len(q[trc[self]]) = 0
                              THEN /\ tok' = [tok EXCEPT ![self] = closed[trc[self]]]
                                   /\ trok' = [trok EXCEPT ![self] = FALSE]
                                   /\ pc' = [pc EXCEPT ![self] = Head(stack[self]).pc]
                                   /\ trc' = [trc EXCEPT ![self] = Head(stack[self]).trc]
                                   /\ tracc' = [tracc EXCEPT ![self] = Head(stack[self]).tracc]
                                   /\ stack' = [stack EXCEPT ![self] = Tail(stack[self])]
                                   /\ UNCHANGED << q, sem, selsleep, slot >>
                              ELSE /\ slot' = [slot EXCEPT ![self] = Head(q[trc[self]])]
                                   /\ q' = [q EXCEPT ![trc[self]] = Tail(q[trc[self]])]
                                   /\ sem' = [t \in 1..MaxThreads |-> sem[t] \/ sops[trc[self]][t] > 0]
                                   /\ selsleep' = {t \in selsleep : sops[trc[self]][t] = 0}
                                   /\ pc' = [pc EXCEPT ![self] = "TRb"]
                                   /\ UNCHANGED << tok, trok, stack, trc, 
                                                   tracc >>
                        /\ UNCHANGED << getp, downer, doneF >>
             /\ UNCHANGED << sc, NT, NC, cap, mu, sleepers, closed, sends, 
                             selsends, sops, res, tcl, spur, wc, tsc, tsv, pc0, 
                             op, c, drop, ci, pass, isel >>

TRb(self) == /\ pc[self] = "TRb"
             /\ sleepers' = [sleepers EXCEPT ![trc[self]] = {}]
             /\ IF cap[trc[self]] # 0
                   THEN /\ tok' = [tok EXCEPT ![self] = TRUE]
                        /\ trok' = [trok EXCEPT ![self] = TRUE]
                        /\ pc' = [pc EXCEPT ![self] = Head(stack[self]).pc]
                        /\ trc' = [trc EXCEPT ![self] = Head(stack[self]).trc]
                        /\ tracc' = [tracc EXCEPT ![self] = Head(stack[self]).tracc]
                        /\ stack' = [stack EXCEPT ![self] = Tail(stack[self])]
                   ELSE /\ pc' = [pc EXCEPT ![self] = "TRc"]
                        /\ UNCHANGED << tok, trok, stack, trc, tracc >>
             /\ UNCHANGED << sc, NT, NC, cap, mu, getp, q, closed, sends, 
                             selsends, sops, sem, selsleep, downer, doneF, 
                             slot, res, tcl, spur, wc, tsc, tsv, pc0, op, c, 
                             drop, ci, pass, isel >>

TRc(self) == /\ pc[self] = "TRc"
             /\ mu[trc[self]] = 0
             /\ mu' = [mu EXCEPT ![trc[self]] = self]
             /\ pc' = [pc EXCEPT ![self] = "TRd"]
             /\ UNCHANGED << sc, NT, NC, cap, sleepers, getp, q, closed, sends, 
                             selsends, sops, sem, selsleep, downer, doneF, 
                             slot, res, tok, trok, tcl, spur, stack, wc, tsc, 
                             tsv, trc, tracc, pc0, op, c, drop, ci, pass, isel >>

TRd(self) == /\ pc[self] = "TRd"
             /\ IF ~doneF[self] /\ ~closed[trc[self]] /\ sends[trc[self]] # 0
                   THEN /\ /\ stack' = [stack EXCEPT ![self] = << [ procedure |->  "wait",
                                                                    pc        |->  "TRd",
                                                                    wc        |->  wc[self] ] >>
                                                                \o stack[self]]
                           /\ wc' = [wc EXCEPT ![self] = trc[self]]
                        /\ pc' = [pc EXCEPT ![self] = "W1"]
                        /\ UNCHANGED << mu, getp, tok, trok, trc, tracc >>
                   ELSE /\ IF ~doneF[self] /\ ~closed[trc[self]]
                              THEN /\ getp' = [getp EXCEPT ![trc[self]] = 0]
                              ELSE /\ TRUE
                                   /\ getp' = getp
                        /\ tok' = [tok EXCEPT ![self] = doneF[self]]
                        /\ trok' = [trok EXCEPT ![self] = doneF[self]]
                        /\ mu' = [mu EXCEPT ![trc[self]] = 0]
                        /\ pc' = [pc EXCEPT ![self] = Head(stack[self]).pc]
                        /\ trc' = [trc EXCEPT ![self] = Head(stack[self]).trc]
                        /\ tracc' = [tracc EXCEPT ![self] = Head(stack[self]).tracc]
                        /\ stack' = [stack EXCEPT ![self] = Tail(stack[self])]
                        /\ wc' = wc
             /\ UNCHANGED << sc, NT, NC, cap, sleepers, q, closed, sends, 
                             selsends, sops, sem, selsleep, downer, doneF, 
                             slot, res, tcl, spur, tsc, tsv, pc0, op, c, drop, 
                             ci, pass, isel >>

tryrecv(self) == TRa(self) \/ TRb(self) \/ TRc(self) \/ TRd(self)

Loop(self) == /\ pc[self] = "Loop"
              /\ IF pc0[self] <= Len(Prog(self))
                    THEN /\ op' = [op EXCEPT ![self] = Prog(self)[pc0[self]]]
                         /\ c' = [c EXCEPT ![self] = Prog(self)[pc0[self]].c + 1]
                         /\ drop' = [drop EXCEPT ![self] = Prog(self)[pc0[self]].drop]
                         /\ pc0' = [pc0 EXCEPT ![self] = pc0[self] + 1]
                         /\ IF op'[self].k = "send"
                               THEN /\ pc' = [pc EXCEPT ![self] = "S1"]
                                    /\ UNCHANGED << sem, doneF, slot, tok, 
                                                    trok, tcl, ci >>
                               ELSE /\ IF op'[self].k = "recv"
                                          THEN /\ doneF' = [doneF EXCEPT ![self] = FALSE]
                                               /\ slot' = [slot EXCEPT ![self] = 0]
                                               /\ pc' = [pc EXCEPT ![self] = "R1"]
                                               /\ UNCHANGED << sem, tok, trok, 
                                                               tcl, ci >>
                                          ELSE /\ IF op'[self].k = "close"
                                                     THEN /\ pc' = [pc EXCEPT ![self] = "C1"]
                                                          /\ UNCHANGED << sem, 
                                                                          tok, 
                                                                          trok, 
                                                                          tcl, 
                                                                          ci >>
                                                     ELSE /\ IF op'[self].k = "select" /\ op'[self].dflt
                                                                THEN /\ ci' = [ci EXCEPT ![self] = 1]
                                                                     /\ tok' = [tok EXCEPT ![self] = FALSE]
                                                                     /\ trok' = [trok EXCEPT ![self] = FALSE]
                                                                     /\ tcl' = [tcl EXCEPT ![self] = FALSE]
                                                                     /\ pc' = [pc EXCEPT ![self] = "T1"]
                                                                     /\ sem' = sem
                                                                ELSE /\ IF op'[self].k = "select"
                                                                           THEN /\ ci' = [ci EXCEPT ![self] = 1]
                                                                                /\ tok' = [tok EXCEPT ![self] = FALSE]
                                                                                /\ trok' = [trok EXCEPT ![self] = FALSE]
                                                                                /\ tcl' = [tcl EXCEPT ![self] = FALSE]
                                                                                /\ sem' = [sem EXCEPT ![self] = FALSE]
                                                                                /\ pc' = [pc EXCEPT ![self] = "P1"]
                                                                           ELSE /\ pc' = [pc EXCEPT ![self] = "Loop"]
                                                                                /\ UNCHANGED << sem, 
                                                                                                tok, 
                                                                                                trok, 
                                                                                                tcl, 
                                                                                                ci >>
                                               /\ UNCHANGED << doneF, slot >>
                    ELSE /\ pc' = [pc EXCEPT ![self] = "Done"]
                         /\ UNCHANGED << sem, doneF, slot, tok, trok, tcl, pc0, 
                                         op, c, drop, ci >>
              /\ UNCHANGED << sc, NT, NC, cap, mu, sleepers, getp, q, closed, 
                              sends, selsends, sops, selsleep, downer, res, 
                              spur, stack, wc, tsc, tsv, trc, tracc, pass, 
                              isel >>

S1(self) == /\ pc[self] = "S1"
            /\ mu[c[self]] = 0
            /\ mu' = [mu EXCEPT ![c[self]] = self]
            /\ IF cap[c[self]] = 0
                  THEN /\ pc' = [pc EXCEPT ![self] = "S2"]
                  ELSE /\ pc' = [pc EXCEPT ![self] = "S4"]
            /\ UNCHANGED << sc, NT, NC, cap, sleepers, getp, q, closed, sends, 
                            selsends, sops, sem, selsleep, downer, doneF, slot, 
                            res, tok, trok, tcl, spur, stack, wc, tsc, tsv, 
                            trc, tracc, pc0, op, c, drop, ci, pass, isel >>

S2(self) == /\ pc[self] = "S2"
            /\ IF getp[c[self]] # 1 /\ ~closed[c[self]]
                  THEN /\ sends' = [sends EXCEPT ![c[self]] = sends[c[self]] + 1]
                       /\ IF sends'[c[self]] = 1 \/ sends'[c[self]] - 1 = selsends[c[self]]
                             THEN /\ sem' = [t \in 1..MaxThreads |-> sem[t] \/ sops[c[self]][t] > 0]
                                  /\ selsleep' = {t \in selsleep : sops[c[self]][t] = 0}
                             ELSE /\ TRUE
                                  /\ UNCHANGED << sem, selsleep >>
                       /\ /\ stack' = [stack EXCEPT ![self] = << [ procedure |->  "wait",
                                                                   pc        |->  "S3",
                                                                   wc        |->  wc[self] ] >>
                                                               \o stack[self]]
                          /\ wc' = [wc EXCEPT ![self] = c[self]]
                       /\ pc' = [pc EXCEPT ![self] = "W1"]
                       /\ UNCHANGED << mu, getp, doneF, slot, res, pc0 >>
                  ELSE /\ IF closed[c[self]]
                             THEN /\ mu' = [mu EXCEPT ![c[self]] = 0]
                                  /\ res' = [res EXCEPT ![self] = Append(res[self], R(0, FALSE, "sendclosed"))]
                                  /\ pc0' = [pc0 EXCEPT ![self] = 99]
                                  /\ pc' = [pc EXCEPT ![self] = "Loop"]
                                  /\ UNCHANGED << getp, doneF, slot >>
                             ELSE /\ slot' = [slot EXCEPT ![downer[c[self]]] = op[self].v]
                                  /\ doneF' = [doneF EXCEPT ![downer[c[self]]] = TRUE]
                                  /\ getp' = [getp EXCEPT ![c[self]] = 0]
                                  /\ pc' = [pc EXCEPT ![self] = "S6"]
                                  /\ UNCHANGED << mu, res, pc0 >>
                       /\ UNCHANGED << sends, sem, selsleep, stack, wc >>
            /\ UNCHANGED << sc, NT, NC, cap, sleepers, q, closed, selsends, 
                            sops, downer, tok, trok, tcl, spur, tsc, tsv, trc, 
                            tracc, op, c, drop, ci, pass, isel >>

S3(self) == /\ pc[self] = "S3"
            /\ sends' = [sends EXCEPT ![c[self]] = sends[c[self]] - 1]
            /\ pc' = [pc EXCEPT ![self] = "S2"]
            /\ UNCHANGED << sc, NT, NC, cap, mu, sleepers, getp, q, closed, 
                            selsends, sops, sem, selsleep, downer, doneF, slot, 
                            res, tok, trok, tcl, spur, stack, wc, tsc, tsv, 
                            trc, tracc, pc0, op, c, drop, ci, pass, isel >>

S4(self) == /\ pc[self] = "S4"
            /\ IF Len(q[c[self]]) = cap[c[self]] /\ ~closed[c[self]]
                  THEN /\ /\ stack' = [stack EXCEPT ![self] = << [ procedure |->  "wait",
                                                                   pc        |->  "S4",
                                                                   wc        |->  wc[self] ] >>
                                                               \o stack[self]]
                          /\ wc' = [wc EXCEPT ![self] = c[self]]
                       /\ pc' = [pc EXCEPT ![self] = "W1"]
                  ELSE /\ pc' = [pc EXCEPT ![self] = "S5"]
                       /\ UNCHANGED << stack, wc >>
            /\ UNCHANGED << sc, NT, NC, cap, mu, sleepers, getp, q, closed, 
                            sends, selsends, sops, sem, selsleep, downer, 
                            doneF, slot, res, tok, trok, tcl, spur, tsc, tsv, 
                            trc, tracc, pc0, op, c, drop, ci, pass, isel >>

S5(self) == /\ pc[self] = "S5"
            /\ IF closed[c[self]]
                  THEN /\ mu' = [mu EXCEPT ![c[self]] = 0]
                       /\ res' = [res EXCEPT ![self] = Append(res[self], R(0, FALSE, "sendclosed"))]
                       /\ pc0' = [pc0 EXCEPT ![self] = 99]
                       /\ pc' = [pc EXCEPT ![self] = "Loop"]
                       /\ q' = q
                  ELSE /\ q' = [q EXCEPT ![c[self]] = Append(q[c[self]], op[self].v)]
                       /\ pc' = [pc EXCEPT ![self] = "S6"]
                       /\ UNCHANGED << mu, res, pc0 >>
            /\ UNCHANGED << sc, NT, NC, cap, sleepers, getp, closed, sends, 
                            selsends, sops, sem, selsleep, downer, doneF, slot, 
                            tok, trok, tcl, spur, stack, wc, tsc, tsv, trc, 
                            tracc, op, c, drop, ci, pass, isel >>

S6(self) == /\ pc[self] = "S6"
            /\ sem' = [t \in 1..MaxThreads |-> sem[t] \/ sops[c[self]][t] > 0]
            /\ selsleep' = {t \in selsleep : sops[c[self]][t] = 0}
            /\ mu' = [mu EXCEPT ![c[self]] = 0]
            /\ pc' = [pc EXCEPT ![self] = "S7"]
            /\ UNCHANGED << sc, NT, NC, cap, sleepers, getp, q, closed, sends, 
                            selsends, sops, downer, doneF, slot, res, tok, 
                            trok, tcl, spur, stack, wc, tsc, tsv, trc, tracc, 
                            pc0, op, c, drop, ci, pass, isel >>

S7(self) == /\ pc[self] = "S7"
            /\ sleepers' = [sleepers EXCEPT ![c[self]] = {}]
            /\ res' = [res EXCEPT ![self] = Append(res[self], R(0, FALSE, ""))]
            /\ pc' = [pc EXCEPT ![self] = "Loop"]
            /\ UNCHANGED << sc, NT, NC, cap, mu, getp, q, closed, sends, 
                            selsends, sops, sem, selsleep, downer, doneF, slot, 
                            tok, trok, tcl, spur, stack, wc, tsc, tsv, trc, 
                            tracc, pc0, op, c, drop, ci, pass, isel >>

R1(self) == /\ pc[self] = "R1"
            /\ mu[c[self]] = 0
            /\ mu' = [mu EXCEPT ![c[self]] = self]
            /\ IF cap[c[self]] = 0
                  THEN /\ pc' = [pc EXCEPT ![self] = "R2"]
                  ELSE /\ pc' = [pc EXCEPT ![self] = "R8"]
            /\ UNCHANGED << sc, NT, NC, cap, sleepers, getp, q, closed, sends, 
                            selsends, sops, sem, selsleep, downer, doneF, slot, 
                            res, tok, trok, tcl, spur, stack, wc, tsc, tsv, 
                            trc, tracc, pc0, op, c, drop, ci, pass, isel >>

R2(self) == /\ pc[self] = "R2"
            /\ IF getp[c[self]] = 1 /\ ~closed[c[self]]
                  THEN /\ /\ stack' = [stack EXCEPT ![self] = << [ procedure |->  "wait",
                                                                   pc        |->  "R2",
                                                                   wc        |->  wc[self] ] >>
                                                               \o stack[self]]
                          /\ wc' = [wc EXCEPT ![self] = c[self]]
                       /\ pc' = [pc EXCEPT ![self] = "W1"]
                  ELSE /\ pc' = [pc EXCEPT ![self] = "R3"]
                       /\ UNCHANGED << stack, wc >>
            /\ UNCHANGED << sc, NT, NC, cap, mu, sleepers, getp, q, closed, 
                            sends, selsends, sops, sem, selsleep, downer, 
                            doneF, slot, res, tok, trok, tcl, spur, tsc, tsv, 
                            trc, tracc, pc0, op, c, drop, ci, pass, isel >>

R3(self) == /\ pc[self] = "R3"
            /\ IF closed[c[self]]
                  THEN /\ mu' = [mu EXCEPT ![c[self]] = 0]
                       /\ res' = [res EXCEPT ![self] = Append(res[self], R(0, FALSE, ""))]
                       /\ pc' = [pc EXCEPT ![self] = "Loop"]
                       /\ UNCHANGED << getp, sem, selsleep, downer >>
                  ELSE /\ getp' = [getp EXCEPT ![c[self]] = 1]
                       /\ downer' = [downer EXCEPT ![c[self]] = self]
                       /\ sem' = [t \in 1..MaxThreads |-> sem[t] \/ sops[c[self]][t] > 0]
                       /\ selsleep' = {t \in selsleep : sops[c[self]][t] = 0}
                       /\ mu' = [mu EXCEPT ![c[self]] = 0]
                       /\ pc' = [pc EXCEPT ![self] = "R4"]
                       /\ res' = res
            /\ UNCHANGED << sc, NT, NC, cap, sleepers, q, closed, sends, 
                            selsends, sops, doneF, slot, tok, trok, tcl, spur, 
                            stack, wc, tsc, tsv, trc, tracc, pc0, op, c, drop, 
                            ci, pass, isel >>

R4(self) == /\ pc[self] = "R4"
            /\ sleepers' = [sleepers EXCEPT ![c[self]] = {}]
            /\ pc' = [pc EXCEPT ![self] = "R5"]
            /\ UNCHANGED << sc, NT, NC, cap, mu, getp, q, closed, sends, 
                            selsends, sops, sem, selsleep, downer, doneF, slot, 
                            res, tok, trok, tcl, spur, stack, wc, tsc, tsv, 
                            trc, tracc, pc0, op, c, drop, ci, pass, isel >>

R5(self) == /\ pc[self] = "R5"
            /\ mu[c[self]] = 0
            /\ mu' = [mu EXCEPT ![c[self]] = self]
            /\ pc' = [pc EXCEPT ![self] = "R6"]
            /\ UNCHANGED << sc, NT, NC, cap, sleepers, getp, q, closed, sends, 
                            selsends, sops, sem, selsleep, downer, doneF, slot, 
                            res, tok, trok, tcl, spur, stack, wc, tsc, tsv, 
                            trc, tracc, pc0, op, c, drop, ci, pass, isel >>

R6(self) == /\ pc[self] = "R6"
            /\ IF (IF HandOffBug THEN getp[c[self]] = 1 ELSE ~doneF[self]) /\ ~closed[c[self]]
                  THEN /\ /\ stack' = [stack EXCEPT ![self] = << [ procedure |->  "wait",
                                                                   pc        |->  "R6",
                                                                   wc        |->  wc[self] ] >>
                                                               \o stack[self]]
                          /\ wc' = [wc EXCEPT ![self] = c[self]]
                       /\ pc' = [pc EXCEPT ![self] = "W1"]
                  ELSE /\ pc' = [pc EXCEPT ![self] = "R7"]
                       /\ UNCHANGED << stack, wc >>
            /\ UNCHANGED << sc, NT, NC, cap, mu, sleepers, getp, q, closed, 
                            sends, selsends, sops, sem, selsleep, downer, 
                            doneF, slot, res, tok, trok, tcl, spur, tsc, tsv, 
                            trc, tracc, pc0, op, c, drop, ci, pass, isel >>

R7(self) == /\ pc[self] = "R7"
            /\ res' = [res EXCEPT ![self] = Append(res[self], R(IF drop[self] THEN 0 ELSE slot[self], IF HandOffBug THEN ~closed[c[self]] ELSE doneF[self], ""))]
            /\ mu' = [mu EXCEPT ![c[self]] = 0]
            /\ pc' = [pc EXCEPT ![self] = "Loop"]
            /\ UNCHANGED << sc, NT, NC, cap, sleepers, getp, q, closed, sends, 
                            selsends, sops, sem, selsleep, downer, doneF, slot, 
                            tok, trok, tcl, spur, stack, wc, tsc, tsv, trc, 
                            tracc, pc0, op, c, drop, ci, pass, isel >>

R8(self) == /\ pc[self] = "R8"
            /\ IF Len(q[c[self]]) = 0 /\ ~closed[c[self]]
                  THEN /\ /\ stack' = [stack EXCEPT ![self] = << [ procedure |->  "wait",
                                                                   pc        |->  "R8",
                                                                   wc        |->  wc[self] ] >>
                                                               \o stack[self]]
                          /\ wc' = [wc EXCEPT ![self] = c[self]]
                       /\ pc' = [pc EXCEPT ![self] = "W1"]
                  ELSE /\ pc' = [pc EXCEPT ![self] = "R9"]
                       /\ UNCHANGED << stack, wc >>
            /\ UNCHANGED << sc, NT, NC, cap, mu, sleepers, getp, q, closed, 
                            sends, selsends, sops, sem, selsleep, downer, 
                            doneF, slot, res, tok, trok, tcl, spur, tsc, tsv, 
                            trc, tracc, pc0, op, c, drop, ci, pass, isel >>

R9(self) == /\ pc[self] = "R9"
            /\ IF Len(q[c[self]]) = 0
                  THEN /\ mu' = [mu EXCEPT ![c[self]] = 0]
                       /\ res' = [res EXCEPT ![self] = Append(res[self], R(0, FALSE, ""))]
                       /\ pc' = [pc EXCEPT ![self] = "Loop"]
                       /\ UNCHANGED << q, sem, selsleep, slot >>
                  ELSE /\ slot' = [slot EXCEPT ![self] = Head(q[c[self]])]
                       /\ q' = [q EXCEPT ![c[self]] = Tail(q[c[self]])]
                       /\ sem' = [t \in 1..MaxThreads |-> sem[t] \/ sops[c[self]][t] > 0]
                       /\ selsleep' = {t \in selsleep : sops[c[self]][t] = 0}
                       /\ mu' = [mu EXCEPT ![c[self]] = 0]
                       /\ pc' = [pc EXCEPT ![self] = "R10"]
                       /\ res' = res
            /\ UNCHANGED << sc, NT, NC, cap, sleepers, getp, closed, sends, 
                            selsends, sops, downer, doneF, tok, trok, tcl, 
                            spur, stack, wc, tsc, tsv, trc, tracc, pc0, op, c, 
                            drop, ci, pass, isel >>

R10(self) == /\ pc[self] = "R10"
             /\ sleepers' = [sleepers EXCEPT ![c[self]] = {}]
             /\ res' = [res EXCEPT ![self] = Append(res[self], R(IF drop[self] THEN 0 ELSE slot[self], TRUE, ""))]
             /\ pc' = [pc EXCEPT ![self] = "Loop"]
             /\ UNCHANGED << sc, NT, NC, cap, mu, getp, q, closed, sends, 
                             selsends, sops, sem, selsleep, downer, doneF, 
                             slot, tok, trok, tcl, spur, stack, wc, tsc, tsv, 
                             trc, tracc, pc0, op, c, drop, ci, pass, isel >>

C1(self) == /\ pc[self] = "C1"
            /\ mu[c[self]] = 0
            /\ IF closed[c[self]]
                  THEN /\ res' = [res EXCEPT ![self] = Append(res[self], R(0, FALSE, "closeclosed"))]
                       /\ pc0' = [pc0 EXCEPT ![self] = 99]
                       /\ pc' = [pc EXCEPT ![self] = "Loop"]
                       /\ UNCHANGED << closed, sem, selsleep >>
                  ELSE /\ closed' = [closed EXCEPT ![c[self]] = TRUE]
                       /\ sem' = [t \in 1..MaxThreads |-> sem[t] \/ sops[c[self]][t] > 0]
                       /\ selsleep' = {t \in selsleep : sops[c[self]][t] = 0}
                       /\ pc' = [pc EXCEPT ![self] = "C2"]
                       /\ UNCHANGED << res, pc0 >>
            /\ UNCHANGED << sc, NT, NC, cap, mu, sleepers, getp, q, sends, 
                            selsends, sops, downer, doneF, slot, tok, trok, 
                            tcl, spur, stack, wc, tsc, tsv, trc, tracc, op, c, 
                            drop, ci, pass, isel >>

C2(self) == /\ pc[self] = "C2"
            /\ sleepers' = [sleepers EXCEPT ![c[self]] = {}]
            /\ res' = [res EXCEPT ![self] = Append(res[self], R(0, FALSE, ""))]
            /\ pc' = [pc EXCEPT ![self] = "Loop"]
            /\ UNCHANGED << sc, NT, NC, cap, mu, getp, q, closed, sends, 
                            selsends, sops, sem, selsleep, downer, doneF, slot, 
                            tok, trok, tcl, spur, stack, wc, tsc, tsv, trc, 
                            tracc, pc0, op, c, drop, ci, pass, isel >>

T1(self) == /\ pc[self] = "T1"
            /\ IF ci[self] <= Len(op[self].cases) /\ ~tok[self] /\ ~tcl[self]
                  THEN /\ c' = [c EXCEPT ![self] = op[self].cases[ci[self]].c + 1]
                       /\ IF op[self].cases[ci[self]].send
                             THEN /\ /\ stack' = [stack EXCEPT ![self] = << [ procedure |->  "trysend",
                                                                              pc        |->  "T2",
                                                                              tsc       |->  tsc[self],
                                                                              tsv       |->  tsv[self] ] >>
                                                                          \o stack[self]]
                                     /\ tsc' = [tsc EXCEPT ![self] = c'[self]]
                                     /\ tsv' = [tsv EXCEPT ![self] = op[self].cases[ci[self]].v]
                                  /\ pc' = [pc EXCEPT ![self] = "TSa"]
                                  /\ UNCHANGED << trc, tracc >>
                             ELSE /\ /\ stack' = [stack EXCEPT ![self] = << [ procedure |->  "tryrecv",
                                                                              pc        |->  "T2",
                                                                              trc       |->  trc[self],
                                                                              tracc     |->  tracc[self] ] >>
                                                                          \o stack[self]]
                                     /\ tracc' = [tracc EXCEPT ![self] = TRUE]
                                     /\ trc' = [trc EXCEPT ![self] = c'[self]]
                                  /\ pc' = [pc EXCEPT ![self] = "TRa"]
                                  /\ UNCHANGED << tsc, tsv >>
                       /\ UNCHANGED << res, pc0 >>
                  ELSE /\ IF tcl[self]
                             THEN /\ res' = [res EXCEPT ![self] = Append(res[self], R(0, FALSE, "sendclosed"))]
                                  /\ pc0' = [pc0 EXCEPT ![self] = 99]
                             ELSE /\ IF tok[self]
                                        THEN /\ res' = [res EXCEPT ![self] = Append(res[self], [sel |-> ci[self], val |-> IF trok[self] /\ ~drop[self] THEN slot[self] ELSE 0, ok |-> trok[self], pan |-> ""])]
                                        ELSE /\ res' = [res EXCEPT ![self] = Append(res[self], R(0, FALSE, ""))]
                                  /\ pc0' = pc0
                       /\ pc' = [pc EXCEPT ![self] = "Loop"]
                       /\ UNCHANGED << stack, tsc, tsv, trc, tracc, c >>
            /\ UNCHANGED << sc, NT, NC, cap, mu, sleepers, getp, q, closed, 
                            sends, selsends, sops, sem, selsleep, downer, 
                            doneF, slot, tok, trok, tcl, spur, wc, op, drop, 
                            ci, pass, isel >>

T2(self) == /\ pc[self] = "T2"
            /\ IF ~tok[self] /\ ~tcl[self]
                  THEN /\ ci' = [ci EXCEPT ![self] = ci[self] + 1]
                  ELSE /\ TRUE
                       /\ ci' = ci
            /\ pc' = [pc EXCEPT ![self] = "T1"]
            /\ UNCHANGED << sc, NT, NC, cap, mu, sleepers, getp, q, closed, 
                            sends, selsends, sops, sem, selsleep, downer, 
                            doneF, slot, res, tok, trok, tcl, spur, stack, wc, 
                            tsc, tsv, trc, tracc, pc0, op, c, drop, pass, isel >>

P1(self) == /\ pc[self] = "P1"
            /\ IF ci[self] <= Len(op[self].cases)
                  THEN /\ c' = [c EXCEPT ![self] = op[self].cases[ci[self]].c + 1]
                       /\ mu[c'[self]] = 0
                       /\ sops' = [sops EXCEPT ![c'[self]][self] = sops[c'[self]][self] + 1]
                       /\ IF cap[c'[self]] = 0 /\ op[self].cases[ci[self]].send
                             THEN /\ sends' = [sends EXCEPT ![c'[self]] = sends[c'[self]] + 1]
                                  /\ selsends' = [selsends EXCEPT ![c'[self]] = selsends[c'[self]] + 1]
                                  /\ sem' = [t \in 1..MaxThreads |-> sem[t] \/ sops'[c'[self]][t] > 0]
                                  /\ selsleep' = {t \in selsleep : sops'[c'[self]][t] = 0}
                             ELSE /\ TRUE
                                  /\ UNCHANGED << sends, selsends, sem, 
                                                  selsleep >>
                       /\ ci' = [ci EXCEPT ![self] = ci[self] + 1]
                       /\ pc' = [pc EXCEPT ![self] = "P1"]
                  ELSE /\ pc' = [pc EXCEPT ![self] = "L1"]
                       /\ UNCHANGED << sends, selsends, sops, sem, selsleep, c, 
                                       ci >>
            /\ UNCHANGED << sc, NT, NC, cap, mu, sleepers, getp, q, closed, 
                            downer, doneF, slot, res, tok, trok, tcl, spur, 
                            stack, wc, tsc, tsv, trc, tracc, pc0, op, drop, 
                            pass, isel >>

L1(self) == /\ pc[self] = "L1"
            /\ pass' = [pass EXCEPT ![self] = 1]
            /\ pc' = [pc EXCEPT ![self] = "L2"]
            /\ UNCHANGED << sc, NT, NC, cap, mu, sleepers, getp, q, closed, 
                            sends, selsends, sops, sem, selsleep, downer, 
                            doneF, slot, res, tok, trok, tcl, spur, stack, wc, 
                            tsc, tsv, trc, tracc, pc0, op, c, drop, ci, isel >>

L2(self) == /\ pc[self] = "L2"
            /\ IF pass[self] <= 2 /\ ~tok[self] /\ ~tcl[self]
                  THEN /\ ci' = [ci EXCEPT ![self] = 1]
                       /\ pc' = [pc EXCEPT ![self] = "L3"]
                  ELSE /\ IF ~tok[self] /\ ~tcl[self]
                             THEN /\ pc' = [pc EXCEPT ![self] = "W3"]
                             ELSE /\ pc' = [pc EXCEPT ![self] = "E0"]
                       /\ ci' = ci
            /\ UNCHANGED << sc, NT, NC, cap, mu, sleepers, getp, q, closed, 
                            sends, selsends, sops, sem, selsleep, downer, 
                            doneF, slot, res, tok, trok, tcl, spur, stack, wc, 
                            tsc, tsv, trc, tracc, pc0, op, c, drop, pass, isel >>

L3(self) == /\ pc[self] = "L3"
            /\ IF ci[self] <= Len(op[self].cases) /\ ~tok[self] /\ ~tcl[self]
                  THEN /\ IF op[self].cases[ci[self]].send = PassSends(op[self], pass[self])
                             THEN /\ c' = [c EXCEPT ![self] = op[self].cases[ci[self]].c + 1]
                                  /\ IF op[self].cases[ci[self]].send
                                        THEN /\ /\ stack' = [stack EXCEPT ![self] = << [ procedure |->  "trysend",
                                                                                         pc        |->  "L4",
                                                                                         tsc       |->  tsc[self],
                                                                                         tsv       |->  tsv[self] ] >>
                                                                                     \o stack[self]]
                                                /\ tsc' = [tsc EXCEPT ![self] = c'[self]]
                                                /\ tsv' = [tsv EXCEPT ![self] = op[self].cases[ci[self]].v]
                                             /\ pc' = [pc EXCEPT ![self] = "TSa"]
                                             /\ UNCHANGED << trc, tracc >>
                                        ELSE /\ /\ stack' = [stack EXCEPT ![self] = << [ procedure |->  "tryrecv",
                                                                                         pc        |->  "L4",
                                                                                         trc       |->  trc[self],
                                                                                         tracc     |->  tracc[self] ] >>
                                                                                     \o stack[self]]
                                                /\ tracc' = [tracc EXCEPT ![self] = (~SendFirst(op[self])) /\ (c'[self] \notin SendChans(op[self]))]
                                                /\ trc' = [trc EXCEPT ![self] = c'[self]]
                                             /\ pc' = [pc EXCEPT ![self] = "TRa"]
                                             /\ UNCHANGED << tsc, tsv >>
                             ELSE /\ pc' = [pc EXCEPT ![self] = "L4"]
                                  /\ UNCHANGED << stack, tsc, tsv, trc, tracc, 
                                                  c >>
                       /\ pass' = pass
                  ELSE /\ IF ~tok[self] /\ ~tcl[self]
                             THEN /\ pass' = [pass EXCEPT ![self] = pass[self] + 1]
                             ELSE /\ TRUE
                                  /\ pass' = pass
                       /\ pc' = [pc EXCEPT ![self] = "L2"]
                       /\ UNCHANGED << stack, tsc, tsv, trc, tracc, c >>
            /\ UNCHANGED << sc, NT, NC, cap, mu, sleepers, getp, q, closed, 
                            sends, selsends, sops, sem, selsleep, downer, 
                            doneF, slot, res, tok, trok, tcl, spur, wc, pc0, 
                            op, drop, ci, isel >>

L4(self) == /\ pc[self] = "L4"
            /\ IF ~tok[self] /\ ~tcl[self]
                  THEN /\ ci' = [ci EXCEPT ![self] = ci[self] + 1]
                  ELSE /\ TRUE
                       /\ ci' = ci
            /\ pc' = [pc EXCEPT ![self] = "L3"]
            /\ UNCHANGED << sc, NT, NC, cap, mu, sleepers, getp, q, closed, 
                            sends, selsends, sops, sem, selsleep, downer, 
                            doneF, slot, res, tok, trok, tcl, spur, stack, wc, 
                            tsc, tsv, trc, tracc, pc0, op, c, drop, pass, isel >>

W3(self) == /\ pc[self] = "W3"
            /\ IF sem[self]
                  THEN /\ sem' = [sem EXCEPT ![self] = FALSE]
                       /\ pc' = [pc EXCEPT ![self] = "W5"]
                       /\ UNCHANGED selsleep
                  ELSE /\ selsleep' = (selsleep \cup {self})
                       /\ pc' = [pc EXCEPT ![self] = "W4"]
                       /\ sem' = sem
            /\ UNCHANGED << sc, NT, NC, cap, mu, sleepers, getp, q, closed, 
                            sends, selsends, sops, downer, doneF, slot, res, 
                            tok, trok, tcl, spur, stack, wc, tsc, tsv, trc, 
                            tracc, pc0, op, c, drop, ci, pass, isel >>

W4(self) == /\ pc[self] = "W4"
            /\ self \notin selsleep
            /\ sem' = [sem EXCEPT ![self] = FALSE]
            /\ pc' = [pc EXCEPT ![self] = "W5"]
            /\ UNCHANGED << sc, NT, NC, cap, mu, sleepers, getp, q, closed, 
                            sends, selsends, sops, selsleep, downer, doneF, 
                            slot, res, tok, trok, tcl, spur, stack, wc, tsc, 
                            tsv, trc, tracc, pc0, op, c, drop, ci, pass, isel >>

W5(self) == /\ pc[self] = "W5"
            /\ pc' = [pc EXCEPT ![self] = "L1"]
            /\ UNCHANGED << sc, NT, NC, cap, mu, sleepers, getp, q, closed, 
                            sends, selsends, sops, sem, selsleep, downer, 
                            doneF, slot, res, tok, trok, tcl, spur, stack, wc, 
                            tsc, tsv, trc, tracc, pc0, op, c, drop, ci, pass, 
                            isel >>

E0(self) == /\ pc[self] = "E0"
            /\ IF SelPanicBug /\ tcl[self]
                  THEN /\ res' = [res EXCEPT ![self] = Append(res[self], R(0, FALSE, "sendclosed"))]
                       /\ pc0' = [pc0 EXCEPT ![self] = 99]
                       /\ pc' = [pc EXCEPT ![self] = "Loop"]
                  ELSE /\ pc' = [pc EXCEPT ![self] = "E1"]
                       /\ UNCHANGED << res, pc0 >>
            /\ UNCHANGED << sc, NT, NC, cap, mu, sleepers, getp, q, closed, 
                            sends, selsends, sops, sem, selsleep, downer, 
                            doneF, slot, tok, trok, tcl, spur, stack, wc, tsc, 
                            tsv, trc, tracc, op, c, drop, ci, pass, isel >>

E1(self) == /\ pc[self] = "E1"
            /\ isel' = [isel EXCEPT ![self] = ci[self]]
            /\ ci' = [ci EXCEPT ![self] = 1]
            /\ pc' = [pc EXCEPT ![self] = "E2"]
            /\ UNCHANGED << sc, NT, NC, cap, mu, sleepers, getp, q, closed, 
                            sends, selsends, sops, sem, selsleep, downer, 
                            doneF, slot, res, tok, trok, tcl, spur, stack, wc, 
                            tsc, tsv, trc, tracc, pc0, op, c, drop, pass >>

E2(self) == /\ pc[self] = "E2"
            /\ IF ci[self] <= Len(op[self].cases)
                  THEN /\ c' = [c EXCEPT ![self] = op[self].cases[ci[self]].c + 1]
                       /\ mu[c'[self]] = 0
                       /\ sops' = [sops EXCEPT ![c'[self]][self] = sops[c'[self]][self] - 1]
                       /\ IF cap[c'[self]] = 0 /\ op[self].cases[ci[self]].send
                             THEN /\ sends' = [sends EXCEPT ![c'[self]] = sends[c'[self]] - 1]
                                  /\ selsends' = [selsends EXCEPT ![c'[self]] = selsends[c'[self]] - 1]
                                  /\ pc' = [pc EXCEPT ![self] = "E3"]
                             ELSE /\ pc' = [pc EXCEPT ![self] = "E4"]
                                  /\ UNCHANGED << sends, selsends >>
                       /\ UNCHANGED << res, pc0 >>
                  ELSE /\ IF tcl[self]
                             THEN /\ res' = [res EXCEPT ![self] = Append(res[self], R(0, FALSE, "sendclosed"))]
                                  /\ pc0' = [pc0 EXCEPT ![self] = 99]
                             ELSE /\ res' = [res EXCEPT ![self] = Append(res[self], [sel |-> isel[self], val |-> IF trok[self] /\ ~drop[self] THEN slot[self] ELSE 0, ok |-> trok[self], pan |-> ""])]
                                  /\ pc0' = pc0
                       /\ pc' = [pc EXCEPT ![self] = "Loop"]
                       /\ UNCHANGED << sends, selsends, sops, c >>
            /\ UNCHANGED << sc, NT, NC, cap, mu, sleepers, getp, q, closed, 
                            sem, selsleep, downer, doneF, slot, tok, trok, tcl, 
                            spur, stack, wc, tsc, tsv, trc, tracc, op, drop, 
                            ci, pass, isel >>

E4(self) == /\ pc[self] = "E4"
            /\ ci' = [ci EXCEPT ![self] = ci[self] + 1]
            /\ pc' = [pc EXCEPT ![self] = "E2"]
            /\ UNCHANGED << sc, NT, NC, cap, mu, sleepers, getp, q, closed, 
                            sends, selsends, sops, sem, selsleep, downer, 
                            doneF, slot, res, tok, trok, tcl, spur, stack, wc, 
                            tsc, tsv, trc, tracc, pc0, op, c, drop, pass, isel >>

E3(self) == /\ pc[self] = "E3"
            /\ sleepers' = [sleepers EXCEPT ![c[self]] = {}]
            /\ pc' = [pc EXCEPT ![self] = "E4"]
            /\ UNCHANGED << sc, NT, NC, cap, mu, getp, q, closed, sends, 
                            selsends, sops, sem, selsleep, downer, doneF, slot, 
                            res, tok, trok, tcl, spur, stack, wc, tsc, tsv, 
                            trc, tracc, pc0, op, c, drop, ci, pass, isel >>

thr(self) == Loop(self) \/ S1(self) \/ S2(self) \/ S3(self) \/ S4(self)
                \/ S5(self) \/ S6(self) \/ S7(self) \/ R1(self) \/ R2(self)
                \/ R3(self) \/ R4(self) \/ R5(self) \/ R6(self) \/ R7(self)
                \/ R8(self) \/ R9(self) \/ R10(self) \/ C1(self)
                \/ C2(self) \/ T1(self) \/ T2(self) \/ P1(self) \/ L1(self)
                \/ L2(self) \/ L3(self) \/ L4(self) \/ W3(self) \/ W4(self)
                \/ W5(self) \/ E0(self) \/ E1(self) \/ E2(self) \/ E4(self)
                \/ E3(self)

Sp == /\ pc[0] = "Sp"
      /\ IF spur > 0
            THEN /\ \/ /\ \E ch \in {x \in 1..MaxChans : sleepers[x] # {}}:
                            \E t \in sleepers[ch]:
                              sleepers' = [sleepers EXCEPT ![ch] = sleepers[ch] \ {t}]
                       /\ UNCHANGED selsleep
                    \/ /\ \E t \in selsleep:
                            selsleep' = selsleep \ {t}
                       /\ UNCHANGED sleepers
                 /\ spur' = spur - 1
                 /\ pc' = [pc EXCEPT ![0] = "Sp"]
            ELSE /\ pc' = [pc EXCEPT ![0] = "Done"]
                 /\ UNCHANGED << sleepers, selsleep, spur >>
      /\ UNCHANGED << sc, NT, NC, cap, mu, getp, q, closed, sends, selsends, 
                      sops, sem, downer, doneF, slot, res, tok, trok, tcl, 
                      stack, wc, tsc, tsv, trc, tracc, pc0, op, c, drop, ci, 
                      pass, isel >>

spurious == Sp

(* Allow infinite stuttering to prevent deadlock on termination. *)
Terminating == /\ \A self \in ProcSet: pc[self] = "Done"
               /\ UNCHANGED vars

Next == spurious
           \/ (\E self \in ProcSet:  \/ wait(self) \/ trysend(self)
                                     \/ tryrecv(self))
           \/ (\E self \in 1..MaxThreads: thr(self))
           \/ Terminating

Spec == Init /\ [][Next]_vars

Termination == <>(\A self \in ProcSet: pc[self] = "Done")

\* END TRANSLATION

Threads == 1..NT
Finished(t) == pc[t] = "Done"
Blocked(t)  == t <= NT /\ ~Finished(t)
NoThreadStep == \A t \in 1..MaxThreads : ~ENABLED (thr(t) \/ wait(t) \/ trysend(t) \/ tryrecv(t))

\* terminal: no thread can move (spurious wake-ups do not count as progress)
Terminal == NoThreadStep

Emit == Terminal =>
  PrintT(ToJson([id |-> Scenarios[sc].id,
                 res |-> [t \in 1..NT |-> res[t]],
                 stuck |-> {t \in 1..NT : ~Finished(t)}]))

\* the mutex really is one
MutexOwnerSane == \A ch \in 1..MaxChans : mu[ch] \in 0..MaxThreads
\* ring buffer never exceeds its capacity
CapBound == \A ch \in 1..MaxChans : cap[ch] > 0 => Len(q[ch]) <= cap[ch]
\* bookkeeping of the select registrations
SelCounts == \A ch \in 1..MaxChans : /\ selsends[ch] >= 0 /\ selsends[ch] <= sends[ch]
                                      /\ \A t \in 1..MaxThreads : sops[ch][t] >= 0
\* a goroutine that is not inside a select has withdrawn from every channel
Withdrawn == \A t \in 1..MaxThreads : pc[t] \in {"Loop", "Done"} => \A ch \in 1..MaxChans : sops[ch][t] = 0
=============================================================================

-------------------------------- MODULE ChanImpl --------------------------------
(***************************************************************************)
(* Layer B for C10: runtime/internal/runtime/z_chan.go (ChanSend, ChanRecv,*)
(* ChanClose) as a PlusCal algorithm with one label per scheduling point   *)
(* of the real code: acquiring the channel mutex, returning from           *)
(* cond.Wait (wake-up + re-acquisition), and cond.Broadcast.  Unlock and   *)
(* the entry into cond.Wait are not scheduling points (they commute with   *)
(* everything other threads can do) - the same grain as the controlled     *)
(* scheduler that drives the real source.                                  *)
(*                                                                         *)
(* The unbuffered hand-off is modelled as the code does it: the receiver   *)
(* publishes getp = 1, the address of its buffer (downer) and of its       *)
(* completion flag, and waits for *its* flag; the sender copies, sets the  *)
(* flag and clears getp.  HandOffBug = TRUE restores the pre-fix code      *)
(* (wait on getp, ok := ~closed) so that TLC re-finds the two defects.     *)
(* Scenarios come from the same file as GoChanProg; select operations are  *)
(* outside this module (a scenario containing one is skipped).             *)
(* Terminal outcomes are printed and must be outcomes GoChanProg allows.   *)
(***************************************************************************)
EXTENDS Naturals, Sequences, FiniteSets, TLC, Json, Integers

CONSTANTS HandOffBug, SpuriousBudget

Scenarios == ndJsonDeserialize("scenarios.ndjson")
HasSelect(s) == \E t \in 1..Len(s.threads) : \E i \in 1..Len(s.threads[t]) : s.threads[t][i].k = "select"
Supported == {i \in 1..Len(Scenarios) : ~HasSelect(Scenarios[i])}
MaxThreads == 3
MaxChans == 2

(*--algorithm chanimpl
variables
  sc \in Supported,
  NT = Len(Scenarios[sc].threads),
  NC = Len(Scenarios[sc].caps),
  cap = [x \in 1..MaxChans |-> IF x <= NC THEN Scenarios[sc].caps[x] ELSE 0],
  mu = [x \in 1..MaxChans |-> 0],             \* owner thread of the channel mutex, 0 = free
  sleepers = [x \in 1..MaxChans |-> {}],      \* threads inside cond.Wait
  getp = [x \in 1..MaxChans |-> 0],           \* chanHasRecv flag (unbuffered)
  q = [x \in 1..MaxChans |-> <<>>],           \* ring buffer contents, oldest first (len = Len(q))
  closed = [x \in 1..MaxChans |-> FALSE],
  sends = [x \in 1..MaxChans |-> 0],
  downer = [x \in 1..MaxChans |-> 0],         \* thread whose buffer / done flag p.data, p.done point to
  doneF = [t \in 1..MaxThreads |-> FALSE],
  slot = [t \in 1..MaxThreads |-> 0],
  res = [t \in 1..MaxThreads |-> <<>>],
  spur = SpuriousBudget;

define
  Prog(t) == IF t <= NT THEN Scenarios[sc].threads[t] ELSE <<>>
  R(v, ok, pan) == [sel |-> 0, val |-> v, ok |-> ok, pan |-> pan]
end define;

macro lock(c) begin await mu[c] = 0; mu[c] := self; end macro;
macro unlock(c) begin mu[c] := 0; end macro;

\* cond.Wait: release the mutex and sleep (no scheduling point), then wake up and re-acquire (one step)
procedure wait(wc)
begin
 W1: mu[wc] := 0; sleepers[wc] := sleepers[wc] \cup {self};
 W2: await self \notin sleepers[wc] /\ mu[wc] = 0; mu[wc] := self;
     return;
end procedure;

process thr \in 1..MaxThreads
variables pc0 = 1, op = [k |-> "none"], c = 1, drop = FALSE;
begin
 Loop:
  while pc0 <= Len(Prog(self)) do
    op := Prog(self)[pc0]; c := Prog(self)[pc0].c + 1; drop := Prog(self)[pc0].drop; pc0 := pc0 + 1;
    if op.k = "send" then
 S1:  lock(c);
      if cap[c] = 0 then
 S2:    while getp[c] # 1 /\ ~closed[c] do
          sends[c] := sends[c] + 1;
          call wait(c);
 S3:      sends[c] := sends[c] - 1;
        end while;
        if closed[c] then
          unlock(c); res[self] := Append(res[self], R(0, FALSE, "sendclosed")); pc0 := 99;
          goto Loop;
        else
          slot[downer[c]] := op.v; doneF[downer[c]] := TRUE; getp[c] := 0;
        end if;
      else
 S4:    while Len(q[c]) = cap[c] /\ ~closed[c] do
          call wait(c);
        end while;
 S5:    if closed[c] then
          unlock(c); res[self] := Append(res[self], R(0, FALSE, "sendclosed")); pc0 := 99;
          goto Loop;
        else
          q[c] := Append(q[c], op.v);
        end if;
      end if;
 S6:  unlock(c);
 S7:  sleepers[c] := {};                       \* cond.Broadcast
      res[self] := Append(res[self], R(0, FALSE, ""));
    elsif op.k = "recv" then
      doneF[self] := FALSE; slot[self] := 0;
 R1:  lock(c);
      if cap[c] = 0 then
 R2:    while getp[c] = 1 /\ ~closed[c] do
          call wait(c);
        end while;
 R3:    if closed[c] then
          unlock(c); res[self] := Append(res[self], R(0, FALSE, ""));
          goto Loop;
        else
          getp[c] := 1; downer[c] := self;
          unlock(c);
        end if;
 R4:    sleepers[c] := {};                     \* cond.Broadcast
 R5:    lock(c);
 R6:    while (IF HandOffBug THEN getp[c] = 1 ELSE ~doneF[self]) /\ ~closed[c] do
          call wait(c);
        end while;
 R7:    res[self] := Append(res[self], R(IF drop THEN 0 ELSE slot[self], IF HandOffBug THEN ~closed[c] ELSE doneF[self], ""));
        unlock(c);
      else
 R8:    while Len(q[c]) = 0 /\ ~closed[c] do
          call wait(c);
        end while;
 R9:    if Len(q[c]) = 0 then                  \* closed and drained
          unlock(c); res[self] := Append(res[self], R(0, FALSE, ""));
          goto Loop;
        else
          slot[self] := Head(q[c]); q[c] := Tail(q[c]);
          unlock(c);
        end if;
 R10:   sleepers[c] := {};                     \* cond.Broadcast
        res[self] := Append(res[self], R(IF drop THEN 0 ELSE slot[self], TRUE, ""));
      end if;
    elsif op.k = "close" then
 C1:  await mu[c] = 0;                         \* lock; the whole critical section; unlock
      if closed[c] then
        res[self] := Append(res[self], R(0, FALSE, "closeclosed")); pc0 := 99;
        goto Loop;
      else
        closed[c] := TRUE;
      end if;
 C2:  sleepers[c] := {};                       \* cond.Broadcast
      res[self] := Append(res[self], R(0, FALSE, ""));
    end if;
  end while;
end process;

\* POSIX allows cond.Wait to return without a signal
process spurious = 0
begin
 Sp: while spur > 0 do
       with ch \in {x \in 1..MaxChans : sleepers[x] # {}} do
         with t \in sleepers[ch] do
           sleepers[ch] := sleepers[ch] \ {t};
         end with;
       end with;
       spur := spur - 1;
     end while;
end process;
end algorithm; *)
\* BEGIN TRANSLATION
CONSTANT defaultInitValue
VARIABLES pc, sc, NT, NC, cap, mu, sleepers, getp, q, closed, sends, downer, 
          doneF, slot, res, spur, stack

(* define statement *)
Prog(t) == IF t <= NT THEN Scenarios[sc].threads[t] ELSE <<>>
R(v, ok, pan) == [sel |-> 0, val |-> v, ok |-> ok, pan |-> pan]

VARIABLES wc, pc0, op, c, drop

vars == << pc, sc, NT, NC, cap, mu, sleepers, getp, q, closed, sends, downer, 
           doneF, slot, res, spur, stack, wc, pc0, op, c, drop >>

ProcSet == (1..MaxThreads) \cup {0}

Init == (* Global variables *)
        /\ sc \in Supported
        /\ NT = Len(Scenarios[sc].threads)
        /\ NC = Len(Scenarios[sc].caps)
        /\ cap = [x \in 1..MaxChans |-> IF x <= NC THEN Scenarios[sc].caps[x] ELSE 0]
        /\ mu = [x \in 1..MaxChans |-> 0]
        /\ sleepers = [x \in 1..MaxChans |-> {}]
        /\ getp = [x \in 1..MaxChans |-> 0]
        /\ q = [x \in 1..MaxChans |-> <<>>]
        /\ closed = [x \in 1..MaxChans |-> FALSE]
        /\ sends = [x \in 1..MaxChans |-> 0]
        /\ downer = [x \in 1..MaxChans |-> 0]
        /\ doneF = [t \in 1..MaxThreads |-> FALSE]
        /\ slot = [t \in 1..MaxThreads |-> 0]
        /\ res = [t \in 1..MaxThreads |-> <<>>]
        /\ spur = SpuriousBudget
        (* Procedure wait *)
        /\ wc = [ self \in ProcSet |-> defaultInitValue]
        (* Process thr *)
        /\ pc0 = [self \in 1..MaxThreads |-> 1]
        /\ op = [self \in 1..MaxThreads |-> [k |-> "none"]]
        /\ c = [self \in 1..MaxThreads |-> 1]
        /\ drop = [self \in 1..MaxThreads |-> FALSE]
        /\ stack = [self \in ProcSet |-> << >>]
        /\ pc = [self \in ProcSet |-> CASE self \in 1..MaxThreads -> "Loop"
                                        [] self = 0 -> "Sp"]

W1(self) == /\ pc[self] = "W1"
            /\ mu' = [mu EXCEPT ![wc[self]] = 0]
            /\ sleepers' = [sleepers EXCEPT ![wc[self]] = sleepers[wc[self]] \cup {self}]
            /\ pc' = [pc EXCEPT ![self] = "W2"]
            /\ UNCHANGED << sc, NT, NC, cap, getp, q, closed, sends, downer, 
                            doneF, slot, res, spur, stack, wc, pc0, op, c, 
                            drop >>

W2(self) == /\ pc[self] = "W2"
            /\ self \notin sleepers[wc[self]] /\ mu[wc[self]] = 0
            /\ mu' = [mu EXCEPT ![wc[self]] = self]
            /\ pc' = [pc EXCEPT ![self] = Head(stack[self]).pc]
            /\ wc' = [wc EXCEPT ![self] = Head(stack[self]).wc]
            /\ stack' = [stack EXCEPT ![self] = Tail(stack[self])]
            /\ UNCHANGED << sc, NT, NC, cap, sleepers, getp, q, closed, sends, 
                            downer, doneF, slot, res, spur, pc0, op, c, drop >>

wait(self) == W1(self) \/ W2(self)

Loop(self) == /\ pc[self] = "Loop"
              /\ IF pc0[self] <= Len(Prog(self))
                    THEN /\ op' = [op EXCEPT ![self] = Prog(self)[pc0[self]]]
                         /\ c' = [c EXCEPT ![self] = Prog(self)[pc0[self]].c + 1]
                         /\ drop' = [drop EXCEPT ![self] = Prog(self)[pc0[self]].drop]
                         /\ pc0' = [pc0 EXCEPT ![self] = pc0[self] + 1]
                         /\ IF op'[self].k = "send"
                               THEN /\ pc' = [pc EXCEPT ![self] = "S1"]
                                    /\ UNCHANGED << doneF, slot >>
                               ELSE /\ IF op'[self].k = "recv"
                                          THEN /\ doneF' = [doneF EXCEPT ![self] = FALSE]
                                               /\ slot' = [slot EXCEPT ![self] = 0]
                                               /\ pc' = [pc EXCEPT ![self] = "R1"]
                                          ELSE /\ IF op'[self].k = "close"
                                                     THEN /\ pc' = [pc EXCEPT ![self] = "C1"]
                                                     ELSE /\ pc' = [pc EXCEPT ![self] = "Loop"]
                                               /\ UNCHANGED << doneF, slot >>
                    ELSE /\ pc' = [pc EXCEPT ![self] = "Done"]
                         /\ UNCHANGED << doneF, slot, pc0, op, c, drop >>
              /\ UNCHANGED << sc, NT, NC, cap, mu, sleepers, getp, q, closed, 
                              sends, downer, res, spur, stack, wc >>

S1(self) == /\ pc[self] = "S1"
            /\ mu[c[self]] = 0
            /\ mu' = [mu EXCEPT ![c[self]] = self]
            /\ IF cap[c[self]] = 0
                  THEN /\ pc' = [pc EXCEPT ![self] = "S2"]
                  ELSE /\ pc' = [pc EXCEPT ![self] = "S4"]
            /\ UNCHANGED << sc, NT, NC, cap, sleepers, getp, q, closed, sends, 
                            downer, doneF, slot, res, spur, stack, wc, pc0, op, 
                            c, drop >>

S2(self) == /\ pc[self] = "S2"
            /\ IF getp[c[self]] # 1 /\ ~closed[c[self]]
                  THEN /\ sends' = [sends EXCEPT ![c[self]] = sends[c[self]] + 1]
                       /\ /\ stack' = [stack EXCEPT ![self] = << [ procedure |->  "wait",
                                                                   pc        |->  "S3",
                                                                   wc        |->  wc[self] ] >>
                                                               \o stack[self]]
                          /\ wc' = [wc EXCEPT ![self] = c[self]]
                       /\ pc' = [pc EXCEPT ![self] = "W1"]
                       /\ UNCHANGED << mu, getp, doneF, slot, res, pc0 >>
                  ELSE /\ IF closed[c[self]]
                             THEN /\ mu' = [mu EXCEPT ![c[self]] = 0]
                                  /\ res' = [res EXCEPT ![self] = Append(res[self], R(0, FALSE, "sendclosed"))]
                                  /\ pc0' = [pc0 EXCEPT ![self] = 99]
                                  /\ pc' = [pc EXCEPT ![self] = "Loop"]
                                  /\ UNCHANGED << getp, doneF, slot >>
                             ELSE /\ slot' = [slot EXCEPT ![downer[c[self]]] = op[self].v]
                                  /\ doneF' = [doneF EXCEPT ![downer[c[self]]] = TRUE]
                                  /\ getp' = [getp EXCEPT ![c[self]] = 0]
                                  /\ pc' = [pc EXCEPT ![self] = "S6"]
                                  /\ UNCHANGED << mu, res, pc0 >>
                       /\ UNCHANGED << sends, stack, wc >>
            /\ UNCHANGED << sc, NT, NC, cap, sleepers, q, closed, downer, spur, 
                            op, c, drop >>

S3(self) == /\ pc[self] = "S3"
            /\ sends' = [sends EXCEPT ![c[self]] = sends[c[self]] - 1]
            /\ pc' = [pc EXCEPT ![self] = "S2"]
            /\ UNCHANGED << sc, NT, NC, cap, mu, sleepers, getp, q, closed, 
                            downer, doneF, slot, res, spur, stack, wc, pc0, op, 
                            c, drop >>

S4(self) == /\ pc[self] = "S4"
            /\ IF Len(q[c[self]]) = cap[c[self]] /\ ~closed[c[self]]
                  THEN /\ /\ stack' = [stack EXCEPT ![self] = << [ procedure |->  "wait",
                                                                   pc        |->  "S4",
                                                                   wc        |->  wc[self] ] >>
                                                               \o stack[self]]
                          /\ wc' = [wc EXCEPT ![self] = c[self]]
                       /\ pc' = [pc EXCEPT ![self] = "W1"]
                  ELSE /\ pc' = [pc EXCEPT ![self] = "S5"]
                       /\ UNCHANGED << stack, wc >>
            /\ UNCHANGED << sc, NT, NC, cap, mu, sleepers, getp, q, closed, 
                            sends, downer, doneF, slot, res, spur, pc0, op, c, 
                            drop >>

S5(self) == /\ pc[self] = "S5"
            /\ IF closed[c[self]]
                  THEN /\ mu' = [mu EXCEPT ![c[self]] = 0]
                       /\ res' = [res EXCEPT ![self] = Append(res[self], R(0, FALSE, "sendclosed"))]
                       /\ pc0' = [pc0 EXCEPT ![self] = 99]
                       /\ pc' = [pc EXCEPT ![self] = "Loop"]
                       /\ q' = q
                  ELSE /\ q' = [q EXCEPT ![c[self]] = Append(q[c[self]], op[self].v)]
                       /\ pc' = [pc EXCEPT ![self] = "S6"]
                       /\ UNCHANGED << mu, res, pc0 >>
            /\ UNCHANGED << sc, NT, NC, cap, sleepers, getp, closed, sends, 
                            downer, doneF, slot, spur, stack, wc, op, c, drop >>

S6(self) == /\ pc[self] = "S6"
            /\ mu' = [mu EXCEPT ![c[self]] = 0]
            /\ pc' = [pc EXCEPT ![self] = "S7"]
            /\ UNCHANGED << sc, NT, NC, cap, sleepers, getp, q, closed, sends, 
                            downer, doneF, slot, res, spur, stack, wc, pc0, op, 
                            c, drop >>

S7(self) == /\ pc[self] = "S7"
            /\ sleepers' = [sleepers EXCEPT ![c[self]] = {}]
            /\ res' = [res EXCEPT ![self] = Append(res[self], R(0, FALSE, ""))]
            /\ pc' = [pc EXCEPT ![self] = "Loop"]
            /\ UNCHANGED << sc, NT, NC, cap, mu, getp, q, closed, sends, 
                            downer, doneF, slot, spur, stack, wc, pc0, op, c, 
                            drop >>

R1(self) == /\ pc[self] = "R1"
            /\ mu[c[self]] = 0
            /\ mu' = [mu EXCEPT ![c[self]] = self]
            /\ IF cap[c[self]] = 0
                  THEN /\ pc' = [pc EXCEPT ![self] = "R2"]
                  ELSE /\ pc' = [pc EXCEPT ![self] = "R8"]
            /\ UNCHANGED << sc, NT, NC, cap, sleepers, getp, q, closed, sends, 
                            downer, doneF, slot, res, spur, stack, wc, pc0, op, 
                            c, drop >>

R2(self) == /\ pc[self] = "R2"
            /\ IF getp[c[self]] = 1 /\ ~closed[c[self]]
                  THEN /\ /\ stack' = [stack EXCEPT ![self] = << [ procedure |->  "wait",
                                                                   pc        |->  "R2",
                                                                   wc        |->  wc[self] ] >>
                                                               \o stack[self]]
                          /\ wc' = [wc EXCEPT ![self] = c[self]]
                       /\ pc' = [pc EXCEPT ![self] = "W1"]
                  ELSE /\ pc' = [pc EXCEPT ![self] = "R3"]
                       /\ UNCHANGED << stack, wc >>
            /\ UNCHANGED << sc, NT, NC, cap, mu, sleepers, getp, q, closed, 
                            sends, downer, doneF, slot, res, spur, pc0, op, c, 
                            drop >>

R3(self) == /\ pc[self] = "R3"
            /\ IF closed[c[self]]
                  THEN /\ mu' = [mu EXCEPT ![c[self]] = 0]
                       /\ res' = [res EXCEPT ![self] = Append(res[self], R(0, FALSE, ""))]
                       /\ pc' = [pc EXCEPT ![self] = "Loop"]
                       /\ UNCHANGED << getp, downer >>
                  ELSE /\ getp' = [getp EXCEPT ![c[self]] = 1]
                       /\ downer' = [downer EXCEPT ![c[self]] = self]
                       /\ mu' = [mu EXCEPT ![c[self]] = 0]
                       /\ pc' = [pc EXCEPT ![self] = "R4"]
                       /\ res' = res
            /\ UNCHANGED << sc, NT, NC, cap, sleepers, q, closed, sends, doneF, 
                            slot, spur, stack, wc, pc0, op, c, drop >>

R4(self) == /\ pc[self] = "R4"
            /\ sleepers' = [sleepers EXCEPT ![c[self]] = {}]
            /\ pc' = [pc EXCEPT ![self] = "R5"]
            /\ UNCHANGED << sc, NT, NC, cap, mu, getp, q, closed, sends, 
                            downer, doneF, slot, res, spur, stack, wc, pc0, op, 
                            c, drop >>

R5(self) == /\ pc[self] = "R5"
            /\ mu[c[self]] = 0
            /\ mu' = [mu EXCEPT ![c[self]] = self]
            /\ pc' = [pc EXCEPT ![self] = "R6"]
            /\ UNCHANGED << sc, NT, NC, cap, sleepers, getp, q, closed, sends, 
                            downer, doneF, slot, res, spur, stack, wc, pc0, op, 
                            c, drop >>

R6(self) == /\ pc[self] = "R6"
            /\ IF (IF HandOffBug THEN getp[c[self]] = 1 ELSE ~doneF[self]) /\ ~closed[c[self]]
                  THEN /\ /\ stack' = [stack EXCEPT ![self] = << [ procedure |->  "wait",
                                                                   pc        |->  "R6",
                                                                   wc        |->  wc[self] ] >>
                                                               \o stack[self]]
                          /\ wc' = [wc EXCEPT ![self] = c[self]]
                       /\ pc' = [pc EXCEPT ![self] = "W1"]
                  ELSE /\ pc' = [pc EXCEPT ![self] = "R7"]
                       /\ UNCHANGED << stack, wc >>
            /\ UNCHANGED << sc, NT, NC, cap, mu, sleepers, getp, q, closed, 
                            sends, downer, doneF, slot, res, spur, pc0, op, c, 
                            drop >>

R7(self) == /\ pc[self] = "R7"
            /\ res' = [res EXCEPT ![self] = Append(res[self], R(IF drop[self] THEN 0 ELSE slot[self], IF HandOffBug THEN ~closed[c[self]] ELSE doneF[self], ""))]
            /\ mu' = [mu EXCEPT ![c[self]] = 0]
            /\ pc' = [pc EXCEPT ![self] = "Loop"]
            /\ UNCHANGED << sc, NT, NC, cap, sleepers, getp, q, closed, sends, 
                            downer, doneF, slot, spur, stack, wc, pc0, op, c, 
                            drop >>

R8(self) == /\ pc[self] = "R8"
            /\ IF Len(q[c[self]]) = 0 /\ ~closed[c[self]]
                  THEN /\ /\ stack' = [stack EXCEPT ![self] = << [ procedure |->  "wait",
                                                                   pc        |->  "R8",
                                                                   wc        |->  wc[self] ] >>
                                                               \o stack[self]]
                          /\ wc' = [wc EXCEPT ![self] = c[self]]
                       /\ pc' = [pc EXCEPT ![self] = "W1"]
                  ELSE /\ pc' = [pc EXCEPT ![self] = "R9"]
                       /\ UNCHANGED << stack, wc >>
            /\ UNCHANGED << sc, NT, NC, cap, mu, sleepers, getp, q, closed, 
                            sends, downer, doneF, slot, res, spur, pc0, op, c, 
                            drop >>

R9(self) == /\ pc[self] = "R9"
            /\ IF Len(q[c[self]]) = 0
                  THEN /\ mu' = [mu EXCEPT ![c[self]] = 0]
                       /\ res' = [res EXCEPT ![self] = Append(res[self], R(0, FALSE, ""))]
                       /\ pc' = [pc EXCEPT ![self] = "Loop"]
                       /\ UNCHANGED << q, slot >>
                  ELSE /\ slot' = [slot EXCEPT ![self] = Head(q[c[self]])]
                       /\ q' = [q EXCEPT ![c[self]] = Tail(q[c[self]])]
                       /\ mu' = [mu EXCEPT ![c[self]] = 0]
                       /\ pc' = [pc EXCEPT ![self] = "R10"]
                       /\ res' = res
            /\ UNCHANGED << sc, NT, NC, cap, sleepers, getp, closed, sends, 
                            downer, doneF, spur, stack, wc, pc0, op, c, drop >>

R10(self) == /\ pc[self] = "R10"
             /\ sleepers' = [sleepers EXCEPT ![c[self]] = {}]
             /\ res' = [res EXCEPT ![self] = Append(res[self], R(IF drop[self] THEN 0 ELSE slot[self], TRUE, ""))]
             /\ pc' = [pc EXCEPT ![self] = "Loop"]
             /\ UNCHANGED << sc, NT, NC, cap, mu, getp, q, closed, sends, 
                             downer, doneF, slot, spur, stack, wc, pc0, op, c, 
                             drop >>

C1(self) == /\ pc[self] = "C1"
            /\ mu[c[self]] = 0
            /\ IF closed[c[self]]
                  THEN /\ res' = [res EXCEPT ![self] = Append(res[self], R(0, FALSE, "closeclosed"))]
                       /\ pc0' = [pc0 EXCEPT ![self] = 99]
                       /\ pc' = [pc EXCEPT ![self] = "Loop"]
                       /\ UNCHANGED closed
                  ELSE /\ closed' = [closed EXCEPT ![c[self]] = TRUE]
                       /\ pc' = [pc EXCEPT ![self] = "C2"]
                       /\ UNCHANGED << res, pc0 >>
            /\ UNCHANGED << sc, NT, NC, cap, mu, sleepers, getp, q, sends, 
                            downer, doneF, slot, spur, stack, wc, op, c, drop >>

C2(self) == /\ pc[self] = "C2"
            /\ sleepers' = [sleepers EXCEPT ![c[self]] = {}]
            /\ res' = [res EXCEPT ![self] = Append(res[self], R(0, FALSE, ""))]
            /\ pc' = [pc EXCEPT ![self] = "Loop"]
            /\ UNCHANGED << sc, NT, NC, cap, mu, getp, q, closed, sends, 
                            downer, doneF, slot, spur, stack, wc, pc0, op, c, 
                            drop >>

thr(self) == Loop(self) \/ S1(self) \/ S2(self) \/ S3(self) \/ S4(self)
                \/ S5(self) \/ S6(self) \/ S7(self) \/ R1(self) \/ R2(self)
                \/ R3(self) \/ R4(self) \/ R5(self) \/ R6(self) \/ R7(self)
                \/ R8(self) \/ R9(self) \/ R10(self) \/ C1(self)
                \/ C2(self)

Sp == /\ pc[0] = "Sp"
      /\ IF spur > 0
            THEN /\ \E ch \in {x \in 1..MaxChans : sleepers[x] # {}}:
                      \E t \in sleepers[ch]:
                        sleepers' = [sleepers EXCEPT ![ch] = sleepers[ch] \ {t}]
                 /\ spur' = spur - 1
                 /\ pc' = [pc EXCEPT ![0] = "Sp"]
            ELSE /\ pc' = [pc EXCEPT ![0] = "Done"]
                 /\ UNCHANGED << sleepers, spur >>
      /\ UNCHANGED << sc, NT, NC, cap, mu, getp, q, closed, sends, downer, 
                      doneF, slot, res, stack, wc, pc0, op, c, drop >>

spurious == Sp

(* Allow infinite stuttering to prevent deadlock on termination. *)
Terminating == /\ \A self \in ProcSet: pc[self] = "Done"
               /\ UNCHANGED vars

Next == spurious
           \/ (\E self \in ProcSet: wait(self))
           \/ (\E self \in 1..MaxThreads: thr(self))
           \/ Terminating

Spec == Init /\ [][Next]_vars

Termination == <>(\A self \in ProcSet: pc[self] = "Done")

\* END TRANSLATION

Threads == 1..NT
Finished(t) == pc[t] = "Done"
Blocked(t)  == t <= NT /\ ~Finished(t)
NoThreadStep == \A t \in 1..MaxThreads : ~ENABLED (thr(t) \/ wait(t))

\* terminal: no thread can move (spurious wake-ups do not count as progress)
Terminal == NoThreadStep

Emit == Terminal =>
  PrintT(ToJson([id |-> Scenarios[sc].id,
                 res |-> [t \in 1..NT |-> res[t]],
                 stuck |-> {t \in 1..NT : ~Finished(t)}]))

\* the mutex really is one
MutexOwnerSane == \A ch \in 1..MaxChans : mu[ch] \in 0..MaxThreads
\* ring buffer never exceeds its capacity
CapBound == \A ch \in 1..MaxChans : cap[ch] > 0 => Len(q[ch]) <= cap[ch]
=============================================================================

SPECIFICATION Spec
CONSTANTS AtomicDefault = FALSE
INVARIANTS Safety EmitAccepted
CHECK_DEADLOCK FALSE

SPECIFICATION Spec
CONSTANTS HandOffBug = FALSE  SpuriousBudget = 1  WithSelect = FALSE  SelPanicBug = FALSE  defaultInitValue = 0
INVARIANTS MutexOwnerSane CapBound Emit
CHECK_DEADLOCK FALSE

\* Select before fix 75a5786: a panicking select stays registered; TLC prints outcomes in which a later
\* select-with-default on a sibling channel is stuck (not allowed by GoChanProg) and Withdrawn is violated
SPECIFICATION Spec
CONSTANTS HandOffBug = FALSE  SpuriousBudget = 0  WithSelect = TRUE  SelPanicBug = TRUE  defaultInitValue = 0
INVARIANTS MutexOwnerSane CapBound Emit
CHECK_DEADLOCK FALSE

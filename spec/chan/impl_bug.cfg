\* the pre-fix hand-off: TLC prints outcomes GoChanProg does not allow (value lost at close; delivered receiver stuck)
SPECIFICATION Spec
CONSTANTS HandOffBug = TRUE  SpuriousBudget = 0  WithSelect = FALSE  SelPanicBug = FALSE  defaultInitValue = 0
INVARIANTS MutexOwnerSane CapBound Emit
CHECK_DEADLOCK FALSE

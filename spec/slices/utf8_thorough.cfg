SPECIFICATION Spec
CONSTANTS
  Alphabet = {0, 65, 127, 128, 143, 144, 159, 160, 191, 192, 193, 194, 223, 224, 225, 236, 237, 238, 239, 240, 241, 243, 244, 245, 255}
  MaxLen = 4
  FullLead = {0, 65, 127, 128, 143, 144, 159, 160, 191, 192, 193, 194, 223, 224, 225, 236, 237, 238, 239, 240, 241, 243, 244, 245, 255}
  SmallAlpha = {0, 65, 128, 194, 255}
INVARIANTS Laws Emit
CHECK_DEADLOCK FALSE

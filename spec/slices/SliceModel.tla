-------------------------------- MODULE SliceModel --------------------------------
(***************************************************************************)
(* Layer A for C05 (slices): what the Go specification says about slices.  *)
(*                                                                         *)
(* A heap of backing arrays (id -> sequence of element tokens) and slice   *)
(* variables, each nil or a window <<array, off, len, cap>> into an array. *)
(* Token 0 is the zero value of the element type.  The element size is a   *)
(* constant; it matters only through the zero-size case, where all values  *)
(* of the type are equal (every token collapses to 0).                     *)
(*                                                                         *)
(* Statement transcribed (Go spec "Appending to and copying slices",       *)
(* "Slice expressions", "Making slices", "Clear", "Index expressions"):    *)
(*  - append(s, vs...): the result has the first len(s) elements of s,     *)
(*    then vs; its length is len(s)+|vs| FOR EVERY ELEMENT SIZE; if        *)
(*    cap(s) suffices the result re-uses s's array (so the write is        *)
(*    visible through every alias), otherwise it is a fresh array whose    *)
(*    capacity is >= the needed length.  How much it grows is NOT          *)
(*    specified: the new capacity `nc` is a parameter (nondeterministic in *)
(*    Next, bound to the observed one in SliceTrace).  The operands are    *)
(*    evaluated before anything is written, so vs may alias s.             *)
(*    What the not yet used tail of a fresh array holds is not specified   *)
(*    either: it is Unknown until it is first observed.                    *)
(*  - copy(dst, src) copies min(len(dst), len(src)) elements, correctly    *)
(*    for overlapping windows (all reads happen before the writes), and    *)
(*    returns that number.                                                 *)
(*  - s[i:j], s[i:j:k]: 0 <= i <= j <= k <= cap(s) (j defaults to len(s),  *)
(*    k to cap(s)), else a run-time panic; result window off+i, len j-i,   *)
(*    cap k-i; a nil operand gives a nil result.                           *)
(*  - make([]T, l, c): 0 <= l <= c else panic; zero-initialised.           *)
(*  - s[i] / s[i] = x: 0 <= i < len(s) else panic.  clear(s) zeroes the    *)
(*    window.  A panicking operation changes nothing.                      *)
(*                                                                         *)
(* Operations are written as functions  (heap, vars, args) -> result       *)
(* record [en, heap, sv, out] so that the generator (SliceGen) and the     *)
(* trace validator (SliceTrace) share them; Next wraps them as actions.    *)
(***************************************************************************)
EXTENDS Integers, Sequences, FiniteSets, TLC

CONSTANTS ElemSize,   \* size in bytes of the element type: 0, 1, 2, 3, 8 or 24
          NV          \* number of slice variables (0 .. NV-1) in the bounded model
ASSUME ElemSize \in {0, 1, 2, 3, 8, 24}

VARIABLES heap,   \* [array id -> sequence of tokens]; only arrays reachable from a variable are kept
          sv,     \* [variable -> slice value]
          out     \* outcome of the last operation: [p |-> panicked, r |-> result (copy count, element read)]

Omit    == -9999                              \* an omitted index / capacity operand
Unknown == -1                                 \* content of a cell nobody has observed or written yet
Tok(x)  == IF ElemSize = 0 THEN 0 ELSE x      \* zero-size type: a single value

Nil == [nil |-> TRUE, a |-> 0, off |-> 0, len |-> 0, cap |-> 0]
Sl(a, off, len, cap) == [nil |-> FALSE, a |-> a, off |-> off, len |-> len, cap |-> cap]

Min(a, b) == IF a < b THEN a ELSE b
MaxOf(S) == CHOOSE x \in S : \A y \in S : y <= x
NewId(hp) == IF DOMAIN hp = {} THEN 1 ELSE MaxOf(DOMAIN hp) + 1

\* the elements seen through a slice value
Win(hp, x) == IF x.nil THEN <<>> ELSE SubSeq(hp[x.a], x.off + 1, x.off + x.len)

\* arrays no variable refers to are forgotten
Collect(hp, s) == LET live == {s[v].a : v \in {w \in DOMAIN s : ~s[w].nil}} IN [a \in live |-> hp[a]]

Ok(r) == [p |-> FALSE, r |-> r]
Panic == [p |-> TRUE, r |-> 0]
Res(hp, s, o)   == [en |-> TRUE, heap |-> Collect(hp, s), sv |-> s, out |-> o]
Panics(hp, s)   == [en |-> TRUE, heap |-> hp, sv |-> s, out |-> Panic]

\* write the sequence vals into array a starting at (1-based) position first
\* (written with sequence operators so that TLC evaluates `vals` a constant number of times)
Write(hp, a, first, vals) ==
  [hp EXCEPT ![a] = SubSeq(@, 1, first - 1) \o vals \o SubSeq(@, first + Len(vals), Len(@))]

Fresh(hp, arr) == (NewId(hp) :> arr) @@ hp

----------------------------------------------------------------------------
DoMake(hp, s, d, l, c0) ==
  LET c == IF c0 = Omit THEN l ELSE c0 IN
  IF l < 0 \/ c < l THEN Panics(hp, s)
  ELSE Res(Fresh(hp, [i \in 1..c |-> Tok(0)]), [s EXCEPT ![d] = Sl(NewId(hp), 0, l, c)], Ok(0))

DoLit(hp, s, d, vals) ==
  Res(Fresh(hp, [i \in 1..Len(vals) |-> Tok(vals[i])]), [s EXCEPT ![d] = Sl(NewId(hp), 0, Len(vals), Len(vals))], Ok(0))

\* s[i:j] (k0 = Omit) and s[i:j:k]
DoReslice(hp, s, d, src, i0, j0, k0) ==
  LET x == s[src]
      i == IF i0 = Omit THEN 0 ELSE i0
      j == IF j0 = Omit THEN x.len ELSE j0
      k == IF k0 = Omit THEN x.cap ELSE k0 IN
  IF ~(0 <= i /\ i <= j /\ j <= k /\ k <= x.cap) THEN Panics(hp, s)
  ELSE Res(hp, [s EXCEPT ![d] = IF x.nil THEN Nil ELSE Sl(x.a, x.off + i, j - i, k - i)], Ok(0))

\* append(s[src], vals...) with the capacity nc of a fresh array chosen by the implementation
DoAppend(hp, s, d, src, vals0, nc) ==
  LET x == s[src]
      vals == [i \in 1..Len(vals0) |-> Tok(vals0[i])]
      need == x.len + Len(vals) IN
  IF need <= x.cap
    THEN \* capacity suffices: same array, visible through every alias
         IF x.nil THEN Res(hp, [s EXCEPT ![d] = Nil], Ok(0))
         ELSE Res(Write(hp, x.a, x.off + x.len + 1, vals), [s EXCEPT ![d] = Sl(x.a, x.off, need, x.cap)], Ok(0))
    ELSE \* fresh array: old elements, then the values, then a tail nobody has seen yet;
         \* a capacity below the needed length is not allowed (en = FALSE; the result shown is the smallest legal one)
         LET c == IF nc < need THEN need ELSE nc IN
         [Res(Fresh(hp, Win(hp, x) \o vals \o [i \in 1..(c - need) |-> Tok(Unknown)]),
              [s EXCEPT ![d] = Sl(NewId(hp), 0, need, c)], Ok(0)) EXCEPT !.en = (nc >= need)]

\* append(s[src], s[oth]...): the operand is read before anything is written
DoAppendSlice(hp, s, d, src, oth, nc) == DoAppend(hp, s, d, src, Win(hp, s[oth]), nc)

DoCopy(hp, s, d, src) ==
  LET x == s[d]
      n == Min(x.len, s[src].len)
      vals == SubSeq(Win(hp, s[src]), 1, n) IN     \* read first (memmove semantics)
  IF n = 0 THEN Res(hp, s, Ok(0)) ELSE Res(Write(hp, x.a, x.off + 1, vals), s, Ok(n))

DoClear(hp, s, d) ==
  LET x == s[d] IN
  IF x.len = 0 THEN Res(hp, s, Ok(0)) ELSE Res(Write(hp, x.a, x.off + 1, [i \in 1..x.len |-> Tok(0)]), s, Ok(0))

DoSet(hp, s, d, i, v) ==
  LET x == s[d] IN
  IF i < 0 \/ i >= x.len THEN Panics(hp, s) ELSE Res(Write(hp, x.a, x.off + i + 1, <<Tok(v)>>), s, Ok(0))

DoIndex(hp, s, d, i) ==
  LET x == s[d] IN
  IF i < 0 \/ i >= x.len THEN Panics(hp, s) ELSE Res(hp, s, Ok(Win(hp, x)[i + 1]))

DoNil(hp, s, d) == Res(hp, [s EXCEPT ![d] = Nil], Ok(0))
DoMov(hp, s, d, src) == Res(hp, [s EXCEPT ![d] = s[src]], Ok(0))

\* t := s[d][:cap]; t[m] = base+m  -- makes aliasing observable beyond len as well
DoProbe(hp, s, d, base) ==
  LET x == s[d] IN
  IF x.cap = 0 THEN Res(hp, s, Ok(0))
  ELSE Res(Write(hp, x.a, x.off + 1, [m \in 1..x.cap |-> Tok((base + m - 1) % 256)]), s, Ok(0))

\* an operation as data: [k, d, s, o, a (integer operands), v (values)]
Apply(hp, s, op, nc) ==
  CASE op.k = "make"  -> DoMake(hp, s, op.d, op.a[1], op.a[2])
    [] op.k = "lit"   -> DoLit(hp, s, op.d, op.v)
    [] op.k = "r2"    -> DoReslice(hp, s, op.d, op.s, op.a[1], op.a[2], Omit)
    [] op.k = "r3"    -> DoReslice(hp, s, op.d, op.s, op.a[1], op.a[2], op.a[3])
    [] op.k = "app"   -> DoAppend(hp, s, op.d, op.s, op.v, nc)
    [] op.k = "apps"  -> DoAppendSlice(hp, s, op.d, op.s, op.o, nc)
    [] op.k = "copy"  -> DoCopy(hp, s, op.d, op.s)
    [] op.k = "clear" -> DoClear(hp, s, op.d)
    [] op.k = "set"   -> DoSet(hp, s, op.d, op.a[1], op.a[2])
    [] op.k = "idx"   -> DoIndex(hp, s, op.d, op.a[1])
    [] op.k = "nil"   -> DoNil(hp, s, op.d)
    [] op.k = "probe" -> DoProbe(hp, s, op.d, op.a[1])
    [] op.k = "mov"   -> DoMov(hp, s, op.d, op.s)

Op(k, d, s, o, a, v) == [k |-> k, d |-> d, s |-> s, o |-> o, a |-> a, v |-> v]

----------------------------------------------------------------------------
Init == heap = <<>> /\ sv = [v \in 0..NV-1 |-> Nil] /\ out = Ok(0)

Step(op, nc) ==
  LET r == Apply(heap, sv, op, nc) IN
  r.en /\ heap' = r.heap /\ sv' = r.sv /\ out' = r.out

\* invariants of the model itself
WindowOK ==
  \A v \in DOMAIN sv :
    LET x == sv[v] IN
    IF x.nil THEN x.len = 0 /\ x.cap = 0
    ELSE /\ x.a \in DOMAIN heap
         /\ 0 <= x.off /\ 0 <= x.len /\ x.len <= x.cap /\ x.off + x.cap <= Len(heap[x.a])
NoGarbage == \A a \in DOMAIN heap : \E v \in DOMAIN sv : ~sv[v].nil /\ sv[v].a = a
ZeroSizeAllEqual == ElemSize = 0 => \A a \in DOMAIN heap : \A p \in 1..Len(heap[a]) : heap[a][p] = 0
=============================================================================

SPECIFICATION Spec
CONSTANTS
  Alphabet = {0, 65, 127, 128, 143, 144, 159, 160, 191, 192, 194, 223, 224, 237, 239, 240, 244, 245, 255}
  MaxLen = 4
  FullLead = {224, 237, 240, 244, 245}
  SmallAlpha = {0, 65, 128, 194, 255}
INVARIANTS Laws Emit
CHECK_DEADLOCK FALSE

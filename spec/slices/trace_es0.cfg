SPECIFICATION TSpec
CONSTANTS
  ElemSize = 0
  NV = 3
INVARIANTS Safety Emit
CHECK_DEADLOCK FALSE

-------------------------------- MODULE SliceTrace --------------------------------
(***************************************************************************)
(* Trace validation for C05: is the log of a script executed by a compiled *)
(* program a behaviour of SliceModel?                                      *)
(*                                                                         *)
(* traces.ndjson holds one execution per line:                             *)
(*   [id, nv, ev]   ev = sequence of [op, out, st]                         *)
(*      op   the operation (same record as SliceModel!Apply takes)         *)
(*      out  [p |-> it panicked, r |-> copy count / element read]          *)
(*      st   the observable state of every variable after the step:        *)
(*           [nil, len, cap, c |-> the len elements]                       *)
(* Each execution is validated independently (Init picks one).  The only   *)
(* freedom SliceModel leaves is the capacity of a fresh array and the      *)
(* content of its unused tail: the capacity is bound to the logged one     *)
(* (and must be >= the needed length), an Unknown cell is bound to the     *)
(* value through which it is first observed.  Everything else - nil-ness,  *)
(* len, cap and contents of EVERY variable, hence which variables share    *)
(* storage - must equal the model after every step.  An execution is       *)
(* accepted iff all its steps are; then [acc |-> id] is printed, otherwise *)
(* [rej |-> id, l |-> first rejected step, exp |-> what the model allows]. *)
(***************************************************************************)
EXTENDS SliceModel, Json

\* the file is parsed once, when the ASSUME is evaluated, and kept in TLC register 1 of every worker
\* (a plain definition would be re-evaluated, i.e. the file re-parsed, at every use)
ASSUME TLCSet(1, ndJsonDeserialize("traces.ndjson"))
Traces == TLCGet(1)

VARIABLES h, l, verdict
tvars == <<heap, sv, out, h, l, verdict>>

Ev == Traces[h].ev
TV == 0..Traces[h].nv - 1

\* the capacity the implementation gave the result of an append (used only when a fresh array is needed)
LoggedCap(e) == IF e.op.k \in {"app", "apps"} THEN e.st[e.op.d + 1].cap ELSE 0

\* bind cells nobody has seen yet to the value through which they are observed now
Refine(hp, s, st) ==
  [a \in DOMAIN hp |-> [p \in 1..Len(hp[a]) |->
     IF hp[a][p] # Unknown THEN hp[a][p]
     ELSE LET W == {v \in DOMAIN s : ~s[v].nil /\ s[v].a = a /\ p > s[v].off /\ p <= s[v].off + s[v].len} IN
          IF W = {} THEN Unknown
          ELSE LET v == CHOOSE w \in W : TRUE IN
               IF Len(st[v + 1].c) >= p - s[v].off THEN st[v + 1].c[p - s[v].off] ELSE Unknown]]

Observed(hp, s) == [v \in 1..Traces[h].nv |-> [nil |-> s[v-1].nil, len |-> s[v-1].len, cap |-> s[v-1].cap, c |-> Win(hp, s[v-1])]]

SameState(hp, s, st) ==
  \A v \in DOMAIN s :
    /\ st[v + 1].nil = s[v].nil /\ st[v + 1].len = s[v].len /\ st[v + 1].cap = s[v].cap
    /\ st[v + 1].c = Win(hp, s[v])

\* TLC re-evaluates a LET definition at every use inside an action; binding through a singleton set
\* evaluates it once
Only(S) == CHOOSE x \in S : TRUE

\* the model's verdict on the logged step e: r is the model's result, hp2 its heap after binding Unknown cells
JudgeH(e, r, hp2) ==
  LET outOK == /\ r.out.p = e.out.p
               /\ IF e.op.k = "idx" /\ ~r.out.p
                    THEN Win(hp2, r.sv[e.op.d])[e.op.a[1] + 1] = e.out.r
                    ELSE r.out.r = e.out.r IN
  [good |-> r.en /\ outOK /\ SameState(hp2, r.sv, e.st), heap |-> hp2, sv |-> r.sv, out |-> r.out, en |-> r.en]
JudgeR(e, r) == Only({JudgeH(e, r, hp2) : hp2 \in {Refine(r.heap, r.sv, e.st)}})
Judge(e) == Only({JudgeR(e, r) : r \in {Apply(heap, sv, e.op, LoggedCap(e))}})

\* Picking the execution: a root state fans out to blocks of executions and each block to its executions,
\* so that TLC's workers share the work (h = 0 root, h < 0 block -h, h > 0 execution h)
Block == 64
NBlocks == (Len(Traces) + Block - 1) \div Block

TInit == h = 0 /\ l = 1 /\ verdict = "run" /\ heap = <<>> /\ sv = <<>> /\ out = Ok(0)

TPick ==
  /\ h <= 0
  /\ IF h = 0
       THEN /\ \E b \in 1..NBlocks : h' = -b
            /\ UNCHANGED sv
       ELSE \E t \in ((-h - 1) * Block + 1)..Min((-h) * Block, Len(Traces)) :
              h' = t /\ sv' = [v \in 0..Traces[t].nv - 1 |-> Nil]
  /\ UNCHANGED <<heap, out, l, verdict>>

TStep ==
  /\ h > 0 /\ verdict = "run" /\ l <= Len(Ev)
  /\ \E j \in {Judge(Ev[l])} :
       IF j.good
         THEN /\ heap' = j.heap /\ sv' = j.sv /\ out' = j.out /\ l' = l + 1
              /\ verdict' = IF l = Len(Ev) THEN "acc" ELSE "run"
         ELSE verdict' = "rej" /\ UNCHANGED <<heap, sv, out, l>>
  /\ UNCHANGED h

TNext == TPick \/ TStep
TSpec == TInit /\ [][TNext]_tvars

Emit ==
  /\ verdict = "acc" => PrintT(ToJson([acc |-> Traces[h].id]))
  /\ verdict = "rej" =>
       \E j \in {Judge(Ev[l])} :
       PrintT(ToJson([rej |-> Traces[h].id, l |-> l, en |-> j.en, out |-> j.out, exp |-> Observed(j.heap, j.sv)]))
  /\ (h > 0 /\ verdict = "run" /\ Len(Ev) = 0) => PrintT(ToJson([acc |-> Traces[h].id]))

\* the model's own invariants hold in every state of every validated execution
Safety == WindowOK /\ NoGarbage /\ ZeroSizeAllEqual
=============================================================================

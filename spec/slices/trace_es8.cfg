SPECIFICATION TSpec
CONSTANTS
  ElemSize = 8
  NV = 3
INVARIANTS Safety Emit
CHECK_DEADLOCK FALSE

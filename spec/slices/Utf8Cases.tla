-------------------------------- MODULE Utf8Cases --------------------------------
(***************************************************************************)
(* Case enumeration for the string half of C05.  TLC builds every byte     *)
(* string over Alphabet up to MaxLen (strings of full length only with a   *)
(* first byte in FullLead), every pair / slicing / conversion case over    *)
(* the small sets below, and prints for each the result Utf8.tla assigns.  *)
(***************************************************************************)
EXTENDS Utf8, TLC, Json, FiniteSets

CONSTANTS Alphabet,    \* bytes the enumerated strings are built from (decoder class boundaries)
          MaxLen,
          FullLead,    \* first bytes allowed for strings of length MaxLen
          SmallAlpha   \* bytes for the pair and slicing cases

VARIABLE c   \* the case: [k |-> kind, s, t |-> byte sequences, i, j |-> integers]

Case(k, s, t, i, j) == [k |-> k, s |-> s, t |-> t, i |-> i, j |-> j]

Strs(A, n) == UNION {[1..m -> A] : m \in 0..n}

\* integers for string(int): plane, low
IntCases ==
  { <<0, 0>>, <<0, 65>>, <<0, 127>>, <<0, 128>>, <<0, 255>>, <<0, 256>>, <<0, 2047>>, <<0, 2048>>, <<0, 55295>>, <<0, 55296>>,
    <<0, 56000>>, <<0, 57343>>, <<0, 57344>>, <<0, 65533>>, <<0, 65535>>, <<1, 0>>, <<1, 65535>>, <<15, 65535>>,
    <<16, 0>>, <<16, 65535>>, <<17, 0>>, <<17, 65>>, <<32, 65>>, <<32767, 65535>>, <<32768, 0>>, <<65535, 65535>>,
    <<65536, 65>>, <<65536, 55296>>, <<1048576, 65>>, <<2147483647, 65535>>,
    <<-1, 65535>>, <<-1, 65>>, <<-1, 65408>>, <<-1, 32768>>, <<-2, 65>>, <<-32768, 0>>, <<-32768, 65>>, <<-65536, 65>>,
    <<-2147483647, 65>> }
\* runes for string([]rune): the same boundary code points, as plane/low pairs that fit 32 bits
RuneCases == {x \in IntCases : x[1] >= -32768 /\ x[1] <= 32767}
RuneSeqs == {<<>>} \cup {<<x>> : x \in RuneCases} \cup {<<x, y>> : x \in RuneCases, y \in {<<0, 65>>, <<0, 55296>>, <<1, 0>>, <<17, 0>>}}
Flat(ps) == [i \in 1..2 * Len(ps) |-> ps[(i + 1) \div 2][2 - (i % 2)]]

\* the non-string-enumeration cases are successors of a root state, so that TLC's workers share them
Seeds(x) ==
  \/ x = Case("u", <<>>, <<>>, 0, 0)
  \/ \E a \in Strs(SmallAlpha, 2), b \in Strs(SmallAlpha, 2) : x = Case("p", a, b, 0, 0)
  \/ \E s \in Strs(SmallAlpha, 3) : \E i \in (-1..Len(s) + 1) \cup {Omit}, j \in (-1..Len(s) + 1) \cup {Omit} :
        x = Case("x", s, <<>>, i, j)
  \/ \E y \in IntCases : x = Case("r", <<>>, <<>>, y[1], y[2])
  \/ \E q \in RuneSeqs : x = Case("q", Flat(q), <<>>, 0, 0)

Init == c = Case("root", <<>>, <<>>, 0, 0)

Next ==
  \/ c.k = "root" /\ Seeds(c')
  \/ /\ c.k = "u" /\ Len(c.s) < MaxLen
     /\ \E b \in Alphabet :
          /\ Len(c.s) + 1 < MaxLen \/ (IF c.s = <<>> THEN b ELSE c.s[1]) \in FullLead
          /\ c' = [c EXCEPT !.s = Append(c.s, b)]

Spec == Init /\ [][Next]_c

Pairs(f) == [i \in 1..Len(f) \div 2 |-> <<f[2 * i - 1], f[2 * i]>>]
B(x) == IF x THEN 1 ELSE 0

Expected ==
  CASE c.k = "u" ->
         [k |-> "u", s |-> c.s, n |-> Len(c.s), rg |-> Range(c.s), ru |-> Runes(c.s), sr |-> FromRunes(Runes(c.s)),
          b |-> Bytes(c.s), sb |-> FromBytes(Bytes(c.s)),
          ap |-> <<120>> \o c.s, cpn |-> MinI(2, Len(c.s)), cpb |-> SubSeq(c.s, 1, MinI(2, Len(c.s))) \o SubSeq(<<46, 46>>, MinI(2, Len(c.s)) + 1, 2)]
    [] c.k = "p" ->
         [k |-> "p", s |-> c.s, t |-> c.t, cat |-> c.s \o c.t, cat3 |-> c.s \o c.t \o c.s, acc |-> c.s \o c.t \o c.t,
          cmp |-> <<B(c.s = c.t), B(c.s # c.t), B(Less(c.s, c.t)), B(Less(c.s, c.t) \/ c.s = c.t), B(Less(c.t, c.s)), B(Less(c.t, c.s) \/ c.s = c.t)>>]
    [] c.k = "x" ->
         [k |-> "x", s |-> c.s, i |-> c.i, j |-> c.j,
          slp |-> B(~SliceOK(c.s, c.i, c.j)), sl |-> IF SliceOK(c.s, c.i, c.j) THEN SliceOf(c.s, c.i, c.j) ELSE <<>>,
          ixp |-> B(c.i # Omit /\ ~IndexOK(c.s, c.i)), ix |-> IF c.i # Omit /\ IndexOK(c.s, c.i) THEN c.s[c.i + 1] ELSE 0]
    [] c.k = "r" -> [k |-> "r", i |-> c.i, j |-> c.j, enc |-> EncodeInt(c.i, c.j)]
    [] c.k = "q" -> [k |-> "q", s |-> c.s,
                     enc |-> LET ps == Pairs(c.s) IN
                             LET RECURSIVE cat(_)
                                 cat(n) == IF n = 0 THEN <<>> ELSE cat(n - 1) \o EncodeInt(ps[n][1], ps[n][2]) IN cat(Len(ps))]

Emit == c.k # "root" => PrintT(ToJson(Expected))

Laws ==
  /\ c.k = "u" => LawProgress(c.s) /\ LawValidRoundTrip(c.s)
  /\ c.k = "r" => (c.i >= 0 /\ c.i <= 16 => LawEncodeDecode(c.i * 65536 + c.j))
=============================================================================

SPECIFICATION GSpec
CONSTANTS
  ElemSize = 8
  NV = 3
  Depth = 2
  MaxC = 3
INVARIANTS Inv
VIEW View
ACTION_CONSTRAINT EmitScript
CHECK_DEADLOCK FALSE

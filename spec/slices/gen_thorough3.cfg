SPECIFICATION GSpec
CONSTANTS
  ElemSize = 8
  NV = 3
  Depth = 3
  MaxC = 2
INVARIANTS Inv
VIEW View
ACTION_CONSTRAINT EmitScript
CHECK_DEADLOCK FALSE

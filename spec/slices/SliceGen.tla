-------------------------------- MODULE SliceGen --------------------------------
(***************************************************************************)
(* Script generator for C05: explores SliceModel breadth-first, one        *)
(* operation per step, and prints one script per TRANSITION (the history   *)
(* that reached the source state plus the operation), encoded as the       *)
(* integer tokens the interpreter program reads.                           *)
(*                                                                         *)
(* The operands are chosen relative to the current model state so that     *)
(* every in-range window and the nearest out-of-range operands (which must *)
(* panic) are covered: all i <= j <= k <= cap, plus one-beyond and         *)
(* inverted operands.  The history is hidden from the state identity       *)
(* (VIEW), so each distinct model state is expanded once.  The capacity    *)
(* chosen here for a growing append (GuideCap) only steers the operand     *)
(* choice of later steps; the scripts are valid whatever the real          *)
(* implementation chooses, and SliceTrace judges them with the capacity    *)
(* that was actually observed.                                             *)
(***************************************************************************)
EXTENDS SliceModel, Json

CONSTANTS Depth,     \* number of operations per script
          MaxC       \* largest length/capacity requested from make and literals

VARIABLES hist, depth
gvars == <<heap, sv, out, hist, depth>>
View == <<heap, sv, depth>>

V == 0..NV-1

Code(k) == CASE k = "make" -> 1 [] k = "lit" -> 2 [] k = "r2" -> 3 [] k = "r3" -> 4 [] k = "app" -> 5
             [] k = "apps" -> 7 [] k = "copy" -> 8 [] k = "clear" -> 9 [] k = "set" -> 10 [] k = "idx" -> 11
             [] k = "nil" -> 12 [] k = "probe" -> 13 [] k = "mov" -> 14

\* the interpreter's token encoding of an operation (harness/c05/slices.go)
Enc(op) ==
  CASE op.k \in {"make", "set"}   -> <<Code(op.k), op.d>> \o op.a
    [] op.k = "lit"               -> <<2, op.d, Len(op.v)>> \o op.v
    [] op.k \in {"r2", "r3"}      -> <<Code(op.k), op.d, op.s>> \o op.a
    [] op.k = "app"               -> <<5, op.d, op.s, Len(op.v)>> \o op.v
    [] op.k = "apps"              -> <<7, op.d, op.s, op.o>>
    [] op.k \in {"copy", "mov"}   -> <<Code(op.k), op.d, op.s>>
    [] op.k \in {"clear", "nil"}  -> <<Code(op.k), op.d>>
    [] op.k \in {"idx", "probe"}  -> <<Code(op.k), op.d>> \o op.a

Vals(n, base) == [i \in 1..n |-> base + i]

MakeOps ==
  {Op("make", d, 0, 0, <<lc[1], lc[2]>>, <<>>) :
     d \in V, lc \in {x \in (0..MaxC) \X ((0..MaxC) \cup {Omit}) : x[2] = Omit \/ x[1] <= x[2]}
                      \cup {<<2, 1>>, <<-1, 1>>, <<-1, Omit>>, <<0, -1>>}}
LitOps == {Op("lit", d, 0, 0, <<>>, Vals(n, 10)) : d \in V, n \in 0..MaxC}

\* index operands for a slice value x: everything in range, one beyond, omitted; -1 once
R2Args(x) ==
  LET R == (0..x.cap + 1) \cup {Omit} IN
  {ij \in R \X R : TRUE} \cup {<<-1, 0>>, <<0, -1>>}
R3Args(x) ==
  LET R == 0..x.cap + 1 IN
  {<<i, j, k>> : i \in R \cup {Omit}, j \in R, k \in R} \cup {<<-1, 0, 0>>, <<0, 0, -1>>}
\* keep the panicking operand tuples to one representative per violated inequality
R2Keep(x, ij) ==
  LET i == IF ij[1] = Omit THEN 0 ELSE ij[1]
      j == IF ij[2] = Omit THEN x.len ELSE ij[2] IN
  \/ (0 <= i /\ i <= j /\ j <= x.cap)
  \/ (i = j + 1 /\ i <= x.cap) \/ (j = x.cap + 1 /\ i <= 1) \/ i < 0 \/ j < 0
R3Keep(x, t) ==
  LET i == IF t[1] = Omit THEN 0 ELSE t[1] j == t[2] k == t[3] IN
  \/ (0 <= i /\ i <= j /\ j <= k /\ k <= x.cap)
  \/ (i = j + 1 /\ j <= k /\ k <= x.cap) \/ (j = k + 1 /\ i <= 1 /\ k <= x.cap) \/ (k = x.cap + 1 /\ i <= 1 /\ j = k) \/ i < 0 \/ k < 0

ROps ==
  UNION {UNION {
      {Op("r2", d, s, 0, <<t[1], t[2]>>, <<>>) : t \in {u \in R2Args(sv[s]) : R2Keep(sv[s], u)}}
      \cup {Op("r3", d, s, 0, <<t[1], t[2], t[3]>>, <<>>) : t \in {u \in R3Args(sv[s]) : R3Keep(sv[s], u)}}
    : d \in V} : s \in V}

AppOps == {Op("app", d, s, 0, <<>>, Vals(n, 20)) : d \in V, s \in V, n \in 0..3}
AppSOps == {Op("apps", d, s, o, <<>>, <<>>) : d \in V, s \in V, o \in V}
CopyOps == {Op("copy", d, s, 0, <<>>, <<>>) : d \in V, s \in V}
MiscOps ==
  UNION {
      {Op("clear", d, 0, 0, <<>>, <<>>), Op("nil", d, 0, 0, <<>>, <<>>), Op("probe", d, 0, 0, <<40 + 10 * d>>, <<>>)}
      \cup {Op("set", d, 0, 0, <<i, 30>>, <<>>) : i \in -1..sv[d].len}
      \cup {Op("idx", d, 0, 0, <<i>>, <<>>) : i \in -1..sv[d].len}
      \cup {Op("mov", d, s, 0, <<>>, <<>>) : s \in V \ {d}}
    : d \in V}

Ops == MakeOps \cup LitOps \cup ROps \cup AppOps \cup AppSOps \cup CopyOps \cup MiscOps

\* steering only (see header): a plausible capacity for a fresh array
GuideCap(op) ==
  LET x == sv[op.s]
      n == IF op.k = "app" THEN Len(op.v) ELSE IF op.k = "apps" THEN sv[op.o].len ELSE 0
      need == x.len + n IN
  IF need > 2 * x.cap THEN need ELSE 2 * x.cap

GInit == Init /\ hist = <<>> /\ depth = 0
GNext ==
  /\ depth < Depth
  /\ \E op \in Ops : Step(op, GuideCap(op)) /\ hist' = hist \o Enc(op)
  /\ depth' = depth + 1
GSpec == GInit /\ [][GNext]_gvars

\* one script per transition
EmitScript == PrintT(ToJson(hist'))

Inv == WindowOK /\ NoGarbage /\ ZeroSizeAllEqual
=============================================================================

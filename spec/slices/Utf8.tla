-------------------------------- MODULE Utf8 --------------------------------
(***************************************************************************)
(* Layer A for C05 (strings): Go's UTF-8 rules, transcribed from the Go    *)
(* specification ("For statements with range clause", "Conversions to and  *)
(* from a string type", "Comparison operators", "Index/Slice expressions") *)
(* and the Unicode standard's table 3-7 "Well-formed UTF-8 byte sequences".*)
(* A string is a sequence of bytes 0..255; runes are integers.             *)
(***************************************************************************)
EXTENDS Integers, Sequences

RuneError == 65533        \* U+FFFD
MaxRune   == 1114111      \* U+10FFFF
SurrLo    == 55296        \* U+D800
SurrHi    == 57343        \* U+DFFF
Omit      == -9999

In(b, lo, hi) == lo <= b /\ b <= hi
MinI(a, b) == IF a < b THEN a ELSE b

(* Unicode table 3-7: first byte range, second byte range, width; the      *)
(* third and fourth bytes are always 80..BF.  Everything not in the table  *)
(* (80..BF as a first byte, C0, C1, F5..FF, a second byte outside the row's*)
(* range, a truncated sequence) is ill-formed.                             *)
Table37 ==
  << [l1 |->   0, h1 |-> 127, l2 |->   0, h2 |->   0, w |-> 1],    \* 00..7F
     [l1 |-> 194, h1 |-> 223, l2 |-> 128, h2 |-> 191, w |-> 2],    \* C2..DF  80..BF
     [l1 |-> 224, h1 |-> 224, l2 |-> 160, h2 |-> 191, w |-> 3],    \* E0      A0..BF
     [l1 |-> 225, h1 |-> 236, l2 |-> 128, h2 |-> 191, w |-> 3],    \* E1..EC  80..BF
     [l1 |-> 237, h1 |-> 237, l2 |-> 128, h2 |-> 159, w |-> 3],    \* ED      80..9F
     [l1 |-> 238, h1 |-> 239, l2 |-> 128, h2 |-> 191, w |-> 3],    \* EE..EF  80..BF
     [l1 |-> 240, h1 |-> 240, l2 |-> 144, h2 |-> 191, w |-> 4],    \* F0      90..BF
     [l1 |-> 241, h1 |-> 243, l2 |-> 128, h2 |-> 191, w |-> 4],    \* F1..F3  80..BF
     [l1 |-> 244, h1 |-> 244, l2 |-> 128, h2 |-> 143, w |-> 4] >>  \* F4      80..8F

Cont(b) == In(b, 128, 191)

\* the code point carried by a well-formed sequence of width w starting at s[1]
Payload(s, w) ==
  CASE w = 1 -> s[1]
    [] w = 2 -> (s[1] % 32) * 64 + (s[2] % 64)
    [] w = 3 -> (s[1] % 16) * 4096 + (s[2] % 64) * 64 + (s[3] % 64)
    [] w = 4 -> (s[1] % 8) * 262144 + (s[2] % 64) * 4096 + (s[3] % 64) * 64 + (s[4] % 64)

(* First rune of the non-empty byte sequence s and its width.  "If the     *)
(* iteration encounters an invalid UTF-8 sequence, the second value will   *)
(* be 0xFFFD, the Unicode replacement character, and the next iteration    *)
(* will advance a single byte in the string."                              *)
Decode(s) ==
  LET rows == {i \in 1..Len(Table37) : In(s[1], Table37[i].l1, Table37[i].h1)} IN
  IF rows = {} THEN [r |-> RuneError, w |-> 1]
  ELSE LET row == Table37[CHOOSE i \in rows : TRUE] IN
       IF /\ Len(s) >= row.w
          /\ row.w >= 2 => In(s[2], row.l2, row.h2)
          /\ \A k \in 3..row.w : Cont(s[k])
         THEN [r |-> Payload(s, row.w), w |-> row.w]
         ELSE [r |-> RuneError, w |-> 1]

\* for i, r := range s  -- the sequence of <<byte index, rune>> pairs, k is the 0-based start
RECURSIVE RangeFrom(_, _)
RangeFrom(s, k) ==
  IF k >= Len(s) THEN <<>>
  ELSE LET d == Decode(SubSeq(s, k + 1, MinI(k + 4, Len(s)))) IN << <<k, d.r>> >> \o RangeFrom(s, k + d.w)
Range(s) == RangeFrom(s, 0)

\* []rune(s)
Runes(s) == LET rg == Range(s) IN [i \in 1..Len(rg) |-> rg[i][2]]

(* string(r): "Converting a signed or unsigned integer value to a string   *)
(* type yields a string containing the UTF-8 representation of the         *)
(* integer.  Values outside the range of valid Unicode code points are     *)
(* converted to U+FFFD."  (surrogates are not valid code points)         *)
ValidRune(r) == 0 <= r /\ r <= MaxRune /\ ~In(r, SurrLo, SurrHi)
Encode(r) ==
  IF ~ValidRune(r) THEN <<239, 191, 189>>
  ELSE IF r <= 127 THEN <<r>>
  ELSE IF r <= 2047 THEN <<192 + r \div 64, 128 + (r % 64)>>
  ELSE IF r <= 65535 THEN <<224 + r \div 4096, 128 + ((r \div 64) % 64), 128 + (r % 64)>>
  ELSE <<240 + r \div 262144, 128 + ((r \div 4096) % 64), 128 + ((r \div 64) % 64), 128 + (r % 64)>>

\* an integer of any width, given as plane*65536 + low (0 <= low < 65536), so that 64-bit values stay
\* within TLC's integers: it is a valid code point only if its plane is one of the 17 Unicode planes
EncodeInt(plane, low) == IF plane < 0 \/ plane > 16 THEN Encode(-1) ELSE Encode(plane * 65536 + low)

\* []byte(s) and string(b): "a slice whose successive elements are the bytes of the string" and back
Bytes(s) == s
FromBytes(b) == b

\* string([]rune)
RECURSIVE FromRunes(_)
FromRunes(rs) == IF rs = <<>> THEN <<>> ELSE Encode(Head(rs)) \o FromRunes(Tail(rs))

\* comparison: "String values are comparable and ordered, lexically byte-wise."
Less(a, b) ==
  LET D == {i \in 1..MinI(Len(a), Len(b)) : a[i] # b[i]} IN
  IF D = {} THEN Len(a) < Len(b)
  ELSE LET i == CHOOSE x \in D : \A y \in D : x <= y IN a[i] < b[i]

\* s[i:j] with omitted operands; out of range -> run-time panic
SliceOK(s, i0, j0) ==
  LET i == IF i0 = Omit THEN 0 ELSE i0  j == IF j0 = Omit THEN Len(s) ELSE j0 IN 0 <= i /\ i <= j /\ j <= Len(s)
SliceOf(s, i0, j0) ==
  LET i == IF i0 = Omit THEN 0 ELSE i0  j == IF j0 = Omit THEN Len(s) ELSE j0 IN SubSeq(s, i + 1, j)
IndexOK(s, i) == 0 <= i /\ i < Len(s)

----------------------------------------------------------------------------
\* laws relating the definitions (checked by TLC on every enumerated string / rune)
LawProgress(s)  == LET rg == Range(s) IN \A i \in 1..Len(rg) : rg[i][1] < Len(s) /\ (i > 1 => rg[i][1] > rg[i-1][1])
LawValidRoundTrip(s) == (\A i \in 1..Len(Runes(s)) : Runes(s)[i] # RuneError) => FromRunes(Runes(s)) = s
LawEncodeDecode(r) == ValidRune(r) => Decode(Encode(r)) = [r |-> r, w |-> Len(Encode(r))]
=============================================================================

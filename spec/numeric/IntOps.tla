-------------------------------- MODULE IntOps --------------------------------
(***************************************************************************)
(* Layer A for C02: Go's integer operators, parametric in the width W and  *)
(* the signedness s of the operand type, transcribed from the Go spec      *)
(* ("Arithmetic operators", "Integer operators", "Integer overflow",       *)
(* "Conversions between numeric types").  A value of an integer type is    *)
(* the MATHEMATICAL integer it denotes (negative for negative signed       *)
(* values); every operator is "compute in Z, then Wrap into the type".     *)
(* TLC integers are 32 bit, so this module is evaluated only for W <= 16;  *)
(* BV.tla carries the same definitions to W = 32, 64 limb-wise and is      *)
(* model-checked against this module (BVEquiv.tla).                        *)
(***************************************************************************)
EXTENDS Integers

P2(n) == 2 ^ n

MinOf(W, s) == IF s THEN -P2(W - 1) ELSE 0
MaxOf(W, s) == IF s THEN P2(W - 1) - 1 ELSE P2(W) - 1
Values(W, s) == MinOf(W, s) .. MaxOf(W, s)

\* "integer overflow": the result is the unique value of the type congruent to x modulo 2^W
WrapDef(W, s, x) == CHOOSE v \in Values(W, s) : (v - x) % P2(W) = 0
\* the same, computed
Wrap(W, s, x) == LET u == x % P2(W) IN IF s /\ u >= P2(W - 1) THEN u - P2(W) ELSE u

\* the bit pattern of a value, as a natural number below 2^W
ToU(W, x) == x % P2(W)

\* an operator either yields a value or raises a run-time panic
Panic  == [panic |-> TRUE,  v |-> 0]
Val(x) == [panic |-> FALSE, v |-> x]

Abs(x) == IF x < 0 THEN -x ELSE x

Add(W, s, a, b) == Wrap(W, s, a + b)
Sub(W, s, a, b) == Wrap(W, s, a - b)
Neg(W, s, a)    == Wrap(W, s, 0 - a)

\* a*b does not fit TLC's 32-bit integers for two unsigned 16-bit operands; for that case the product is
\* taken modulo 2^W piecewise:  a*b = a*lo(b) + 2^8 * (a*hi(b)),  and only (a*hi(b)) mod 2^(W-8) matters.
\* MulSplit = a*b (mod 2^W) is checked against the direct definition for every 8-bit pair in BVEquiv.
MulSplit(W, a, b) == LET ua == ToU(W, a)  ub == ToU(W, b)
                     IN ua * (ub % 256) + ((ua * (ub \div 256)) % P2(W - 8)) * 256
Mul(W, s, a, b) == IF s \/ W <= 8 THEN Wrap(W, s, a * b) ELSE Wrap(W, s, MulSplit(W, a, b))

\* "q = x / y truncated towards zero",  "x = q*y + r  and  |r| < |y|"
TruncDiv(a, b) == LET q == Abs(a) \div Abs(b) IN IF (a < 0) = (b < 0) THEN q ELSE -q
\* "if the dividend x is the most negative value for the int type of x, the quotient q = x / -1 is equal to x
\*  (and r = 0) due to two's-complement integer overflow" -- that is Wrap of the mathematical quotient
Quo(W, s, a, b) == IF b = 0 THEN Panic ELSE Val(Wrap(W, s, TruncDiv(a, b)))
Rem(W, s, a, b) == IF b = 0 THEN Panic ELSE Val(Wrap(W, s, a - b * TruncDiv(a, b)))

\* shifts: c is the mathematical value of the count, cs whether the count's type is signed.
\* "shifts behave as if the left operand is shifted n times by 1 for a shift count of n":
\* x << n multiplies by 2^n (bits shifted out are lost), x >> n is x / 2^n truncated towards NEGATIVE infinity;
\* "if the value of a signed shift count is negative, a run-time panic occurs".
Shl(W, s, a, c, cs) ==
  IF cs /\ c < 0 THEN Panic
  ELSE IF c >= W THEN Val(0)
  ELSE Val(Wrap(W, s, (ToU(W, a) % P2(W - c)) * P2(c)))      \* = a * 2^c modulo 2^W, without leaving 32 bits
Shr(W, s, a, c, cs) ==
  IF cs /\ c < 0 THEN Panic
  ELSE IF c >= W THEN Val(IF a < 0 THEN -1 ELSE 0)
  ELSE Val(a \div P2(c))                                      \* \div is floor division

\* bitwise operators act on the two's-complement bit patterns
RECURSIVE BitF(_, _, _, _)
BitF(f, x, y, n) == IF n = 0 THEN 0 ELSE f[<<x % 2, y % 2>>] + 2 * BitF(f, x \div 2, y \div 2, n - 1)
AndB    == [p \in {0, 1} \X {0, 1} |-> IF p[1] = 1 /\ p[2] = 1 THEN 1 ELSE 0]
OrB     == [p \in {0, 1} \X {0, 1} |-> IF p[1] = 1 \/ p[2] = 1 THEN 1 ELSE 0]
XorB    == [p \in {0, 1} \X {0, 1} |-> IF p[1] # p[2] THEN 1 ELSE 0]
AndNotB == [p \in {0, 1} \X {0, 1} |-> IF p[1] = 1 /\ p[2] = 0 THEN 1 ELSE 0]
And(W, s, a, b)    == Wrap(W, s, BitF(AndB, ToU(W, a), ToU(W, b), W))
Or(W, s, a, b)     == Wrap(W, s, BitF(OrB, ToU(W, a), ToU(W, b), W))
Xor(W, s, a, b)    == Wrap(W, s, BitF(XorB, ToU(W, a), ToU(W, b), W))
AndNot(W, s, a, b) == Wrap(W, s, BitF(AndNotB, ToU(W, a), ToU(W, b), W))
\* "^x  bitwise complement  is m ^ x  with m = 'all bits set to 1' for unsigned x and m = -1 for signed x"
Not(W, s, a) == Xor(W, s, a, IF s THEN -1 ELSE MaxOf(W, FALSE))

Eq(a, b) == a = b
Ne(a, b) == a # b
Lt(a, b) == a < b
Le(a, b) == a <= b
Gt(a, b) == a > b
Ge(a, b) == a >= b

\* "if the value is a signed integer, it is sign extended to implicit infinite precision; otherwise it is zero
\*  extended. It is then truncated to fit in the result type's size."  The extension is decided by the SOURCE type:
\* it is what makes x (the value the source type denotes) the thing that is truncated.
Conv(tw, ts, x) == Wrap(tw, ts, x)

\* the value a W-bit pattern u (0 <= u < 2^W) denotes in a type of signedness s
FromU(W, s, u) == IF s /\ u >= P2(W - 1) THEN u - P2(W) ELSE u
=============================================================================

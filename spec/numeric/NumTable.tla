------------------------------- MODULE NumTable -------------------------------
(***************************************************************************)
(* Case generator for C02.  TLC enumerates, for each integer type shape    *)
(* (width, signedness), the cross product of the operand sets handed in    *)
(* by the driver (boundary values + seeded randoms, as limb tuples) and    *)
(* prints for every case the result the specification assigns to it:       *)
(*   Kind = "bin"   a x b  -> + - * / % & | ^ &^ == != < <= > >=, -a, ^a   *)
(*   Kind = "shift" a x (count shape x count) -> a << c, a >> c            *)
(*   Kind = "conv"  a x target shape -> T(a)                               *)
(* Values are bit patterns as little-endian 8-bit limbs (BV); for widths   *)
(* <= 16 every printed result is also required to equal the integer        *)
(* definition of IntOps (invariant IntAgree), and the algebraic laws that  *)
(* the property statement names are checked on every case at every width   *)
(* (invariant Laws).  Two-step choice of the left operand spreads the work *)
(* over TLC's workers.                                                     *)
(***************************************************************************)
EXTENDS BV, TLC, Json

CONSTANTS SH,      \* [bin |-> shapes, shift |-> shapes, conv |-> shapes]: per kind, the sequence of shapes
                   \* [w |-> 8|16|32|64, s |-> BOOLEAN] whose left operands are enumerated in this run
          Sets,    \* [width -> sequence of limb tuples]  operands of binary and unary operators
          VSets,   \* [width -> sequence of limb tuples]  sources of conversions (every value for width 8)
          XSets,   \* [width -> sequence of limb tuples]  left operands of shifts
          CSets    \* [count width -> sequence of limb tuples]  shift counts (bit patterns of the count's type)

AllShapes == << [w |-> 8, s |-> TRUE],  [w |-> 8, s |-> FALSE],  [w |-> 16, s |-> TRUE], [w |-> 16, s |-> FALSE],
                [w |-> 32, s |-> TRUE], [w |-> 32, s |-> FALSE], [w |-> 64, s |-> TRUE], [w |-> 64, s |-> FALSE] >>
G == 8

VARIABLES ph, Kind, si, grp, ai
vars == <<ph, Kind, si, grp, ai>>
ASet(kd, k) == IF kd = "shift" THEN XSets[SH[kd][k].w] ELSE IF kd = "conv" THEN VSets[SH[kd][k].w] ELSE Sets[SH[kd][k].w]
Init == ph = 0 /\ Kind = "" /\ si = 0 /\ grp = 0 /\ ai = 0
Next == \/ /\ ph = 0 /\ ph' = 1 /\ Kind' \in {"bin", "shift", "conv"} /\ si' \in 1..Len(SH[Kind']) /\ grp' \in 0..(G - 1) /\ ai' = 0
        \/ /\ ph = 1 /\ ph' = 2 /\ ai' \in {i \in 1..Len(ASet(Kind, si)) : i % G = grp} /\ UNCHANGED <<Kind, si, grp>>
Spec == Init /\ [][Next]_vars

Ready == ph = 2
Wd == SH[Kind][si].w
Sg == SH[Kind][si].s
A  == ASet(Kind, si)[ai]
BS == Sets[Wd]
n  == Wd \div 8

R(r) == IF r.panic THEN "panic" ELSE r.v

\* ------------------------------------------------------------------ binary and unary operators
\* BQuo/BRem of BV, with the shift-subtract division evaluated once:  BQuo = QR[1], BRem = QR[2]
QR(b) == IF Sg THEN BSDivMod(A, b) ELSE BUDivMod(A, b)
BinRow(b) == LET qr == IF BIsZero(b) THEN <<"panic", "panic">> ELSE QR(b) IN
             << BAdd(A, b), BSub(A, b), BMul(A, b), qr[1], qr[2],
                BAnd(A, b), BOr(A, b), BXor(A, b), BAndNot(A, b),
                BEq(A, b), ~BEq(A, b), BLt(Sg, A, b), BLe(Sg, A, b), BLt(Sg, b, A), BLe(Sg, b, A) >>
BinOut == [k |-> "bin", w |-> Wd, s |-> Sg, a |-> A, neg |-> BNeg(A), not |-> BNot(A),
           rows |-> [j \in 1..Len(BS) |-> BinRow(BS[j])]]

\* ------------------------------------------------------------------ shifts: count of any integer type
ShiftOut == [k |-> "shift", w |-> Wd, s |-> Sg, a |-> A,
             rows |-> [c \in 1..Len(AllShapes) |->
                         LET cw == AllShapes[c].w  cs == AllShapes[c].s
                         IN [j \in 1..Len(CSets[cw]) |-> << R(BShl(A, CSets[cw][j], cs)), R(BShr(Sg, A, CSets[cw][j], cs)) >>]]]

\* ------------------------------------------------------------------ conversions to every shape
ConvOut == [k |-> "conv", w |-> Wd, s |-> Sg, a |-> A,
            rows |-> [t \in 1..Len(AllShapes) |-> BConv(A, Sg, AllShapes[t].w \div 8)]]

Emit == Ready => PrintT(ToJson(CASE Kind = "bin" -> BinOut [] Kind = "shift" -> ShiftOut [] OTHER -> ConvOut))

\* ------------------------------------------------------------------ the printed results equal the integer definitions (W <= 16)
IA == BToInt(A, Sg)
SameR(r, br, s) == r.panic = br.panic /\ (~r.panic => r.v = BToInt(br.v, s))
IntAgreeBin == \A j \in 1..Len(BS) : LET b == BS[j]  ib == BToInt(b, Sg) IN
   /\ BToInt(BAdd(A, b), Sg) = Add(Wd, Sg, IA, ib) /\ BToInt(BSub(A, b), Sg) = Sub(Wd, Sg, IA, ib)
   /\ BToInt(BMul(A, b), Sg) = Mul(Wd, Sg, IA, ib)
   /\ SameR(Quo(Wd, Sg, IA, ib), BQuo(Sg, A, b), Sg) /\ SameR(Rem(Wd, Sg, IA, ib), BRem(Sg, A, b), Sg)
   /\ BToInt(BAnd(A, b), Sg) = And(Wd, Sg, IA, ib) /\ BToInt(BOr(A, b), Sg) = Or(Wd, Sg, IA, ib)
   /\ BToInt(BXor(A, b), Sg) = Xor(Wd, Sg, IA, ib) /\ BToInt(BAndNot(A, b), Sg) = AndNot(Wd, Sg, IA, ib)
   /\ BEq(A, b) = Eq(IA, ib) /\ BLt(Sg, A, b) = Lt(IA, ib) /\ BLe(Sg, A, b) = Le(IA, ib)
   /\ BToInt(BNeg(A), Sg) = Neg(Wd, Sg, IA) /\ BToInt(BNot(A), Sg) = Not(Wd, Sg, IA)
IntAgreeShift == \A c \in 1..Len(AllShapes) : LET cw == AllShapes[c].w  cs == AllShapes[c].s IN
   cw <= 16 => \A j \in 1..Len(CSets[cw]) : LET cl == CSets[cw][j]  ic == BToInt(cl, cs) IN
      /\ SameR(Shl(Wd, Sg, IA, ic, cs), BShl(A, cl, cs), Sg)
      /\ SameR(Shr(Wd, Sg, IA, ic, cs), BShr(Sg, A, cl, cs), Sg)
IntAgreeConv == \A t \in 1..Len(AllShapes) : LET tw == AllShapes[t].w  ts == AllShapes[t].s IN
   tw <= 16 => BToInt(BConv(A, Sg, tw \div 8), ts) = Conv(tw, ts, IA)
IntAgree == (Ready /\ Wd <= 16) =>
   CASE Kind = "bin" -> IntAgreeBin [] Kind = "shift" -> IntAgreeShift [] OTHER -> IntAgreeConv

\* ------------------------------------------------------------------ the laws the statement names, at every width
MinInt(m) == [i \in 1..m |-> IF i = m THEN 128 ELSE 0]
LawsBin == \A j \in 1..Len(BS) : LET b == BS[j]  qr == IF BIsZero(b) THEN <<BZero(n), BZero(n)>> ELSE QR(b)
                                       q == IF BIsZero(b) THEN BPanic(n) ELSE BVal(qr[1])
                                       r == IF BIsZero(b) THEN BPanic(n) ELSE BVal(qr[2]) IN
   /\ Wd <= 16 => (q = BQuo(Sg, A, b) /\ r = BRem(Sg, A, b))
   /\ BIsZero(b) <=> q.panic
   /\ BIsZero(b) <=> r.panic
   /\ ~BIsZero(b) =>
        /\ BAdd(BMul(q.v, b), r.v) = A                                   \* x = q*y + r
        /\ (Sg /\ A = MinInt(n) /\ b = BOnes(n)) => (q.v = A /\ BIsZero(r.v)) \* MinInt / -1 = MinInt, remainder 0
        /\ ~(Sg /\ A = MinInt(n) /\ b = BOnes(n)) =>                     \* |r| < |y|, r has the sign of x
             LET mag(x) == IF Sg /\ BIsNeg(x) THEN BNeg(x) ELSE x
             IN BULt(mag(r.v), mag(b)) /\ (BIsZero(r.v) \/ ~Sg \/ BIsNeg(r.v) = BIsNeg(A))
   /\ BSub(BAdd(A, b), b) = A /\ BAdd(A, b) = BAdd(b, A) /\ BMul(A, b) = BMul(b, A)
   /\ BOr(BAnd(A, b), BAndNot(A, b)) = A /\ BXor(BXor(A, b), b) = A
   /\ (BLt(Sg, A, b) \/ BLt(Sg, b, A)) <=> ~BEq(A, b)
   /\ BAdd(A, BNeg(A)) = BZero(n) /\ BAdd(BNot(A), BOne(n)) = BNeg(A)
LawsShift == \A c \in 1..Len(AllShapes) : LET cw == AllShapes[c].w  cs == AllShapes[c].s IN
   \A j \in 1..Len(CSets[cw]) : LET cl == CSets[cw][j]  l == BShl(A, cl, cs)  r == BShr(Sg, A, cl, cs) IN
      /\ l.panic = (cs /\ BIsNeg(cl)) /\ r.panic = l.panic
      /\ (~l.panic /\ CountGe(cl, Wd)) =>                                \* count >= width, whatever the count's own width
            /\ BIsZero(l.v)
            /\ r.v = (IF Sg /\ BIsNeg(A) THEN BOnes(n) ELSE BZero(n))
      /\ (~l.panic /\ BIsZero(cl)) => (l.v = A /\ r.v = A)
LawsConv == \A t \in 1..Len(AllShapes) : LET tn == AllShapes[t].w \div 8  v == BConv(A, Sg, tn) IN
      /\ tn <= n => v = SubSeq(A, 1, tn)                                 \* truncation keeps the low bits
      /\ tn > n => /\ SubSeq(v, 1, n) = A
                   /\ \A i \in (n + 1)..tn : v[i] = (IF Sg /\ BIsNeg(A) THEN 255 ELSE 0)   \* extension by the SOURCE type
      /\ BConv(v, AllShapes[t].s, n) = (IF tn >= n THEN A ELSE BConv(SubSeq(A, 1, tn), AllShapes[t].s, n))
Laws == Ready => CASE Kind = "bin" -> LawsBin [] Kind = "shift" -> LawsShift [] OTHER -> LawsConv
=============================================================================

\* standalone run:  tlc -config equiv8.cfg MCEquiv8.tla
SPECIFICATION Spec
CONSTANTS
  W = 8
  VS <- c_VS
  CS8 <- c_CS8
  CS16 <- c_CS16
INVARIANTS Arith DivRem Bits Cmp Shifts Convs RoundTrip
CHECK_DEADLOCK FALSE

------------------------------- MODULE LowerImpl -------------------------------
(***************************************************************************)
(* Layer B (never the judge; reported only): the guarded lowering that     *)
(* ssa/expr.go BinOp emits for  x << y,  x >> y,  x / y,  x % y,  written  *)
(* as the sequence of LLVM-level steps on bit patterns, model-checked      *)
(* against IntOps for 8- and 16-bit operands and counts (every pattern of  *)
(* the 8-bit operand, boundary patterns otherwise).                        *)
(*   shl/lshr/ashr with a count >= width yield POISON, sdiv/udiv by zero   *)
(*   and sdiv MinInt,-1 TRAP: the lowering must never let either reach the *)
(*   result.                                                               *)
(* CmpFirst = TRUE : the count is compared with the width in the count's   *)
(*                   own type, then converted to the operand's type        *)
(* CmpFirst = FALSE: converted (truncated) first, compared afterwards --   *)
(*                   the order the tree had before a5b7117; TLC answers    *)
(*                   with the counterexample  uint8 << uint16(256)         *)
(***************************************************************************)
EXTENDS IntOps, TLC

CONSTANTS CmpFirst, XS, CSet    \* XS: operand patterns (as naturals) per width; CSet: count patterns per width

Poison == -1
Trap   == -2

\* LLVM casts on patterns
TruncTo(u, w) == u % P2(w)
ExtTo(u, fw, fs, w) == ToU(w, FromU(fw, fs, u))            \* sext if fs, zext otherwise
CastInt(u, fw, fs, w) == IF fw > w THEN TruncTo(u, w) ELSE ExtTo(u, fw, fs, w)   \* castInt: by SOURCE signedness

LShl(u, c, w)  == IF c >= w THEN Poison ELSE (u * P2(c)) % P2(w)
LLShr(u, c, w) == IF c >= w THEN Poison ELSE u \div P2(c)
LAShr(u, c, w) == IF c >= w THEN Poison ELSE ToU(w, FromU(w, TRUE, u) \div P2(c))
Select(p, a, b) == IF p THEN a ELSE b

\* x: pattern of width w, signedness s;  y: pattern of width cw, signedness cs
LowerShift(op, w, s, x, cw, cs, y) ==
  IF cs /\ FromU(cw, TRUE, y) < 0 THEN Panic                       \* AssertNegativeShift (needsNegativeCheck)
  ELSE LET yc == IF cw = w THEN y ELSE CastInt(y, cw, cs, w)       \* b.Convert(x.Type, y)
           ov == IF CmpFirst THEN y >= w ELSE yc >= w              \* icmp uge
       IN Val(IF op = "shl" THEN Select(ov, 0, LShl(x, yc, w))
              ELSE IF s THEN LAShr(x, Select(ov, w - 1, yc), w)
              ELSE Select(ov, 0, LLShr(x, yc, w)))

SDiv(a, b, w) == IF b = 0 \/ (a = P2(w - 1) /\ b = P2(w) - 1) THEN Trap
                 ELSE ToU(w, TruncDiv(FromU(w, TRUE, a), FromU(w, TRUE, b)))
SRem(a, b, w) == IF b = 0 \/ (a = P2(w - 1) /\ b = P2(w) - 1) THEN Trap
                 ELSE LET va == FromU(w, TRUE, a)  vb == FromU(w, TRUE, b) IN ToU(w, va - vb * TruncDiv(va, vb))
UDiv(a, b) == IF b = 0 THEN Trap ELSE a \div b
URem(a, b) == IF b = 0 THEN Trap ELSE a % b

LowerDiv(op, w, s, x, y) ==
  IF y = 0 THEN Panic                                               \* AssertDivideByZero
  ELSE LET safeY0 == Select(y = 0, 1, y)
       IN IF ~s THEN Val(IF op = "quo" THEN UDiv(x, safeY0) ELSE URem(x, safeY0))
          ELSE LET ov    == x = P2(w - 1) /\ y = P2(w) - 1
                   safeX == Select(ov, 0, x)
                   safeY == Select(ov, 1, safeY0)
                   v     == IF op = "quo" THEN SDiv(safeX, safeY, w) ELSE SRem(safeX, safeY, w)
               IN Val(IF op = "quo" THEN Select(ov, x, v) ELSE Select(ov, 0, v))

VARIABLES ph, w, s, x
vars == <<ph, w, s, x>>
Init == ph = 0 /\ w = 8 /\ s = FALSE /\ x = 0
Next == /\ ph = 0 /\ ph' = 1 /\ w' \in {8, 16} /\ s' \in BOOLEAN /\ x' \in XS[w']
Spec == Init /\ [][Next]_vars

SameP(spec, impl) == spec.panic = impl.panic /\ (~spec.panic => impl.v = ToU(w, spec.v))
ShiftRefines == ph = 1 => \A cw \in {8, 16} : \A cs \in BOOLEAN : \A y \in CSet[cw] :
   /\ SameP(Shl(w, s, FromU(w, s, x), FromU(cw, cs, y), cs), LowerShift("shl", w, s, x, cw, cs, y))
   /\ SameP(Shr(w, s, FromU(w, s, x), FromU(cw, cs, y), cs), LowerShift("shr", w, s, x, cw, cs, y))
DivRefines == ph = 1 => \A y \in XS[w] :
   /\ SameP(Quo(w, s, FromU(w, s, x), FromU(w, s, y)), LowerDiv("quo", w, s, x, y))
   /\ SameP(Rem(w, s, FromU(w, s, x), FromU(w, s, y)), LowerDiv("rem", w, s, x, y))
=============================================================================

\* standalone run:  tlc -config table.cfg MCTable.tla   (the driver generates the same with seeded operand sets)
SPECIFICATION Spec
CONSTANTS
  SH <- c_SH
  Sets <- c_Sets
  VSets <- c_VSets
  XSets <- c_XSets
  CSets <- c_CSets
INVARIANTS
  Emit
  IntAgree
  Laws
CHECK_DEADLOCK FALSE

\* standalone run:  tlc -config equiv16.cfg MCEquiv16.tla   (the driver generates the same with seeded operand sets)
SPECIFICATION Spec
CONSTANTS
  W = 16
  VS <- c_VS
  CS8 <- c_CS8
  CS16 <- c_CS16
INVARIANTS
  Arith
  DivRem
  Bits
  Cmp
  Shifts
  Convs
  RoundTrip
CHECK_DEADLOCK FALSE

---- MODULE MCSweep8 ----
EXTENDS NumSweep8
c_Ops == {"add", "sub", "mul", "quo", "rem", "and", "or", "xor", "andnot", "eq", "ne", "lt", "le", "gt", "ge", "neg", "not", "shl_cs", "shl_cu", "shr_cs", "shr_cu"}
====

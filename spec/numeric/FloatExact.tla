------------------------------ MODULE FloatExact ------------------------------
(***************************************************************************)
(* IEEE-754 arithmetic as Go specifies it for float32/float64, restricted  *)
(* to the domain where no rounding happens: a finite non-zero value is     *)
(* (-1)^neg * m * 2^e with m odd and small, plus the symbolic specials     *)
(* +0, -0, +Inf, -Inf, NaN.  An operator yields the EXACT mathematical     *)
(* result when that is representable with p bits of precision (p = 24 for  *)
(* float32, 53 for float64), and the marker Inexact otherwise -- such      *)
(* cases are outside this specification and are not checked (rounding is   *)
(* out of TLA+'s reach here: no reals, 32-bit integers).                   *)
(* All magnitudes stay below 2^31 by the choice of the domain.             *)
(***************************************************************************)
EXTENDS Integers

Fin(neg, m, e) == [k |-> "fin",  neg |-> neg,   m |-> m, e |-> e]
Zero(neg)      == [k |-> "zero", neg |-> neg,   m |-> 0, e |-> 0]
Inf(neg)       == [k |-> "inf",  neg |-> neg,   m |-> 0, e |-> 0]
NaN            == [k |-> "nan",  neg |-> FALSE, m |-> 0, e |-> 0]
Inexact        == [k |-> "inexact", neg |-> FALSE, m |-> 0, e |-> 0]

IsNaN(x) == x.k = "nan"
AbsI(v) == IF v < 0 THEN -v ELSE v
MinI(a, b) == IF a < b THEN a ELSE b

\* M * 2^e for a non-zero integer M, brought to the odd-mantissa form
RECURSIVE Norm(_, _, _)
Norm(neg, M, e) == IF M % 2 = 0 THEN Norm(neg, M \div 2, e + 1) ELSE Fin(neg, M, e)
FromScaled(M, e) == IF M = 0 THEN Zero(FALSE) ELSE Norm(M < 0, AbsI(M), e)     \* an exact zero SUM is +0 (round to nearest)

\* representable with p bits of precision (exponents of the domain are far inside both formats' ranges)
Fits(x, p) == x.k # "fin" \/ p >= 31 \/ x.m < 2 ^ p
Rep(x, p) == IF Fits(x, p) THEN x ELSE Inexact

\* the integer  x / 2^e0  for e0 <= x.e
Sc(x, e0) == IF x.k = "zero" THEN 0 ELSE (IF x.neg THEN -1 ELSE 1) * x.m * (2 ^ (x.e - e0))

Neg(x) == IF IsNaN(x) THEN NaN ELSE [x EXCEPT !.neg = ~x.neg]

\* (nested IF: the first applicable rule wins)
Add(x, y, p) ==
  IF IsNaN(x) \/ IsNaN(y) THEN NaN
  ELSE IF x.k = "inf" /\ y.k = "inf" THEN (IF x.neg = y.neg THEN x ELSE NaN)      \* Inf - Inf = NaN
  ELSE IF x.k = "inf" THEN x
  ELSE IF y.k = "inf" THEN y
  ELSE IF x.k = "zero" /\ y.k = "zero" THEN Zero(x.neg /\ y.neg)
  ELSE IF x.k = "zero" THEN y
  ELSE IF y.k = "zero" THEN x
  ELSE LET e0 == MinI(x.e, y.e) IN Rep(FromScaled(Sc(x, e0) + Sc(y, e0), e0), p)
Sub(x, y, p) == Add(x, Neg(y), p)

Mul(x, y, p) ==
  LET sg == x.neg # y.neg IN
  IF IsNaN(x) \/ IsNaN(y) THEN NaN
  ELSE IF (x.k = "inf" /\ y.k = "zero") \/ (x.k = "zero" /\ y.k = "inf") THEN NaN
  ELSE IF x.k = "inf" \/ y.k = "inf" THEN Inf(sg)
  ELSE IF x.k = "zero" \/ y.k = "zero" THEN Zero(sg)
  ELSE Rep(Norm(sg, x.m * y.m, x.e + y.e), p)

Quo(x, y, p) ==
  LET sg == x.neg # y.neg IN
  IF IsNaN(x) \/ IsNaN(y) THEN NaN
  ELSE IF x.k = "inf" /\ y.k = "inf" THEN NaN
  ELSE IF x.k = "zero" /\ y.k = "zero" THEN NaN                \* 0/0
  ELSE IF x.k = "inf" THEN Inf(sg)
  ELSE IF y.k = "inf" THEN Zero(sg)
  ELSE IF y.k = "zero" THEN Inf(sg)                             \* x/0 = +-Inf: no panic for floats
  ELSE IF x.k = "zero" THEN Zero(sg)
  ELSE IF x.m % y.m = 0 THEN Rep(Norm(sg, x.m \div y.m, x.e - y.e), p) ELSE Inexact

\* comparisons: NaN compares unequal to everything including itself, -0 == +0
Ordered(x, y) == ~IsNaN(x) /\ ~IsNaN(y)
LtO(x, y) ==   \* for ordered operands
  IF x.k = "inf" /\ x.neg THEN ~(y.k = "inf" /\ y.neg)
  ELSE IF x.k = "inf" THEN FALSE
  ELSE IF y.k = "inf" THEN ~y.neg
  ELSE LET e0 == MinI(IF x.k = "fin" THEN x.e ELSE 0, IF y.k = "fin" THEN y.e ELSE 0) IN Sc(x, e0) < Sc(y, e0)
Lt(x, y) == Ordered(x, y) /\ LtO(x, y)
Gt(x, y) == Ordered(x, y) /\ LtO(y, x)
Eq(x, y) == Ordered(x, y) /\ ~LtO(x, y) /\ ~LtO(y, x)
Ne(x, y) == ~Eq(x, y)
Le(x, y) == Lt(x, y) \/ Eq(x, y)
Ge(x, y) == Gt(x, y) \/ Eq(x, y)

\* float -> integer: "the fraction is discarded (truncation towards zero)"; defined only when the truncated value is
\* representable in the target (otherwise the Go spec leaves the result implementation-specific: not checked).
\* ok = FALSE marks those.  |values| < 2^30 by the domain, so every value fits a 32- or 64-bit signed target.
Trunc(x) == IF x.k = "zero" THEN 0
            ELSE (IF x.neg THEN -1 ELSE 1) * (IF x.e >= 0 THEN x.m * (2 ^ x.e) ELSE x.m \div (2 ^ (0 - x.e)))
InRange(v, W, s) == IF s THEN (W >= 32 \/ (-(2 ^ (W - 1)) <= v /\ v < 2 ^ (W - 1)))
                         ELSE (v >= 0 /\ (W >= 32 \/ v < 2 ^ W))
ToInt(x, W, s) == IF x.k \in {"fin", "zero"} /\ InRange(Trunc(x), W, s) THEN [ok |-> TRUE, v |-> Trunc(x)]
                  ELSE [ok |-> FALSE, v |-> 0]

\* integer -> float: exact when the integer has at most p significant bits
FromInt(v, p) == Rep(FromScaled(v, 0), p)

\* float32 <-> float64: value preserving where representable
ConvF(x, p) == Rep(x, p)

\* ------------------------------------------------------------------ complex: pairs <<re, im>>, componentwise in the same precision
Bad(x) == x.k = "inexact"
CAdd(x, y, p) == <<Add(x[1], y[1], p), Add(x[2], y[2], p)>>
CSub(x, y, p) == <<Sub(x[1], y[1], p), Sub(x[2], y[2], p)>>
CNeg(x) == <<Neg(x[1]), Neg(x[2])>>
CEq(x, y) == Eq(x[1], y[1]) /\ Eq(x[2], y[2])           \* "equal if both real(u) == real(v) and imag(u) == imag(v)"
CNe(x, y) == ~CEq(x, y)
FinOrZero(x) == x.k \in {"fin", "zero"}
\* (a+bi)(c+di) = (ac-bd) + (ad+bc)i, defined here only for finite operands when every intermediate value is exact
CMul(x, y, p) == LET ac == Mul(x[1], y[1], p)  bd == Mul(x[2], y[2], p)  ad == Mul(x[1], y[2], p)  bc == Mul(x[2], y[1], p)
                 IN IF ~(FinOrZero(x[1]) /\ FinOrZero(x[2]) /\ FinOrZero(y[1]) /\ FinOrZero(y[2])) THEN <<Inexact, Inexact>>
                    ELSE IF Bad(ac) \/ Bad(bd) \/ Bad(ad) \/ Bad(bc) THEN <<Inexact, Inexact>>
                    ELSE <<Sub(ac, bd, p), Add(ad, bc, p)>>
\* (a+bi)/(c+di) = ((ac+bd) + (bc-ad)i) / (c^2+d^2), defined here only for finite operands whose divisor has
\* c^2+d^2 a power of two (one component zero and the other a power of two, or |c| = |d| a power of two)
Pow2F(x) == x.k = "fin" /\ x.m = 1
NiceDivisor(y) == \/ Pow2F(y[1]) /\ y[2].k = "zero"
                  \/ y[1].k = "zero" /\ Pow2F(y[2])
                  \/ Pow2F(y[1]) /\ Pow2F(y[2]) /\ y[1].e = y[2].e
CQuo(x, y, p) ==
  IF ~(FinOrZero(x[1]) /\ FinOrZero(x[2]) /\ NiceDivisor(y)) THEN <<Inexact, Inexact>>
  ELSE LET den == Add(Mul(y[1], y[1], 53), Mul(y[2], y[2], 53), 53)
           nre == Add(Mul(x[1], y[1], 53), Mul(x[2], y[2], 53), 53)
           nim == Sub(Mul(x[2], y[1], 53), Mul(x[1], y[2], 53), 53)
       IN <<Rep(Quo(nre, den, 53), p), Rep(Quo(nim, den, 53), p)>>
=============================================================================

------------------------------- MODULE BVEquiv -------------------------------
(***************************************************************************)
(* Model-checks the limb library BV against the integer definitions of     *)
(* IntOps: for every operand pattern a in VS (chosen in two steps so that   *)
(* the work spreads over TLC's workers), every b in VS, both signednesses,  *)
(* every operator, every 8- and 16-bit count type and conversion target,   *)
(* BV's result read back as an integer equals IntOps's result.             *)
(*   W = 8 : VS = all 256 patterns  (every operand pair)                   *)
(*   W = 16: VS = the boundary set                                         *)
(***************************************************************************)
EXTENDS BV, TLC

CONSTANTS W,        \* 8 or 16
          VS,       \* sequence of operand bit patterns (naturals below 2^W)
          CS8, CS16 \* sequences of count bit patterns for 8- and 16-bit count types

n == W \div 8
VARIABLES ph, grp, ai, s
vars == <<ph, grp, ai, s>>
G == 16
Init == ph = 0 /\ grp = 0 /\ ai = 0 /\ s = FALSE
Next == \/ /\ ph = 0 /\ ph' = 1 /\ grp' \in 0..(G - 1) /\ UNCHANGED <<ai, s>>
        \/ /\ ph = 1 /\ ph' = 2 /\ ai' \in {i \in 1..Len(VS) : i % G = grp} /\ s' \in BOOLEAN /\ UNCHANGED grp
Spec == Init /\ [][Next]_vars

Ready == ph = 2
A  == FromU(W, s, VS[ai])                 \* the value
AL == BFromInt(n, A)                      \* its limbs
Bv(j) == FromU(W, s, VS[j])
BL(j) == BFromInt(n, Bv(j))
I(x) == BToInt(x, s)

SameR(r, br) == r.panic = br.panic /\ (~r.panic => r.v = I(br.v))

Arith == Ready => \A j \in 1..Len(VS) :
   /\ I(BAdd(AL, BL(j))) = Add(W, s, A, Bv(j))
   /\ I(BSub(AL, BL(j))) = Sub(W, s, A, Bv(j))
   /\ I(BMul(AL, BL(j))) = Mul(W, s, A, Bv(j))
   /\ I(BNeg(AL)) = Neg(W, s, A)
DivRem == Ready => \A j \in 1..Len(VS) :
   /\ SameR(Quo(W, s, A, Bv(j)), BQuo(s, AL, BL(j)))
   /\ SameR(Rem(W, s, A, Bv(j)), BRem(s, AL, BL(j)))
Bits == Ready => \A j \in 1..Len(VS) :
   /\ I(BAnd(AL, BL(j))) = And(W, s, A, Bv(j))
   /\ I(BOr(AL, BL(j))) = Or(W, s, A, Bv(j))
   /\ I(BXor(AL, BL(j))) = Xor(W, s, A, Bv(j))
   /\ I(BAndNot(AL, BL(j))) = AndNot(W, s, A, Bv(j))
   /\ I(BNot(AL)) = Not(W, s, A)
Cmp == Ready => \A j \in 1..Len(VS) :
   /\ BEq(AL, BL(j)) = Eq(A, Bv(j))
   /\ BLt(s, AL, BL(j)) = Lt(A, Bv(j))
   /\ BLe(s, AL, BL(j)) = Le(A, Bv(j))
   /\ BLt(s, BL(j), AL) = Gt(A, Bv(j))
   /\ BLe(s, BL(j), AL) = Ge(A, Bv(j))
ShiftsFor(cw, cseq) == \A cs \in BOOLEAN : \A k \in 1..Len(cseq) :
   LET c == FromU(cw, cs, cseq[k])  cl == BFromInt(cw \div 8, c) IN
   /\ SameR(Shl(W, s, A, c, cs), BShl(AL, cl, cs))
   /\ SameR(Shr(W, s, A, c, cs), BShr(s, AL, cl, cs))
Shifts == Ready => ShiftsFor(8, CS8) /\ ShiftsFor(16, CS16)
Convs == Ready => \A tw \in {8, 16} : \A ts \in BOOLEAN :
   BToInt(BConv(AL, s, tw \div 8), ts) = Conv(tw, ts, A)
RoundTrip == Ready => BToU(AL, 1) = VS[ai]

\* the computed Wrap is the declarative one; MulSplit is the product modulo 2^16 wherever the product fits
ASSUME \A sg \in BOOLEAN : \A x \in -700..700 : Wrap(8, sg, x) = WrapDef(8, sg, x)
ASSUME \A x \in {-70000, -65537, -65536, -65535, -32769, -32768, -1, 0, 1, 32767, 32768, 65535, 65536, 65537, 70000} :
          \A sg \in BOOLEAN : Wrap(16, sg, x) = WrapDef(16, sg, x)
ASSUME \A x \in {0, 1, 2, 255, 256, 257, 4095, 12345, 21845, 32767} : \A y \in {0, 1, 2, 3, 255, 256, 257, 21845, 43690, 65534, 65535} :
          MulSplit(16, x, y) % 65536 = (x * y) % 65536
=============================================================================

\* standalone run:  tlc -config sweep8.cfg MCSweep8.tla   (the driver generates the same with seeded operand sets)
SPECIFICATION Spec
CONSTANTS
  Ops <- c_Ops
INVARIANTS
  Emit
  Named
CHECK_DEADLOCK FALSE

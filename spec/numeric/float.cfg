\* standalone run:  tlc -config float.cfg MCFloat.tla   (the driver generates the same with seeded operand sets)
SPECIFICATION Spec
CONSTANTS
  FS <- c_FS
  CFS <- c_CFS
  IS <- c_IS
  Kinds <- c_Kinds
INVARIANTS
  Emit
  Laws
CHECK_DEADLOCK FALSE

------------------------------- MODULE FloatTable ------------------------------
(***************************************************************************)
(* Case generator for the float/complex part of C02: TLC enumerates the    *)
(* cross product of the domain handed in by the driver and prints, for     *)
(* each case, the result FloatExact assigns (or "inexact"/"none" = outside *)
(* the specification, not checked).                                        *)
(*   Kind = "float"   a x b in FS: + - * / at p = 24 and p = 53, the six   *)
(*                    comparisons; -a, float32(a), T(a) for the 8 integer  *)
(*                    shapes                                               *)
(*   Kind = "complex" (a1,a2) x (b1,b2) in CFS^4: + - * / == != , -a       *)
(*   Kind = "int"     v in IS: float32(v), float64(v)                      *)
(* A float is printed as <<code, m, e>>: code 0 +fin, 1 -fin, 2 +0, 3 -0,  *)
(* 4 +Inf, 5 -Inf, 6 NaN, 7 inexact.                                       *)
(***************************************************************************)
EXTENDS FloatExact, Sequences, TLC, Json

CONSTANTS Kinds, FS, CFS, IS    \* Kinds: the subset of {"float", "complex", "int"} to enumerate

Shapes == << <<8, TRUE>>, <<8, FALSE>>, <<16, TRUE>>, <<16, FALSE>>, <<32, TRUE>>, <<32, FALSE>>, <<64, TRUE>>, <<64, FALSE>> >>
G == 8
NK(kd) == IF kd = "float" THEN Len(FS) ELSE IF kd = "complex" THEN Len(CFS) * Len(CFS) ELSE Len(IS)

VARIABLES ph, Kind, grp, ai
vars == <<ph, Kind, grp, ai>>
N == NK(Kind)
Init == ph = 0 /\ Kind = "" /\ grp = 0 /\ ai = 0
Next == \/ /\ ph = 0 /\ ph' = 1 /\ Kind' \in Kinds /\ grp' \in 0..(G - 1) /\ ai' = 0
        \/ /\ ph = 1 /\ ph' = 2 /\ ai' \in {i \in 1..N : i % G = grp} /\ UNCHANGED <<Kind, grp>>
Spec == Init /\ [][Next]_vars

F(x) == << CASE x.k = "fin" -> (IF x.neg THEN 1 ELSE 0) [] x.k = "zero" -> (IF x.neg THEN 3 ELSE 2)
             [] x.k = "inf" -> (IF x.neg THEN 5 ELSE 4) [] x.k = "nan" -> 6 [] OTHER -> 7, x.m, x.e >>
C2(z) == <<F(z[1]), F(z[2])>>

FloatOut == LET a == FS[ai] IN
  [k |-> "float", i |-> ai, a |-> F(a), neg |-> F(Neg(a)), c24 |-> F(ConvF(a, 24)), c53 |-> F(ConvF(a, 53)),
   ints |-> [t \in 1..Len(Shapes) |-> LET r == ToInt(a, Shapes[t][1], Shapes[t][2]) IN IF r.ok THEN r.v ELSE "none"],
   rows |-> [j \in 1..Len(FS) |-> LET b == FS[j] IN
              << F(Add(a, b, 24)), F(Sub(a, b, 24)), F(Mul(a, b, 24)), F(Quo(a, b, 24)),
                 F(Add(a, b, 53)), F(Sub(a, b, 53)), F(Mul(a, b, 53)), F(Quo(a, b, 53)),
                 Eq(a, b), Ne(a, b), Lt(a, b), Le(a, b), Gt(a, b), Ge(a, b) >>]]

CV(i) == << CFS[((i - 1) \div Len(CFS)) + 1], CFS[((i - 1) % Len(CFS)) + 1] >>
ComplexOut == LET a == CV(ai) IN
  [k |-> "complex", i |-> ai, a |-> C2(a), neg |-> C2(CNeg(a)),
   rows |-> [j \in 1..N |-> LET b == CV(j) IN
              << C2(CAdd(a, b, 24)), C2(CSub(a, b, 24)), C2(CMul(a, b, 24)), C2(CQuo(a, b, 24)),
                 C2(CAdd(a, b, 53)), C2(CSub(a, b, 53)), C2(CMul(a, b, 53)), C2(CQuo(a, b, 53)),
                 CEq(a, b), CNe(a, b) >>]]

IntOut == [k |-> "int", i |-> ai, v |-> IS[ai], f24 |-> F(FromInt(IS[ai], 24)), f53 |-> F(FromInt(IS[ai], 53))]

Emit == ph = 2 => PrintT(ToJson(CASE Kind = "float" -> FloatOut [] Kind = "complex" -> ComplexOut [] OTHER -> IntOut))

\* the statement's named points and some algebra, on every enumerated case
Laws == (ph = 2 /\ Kind = "float") => LET a == FS[ai] IN
   /\ Ne(NaN, NaN) /\ ~Eq(NaN, NaN) /\ ~Lt(NaN, a) /\ ~Ge(NaN, a) /\ Ne(a, NaN)
   /\ Eq(Zero(TRUE), Zero(FALSE))
   /\ Quo(Zero(FALSE), Zero(FALSE), 53) = NaN /\ Quo(Zero(TRUE), Zero(FALSE), 53) = NaN
   /\ (a.k = "fin") => (Quo(a, Zero(FALSE), 53) = Inf(a.neg) /\ Quo(a, Zero(TRUE), 53) = Inf(~a.neg))
   /\ \A j \in 1..Len(FS) : LET b == FS[j] IN
        /\ Add(a, b, 53) = Add(b, a, 53) /\ Mul(a, b, 53) = Mul(b, a, 53)
        /\ (Lt(a, b) <=> Gt(b, a)) /\ (Ordered(a, b) => (Lt(a, b) \/ Eq(a, b) \/ Gt(a, b)))
        /\ (a.k = "fin" /\ b.k = "fin" /\ ~Bad(Quo(a, b, 53))) => Mul(Quo(a, b, 53), b, 53) = a
        /\ (a.k = "fin" /\ b.k = "fin" /\ ~Bad(Add(a, b, 53))) => Sub(Add(a, b, 53), b, 53) = a
   /\ (a.k \in {"fin", "zero"}) => \A t \in 1..Len(Shapes) : LET r == ToInt(a, Shapes[t][1], Shapes[t][2])  v == r.v IN
        r.ok      => /\ AbsI(v) <= AbsI(Trunc(a))                               \* towards zero
                     /\ Le(FromInt(AbsI(v), 53), IF a.neg THEN Neg(a) ELSE a)   \* |v| <= |a| < |v| + 1
                     /\ Lt(IF a.neg THEN Neg(a) ELSE a, FromInt(AbsI(v) + 1, 53))
=============================================================================

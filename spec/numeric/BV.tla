---------------------------------- MODULE BV ----------------------------------
(***************************************************************************)
(* The operators of IntOps carried to widths TLC's 32-bit integers cannot  *)
(* hold.  A value of a W-bit type is its two's-complement bit pattern, a   *)
(* little-endian tuple of n = W/8 limbs in 0..255.  Every operator is the  *)
(* school algorithm on limbs (ripple-carry addition, schoolbook            *)
(* multiplication, shift-subtract division, limb+bit shifts); nothing here *)
(* ever holds a number above 2^20.  BVEquiv.tla model-checks this module   *)
(* against IntOps at W = 8 (every operand pair) and W = 16 (boundary       *)
(* sets); that is what justifies using it as the oracle at W = 32, 64.     *)
(***************************************************************************)
EXTENDS IntOps, Sequences

BZero(n) == [i \in 1..n |-> 0]
BOnes(n) == [i \in 1..n |-> 255]
BOne(n)  == [i \in 1..n |-> IF i = 1 THEN 1 ELSE 0]
BIsNeg(a) == a[Len(a)] >= 128                 \* the sign bit; meaningful for signed types only
BIsZero(a) == \A i \in 1..Len(a) : a[i] = 0

BPanic(n) == [panic |-> TRUE,  v |-> BZero(n)]
BVal(a)   == [panic |-> FALSE, v |-> a]

\* ------------------------------------------------------------------ limb-level bit operators (nibble tables)
NibT(f) == [p \in (0..15) \X (0..15) |-> BitF(f, p[1], p[2], 4)]
AndT    == NibT(AndB)
OrT     == NibT(OrB)
XorT    == NibT(XorB)
L2(t, x, y) == t[<<x % 16, y % 16>>] + 16 * t[<<x \div 16, y \div 16>>]

BNot(a)       == [i \in 1..Len(a) |-> 255 - a[i]]
BAnd(a, b)    == [i \in 1..Len(a) |-> L2(AndT, a[i], b[i])]
BOr(a, b)     == [i \in 1..Len(a) |-> L2(OrT, a[i], b[i])]
BXor(a, b)    == [i \in 1..Len(a) |-> L2(XorT, a[i], b[i])]
BAndNot(a, b) == BAnd(a, BNot(b))

\* ------------------------------------------------------------------ ripple-carry addition
RECURSIVE AddR(_, _, _, _, _)
AddR(a, b, i, c, acc) ==
  IF i > Len(a) THEN acc
  ELSE LET t == a[i] + b[i] + c IN AddR(a, b, i + 1, t \div 256, Append(acc, t % 256))
BAdd(a, b) == AddR(a, b, 1, 0, <<>>)
BSub(a, b) == AddR(a, BNot(b), 1, 1, <<>>)          \* a + ~b + 1
BNeg(a)    == BSub(BZero(Len(a)), a)

\* ------------------------------------------------------------------ schoolbook multiplication, low n limbs
RECURSIVE ColSum(_, _, _, _)
ColSum(a, b, k, i) == IF i > k THEN 0 ELSE a[i] * b[k + 1 - i] + ColSum(a, b, k, i + 1)
RECURSIVE MulR(_, _, _, _, _)
MulR(a, b, k, c, acc) ==
  IF k > Len(a) THEN acc
  ELSE LET t == ColSum(a, b, k, 1) + c IN MulR(a, b, k + 1, t \div 256, Append(acc, t % 256))
BMul(a, b) == MulR(a, b, 1, 0, <<>>)

\* ------------------------------------------------------------------ comparisons
RECURSIVE ULtR(_, _, _)
ULtR(a, b, i) == IF i = 0 THEN FALSE ELSE IF a[i] # b[i] THEN a[i] < b[i] ELSE ULtR(a, b, i - 1)
BULt(a, b) == ULtR(a, b, Len(a))
BLt(s, a, b) == IF s /\ BIsNeg(a) # BIsNeg(b) THEN BIsNeg(a) ELSE BULt(a, b)
BEq(a, b) == \A i \in 1..Len(a) : a[i] = b[i]
BLe(s, a, b) == BLt(s, a, b) \/ BEq(a, b)

\* ------------------------------------------------------------------ shift-subtract (restoring) division, unsigned
BitOf(a, k) == (a[(k \div 8) + 1] \div P2(k % 8)) % 2            \* bit k, k = 0 is the least significant

\* One step on the running remainder r (< divisor bx; both carry one extra top limb so that 2r+1 fits):
\* in a single pass over the limbs compute r1 = 2r + bit (c = carry of the doubling) and t = r1 - bx (bw = borrow).
\* The final borrow says r1 < bx: then the quotient bit is 0 and r1 is kept, else it is 1 and t is kept.
RECURSIVE StepR(_, _, _, _, _, _, _)
StepR(r, bx, i, c, bw, r1, t) ==
  IF i > Len(r) THEN (IF bw = 1 THEN <<r1, 0>> ELSE <<t, 1>>)
  ELSE LET d == 2 * r[i] + c
           l == d % 256
           u == l - bx[i] - bw
       IN StepR(r, bx, i + 1, d \div 256, IF u < 0 THEN 1 ELSE 0, Append(r1, l), Append(t, (u + 256) % 256))

\* bits of the dividend from the top; quotient bits are gathered per limb (qa) and each finished limb is put in
\* front of the more significant limbs already gathered (so the tuple is little-endian at the end)
RECURSIVE DivR(_, _, _, _, _, _)
DivR(a, bx, k, qa, q, r) ==
  IF k < 0 THEN <<q, r>>
  ELSE LET st == StepR(r, bx, 1, BitOf(a, k), 0, <<>>, <<>>)
           qb == 2 * qa + st[2]
       IN IF k % 8 = 0 THEN DivR(a, bx, k - 1, 0, <<qb>> \o q, st[1])
                       ELSE DivR(a, bx, k - 1, qb, q, st[1])
\* <<quotient, remainder>> of the bit patterns read as naturals; b # 0
BUDivMod(a, b) == LET n  == Len(a)
                      qr == DivR(a, Append(b, 0), 8 * n - 1, 0, <<>>, BZero(n + 1))
                  IN <<qr[1], SubSeq(qr[2], 1, n)>>

\* signed: divide the magnitudes (|MinInt| = 2^(W-1) fits the unsigned reading), quotient truncated towards zero,
\* the remainder takes the sign of the dividend; |MinInt| / 1 = 2^(W-1) read back as signed IS MinInt
BSDivMod(a, b) == LET na == BIsNeg(a)  nb == BIsNeg(b)
                      qr == BUDivMod(IF na THEN BNeg(a) ELSE a, IF nb THEN BNeg(b) ELSE b)
                  IN <<IF na # nb THEN BNeg(qr[1]) ELSE qr[1], IF na THEN BNeg(qr[2]) ELSE qr[2]>>
BQuo(s, a, b) == IF BIsZero(b) THEN BPanic(Len(a)) ELSE BVal((IF s THEN BSDivMod(a, b) ELSE BUDivMod(a, b))[1])
BRem(s, a, b) == IF BIsZero(b) THEN BPanic(Len(a)) ELSE BVal((IF s THEN BSDivMod(a, b) ELSE BUDivMod(a, b))[2])

\* ------------------------------------------------------------------ shifts
Limb(a, j, fill) == IF j < 1 THEN 0 ELSE IF j > Len(a) THEN fill ELSE a[j]
ShlK(a, k) == LET ls == k \div 8  bs == k % 8
              IN [i \in 1..Len(a) |-> ((Limb(a, i - ls, 0) * P2(bs)) % 256) + (Limb(a, i - ls - 1, 0) \div P2(8 - bs))]
ShrK(a, k, fill) == LET ls == k \div 8  bs == k % 8
                    IN [i \in 1..Len(a) |-> (Limb(a, i + ls, fill) \div P2(bs)) + ((Limb(a, i + ls + 1, fill) * P2(8 - bs)) % 256)]

\* the count c is a bit pattern of ITS OWN type (any width), cs = that type is signed
CountNeg(c, cs) == cs /\ BIsNeg(c)
CountGe(c, W)   == c[1] >= W \/ \E i \in 2..Len(c) : c[i] # 0           \* W <= 64 < 256
BShl(a, c, cs) == IF CountNeg(c, cs) THEN BPanic(Len(a))
                  ELSE IF CountGe(c, 8 * Len(a)) THEN BVal(BZero(Len(a)))
                  ELSE BVal(ShlK(a, c[1]))
BShr(s, a, c, cs) == LET fill == IF s /\ BIsNeg(a) THEN 255 ELSE 0
                     IN IF CountNeg(c, cs) THEN BPanic(Len(a))
                        ELSE IF CountGe(c, 8 * Len(a)) THEN BVal([i \in 1..Len(a) |-> fill])
                        ELSE BVal(ShrK(a, c[1], fill))

\* ------------------------------------------------------------------ conversion: extend by the SOURCE's signedness, then truncate
BConv(a, s, tn) == [i \in 1..tn |-> IF i <= Len(a) THEN a[i] ELSE IF s /\ BIsNeg(a) THEN 255 ELSE 0]

\* ------------------------------------------------------------------ bridge to IntOps (n <= 2 only)
RECURSIVE BToU(_, _)
BToU(a, i) == IF i > Len(a) THEN 0 ELSE a[i] + 256 * BToU(a, i + 1)
BToInt(a, s) == FromU(8 * Len(a), s, BToU(a, 1))
BFromInt(n, x) == [i \in 1..n |-> (ToU(8 * n, x) \div P2(8 * (i - 1))) % 256]
=============================================================================

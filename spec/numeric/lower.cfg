\* standalone run:  tlc -config lower.cfg MCLower.tla   (CmpFirst = FALSE shows the pre-a5b7117 counterexample)
SPECIFICATION Spec
CONSTANTS
  CmpFirst = TRUE
  XS <- c_XS
  CSet <- c_CSet
INVARIANTS
  ShiftRefines
  DivRefines
CHECK_DEADLOCK FALSE

------------------------------- MODULE NumSweep8 ------------------------------
(***************************************************************************)
(* Exhaustive table for the 8-bit types, straight from the integer         *)
(* definitions of IntOps: for each signedness s and EVERY left operand a   *)
(* (chosen in two steps to spread the work over TLC's workers) the vector  *)
(* over EVERY right operand b of the result of each operator in Ops.       *)
(* Results are printed as 8-bit patterns (0..255), -1 = run-time panic,    *)
(* booleans as 0/1.  For the shifts the right operand is a count of an     *)
(* 8-bit type: "shl_cs"/"shr_cs" signed count (int8), "_cu" unsigned.      *)
(***************************************************************************)
EXTENDS IntOps, TLC, Json

CONSTANTS Ops   \* subset of AllOps

AllOps == {"add", "sub", "mul", "quo", "rem", "and", "or", "xor", "andnot", "eq", "ne", "lt", "le", "gt", "ge",
           "neg", "not", "shl_cs", "shl_cu", "shr_cs", "shr_cu"}
ASSUME Ops \subseteq AllOps

VARIABLES ph, hi, ua, s
vars == <<ph, hi, ua, s>>
Init == ph = 0 /\ hi = 0 /\ ua = 0 /\ s = FALSE
Next == \/ /\ ph = 0 /\ ph' = 1 /\ hi' \in 0..15 /\ UNCHANGED <<ua, s>>
        \/ /\ ph = 1 /\ ph' = 2 /\ ua' \in {16 * hi + l : l \in 0..15} /\ s' \in BOOLEAN /\ UNCHANGED hi
Spec == Init /\ [][Next]_vars

A == FromU(8, s, ua)
U(x) == ToU(8, x)
B01(p) == IF p THEN 1 ELSE 0
PR(r) == IF r.panic THEN -1 ELSE U(r.v)

Res(op, ub) == LET b == FromU(8, s, ub) IN
  CASE op = "add" -> U(Add(8, s, A, b))   [] op = "sub" -> U(Sub(8, s, A, b))  [] op = "mul" -> U(Mul(8, s, A, b))
    [] op = "quo" -> PR(Quo(8, s, A, b))  [] op = "rem" -> PR(Rem(8, s, A, b))
    [] op = "and" -> U(And(8, s, A, b))   [] op = "or" -> U(Or(8, s, A, b))    [] op = "xor" -> U(Xor(8, s, A, b))
    [] op = "andnot" -> U(AndNot(8, s, A, b))
    [] op = "eq" -> B01(Eq(A, b)) [] op = "ne" -> B01(Ne(A, b)) [] op = "lt" -> B01(Lt(A, b))
    [] op = "le" -> B01(Le(A, b)) [] op = "gt" -> B01(Gt(A, b)) [] op = "ge" -> B01(Ge(A, b))
    [] op = "neg" -> U(Neg(8, s, A))      [] op = "not" -> U(Not(8, s, A))
    [] op = "shl_cs" -> PR(Shl(8, s, A, FromU(8, TRUE, ub), TRUE))
    [] op = "shl_cu" -> PR(Shl(8, s, A, ub, FALSE))
    [] op = "shr_cs" -> PR(Shr(8, s, A, FromU(8, TRUE, ub), TRUE))
    [] op = "shr_cu" -> PR(Shr(8, s, A, ub, FALSE))

Emit == ph = 2 => PrintT(ToJson([k |-> "sweep", s |-> s, a |-> ua,
                                 v |-> [op \in Ops |-> [j \in 1..256 |-> Res(op, j - 1)]]]))

\* the statement's named points, on the integer definitions themselves
Named == ph = 2 =>
   /\ s => (Quo(8, TRUE, -128, -1) = Val(-128) /\ Rem(8, TRUE, -128, -1) = Val(0))
   /\ \A c \in 8..255 : Shl(8, s, A, c, FALSE) = Val(0) /\ Shr(8, s, A, c, FALSE) = Val(IF A < 0 THEN -1 ELSE 0)
   /\ \A c \in -128..-1 : Shl(8, s, A, c, TRUE) = Panic /\ Shr(8, s, A, c, TRUE) = Panic
   /\ Quo(8, s, A, 0) = Panic /\ Rem(8, s, A, 0) = Panic
   /\ \A ub \in 1..255 : LET b == FromU(8, s, ub)  q == Quo(8, s, A, b).v  r == Rem(8, s, A, b).v IN
         Wrap(8, s, q * b + r) = A /\ Abs(r) < Abs(b) /\ (r = 0 \/ (r < 0) = (A < 0))
=============================================================================

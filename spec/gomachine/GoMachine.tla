-------------------------------- MODULE GoMachine --------------------------------
(***************************************************************************)
(* Layer A for C01 / C03 / C04: a small-step abstract machine for core Go. *)
(*                                                                         *)
(* A program is a JSON value (programs.ndjson, one program per line): a    *)
(* table of functions, each a flat list of instructions over *pure*        *)
(* expressions (calls are instructions of their own, in Go's evaluation    *)
(* order), a table of method sets for dynamic dispatch, and the entry      *)
(* function.  The machine state is                                         *)
(*   frames  stack of activation records: function, pc, environment        *)
(*           (variable -> cell), pending deferred calls (LIFO), mode       *)
(*           run / ret / panic / exit, the panic value being propagated,   *)
(*           whether a deferred call recovered it                          *)
(*   store   cell -> value.  Struct and array values are copied on         *)
(*           assignment; pointers are <cell, path> and alias; closures     *)
(*           capture cells, so captured variables are shared; a loop       *)
(*           variable gets a fresh cell per iteration ("fresh")            *)
(*   out     the lines printed so far;   status  running / exit code       *)
(* Run-time faults (index, nil dereference, division by zero, failed type  *)
(* assertion) raise a panic at exactly the instruction that contains them, *)
(* after every earlier effect.  defer / panic / recover / Goexit follow    *)
(* the Go specification: deferred calls run LIFO with the arguments        *)
(* evaluated at the defer statement; recover stops a panic only when       *)
(* called directly by a deferred function while its parent is panicking;   *)
(* a panic raised by a deferred call replaces the current one and the      *)
(* remaining deferred calls still run.                                     *)
(* The machine is deterministic: the single behaviour of a program gives   *)
(* its predicted output and termination, printed at the terminal state.    *)
(***************************************************************************)
EXTENDS Integers, Sequences, FiniteSets, TLC, Json

Programs == ndJsonDeserialize("programs.ndjson")

\* FALSE: Go's rule (the judge).  TRUE: layer B - llgo's representation of a panic in flight: one slot per goroutine
\* (runtime excepKey) that `panic` overwrites and any `recover()` - whoever calls it - reads and clears; a frame that has
\* run its deferred calls goes on unwinding iff the slot is still occupied.  Predicts the two known C04 deviations.
CONSTANT PanicSlot

VARIABLES prog,     \* index of the program being executed
          frames,   \* Seq(frame), innermost last
          store,    \* Seq(value): cell i holds store[i]
          out,      \* Seq(Seq(value)): printed lines
          status,   \* "run" | "exit0" | "exit2" (uncaught panic / fatal) | "stuck" (machine cannot interpret)
          steps
vars == <<prog, frames, store, out, status, steps>>

P == Programs[prog]
Nil == [t |-> "nil"]
IsRec(v, tag) == v.t = tag

\* ------------------------------------------------------------------ values and pure expressions
Top == frames[Len(frames)]
CellOf(env, x) == env[x]

RECURSIVE Walk(_, _)
\* value reached from v by a path of field names / 1-based indexes
Walk(v, path) == IF path = <<>> THEN v ELSE Walk(v[Head(path)], Tail(path))

RECURSIVE UpdateAt(_, _, _)
UpdateAt(v, path, new) ==
  IF path = <<>> THEN new
  ELSE [v EXCEPT ![Head(path)] = UpdateAt(v[Head(path)], Tail(path), new)]

\* Eval(e, env): value of a pure expression (assumes Fault(e, env) = "none")
RECURSIVE Eval(_, _)
RECURSIVE Fault(_, _)
RECURSIVE LvalCell(_, _)
RECURSIVE LvalPath(_, _)
RECURSIVE LvalFault(_, _)

Arith(op, a, b) ==
  CASE op = "+" -> a + b
    [] op = "-" -> a - b
    [] op = "*" -> a * b
    [] op = "/" -> IF (a < 0) = (b < 0) THEN (IF a < 0 THEN (-a) \div (-b) ELSE a \div b)
                   ELSE -(IF a < 0 THEN (-a) \div b ELSE a \div (-b))          \* truncation toward zero
    [] op = "%" -> LET q == IF (a < 0) = (b < 0) THEN (IF a < 0 THEN (-a) \div (-b) ELSE a \div b)
                            ELSE -(IF a < 0 THEN (-a) \div b ELSE a \div (-b))
                   IN a - q * b
    [] op = "==" -> a = b
    [] op = "!=" -> a # b
    [] op = "<"  -> a < b
    [] op = "<=" -> a <= b
    [] op = ">"  -> a > b
    [] op = ">=" -> a >= b
    [] op = "&&" -> a /\ b
    [] op = "||" -> a \/ b
    [] op = "s+" -> a \o b

Eval(e, env) ==
  LET k == e[1] IN
  CASE k = "int"   -> e[2]
    [] k = "bool"  -> e[2]
    [] k = "str"   -> e[2]
    [] k = "nil"   -> Nil
    [] k = "var"   -> store[env[e[2]]]
    [] k = "bin"   -> IF e[2] = "&&" THEN (IF Eval(e[3], env) THEN Eval(e[4], env) ELSE FALSE)
                      ELSE IF e[2] = "||" THEN (IF Eval(e[3], env) THEN TRUE ELSE Eval(e[4], env))
                      ELSE Arith(e[2], Eval(e[3], env), Eval(e[4], env))
    [] k = "not"   -> ~Eval(e[2], env)
    [] k = "neg"   -> 0 - Eval(e[2], env)
    [] k = "field" -> Eval(e[2], env)[e[3]]
    [] k = "index" -> Eval(e[2], env)[Eval(e[3], env) + 1]
    [] k = "len"   -> Len(Eval(e[2], env))
    [] k = "deref" -> LET p == Eval(e[2], env) IN Walk(store[p.c], p.path)
    [] k = "addr"  -> [t |-> "ptr", c |-> LvalCell(e[2], env), path |-> LvalPath(e[2], env)]
    [] k = "mkstruct" -> [f \in {e[2][i][1] : i \in 1..Len(e[2])} |->
                            LET i == CHOOSE j \in 1..Len(e[2]) : e[2][j][1] = f IN Eval(e[2][i][2], env)]
    [] k = "mkarr" -> [i \in 1..Len(e[2]) |-> Eval(e[2][i], env)]
    [] k = "iface" -> [t |-> "iface", dyn |-> e[2], v |-> Eval(e[3], env)]
    [] k = "assert" -> Eval(e[2], env).v
    [] k = "isnil" -> Eval(e[2], env).t = "nil"
    [] k = "ifacedyn" -> LET v == Eval(e[2], env) IN IF v.t = "nil" THEN "nil" ELSE v.dyn
    [] k = "eqnilness" -> (Eval(e[2], env).t = "nil") = (Eval(e[3], env).t = "nil")

\* first run-time fault raised while evaluating e left to right, or "none"
First(a, b) == IF a # "none" THEN a ELSE b
Fault(e, env) ==
  LET k == e[1] IN
  CASE k \in {"int", "bool", "str", "nil", "var"} -> "none"
    [] k = "bin" ->
         IF e[2] = "&&" THEN First(Fault(e[3], env), IF Eval(e[3], env) THEN Fault(e[4], env) ELSE "none")
         ELSE IF e[2] = "||" THEN First(Fault(e[3], env), IF Eval(e[3], env) THEN "none" ELSE Fault(e[4], env))
         ELSE First(Fault(e[3], env), First(Fault(e[4], env),
                    IF e[2] \in {"/", "%"} /\ Eval(e[4], env) = 0 THEN "divide" ELSE "none"))
    [] k \in {"not", "neg", "len", "isnil", "ifacedyn"} -> Fault(e[2], env)
    [] k = "eqnilness" -> First(Fault(e[2], env), Fault(e[3], env))
    [] k = "field" -> Fault(e[2], env)
    [] k = "index" -> First(Fault(e[2], env), First(Fault(e[3], env),
                        LET i == Eval(e[3], env) IN IF i < 0 \/ i >= Len(Eval(e[2], env)) THEN "index" ELSE "none"))
    [] k = "deref" -> First(Fault(e[2], env), IF Eval(e[2], env).t = "nil" THEN "nilderef" ELSE "none")
    [] k = "addr"  -> LvalFault(e[2], env)
    [] k = "mkstruct" -> LET RECURSIVE F(_)
                             F(i) == IF i > Len(e[2]) THEN "none" ELSE First(Fault(e[2][i][2], env), F(i + 1))
                         IN F(1)
    [] k = "mkarr" -> LET RECURSIVE F(_)
                          F(i) == IF i > Len(e[2]) THEN "none" ELSE First(Fault(e[2][i], env), F(i + 1))
                      IN F(1)
    [] k = "iface" -> Fault(e[3], env)
    [] k = "assert" -> First(Fault(e[2], env),
                         LET v == Eval(e[2], env) IN IF v.t = "nil" \/ v.dyn # e[3] THEN "assert" ELSE "none")

\* l-values: ["var", x] | ["field", lv, f] | ["index", lv, e] | ["deref", e]
LvalCell(lv, env) ==
  CASE lv[1] = "var" -> env[lv[2]]
    [] lv[1] = "field" -> LvalCell(lv[2], env)
    [] lv[1] = "index" -> LvalCell(lv[2], env)
    [] lv[1] = "deref" -> Eval(lv[2], env).c
LvalPath(lv, env) ==
  CASE lv[1] = "var" -> <<>>
    [] lv[1] = "field" -> Append(LvalPath(lv[2], env), lv[3])
    [] lv[1] = "index" -> Append(LvalPath(lv[2], env), Eval(lv[3], env) + 1)
    [] lv[1] = "deref" -> Eval(lv[2], env).path
LvalFault(lv, env) ==
  CASE lv[1] = "var" -> "none"
    [] lv[1] = "field" -> LvalFault(lv[2], env)
    [] lv[1] = "index" -> First(LvalFault(lv[2], env), First(Fault(lv[3], env),
                            LET i == Eval(lv[3], env)
                                a == Walk(store[LvalCell(lv[2], env)], LvalPath(lv[2], env))
                            IN IF i < 0 \/ i >= Len(a) THEN "index" ELSE "none"))
    [] lv[1] = "deref" -> First(Fault(lv[2], env), IF Eval(lv[2], env).t = "nil" THEN "nilderef" ELSE "none")

RECURSIVE FirstFaultSeq(_, _, _)
FirstFaultSeq(es, i, env) == IF i > Len(es) THEN "none" ELSE First(Fault(es[i], env), FirstFaultSeq(es, i + 1, env))
RECURSIVE FirstLvalFaultSeq(_, _, _)
FirstLvalFaultSeq(ls, i, env) == IF i > Len(ls) THEN "none" ELSE First(LvalFault(ls[i], env), FirstLvalFaultSeq(ls, i + 1, env))

\* ------------------------------------------------------------------ frames
Fn(name) == P.funcs[name]
Code(f) == Fn(f.fn).code
Instr == Code(Top)[Top.pc]

NewFrame(fname, argvals, caps, isDef, boundary) ==
  \* allocates cells for parameters and (zero-initialised) results; captured variables share their cells
  LET fn == Fn(fname)
      np == Len(fn.params)
      nr == Len(fn.results)
      base == Len(store)
      names == {fn.params[i] : i \in 1..np} \cup {fn.results[i][1] : i \in 1..nr} \cup DOMAIN caps
      env == [x \in names |->
                IF x \in DOMAIN caps THEN caps[x]
                ELSE IF \E i \in 1..np : fn.params[i] = x
                       THEN base + (CHOOSE i \in 1..np : fn.params[i] = x)
                       ELSE base + np + (CHOOSE i \in 1..nr : fn.results[i][1] = x)]
  IN [frame |-> [fn |-> fname, pc |-> 1, env |-> env, defers |-> <<>>, mode |-> "run", pval |-> Nil,
                 recovered |-> FALSE, isDef |-> isDef, boundary |-> boundary, dsts |-> <<>>, gx |-> FALSE, slot |-> Nil],
      cells |-> [i \in 1..(np + nr) |-> IF i <= np THEN argvals[i] ELSE fn.results[i - np][2]]]

ResultVals(f) == LET fn == Fn(f.fn) IN [i \in 1..Len(fn.results) |-> store[f.env[fn.results[i][1]]]]

ReplaceTop(f) == [frames EXCEPT ![Len(frames)] = f]
Advance(f) == [f EXCEPT !.pc = @ + 1]

\* a panic raised by a deferred call while the goroutine is exiting (Goexit) and then recovered does not
\* cancel the exit: the frame goes on running its deferred calls in mode "exit"
AfterRecover(f) == IF f.gx THEN "exit" ELSE "ret"
\* the goroutine's panic slot lives in the bottom frame's record (layer B only)
Slot == frames[1].slot
WithSlot(fs, v) == IF PanicSlot THEN [fs EXCEPT ![1].slot = v] ELSE fs
\* has the panic that frame f is unwinding with been recovered?
Rec(f) == IF PanicSlot THEN Slot = Nil ELSE f.recovered
RaiseIn(f, val) == [f EXCEPT !.mode = "panic", !.pval = val, !.recovered = FALSE]
RtErr(kind) == [t |-> "rterr", kind |-> kind]

\* ------------------------------------------------------------------ instruction semantics (frame in mode "run")
\* assignment of a sequence of values to a sequence of l-values, left to right (paths computed beforehand)
RECURSIVE AssignAll(_, _, _, _)
AssignAll(st, cells, paths, vals) ==
  IF cells = <<>> THEN st
  ELSE AssignAll([st EXCEPT ![Head(cells)] = UpdateAt(st[Head(cells)], Head(paths), Head(vals))],
                 Tail(cells), Tail(paths), Tail(vals))

DoPanicFault(kind) ==
  /\ frames' = WithSlot(ReplaceTop(RaiseIn(Top, RtErr(kind))), RtErr(kind))
  /\ UNCHANGED <<store, out, status>>

StepRun ==
  LET f == Top
      env == f.env
      ins == Instr
      k == ins[1]
  IN
  CASE k = "decl" ->      \* ["decl", x, e]  new cell
        LET flt == Fault(ins[3], env) IN
        IF flt # "none" THEN DoPanicFault(flt)
        ELSE /\ store' = Append(store, Eval(ins[3], env))
             /\ frames' = ReplaceTop(Advance([f EXCEPT !.env = [x \in DOMAIN env \cup {ins[2]} |->
                                                   IF x = ins[2] THEN Len(store) + 1 ELSE env[x]]]))
             /\ UNCHANGED <<out, status>>
    [] k = "fresh" ->     \* ["fresh", x]  per-iteration copy of a loop variable
        /\ store' = Append(store, store[env[ins[2]]])
        /\ frames' = ReplaceTop(Advance([f EXCEPT !.env = [env EXCEPT ![ins[2]] = Len(store) + 1]]))
        /\ UNCHANGED <<out, status>>
    [] k = "set" ->       \* ["set", [lvals], [exprs]]  operands first, then assign left to right
        LET flt == First(FirstLvalFaultSeq(ins[2], 1, env), FirstFaultSeq(ins[3], 1, env)) IN
        IF flt # "none" THEN DoPanicFault(flt)
        ELSE /\ store' = AssignAll(store, [i \in 1..Len(ins[2]) |-> LvalCell(ins[2][i], env)],
                                   [i \in 1..Len(ins[2]) |-> LvalPath(ins[2][i], env)],
                                   [i \in 1..Len(ins[3]) |-> Eval(ins[3][i], env)])
             /\ frames' = ReplaceTop(Advance(f))
             /\ UNCHANGED <<out, status>>
    [] k = "jmp" ->
        /\ frames' = ReplaceTop([f EXCEPT !.pc = ins[2]])
        /\ UNCHANGED <<store, out, status>>
    [] k = "jz" ->        \* ["jz", e, target]
        LET flt == Fault(ins[2], env) IN
        IF flt # "none" THEN DoPanicFault(flt)
        ELSE /\ frames' = ReplaceTop([f EXCEPT !.pc = IF Eval(ins[2], env) THEN f.pc + 1 ELSE ins[3]])
             /\ UNCHANGED <<store, out, status>>
    [] k = "print" ->     \* ["print", [exprs]]
        LET flt == FirstFaultSeq(ins[2], 1, env) IN
        IF flt # "none" THEN DoPanicFault(flt)
        ELSE /\ out' = Append(out, [i \in 1..Len(ins[2]) |-> Eval(ins[2][i], env)])
             /\ frames' = ReplaceTop(Advance(f))
             /\ UNCHANGED <<store, status>>
    [] k = "closure" ->   \* ["closure", x, fname, [captured names]]  (x is an existing variable)
        /\ store' = [store EXCEPT ![env[ins[2]]] =
                        [t |-> "clo", fn |-> ins[3], caps |-> [y \in {ins[4][i] : i \in 1..Len(ins[4])} |-> env[y]]]]
        /\ frames' = ReplaceTop(Advance(f))
        /\ UNCHANGED <<out, status>>
    [] k \in {"call", "gowait"} ->   \* ["call", [dst lvals], kind, target, [args]]  kind: "fn" | "clo" | "imethod"
        LET kind == ins[3]
            tflt == IF kind = "fn" THEN "none"
                    ELSE First(Fault(ins[4][1], env),
                               IF kind = "clo" THEN (IF Eval(ins[4][1], env).t = "nil" THEN "nilderef" ELSE "none")
                               ELSE (IF Eval(ins[4][1], env).t = "nil" THEN "nilderef" ELSE "none"))
            flt == First(tflt, FirstFaultSeq(ins[5], 1, env))
        IN
        IF flt # "none" THEN DoPanicFault(flt)
        ELSE
          LET tv == IF kind = "fn" THEN Nil ELSE Eval(ins[4][1], env)
              fname == IF kind = "fn" THEN ins[4][1]
                       ELSE IF kind = "clo" THEN tv.fn
                       ELSE P.methods[tv.dyn][ins[4][2]]
              caps == IF kind = "clo" THEN tv.caps ELSE <<>>
              args0 == [i \in 1..Len(ins[5]) |-> Eval(ins[5][i], env)]
              args == IF kind = "imethod" THEN <<tv.v>> \o args0 ELSE args0
              nf == NewFrame(fname, args, caps, FALSE, k = "gowait")
          IN /\ store' = store \o nf.cells
             /\ frames' = Append(ReplaceTop([f EXCEPT !.dsts = ins[2]]), nf.frame)
             /\ UNCHANGED <<out, status>>
    [] k = "defer" ->     \* ["defer", kind, target, [args]]   callee and arguments are evaluated now
        LET kind == ins[2]
            tflt == IF kind = "fn" THEN "none" ELSE Fault(ins[3][1], env)
            flt == First(tflt, FirstFaultSeq(ins[4], 1, env))
        IN
        IF flt # "none" THEN DoPanicFault(flt)
        ELSE
          LET tv == IF kind = "fn" THEN Nil ELSE Eval(ins[3][1], env)
              args0 == [i \in 1..Len(ins[4]) |-> Eval(ins[4][i], env)]
              d == [kind |-> kind,
                    fn |-> IF kind = "fn" THEN ins[3][1] ELSE IF kind = "clo" THEN (IF tv.t = "nil" THEN "" ELSE tv.fn)
                           ELSE (IF tv.t = "nil" THEN "" ELSE P.methods[tv.dyn][ins[3][2]]),
                    nilfn |-> (kind # "fn" /\ tv.t = "nil"),
                    caps |-> IF kind = "clo" /\ tv.t # "nil" THEN tv.caps ELSE <<>>,
                    args |-> IF kind = "imethod" /\ tv.t # "nil" THEN <<tv.v>> \o args0 ELSE args0]
              \* a defer statement in a range-over-func body names the frame of the enclosing function (5th operand)
              tgt == IF Len(ins) >= 5 THEN store[env[ins[5]]] ELSE Len(frames)
          IN /\ frames' = [ReplaceTop(Advance(f)) EXCEPT ![tgt].defers = Append(@, d)]
             /\ UNCHANGED <<store, out, status>>
    [] k = "depth" ->     \* ["depth", x]  x := index of the current frame (the handle "deferat" uses)
        /\ store' = [store EXCEPT ![env[ins[2]]] = Len(frames)]
        /\ frames' = ReplaceTop(Advance(f))
        /\ UNCHANGED <<out, status>>
    [] k = "ret" ->       \* ["ret", [exprs]]  (empty: bare return / named results already set)
        LET flt == FirstFaultSeq(ins[2], 1, env) IN
        IF flt # "none" THEN DoPanicFault(flt)
        ELSE LET fn == Fn(f.fn) IN
             /\ store' = IF ins[2] = <<>> THEN store
                         ELSE AssignAll(store, [i \in 1..Len(ins[2]) |-> env[fn.results[i][1]]],
                                        [i \in 1..Len(ins[2]) |-> <<>>],
                                        [i \in 1..Len(ins[2]) |-> Eval(ins[2][i], env)])
             /\ frames' = ReplaceTop([f EXCEPT !.mode = "ret"])
             /\ UNCHANGED <<out, status>>
    [] k = "panic" ->     \* ["panic", e]
        LET flt == Fault(ins[2], env) IN
        IF flt # "none" THEN DoPanicFault(flt)
        ELSE /\ frames' = WithSlot(ReplaceTop(RaiseIn(f, [t |-> "pint", v |-> Eval(ins[2], env)])), [t |-> "pint", v |-> Eval(ins[2], env)])
             /\ UNCHANGED <<store, out, status>>
    [] k = "showrec" ->   \* ["showrec", x]   x := code of the recovered value held in x (0 nil, v for panic(v), -100k run-time error)
        LET v == store[env[ins[2]]]
            code == IF v.t = "nil" THEN 0
                    ELSE IF v.t = "pint" THEN v.v
                    ELSE CASE v.kind = "index" -> 0 - 1001 [] v.kind = "nilderef" -> 0 - 1002
                           [] v.kind = "divide" -> 0 - 1003 [] v.kind = "assert" -> 0 - 1004
        IN /\ store' = [store EXCEPT ![env[ins[2]]] = code]
           /\ frames' = ReplaceTop(Advance(f))
           /\ UNCHANGED <<out, status>>
    [] k = "recover" ->   \* ["recover", x]   x := recover()
        LET n == Len(frames)
            effective == IF PanicSlot THEN Slot # Nil
                         ELSE f.isDef /\ n >= 2 /\ frames[n - 1].mode = "panic" /\ ~frames[n - 1].recovered
            v == IF effective THEN (IF PanicSlot THEN Slot ELSE frames[n - 1].pval) ELSE Nil
        IN /\ store' = [store EXCEPT ![env[ins[2]]] = v]
           /\ frames' = IF PanicSlot THEN WithSlot(ReplaceTop(Advance(f)), Nil)
                          ELSE IF effective
                          THEN [frames EXCEPT ![n] = Advance(f), ![n - 1] = [@ EXCEPT !.recovered = TRUE]]
                          ELSE ReplaceTop(Advance(f))
           /\ UNCHANGED <<out, status>>
    [] k = "goexit" ->
        /\ frames' = ReplaceTop([f EXCEPT !.mode = "exit", !.gx = TRUE])
        /\ UNCHANGED <<store, out, status>>
    [] k = "exit" ->      \* ["exit", code]  os.Exit
        /\ status' = IF ins[2] = 0 THEN "exit0" ELSE "exit" \o ToString(ins[2])
        /\ UNCHANGED <<frames, store, out>>

\* ------------------------------------------------------------------ unwinding: run deferred calls, then leave the frame
StepUnwind ==
  LET f == Top
      n == Len(frames)
  IN
  IF f.defers # <<>> THEN
     \* run the most recently deferred call (in the mode the frame is in)
     LET d == f.defers[Len(f.defers)]
         rest == SubSeq(f.defers, 1, Len(f.defers) - 1)
         f1 == [f EXCEPT !.defers = rest]
     IN IF d.nilfn
          THEN /\ frames' = WithSlot(ReplaceTop(RaiseIn(f1, RtErr("nilderef"))), RtErr("nilderef"))     \* calling a nil deferred function panics
               /\ UNCHANGED <<store, out, status>>
          ELSE LET nf == NewFrame(d.fn, d.args, d.caps, TRUE, FALSE) IN
               /\ store' = store \o nf.cells
               /\ frames' = Append(ReplaceTop([f1 EXCEPT !.dsts = <<>>]), nf.frame)
               /\ UNCHANGED <<out, status>>
  ELSE
     \* no deferred calls left: leave the frame
     IF f.mode = "ret" THEN
        IF n = 1 THEN /\ status' = "exit0" /\ UNCHANGED <<frames, store, out>>
        ELSE LET caller == frames[n - 1]
                 vals == ResultVals(f)
                 cenv == caller.env
             IN IF f.isDef
                  THEN \* a deferred call returned to the frame that is unwinding
                       /\ frames' = [SubSeq(frames, 1, n - 1) EXCEPT ![n - 1] =
                                        IF caller.mode = "panic" /\ Rec(caller)
                                          THEN [caller EXCEPT !.mode = AfterRecover(caller), !.pval = Nil] ELSE caller]
                       /\ UNCHANGED <<store, out, status>>
                  ELSE \* ordinary return: store results in the caller's destinations, continue after the call
                       /\ store' = AssignAll(store, [i \in 1..Len(caller.dsts) |-> LvalCell(caller.dsts[i], cenv)],
                                             [i \in 1..Len(caller.dsts) |-> LvalPath(caller.dsts[i], cenv)],
                                             [i \in 1..Len(caller.dsts) |-> vals[i]])
                       /\ frames' = [SubSeq(frames, 1, n - 1) EXCEPT ![n - 1] = Advance(caller)]
                       /\ UNCHANGED <<out, status>>
     ELSE IF f.mode = "panic" THEN
        IF Rec(f) THEN      \* recovered by the last deferred call: return normally with the named results
           /\ frames' = ReplaceTop([f EXCEPT !.mode = AfterRecover(f), !.pval = Nil])
           /\ UNCHANGED <<store, out, status>>
        ELSE IF n = 1 \/ f.boundary THEN
           /\ status' = "exit2"                                        \* uncaught panic ends the program
           /\ out' = Append(out, <<"PANIC", IF PanicSlot THEN Slot ELSE f.pval>>)
           /\ UNCHANGED <<frames, store>>
        ELSE \* propagate into the caller: a panicking deferred call replaces the panic of the unwinding frame
           /\ frames' = [SubSeq(frames, 1, n - 1) EXCEPT ![n - 1] = RaiseIn(frames[n - 1], IF PanicSlot THEN Slot ELSE f.pval)]
           /\ UNCHANGED <<store, out, status>>
     ELSE \* mode = "exit" (Goexit): keep running deferred calls up to the goroutine boundary
        IF n = 1 /\ f.boundary THEN
           /\ status' = "goexit"                                       \* the case's own goroutine ends
           /\ UNCHANGED <<frames, store, out>>
        ELSE IF f.boundary THEN
           /\ frames' = [SubSeq(frames, 1, n - 1) EXCEPT ![n - 1] = Advance(frames[n - 1])]
           /\ UNCHANGED <<store, out, status>>
        ELSE IF n = 1 THEN
           /\ status' = "exit2"                                        \* Goexit on the main goroutine: fatal deadlock
           /\ out' = Append(out, <<"FATAL", "goexit-main">>)
           /\ UNCHANGED <<frames, store>>
        ELSE
           /\ frames' = [SubSeq(frames, 1, n - 1) EXCEPT ![n - 1] = [@ EXCEPT !.mode = "exit", !.gx = TRUE]]
           /\ UNCHANGED <<store, out, status>>

MaxSteps == 3000

Init ==
  /\ prog \in 1..Len(Programs)
  /\ LET nf == [fn |-> Programs[prog].main, pc |-> 1, env |-> <<>>, defers |-> <<>>, mode |-> "run", pval |-> Nil,
                recovered |-> FALSE, isDef |-> FALSE, boundary |-> Programs[prog].boundary, dsts |-> <<>>, gx |-> FALSE, slot |-> Nil]
     IN frames = <<nf>>
  /\ store = <<>> /\ out = <<>> /\ status = "run" /\ steps = 0

Next ==
  /\ status = "run" /\ steps < MaxSteps
  /\ steps' = steps + 1
  /\ prog' = prog
  /\ IF Top.mode = "run"
       THEN IF Top.pc > Len(Code(Top))
              THEN /\ frames' = ReplaceTop([Top EXCEPT !.mode = "ret"])     \* falling off the end = return
                   /\ UNCHANGED <<store, out, status>>
              ELSE StepRun
       ELSE StepUnwind

Spec == Init /\ [][Next]_vars

Terminal == status # "run" \/ steps >= MaxSteps
Emit == Terminal => PrintT(ToJson([id |-> P.id, out |-> out, status |-> IF status = "run" THEN "steplimit" ELSE status]))

\* sanity of the machine itself
TypeOK == /\ status \in {"run", "exit0", "exit2", "goexit"} \cup {"exit" \o ToString(c) : c \in 1..9}
          /\ Len(frames) >= 1
\* deferred calls run exactly once: the number of pending deferred calls never grows while a frame unwinds
=============================================================================

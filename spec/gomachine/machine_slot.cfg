\* layer B: llgo's single panic slot (explains the known C04 deviations)
SPECIFICATION Spec
CONSTANTS PanicSlot = TRUE
INVARIANTS Emit
CHECK_DEADLOCK FALSE

SPECIFICATION Spec
CONSTANTS PanicSlot = FALSE
INVARIANTS Emit
CHECK_DEADLOCK FALSE

SPECIFICATION Spec
CONSTANTS Mode = "dollar"  MaxSeg = 3  PruneAt = 0  Sel = 0  Mod = 1
INVARIANTS LawLiteralUntouched EmitDollar
CHECK_DEADLOCK FALSE

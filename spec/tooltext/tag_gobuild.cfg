SPECIFICATION Spec
CONSTANTS Mode = "gobuild"  MaxOpts = 0  MaxTerms = 0  Depth = 2  GrowWith = 0  MaxFlags = 0  MaxVal = 0  PruneAt = 0  Sel = 0  Mod = 1
INVARIANTS LawDeMorgan EmitGoBuild
CHECK_DEADLOCK FALSE

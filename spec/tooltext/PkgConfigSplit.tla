-------------------------------- MODULE PkgConfigSplit --------------------------------
(***************************************************************************)
(* Layer A for C17 (flag strings): splitting the output of pkg-config /    *)
(* a CFLAGS-like string into flags.                                        *)
(*                                                                         *)
(* Characters: 1 space 2 tab 3 " 4 ' 5 \ 6 - 7 $ 8 a 9 M                   *)
(*   M is ANY multi-byte letter: the harness replays every case with each  *)
(*   of e-acute (C3 A9), a-grave (C3 A0), A-ring (C3 85), ellipsis         *)
(*   (E2 80 A6) - a part is never cut inside a character.                  *)
(*                                                                         *)
(* Documented grammar (xtool/safesplit doc comment and example table):     *)
(*   "Each part starts with "-" followed by a single character flag.       *)
(*    Spaces after the flag character are ignored.  Content is read until  *)
(*    the next space, unless escaped with "\"."                            *)
(*   - leading / trailing blanks are ignored; a blank run followed by "-"  *)
(*     ends a part and starts the next one ("-I -L" is two parts, "-" is a *)
(*     part of its own);                                                   *)
(*   - "\" followed by a blank puts that blank into the content;           *)
(*   - example table only (flag `lenient`): an unescaped blank run inside  *)
(*     the content that is not followed by "-" is kept as ONE space        *)
(*     ("-I/a b" is one part).                                             *)
(* The documentation gives "\" a meaning only before a blank.  Before any  *)
(* other character two readings are defensible and both are computed:      *)
(*   doc    the backslash is an ordinary character (kept);                 *)
(*   posix  it quotes the next character (what pkg-config itself emits).   *)
(* Where they agree the result is the only acceptable one, else either.    *)
(* A string whose first non-blank character is not "-" (or "- x") is       *)
(* outside the documented domain (`out`): no part list is prescribed, only *)
(* the law NoLoss below (nothing but blanks and backslashes may disappear, *)
(* nothing may be invented) - "never silently altered".                    *)
(*                                                                         *)
(* Mode "split": every string of length <= MaxLen.                         *)
(* Mode "roundtrip": every list of <= MaxArgs flags "-" f content with     *)
(*   |f content| <= MaxArgLen; the documented producer escapes every blank *)
(*   of the content with a backslash and joins the flags with one space;   *)
(*   law RoundTrip: Split(Quote(a)) = a on the representable domain        *)
(*   (f is one ASCII character, not a blank; the content does not end with *)
(*   a backslash, which the documented escape cannot protect from the      *)
(*   following separator).                                                 *)
(***************************************************************************)
EXTENDS Integers, Sequences, FiniteSets, TLC, Json

CONSTANTS Mode, MaxLen, MaxArgs, MaxArgLen, PruneAt, Sel, Mod

SP == 1  TB == 2  DQ == 3  SQ == 4  BS == 5  DASH == 6  DOLLAR == 7  LA == 8  LE == 9
Alphabet == 1..9
Blank == {SP, TB}

Start == [st |-> "start", parts |-> <<>>, cur |-> <<>>, lenient |-> FALSE, dashc |-> FALSE]

NewPart(c) == [c EXCEPT !.parts = Append(c.parts, c.cur), !.cur = <<DASH>>, !.st = "dash"]

Step(c, ch, posix) ==
  CASE c.st = "start" ->
         IF ch \in Blank THEN c
         ELSE IF ch = DASH THEN [c EXCEPT !.st = "dash", !.cur = <<DASH>>]
         ELSE [c EXCEPT !.st = "out"]
    [] c.st = "dash" ->                       \* "-" seen, the flag character comes next
         IF ch \in Blank THEN [c EXCEPT !.st = "loneGap"]
         ELSE IF ch = LE THEN [c EXCEPT !.st = "out"]      \* "a single character flag": a multi-byte one is not documented
         ELSE [c EXCEPT !.cur = <<DASH, ch>>, !.st = "flagged"]
    [] c.st = "loneGap" ->                    \* "-" on its own
         IF ch \in Blank THEN c
         ELSE IF ch = DASH THEN NewPart(c)
         ELSE [c EXCEPT !.st = "out"]
    [] c.st = "flagged" ->                    \* "-f" seen, nothing after it yet
         IF ch \in Blank THEN [c EXCEPT !.st = "flagGap"]
         ELSE IF ch = BS THEN [c EXCEPT !.st = "cEsc"]
         ELSE [c EXCEPT !.cur = Append(c.cur, ch), !.st = "content", !.dashc = (c.dashc \/ ch = DASH)]
    [] c.st = "flagGap" ->                    \* spaces after the flag character are ignored
         IF ch \in Blank THEN c
         ELSE IF ch = DASH THEN NewPart(c)
         ELSE IF ch = BS THEN [c EXCEPT !.st = "cEsc"]
         ELSE [c EXCEPT !.cur = Append(c.cur, ch), !.st = "content"]
    [] c.st = "content" ->
         IF ch \in Blank THEN [c EXCEPT !.st = "gap"]
         ELSE IF ch = BS THEN [c EXCEPT !.st = "cEsc"]
         ELSE [c EXCEPT !.cur = Append(c.cur, ch)]
    [] c.st = "cEsc" ->                       \* a backslash is pending
         IF ch \in Blank THEN [c EXCEPT !.cur = Append(c.cur, ch), !.st = "content"]
         ELSE IF posix THEN [c EXCEPT !.cur = Append(c.cur, ch), !.st = "content"]
         ELSE IF ch = BS THEN [c EXCEPT !.cur = Append(c.cur, BS)]          \* first one literal, second pending
         ELSE [c EXCEPT !.cur = c.cur \o <<BS, ch>>, !.st = "content"]
    [] c.st = "gap" ->                        \* unescaped blanks after some content
         IF ch \in Blank THEN c
         ELSE IF ch = DASH THEN NewPart(c)
         ELSE IF ch = BS THEN [c EXCEPT !.cur = Append(c.cur, SP), !.st = "cEsc", !.lenient = TRUE]
         ELSE [c EXCEPT !.cur = c.cur \o <<SP, ch>>, !.st = "content", !.lenient = TRUE]
    [] c.st = "out" -> c

Finish(c) ==
  IF c.st = "out" THEN [out |-> TRUE, parts |-> <<>>]
  ELSE IF c.st = "start" THEN [out |-> FALSE, parts |-> c.parts]
  ELSE IF c.st = "cEsc" THEN [out |-> FALSE, parts |-> Append(c.parts, Append(c.cur, BS))]
  ELSE [out |-> FALSE, parts |-> Append(c.parts, c.cur)]

RECURSIVE Run(_, _, _, _)
Run(c, s, i, posix) == IF i > Len(s) THEN c ELSE Run(Step(c, s[i], posix), s, i + 1, posix)
Split(s, posix) == Finish(Run(Start, s, 1, posix))

\* what must survive any splitting, documented domain or not
Essential(s) == SelectSeq(s, LAMBDA x : x \notin Blank /\ x # BS)

RECURSIVE Flat(_, _)
Flat(f, s) == IF s = <<>> THEN <<>> ELSE f[Head(s)] \o Flat(f, Tail(s))
RECURSIVE Concat(_)
Concat(ss) == IF ss = <<>> THEN <<>> ELSE Head(ss) \o Concat(Tail(ss))

\* ------------------------------------------------------------------ the producer
BlankEsc == [ch \in Alphabet |-> IF ch \in Blank THEN <<BS, ch>> ELSE <<ch>>]
\* an argument is given without its leading dash: <<>> is "-", <<f>> \o content otherwise
QuoteP(a) == IF a = <<>> THEN <<DASH>> ELSE <<DASH, a[1]>> \o Flat(BlankEsc, Tail(a))
WithDash(a) == <<DASH>> \o a

RECURSIVE Join(_)
Join(args) == IF args = <<>> THEN <<>>
              ELSE IF Len(args) = 1 THEN QuoteP(args[1])
              ELSE QuoteP(args[1]) \o <<SP>> \o Join(Tail(args))

Representable(a) == a = <<>> \/ (a[1] \notin Blank /\ a[1] # LE /\ (Len(a) > 1 => a[Len(a)] # BS))

\* ------------------------------------------------------------------ case construction
VARIABLES inp, d, p, args, h
vars == <<inp, d, p, args, h>>

Init == inp = <<>> /\ d = Start /\ p = Start /\ args = <<>> /\ h = 7
Mix(x, ch) == (x * 31 + ch + 1) % 1000003

\* seed sampling of the quick tier: from size PruneAt on, only the cases whose hash is Sel modulo Mod are
\* extended further (Mod = 1: everything).  Every case that is reached is checked and emitted.
RECURSIVE SumLen(_)
SumLen(ss) == IF ss = <<>> THEN 0 ELSE Len(Head(ss)) + SumLen(Tail(ss))
Size == IF Mode = "split" THEN Len(inp) ELSE Len(args) + SumLen(args)
Live == Size < PruneAt \/ (h % Mod) = Sel

Extend ==
  /\ Mode = "split" /\ Len(inp) < MaxLen /\ Live
  /\ \E ch \in Alphabet :
       /\ inp' = Append(inp, ch)
       /\ d' = Step(d, ch, FALSE)
       /\ p' = Step(p, ch, TRUE)
       /\ h' = Mix(h, ch)
  /\ UNCHANGED args

GrowArg ==
  /\ Mode = "roundtrip" /\ Live /\ Len(args) > 0 /\ Len(args[Len(args)]) < MaxArgLen
  /\ \E ch \in Alphabet :
       /\ (args[Len(args)] = <<>> => ch \notin Blank)
       /\ args' = [args EXCEPT ![Len(args)] = Append(@, ch)]
       /\ h' = Mix(h, ch)
  /\ UNCHANGED <<inp, d, p>>

NewArg ==
  /\ Mode = "roundtrip" /\ Live /\ Len(args) < MaxArgs
  /\ args' = Append(args, <<>>)
  /\ h' = Mix(h, 11)
  /\ UNCHANGED <<inp, d, p>>

Next == Extend \/ GrowArg \/ NewArg
Spec == Init /\ [][Next]_vars

AllRepresentable == \A i \in 1..Len(args) : Representable(args[i])

\* ------------------------------------------------------------------ laws of the specification itself
LawRoundTrip ==
  (Mode = "roundtrip" /\ AllRepresentable) =>
     Split(Join(args), FALSE) = [out |-> FALSE, parts |-> [i \in 1..Len(args) |-> WithDash(args[i])]]

LawNoLoss ==
  (Mode = "split") =>
     /\ ~Finish(d).out => Essential(Concat(Finish(d).parts)) = Essential(inp)
     /\ ~Finish(p).out => Essential(Concat(Finish(p).parts)) = Essential(inp)

LawPartsStartWithDash ==
  (Mode = "split") => \A i \in 1..Len(Finish(d).parts) : Finish(d).parts[i][1] = DASH

\* ------------------------------------------------------------------ emission
EmitSplit ==
  (Mode = "split") =>
     PrintT(ToJson([inp |-> inp, doc |-> Finish(d), px |-> Finish(p), ess |-> Essential(inp),
                    lenient |-> d.lenient, dashc |-> d.dashc]))

EmitRoundTrip ==
  (Mode = "roundtrip" /\ AllRepresentable) =>
     PrintT(ToJson([args |-> [i \in 1..Len(args) |-> WithDash(args[i])], q |-> Join(args),
                    px |-> Split(Join(args), TRUE)]))
=============================================================================

SPECIFICATION Spec
CONSTANTS Mode = "roundtrip"  MaxLen = 0  MaxArgs = 2  MaxArgLen = 3  WithNB = FALSE  PruneAt = 0  Sel = 0  Mod = 1
INVARIANTS LawRoundTrip EmitRoundTrip
CHECK_DEADLOCK FALSE

SPECIFICATION Spec
CONSTANTS Mode = "legacy"  MaxOpts = 2  MaxTerms = 3  Depth = 0  GrowWith = 0  MaxFlags = 0  MaxVal = 0  PruneAt = 0  Sel = 0  Mod = 1
INVARIANTS LawLegacyIsDNF EmitLegacy
CHECK_DEADLOCK FALSE

-------------------------------- MODULE TagExpr --------------------------------
(***************************************************************************)
(* Layer A for C17 (build tags): what a build constraint means, and which  *)
(* tags a `-tags` flag sets - as the go tool defines them (go help         *)
(* buildconstraint, go help build).                                        *)
(*                                                                         *)
(* Tag universe: 1, 2, 3 (the harness uses names no platform sets).  A tag *)
(* set is a subset; truth tables list the 8 subsets in the order of their  *)
(* bit mask (tag k present in set m  iff  bit k-1 of m is set).            *)
(*                                                                         *)
(* Mode "legacy":  `// +build` line = options separated by spaces (OR),    *)
(*   each option = terms separated by commas (AND), each term = tag or     *)
(*   !tag.  The same grammar guards `#cgo <cond> CFLAGS:` lines, which is  *)
(*   what internal/buildtags.CheckTags evaluates.                          *)
(*   characters of a rendered line: 1 2 3 tags, 4 "!", 5 ",", 6 " "        *)
(* Mode "gobuild": `//go:build` expression trees with ! && || and          *)
(*   parentheses; "!" binds tightest, then "&&", then "||".  Printed with  *)
(*   the fewest parentheses that precedence allows (`min`) and with all    *)
(*   parentheses (`full`).  "!!x" is not in the grammar (the go tool       *)
(*   rejects a double negation); a negated negation is written "!(!x)".    *)
(*   characters: 1 2 3 tags, 4 "!", 7 "(", 8 ")", 9 " && ", 10 " || ".     *)
(*   /repo has no evaluator of its own for these                           *)
(*   (it delegates to go/build); the cases validate this specification     *)
(*   against go/build/constraint and the law LegacyIsDNF ties them to the  *)
(*   legacy form.                                                          *)
(* Mode "tagsflag": lists of build flags.  `-tags` takes the next element  *)
(*   as its value, `-tags=V` carries it; the value is a list of tags       *)
(*   separated by commas (current form) or spaces (form of Go <= 1.12,     *)
(*   still accepted); empty fields do not count; the result is a SET.      *)
(*   characters of a value: 1 2 tags, 5 ",", 6 " ".  Elements: [k |-> "T"] *)
(*   is `-tags`, "E" is `-tags=`v, "V" is the bare word v, "O" is `-v`.    *)
(*   `union` is what llgo documents for several -tags flags (its table     *)
(*   "multiple -tags flags"), `last` is the go tool's last-one-wins; they  *)
(*   coincide when `-tags` occurs at most once (`single`).                 *)
(***************************************************************************)
EXTENDS Integers, Sequences, FiniteSets, TLC, Json

CONSTANTS Mode, MaxOpts, MaxTerms, Depth, GrowWith, MaxFlags, MaxVal, PruneAt, Sel, Mod

Tags == 1..3
NOT == 4  COMMA == 5  SPC == 6  LP == 7  RP == 8  AND == 9  OR == 10

InSet(t, m) == (m \div (IF t = 1 THEN 1 ELSE IF t = 2 THEN 2 ELSE 4)) % 2 = 1
Masks == 0..7

\* =================================================================== legacy lines
\* line : Seq(option), option : Seq(term), term : [neg, tag]
TermHolds(term, m) == InSet(term.tag, m) # term.neg
OptionHolds(o, m) == \A i \in 1..Len(o) : TermHolds(o[i], m)
LineHolds(l, m) == \E i \in 1..Len(l) : OptionHolds(l[i], m)

RenderTerm(t) == IF t.neg THEN <<NOT, t.tag>> ELSE <<t.tag>>
RECURSIVE RenderOption(_)
RenderOption(o) == IF Len(o) = 1 THEN RenderTerm(o[1]) ELSE RenderTerm(o[1]) \o <<COMMA>> \o RenderOption(Tail(o))
RECURSIVE RenderLine(_)
RenderLine(l) == IF Len(l) = 1 THEN RenderOption(l[1]) ELSE RenderOption(l[1]) \o <<SPC>> \o RenderLine(Tail(l))

\* =================================================================== go:build expressions
\* tree : [op |-> "tag"|"not"|"and"|"or", t |-> tag or 0, kids |-> Seq(tree)]
TagE(t) == [op |-> "tag", t |-> t, kids |-> <<>>]
NotE(a) == [op |-> "not", t |-> 0, kids |-> <<a>>]
AndE(a, b) == [op |-> "and", t |-> 0, kids |-> <<a, b>>]
OrE(a, b) == [op |-> "or", t |-> 0, kids |-> <<a, b>>]

RECURSIVE Holds(_, _)
Holds(e, m) ==
  CASE e.op = "tag" -> InSet(e.t, m)
    [] e.op = "not" -> ~Holds(e.kids[1], m)
    [] e.op = "and" -> Holds(e.kids[1], m) /\ Holds(e.kids[2], m)
    [] e.op = "or"  -> Holds(e.kids[1], m) \/ Holds(e.kids[2], m)

Prec(e) == CASE e.op = "or" -> 1 [] e.op = "and" -> 2 [] e.op = "not" -> 3 [] e.op = "tag" -> 4

RECURSIVE RenderMin(_, _)
\* ctx = weakest precedence that may appear here without parentheses
RenderMin(e, ctx) ==
  LET body == CASE e.op = "tag" -> <<e.t>>
                [] e.op = "not" -> <<NOT>> \o RenderMin(e.kids[1], IF e.kids[1].op = "not" THEN 4 ELSE 3)
                [] e.op = "and" -> RenderMin(e.kids[1], 2) \o <<AND>> \o RenderMin(e.kids[2], 2)
                [] e.op = "or"  -> RenderMin(e.kids[1], 1) \o <<OR>> \o RenderMin(e.kids[2], 1)
  IN IF Prec(e) < ctx THEN <<LP>> \o body \o <<RP>> ELSE body

RECURSIVE RenderFull(_)
RenderFull(e) ==
  CASE e.op = "tag" -> <<e.t>>
    [] e.op = "not" -> <<NOT, LP>> \o RenderFull(e.kids[1]) \o <<RP>>
    [] e.op = "and" -> <<LP>> \o RenderFull(e.kids[1]) \o <<RP, AND, LP>> \o RenderFull(e.kids[2]) \o <<RP>>
    [] e.op = "or"  -> <<LP>> \o RenderFull(e.kids[1]) \o <<RP, OR, LP>> \o RenderFull(e.kids[2]) \o <<RP>>

RECURSIVE Exprs(_)
Exprs(n) == IF n = 0 THEN {TagE(t) : t \in Tags}
            ELSE LET S == Exprs(n - 1)
                 IN S \cup {NotE(a) : a \in S} \cup {AndE(a, b) : a, b \in S} \cup {OrE(a, b) : a, b \in S}

\* a legacy line as the expression it abbreviates (disjunctive normal form)
TermE(t) == IF t.neg THEN NotE(TagE(t.tag)) ELSE TagE(t.tag)
RECURSIVE OptionE(_)
OptionE(o) == IF Len(o) = 1 THEN TermE(o[1]) ELSE AndE(TermE(o[1]), OptionE(Tail(o)))
RECURSIVE LineE(_)
LineE(l) == IF Len(l) = 1 THEN OptionE(l[1]) ELSE OrE(OptionE(l[1]), LineE(Tail(l)))

\* =================================================================== -tags
RECURSIVE FieldsOf(_, _, _)
FieldsOf(v, i, cur) ==      \* the non-empty maximal runs without separator
  IF i > Len(v) THEN (IF cur = <<>> THEN {} ELSE {cur})
  ELSE IF v[i] \in {COMMA, SPC} THEN (IF cur = <<>> THEN {} ELSE {cur}) \cup FieldsOf(v, i + 1, <<>>)
  ELSE FieldsOf(v, i + 1, Append(cur, v[i]))
TagsOfValue(v) == FieldsOf(v, 1, <<>>)

\* the text of an element (it matters when the element is consumed as the value of a preceding `-tags`):
\* 11 is the text "-tags", 12 is "=", 13 is "-v"
TAGS == 11  EQ == 12  VFLAG == 13
Text(e) == CASE e.k = "T" -> <<TAGS>> [] e.k = "E" -> <<TAGS, EQ>> \o e.v [] e.k = "V" -> e.v [] e.k = "O" -> <<VFLAG>>

RECURSIVE Occurrences(_, _)
\* sequence of the tag sets given by each -tags occurrence, in order
Occurrences(fl, i) ==
  IF i > Len(fl) THEN <<>>
  ELSE IF fl[i].k = "T" /\ i < Len(fl) THEN <<TagsOfValue(Text(fl[i + 1]))>> \o Occurrences(fl, i + 2)
  ELSE IF fl[i].k = "E" THEN <<TagsOfValue(fl[i].v)>> \o Occurrences(fl, i + 1)
  ELSE Occurrences(fl, i + 1)

UnionAll(ss) == UNION {ss[i] : i \in 1..Len(ss)}

\* =================================================================== case construction
VARIABLES line, expr, flags, h
vars == <<line, expr, flags, h>>

NoExpr == [op |-> "none", t |-> 0, kids |-> <<>>]
Mix(x, n) == (x * 31 + n + 1) % 1000003

Values == UNION {[1..n -> {1, 2, COMMA, SPC}] : n \in 0..MaxVal}
ValHash(v) == Len(v) * 7 + (IF Len(v) > 0 THEN v[1] * 3 + v[Len(v)] ELSE 0) + (IF Len(v) > 1 THEN v[2] * 11 ELSE 0)

Init ==
  /\ line = <<>> /\ flags = <<>>
  /\ IF Mode = "gobuild" THEN expr \in Exprs(Depth) ELSE expr = NoExpr
  /\ h = 7

\* seed sampling of the quick tier: from size PruneAt on (terms of the line / flags of the list; for gobuild the
\* growth step), only the cases whose hash is Sel modulo Mod are extended further (Mod = 1: everything).
RECURSIVE SumLen(_)
SumLen(ss) == IF ss = <<>> THEN 0 ELSE Len(Head(ss)) + SumLen(Tail(ss))
Size == CASE Mode = "legacy" -> SumLen(line) [] Mode = "tagsflag" -> Len(flags) [] Mode = "gobuild" -> 0
Live == Size < PruneAt \/ (h % Mod) = Sel

\* legacy: add a term to the last option, or open a new option with a first term
AddTerm ==
  /\ Mode = "legacy" /\ Live /\ Len(line) > 0 /\ Len(line[Len(line)]) < MaxTerms
  /\ \E t \in Tags, n \in BOOLEAN :
       /\ line' = [line EXCEPT ![Len(line)] = Append(@, [neg |-> n, tag |-> t])]
       /\ h' = Mix(h, t + (IF n THEN 4 ELSE 0))
  /\ UNCHANGED <<expr, flags>>
AddOption ==
  /\ Mode = "legacy" /\ Live /\ Len(line) < MaxOpts
  /\ \E t \in Tags, n \in BOOLEAN :
       /\ line' = Append(line, <<[neg |-> n, tag |-> t]>>)
       /\ h' = Mix(h, 9 + t + (IF n THEN 4 ELSE 0))
  /\ UNCHANGED <<expr, flags>>

\* gobuild, one level above Exprs(Depth): a root operator over two enumerated subtrees
Grow ==
  /\ Mode = "gobuild" /\ Live /\ GrowWith > 0 /\ line = <<>>       \* `line` doubles as the "already grown" marker
  /\ \E a \in Exprs(GrowWith - 1), op \in {"and", "or", "dna", "ro", "not"} :
       /\ expr' = (CASE op = "and" -> AndE(expr, a) [] op = "or" -> OrE(expr, a)
                      [] op = "dna" -> AndE(a, expr) [] op = "ro" -> OrE(a, expr) [] op = "not" -> NotE(expr))
       /\ (op = "not" => a = TagE(1))
       /\ h' = Mix(Mix(h, Len(RenderMin(a, 1)) + Prec(a)), Len(RenderMin(expr, 1)) + 3 * Prec(expr))
  /\ line' = <<<<>>>>
  /\ UNCHANGED flags

NextFlag ==
  /\ Mode = "tagsflag" /\ Live /\ Len(flags) < MaxFlags
  /\ \E k \in {"T", "E", "V", "O"}, v \in Values :
       /\ (k \in {"T", "O"} => v = <<>>)
       /\ flags' = Append(flags, [k |-> k, v |-> v])
       /\ h' = Mix(h, ValHash(v) + (CASE k = "T" -> 1 [] k = "E" -> 2 [] k = "V" -> 3 [] k = "O" -> 4))
  /\ UNCHANGED <<line, expr>>

Next == AddTerm \/ AddOption \/ Grow \/ NextFlag
Spec == Init /\ [][Next]_vars


\* ------------------------------------------------------------------ laws of the specification itself
\* a legacy line means its disjunctive normal form
LawLegacyIsDNF ==
  (Mode = "legacy" /\ line # <<>>) => \A m \in Masks : LineHolds(line, m) = Holds(LineE(line), m)

\* parentheses carry no meaning beyond grouping: both renderings denote the tree; De Morgan as a sanity law
LawDeMorgan ==
  (Mode = "gobuild" /\ expr.op = "and") =>
     \A m \in Masks : Holds(NotE(expr), m) = Holds(OrE(NotE(expr.kids[1]), NotE(expr.kids[2])), m)

\* the two spellings of the flag are the same flag: rewriting every `-tags=V` as `-tags` `V` changes nothing
\* (stated for lists without a separate `-tags`, which could swallow a `-tags=V` as its value)
RECURSIVE Respell(_)
Respell(fl) == IF fl = <<>> THEN <<>>
               ELSE IF Head(fl).k = "E" THEN <<[k |-> "T", v |-> <<>>], [k |-> "V", v |-> Head(fl).v]>> \o Respell(Tail(fl))
               ELSE <<Head(fl)>> \o Respell(Tail(fl))
LawSpelling ==
  (Mode = "tagsflag" /\ \A i \in 1..Len(flags) : flags[i].k # "T") =>
     /\ Occurrences(Respell(flags), 1) = Occurrences(flags, 1)
     /\ (Len(Occurrences(flags, 1)) <= 1 =>
           UnionAll(Occurrences(flags, 1)) = (IF Occurrences(flags, 1) = <<>> THEN {} ELSE Occurrences(flags, 1)[1]))

\* ------------------------------------------------------------------ emission
Table(P(_)) == [i \in 1..8 |-> P(i - 1)]

EmitLegacy ==
  (Mode = "legacy" /\ line # <<>>) =>
     PrintT(ToJson([text |-> RenderLine(line), truth |-> Table(LAMBDA m : LineHolds(line, m)),
                    nopts |-> Len(line)]))

EmitGoBuild ==
  (Mode = "gobuild") =>
     PrintT(ToJson([min |-> RenderMin(expr, 1), full |-> RenderFull(expr),
                    truth |-> Table(LAMBDA m : Holds(expr, m))]))

SetToSeq(S) == LET RECURSIVE F(_)
                   F(T) == IF T = {} THEN <<>> ELSE LET x == CHOOSE y \in T : TRUE IN <<x>> \o F(T \ {x})
               IN F(S)

EmitTagsFlag ==
  (Mode = "tagsflag") =>
     LET occ == Occurrences(flags, 1)
     IN PrintT(ToJson([flags |-> flags, union |-> SetToSeq(UnionAll(occ)),
                       last |-> SetToSeq(IF occ = <<>> THEN {} ELSE occ[Len(occ)]),
                       single |-> (Len(occ) <= 1)]))
=============================================================================

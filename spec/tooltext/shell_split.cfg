SPECIFICATION Spec
CONSTANTS Mode = "split"  MaxLen = 6  MaxArgs = 0  MaxArgLen = 0  WithNB = FALSE  PruneAt = 0  Sel = 0  Mod = 1
INVARIANTS LawMalformed LawPlain EmitSplit
CHECK_DEADLOCK FALSE

-------------------------------- MODULE Expand --------------------------------
(***************************************************************************)
(* Layer A for C17 (expansions): substituting references in a template.    *)
(*                                                                         *)
(* The law is SIMULTANEOUS substitution: the template is read once from    *)
(* left to right; every reference is replaced by exactly the value it      *)
(* names; text that comes out of a value is never read again; hence the    *)
(* result cannot depend on the order in which keys are looked at.          *)
(*                                                                         *)
(* Mode "brace" - {key} templates (internal/env.ExpandEnvWithDefault):     *)
(*   characters 1 {  2 }  3 A  4 B  5 x  6 u  7 v                          *)
(*   references  {A} {B} (keys of the map) and {} (the default value, ""   *)
(*   when none is given); a key that is not in the map is not a reference. *)
(*   TLC enumerates templates of <= MaxSeg segments over                   *)
(*   { x, {A}, {B}, {}, "{", "}", A } x values of A, B (possibly absent,   *)
(*   possibly containing braces / references) x default values.            *)
(*   Layer B (report only): SeqExpand is the mechanism of the code -       *)
(*   ReplaceAll of {} first, then key by key in some order; `seq` lists    *)
(*   its result for both key orders and LawOrderIndependent states that    *)
(*   the mechanism refines the law (it does not: see cfg expand_implB).    *)
(*                                                                         *)
(* Mode "dollar" - $VAR / ${VAR} / $(command) in link directives           *)
(*   (xtool/env.ExpandEnv, ExpandEnvToArgs):                               *)
(*   characters 1 $  2 {  3 }  4 A  5 B  6 -  7 space  8 l  12 /           *)
(*              9,10,11 = the whole text "$(pkg-config --libs c1|c2|c3)"   *)
(*   $NAME takes the longest run of name characters (A B l), ${NAME} is    *)
(*   delimited; an unset variable is empty (sh 2.6.2); only A and B may    *)
(*   be set; their VALUES may look like references or commands ($B, ${B},  *)
(*   "$(pkg-config --libs c1)", 13 = the text "$(other)", a lone $) and    *)
(*   are substituted verbatim all the same.  Command c1 prints "-lA -lB",  *)
(*   c2 prints "-l$A/l" (a dollar in the output is NOT a reference), c3    *)
(*   fails and contributes nothing.  In the TEMPLATE a "$" that starts     *)
(*   none of these forms is outside the documented ones; the generator     *)
(*   never writes one there.                                               *)
(*   The resulting arguments: blanks around the result are dropped; an     *)
(*   empty result gives no argument; if a command took part the result is  *)
(*   a pkg-config flag string (here always blank-separated "-l..." flags), *)
(*   otherwise the value is ONE argument.                                  *)
(***************************************************************************)
EXTENDS Integers, Sequences, FiniteSets, TLC, Json

CONSTANTS Mode, MaxSeg, PruneAt, Sel, Mod

Absent == <<0>>     \* "key not in the map" / "variable unset"

RECURSIVE Concat(_)
Concat(ss) == IF ss = <<>> THEN <<>> ELSE Head(ss) \o Concat(Tail(ss))

\* =================================================================== brace templates
LB == 1  RB == 2  KA == 3  KB == 4
BraceSegs == { <<5>>, <<LB, KA, RB>>, <<LB, KB, RB>>, <<LB, RB>>, <<LB>>, <<RB>>, <<KA>> }
ValsA == { Absent, <<>>, <<6>>, <<LB, KB, RB>>, <<6, LB, KB, RB>>, <<LB, KA, RB>>, <<LB>>, <<LB, RB>> }
ValsB == { Absent, <<>>, <<7>>, <<LB, KA, RB>>, <<KA, RB>>, <<LB, RB>> }
Dflts == { <<>>, <<7>>, <<LB, KA, RB>> }

Has(env, k) == env[k] # Absent

\* the law: one left-to-right pass, values are emitted, not re-read
RECURSIVE BraceFrom(_, _, _, _)
BraceFrom(t, i, env, dflt) ==
  IF i > Len(t) THEN <<>>
  ELSE IF t[i] = LB /\ i + 1 <= Len(t) /\ t[i + 1] = RB
         THEN dflt \o BraceFrom(t, i + 2, env, dflt)
  ELSE IF t[i] = LB /\ i + 2 <= Len(t) /\ t[i + 1] \in {KA, KB} /\ t[i + 2] = RB /\ Has(env, t[i + 1])
         THEN env[t[i + 1]] \o BraceFrom(t, i + 3, env, dflt)
  ELSE <<t[i]>> \o BraceFrom(t, i + 1, env, dflt)
BraceExpand(t, env, dflt) == BraceFrom(t, 1, env, dflt)

\* layer B: the code's mechanism - replace all occurrences of one pattern, then the next, ...
RECURSIVE ReplaceAll(_, _, _, _)
ReplaceAll(t, i, pat, val) ==
  IF i > Len(t) THEN <<>>
  ELSE IF i + Len(pat) - 1 <= Len(t) /\ SubSeq(t, i, i + Len(pat) - 1) = pat
         THEN val \o ReplaceAll(t, i + Len(pat), pat, val)
  ELSE <<t[i]>> \o ReplaceAll(t, i + 1, pat, val)
ReplKey(t, env, k) == IF Has(env, k) THEN ReplaceAll(t, 1, <<LB, k, RB>>, env[k]) ELSE t
SeqExpand(t, env, dflt, first, second) ==
  ReplKey(ReplKey(ReplaceAll(t, 1, <<LB, RB>>, dflt), env, first), env, second)

\* =================================================================== dollar templates
DL == 1  DLB == 2  DRB == 3  NA == 4  NB == 5  DASH == 6  SP == 7  LL == 8  C1 == 9  C2 == 10  C3 == 11  SL == 12
NameChars == {NA, NB, LL}
DollarSegs == { <<DASH, LL>>, <<SP>>, <<LL>>, <<DL, NA>>, <<DL, NB>>, <<DL, DLB, NA, DRB>>, <<DL, DLB, NB, DRB>>,
                <<C1>>, <<C2>>, <<C3>> }
\* a value is substituted verbatim whatever it looks like: a reference, a command, a make-style $(NAME), a lone $
OTH == 13    \* the whole text "$(other)"
DValsA == { Absent, <<SL, LL>>, <<DL, NB>>, <<DL, DLB, NB, DRB>>, <<DASH, LL, NA, SP, DASH, LL>>,
            <<C1>>, <<OTH>>, <<DL>> }
DValsB == { Absent, <<LL>>, <<DL, NA>>, <<OTH>> }
CmdOut == [c \in {C1, C2, C3} |-> CASE c = C1 -> <<DASH, LL, NA, SP, DASH, LL, NB>>
                                     [] c = C2 -> <<DASH, LL, DL, NA, SL, LL>>
                                     [] c = C3 -> <<>>]

Lookup(env, name) == IF name = <<NA>> THEN (IF env[NA] = Absent THEN <<>> ELSE env[NA])
                     ELSE IF name = <<NB>> THEN (IF env[NB] = Absent THEN <<>> ELSE env[NB])
                     ELSE <<>>

RECURSIVE NameEnd(_, _)
NameEnd(t, i) == IF i <= Len(t) /\ t[i] \in NameChars THEN NameEnd(t, i + 1) ELSE i   \* first index after the run

RECURSIVE DollarFrom(_, _, _)
DollarFrom(t, i, env) ==
  IF i > Len(t) THEN <<>>
  ELSE IF t[i] \in {C1, C2, C3} THEN CmdOut[t[i]] \o DollarFrom(t, i + 1, env)
  ELSE IF t[i] = DL /\ i + 1 <= Len(t) /\ t[i + 1] \in NameChars
         THEN LET e == NameEnd(t, i + 1) IN Lookup(env, SubSeq(t, i + 1, e - 1)) \o DollarFrom(t, e, env)
  ELSE IF t[i] = DL /\ i + 1 <= Len(t) /\ t[i + 1] = DLB
         THEN LET e == NameEnd(t, i + 2) IN   \* the generator only writes well-formed ${NAME}
              Lookup(env, SubSeq(t, i + 2, e - 1)) \o DollarFrom(t, e + 1, env)
  ELSE <<t[i]>> \o DollarFrom(t, i + 1, env)
DollarExpand(t, env) == DollarFrom(t, 1, env)

\* layer B (report only): the code's mechanism - run the commands first, then read the WHOLE text for $VAR
RECURSIVE CmdPass(_)
CmdPass(t) == IF t = <<>> THEN <<>>
              ELSE IF Head(t) \in {C1, C2, C3} THEN CmdOut[Head(t)] \o CmdPass(Tail(t))
              ELSE <<Head(t)>> \o CmdPass(Tail(t))
TwoPass(t, env) == DollarExpand(CmdPass(t), env)

RECURSIVE TrimL(_)
TrimL(s) == IF s # <<>> /\ Head(s) = SP THEN TrimL(Tail(s)) ELSE s
RECURSIVE TrimR(_)
TrimR(s) == IF s # <<>> /\ s[Len(s)] = SP THEN TrimR(SubSeq(s, 1, Len(s) - 1)) ELSE s
Trim(s) == TrimR(TrimL(s))

RECURSIVE Fields(_, _, _)
Fields(s, i, cur) ==
  IF i > Len(s) THEN (IF cur = <<>> THEN <<>> ELSE <<cur>>)
  ELSE IF s[i] = SP THEN (IF cur = <<>> THEN <<>> ELSE <<cur>>) \o Fields(s, i + 1, <<>>)
  ELSE Fields(s, i + 1, Append(cur, s[i]))

\* a field the flag splitter handles without touching the questions PkgConfigSplit.tla is about
SimpleFlag(f) == Len(f) >= 2 /\ f[1] = DASH /\ f[2] # DASH /\ (Len(f) >= 3 => f[3] # DASH)

HasCmd(t) == \E i \in 1..Len(t) : t[i] \in {C1, C2, C3}
DollarArgs(t, env) ==
  LET r == Trim(DollarExpand(t, env))
  IN IF r = <<>> THEN <<>> ELSE IF HasCmd(t) THEN Fields(r, 1, <<>>) ELSE <<r>>

\* =================================================================== case construction
VARIABLES segs, va, vb, df, h
vars == <<segs, va, vb, df, h>>

Mix(x, n) == (x * 31 + n + 1) % 1000003
SegHash(s) == Len(s) * 13 + s[1] * 5 + s[Len(s)]

Init ==
  /\ segs = <<>>
  /\ IF Mode = "brace" THEN va \in ValsA /\ vb \in ValsB /\ df \in Dflts
                       ELSE va \in DValsA /\ vb \in DValsB /\ df = <<>>
  /\ h = Mix(Mix(Mix(7, Len(va) + (IF va = <<>> THEN 0 ELSE va[1])), Len(vb) + (IF vb = <<>> THEN 0 ELSE 2 * vb[1])), Len(df))

\* seed sampling of the quick tier: from PruneAt segments on, only the cases whose hash is Sel modulo Mod are
\* extended further (Mod = 1: everything).  Every case that is reached is checked and emitted.
Live == Len(segs) < PruneAt \/ (h % Mod) = Sel

AddSeg ==
  /\ Len(segs) < MaxSeg /\ Live
  /\ \E s \in (IF Mode = "brace" THEN BraceSegs ELSE DollarSegs) :
       /\ segs' = Append(segs, s)
       /\ h' = Mix(h, SegHash(s))
  /\ UNCHANGED <<va, vb, df>>

Next == AddSeg
Spec == Init /\ [][Next]_vars

Template == Concat(segs)
BEnv == [k \in {KA, KB} |-> IF k = KA THEN va ELSE vb]
DEnv == [k \in {NA, NB} |-> IF k = NA THEN va ELSE vb]

\* ------------------------------------------------------------------ laws of the specification itself
\* nothing but references changes: a template without "{" (resp. "$", commands) is its own expansion
LawLiteralUntouched ==
  /\ (Mode = "brace" /\ \A i \in 1..Len(Template) : Template[i] # LB) => BraceExpand(Template, BEnv, df) = Template
  /\ (Mode = "dollar" /\ \A i \in 1..Len(Template) : Template[i] \notin {DL, C1, C2, C3}) => DollarExpand(Template, DEnv) = Template

\* simultaneity: expanding segment by segment and concatenating is the same as expanding the whole text,
\* whenever no reference straddles a segment border (brace: segments that are references or brace-free)
Closed(s) == s \in { <<5>>, <<LB, KA, RB>>, <<LB, KB, RB>>, <<LB, RB>>, <<KA>> }
LawCompositional ==
  (Mode = "brace" /\ \A i \in 1..Len(segs) : Closed(segs[i])) =>
     BraceExpand(Template, BEnv, df) = Concat([i \in 1..Len(segs) |-> BraceExpand(segs[i], BEnv, df)])

\* layer B, report only (cfg expand_implB): the key-by-key mechanism gives the law's result in either order
LawOrderIndependent ==
  Mode = "brace" =>
     /\ SeqExpand(Template, BEnv, df, KA, KB) = BraceExpand(Template, BEnv, df)
     /\ SeqExpand(Template, BEnv, df, KB, KA) = BraceExpand(Template, BEnv, df)

\* ------------------------------------------------------------------ emission
\* braces = some value that can be substituted carries a brace (the only way substituted text can look like a reference)
Carries(v) == v # Absent /\ \E i \in 1..Len(v) : v[i] \in {LB, RB}
EmitBrace ==
  (Mode = "brace") =>
     PrintT(ToJson([t |-> Template, a |-> va, b |-> vb, d |-> df,
                    exp |-> BraceExpand(Template, BEnv, df),
                    seq |-> <<SeqExpand(Template, BEnv, df, KA, KB), SeqExpand(Template, BEnv, df, KB, KA)>>,
                    braces |-> (Carries(va) \/ Carries(vb) \/ Carries(df)),
                    nsegs |-> Len(segs)]))

EmitDollar ==
  (Mode = "dollar") =>
     PrintT(ToJson([t |-> Template, a |-> va, b |-> vb,
                    exp |-> Trim(DollarExpand(Template, DEnv)),
                    twopass |-> Trim(TwoPass(Template, DEnv)),
                    args |-> DollarArgs(Template, DEnv),
                    cmd |-> HasCmd(Template),
                    simple |-> (LET f == Fields(Trim(DollarExpand(Template, DEnv)), 1, <<>>)
                                IN \A i \in 1..Len(f) : SimpleFlag(f[i])),
                    cmddollar |-> (\E i \in 1..Len(Template) : Template[i] = C2)]))
=============================================================================

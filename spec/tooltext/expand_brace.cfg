SPECIFICATION Spec
CONSTANTS Mode = "brace"  MaxSeg = 4  PruneAt = 0  Sel = 0  Mod = 1
INVARIANTS LawLiteralUntouched LawCompositional EmitBrace
CHECK_DEADLOCK FALSE

SPECIFICATION Spec
CONSTANTS Mode = "brace"  MaxSeg = 3  PruneAt = 0  Sel = 0  Mod = 1
INVARIANTS LawOrderIndependent
CHECK_DEADLOCK FALSE

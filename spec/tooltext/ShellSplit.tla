-------------------------------- MODULE ShellSplit --------------------------------
(***************************************************************************)
(* Layer A for C17 (command lines): splitting a command line into words.   *)
(*                                                                         *)
(* Characters are small integers (the harness maps them to real text):     *)
(*   1 space  2 tab  3 "  4 '  5 \  6 -  7 $  8 a                          *)
(*   9  M: ANY multi-byte letter.  The harness replays every case with     *)
(*      each of e-acute (C3 A9), a-grave (C3 A0), A-ring (C3 85) and the   *)
(*      ellipsis (E2 80 A6): their encodings contain the bytes A0 / 85,    *)
(*      which are blanks when taken for Latin-1 characters - a word is a   *)
(*      sequence of CHARACTERS, never cut inside one.  In the round trip   *)
(*      (always quoted) M is also U+00A0 and U+0085 themselves.            *)
(*   10 U: a non-ASCII Unicode space, U+00A0 or U+0085 (only WithNB).      *)
(*      The documentation speaks of "spaces" only.  The unchanged code     *)
(*      separates words at every unicode.IsSpace rune, POSIX sh only at    *)
(*      space/tab/newline: `doc` takes U for a blank outside quotes,       *)
(*      `posix` for an ordinary character, either is accepted; inside      *)
(*      quotes U is literal in both.                                       *)
(*                                                                         *)
(* The tokenizer is an automaton over configurations                       *)
(*   [st, words, cur, has]   st : normal / single / double / dEsc / nEsc   *)
(* `has` records that the current word exists even if it is empty ("").    *)
(*                                                                         *)
(* Two dialects are computed side by side:                                 *)
(*  doc    what internal/shellparse documents (doc comment "quoted         *)
(*         arguments with spaces", its comments "escape sequences in       *)
(*         quotes" / "in single quotes, backslash is a literal character", *)
(*         and its example table): blanks split; '..' literal; in ".."     *)
(*         a backslash escapes only " and \ ; a backslash is NOT special   *)
(*         outside quotes; quoted and unquoted pieces that touch form one  *)
(*         word (the documentation is silent here: POSIX rule 2.2);        *)
(*         an open quote at the end is an error.                           *)
(*  posix  POSIX sh 2.2 quoting without expansions: additionally a         *)
(*         backslash outside quotes quotes the next character (a trailing  *)
(*         one stays literal), and in ".." a backslash also escapes $.     *)
(* Where both agree (no rule the documentation is silent about fired) the  *)
(* result is the only acceptable one; where they differ either reading is  *)
(* acceptable and nothing else.  No `$` expansion happens in either: the   *)
(* callers expand before splitting.                                        *)
(*                                                                         *)
(* Mode "split":     TLC builds every string of length <= MaxLen char by   *)
(*                   char, stepping both automata, and prints the string   *)
(*                   with the expected words / error.                      *)
(* Mode "roundtrip": TLC builds every argument list (<= MaxArgs arguments  *)
(*                   of <= MaxArgLen characters), checks the laws          *)
(*                   RoundTrip for both producers in both dialects, and    *)
(*                   prints the list with its quoted command lines.        *)
(***************************************************************************)
EXTENDS Integers, Sequences, FiniteSets, TLC, Json

CONSTANTS Mode, MaxLen, MaxArgs, MaxArgLen, WithNB, PruneAt, Sel, Mod

SP == 1  TB == 2  DQ == 3  SQ == 4  BS == 5  DASH == 6  DOLLAR == 7  LA == 8  LE == 9  NB == 10
Alphabet == IF WithNB THEN 1..10 ELSE 1..9
Blank == {SP, TB}
IsBlank(ch, posix) == ch \in Blank \/ (ch = NB /\ ~posix)

\* ------------------------------------------------------------------ the automaton
Start == [st |-> "normal", words |-> <<>>, cur |-> <<>>, has |-> FALSE]

DqEscapable(posix) == IF posix THEN {DQ, BS, DOLLAR} ELSE {DQ, BS}

Step(c, ch, posix) ==
  CASE c.st = "normal" ->
         IF IsBlank(ch, posix)
           THEN IF c.has THEN [c EXCEPT !.words = Append(c.words, c.cur), !.cur = <<>>, !.has = FALSE] ELSE c
         ELSE IF ch = SQ THEN [c EXCEPT !.st = "single", !.has = TRUE]
         ELSE IF ch = DQ THEN [c EXCEPT !.st = "double", !.has = TRUE]
         ELSE IF ch = BS /\ posix THEN [c EXCEPT !.st = "nEsc", !.has = TRUE]
         ELSE [c EXCEPT !.cur = Append(c.cur, ch), !.has = TRUE]
    [] c.st = "nEsc"   -> [c EXCEPT !.cur = Append(c.cur, ch), !.st = "normal"]
    [] c.st = "single" -> IF ch = SQ THEN [c EXCEPT !.st = "normal"] ELSE [c EXCEPT !.cur = Append(c.cur, ch)]
    [] c.st = "double" ->
         IF ch = DQ THEN [c EXCEPT !.st = "normal"]
         ELSE IF ch = BS THEN [c EXCEPT !.st = "dEsc"]
         ELSE [c EXCEPT !.cur = Append(c.cur, ch)]
    [] c.st = "dEsc"   ->
         IF ch \in DqEscapable(posix)
           THEN [c EXCEPT !.cur = Append(c.cur, ch), !.st = "double"]
           ELSE [c EXCEPT !.cur = c.cur \o <<BS, ch>>, !.st = "double"]   \* the backslash stays

\* Malformed: input ends inside a quotation => error, never a guess
Unterminated(c) == c.st \in {"single", "double", "dEsc"}

Finish(c) ==
  IF Unterminated(c) THEN [err |-> TRUE, words |-> <<>>]
  ELSE LET last == IF c.st = "nEsc" THEN Append(c.cur, BS) ELSE c.cur
       IN [err |-> FALSE, words |-> IF c.has THEN Append(c.words, last) ELSE c.words]

RECURSIVE Run(_, _, _, _)
Run(c, s, i, posix) == IF i > Len(s) THEN c ELSE Run(Step(c, s[i], posix), s, i + 1, posix)
Tokenize(s, posix) == Finish(Run(Start, s, 1, posix))

\* ------------------------------------------------------------------ the producers
RECURSIVE Flat(_, _)
Flat(f, s) == IF s = <<>> THEN <<>> ELSE f[Head(s)] \o Flat(f, Tail(s))

\* documented producer: wrap in double quotes, escape " and \ with a backslash
DqEsc == [ch \in Alphabet |-> IF ch \in {DQ, BS} THEN <<BS, ch>> ELSE <<ch>>]
QuoteD(a) == <<DQ>> \o Flat(DqEsc, a) \o <<DQ>>
\* second producer: wrap in single quotes; a single quote leaves the quotation and is written "'"
SqEsc == [ch \in Alphabet |-> IF ch = SQ THEN <<SQ, DQ, SQ, DQ, SQ>> ELSE <<ch>>]
QuoteS(a) == <<SQ>> \o Flat(SqEsc, a) \o <<SQ>>

RECURSIVE Join(_, _)
Join(Q(_), args) == IF args = <<>> THEN <<>>
                    ELSE IF Len(args) = 1 THEN Q(args[1])
                    ELSE Q(args[1]) \o <<SP>> \o Join(Q, Tail(args))

\* ------------------------------------------------------------------ case construction
VARIABLES inp, d, p, args, h
vars == <<inp, d, p, args, h>>

Init == inp = <<>> /\ d = Start /\ p = Start /\ args = <<>> /\ h = 7

Mix(x, ch) == (x * 31 + ch + 1) % 1000003

\* seed sampling of the quick tier: from size PruneAt on, only the cases whose hash is Sel modulo Mod are
\* extended further (Mod = 1: everything).  Every case that is reached is checked and emitted.
RECURSIVE SumLen(_)
SumLen(ss) == IF ss = <<>> THEN 0 ELSE Len(Head(ss)) + SumLen(Tail(ss))
Size == IF Mode = "split" THEN Len(inp) ELSE Len(args) + SumLen(args)
Live == Size < PruneAt \/ (h % Mod) = Sel

Extend ==
  /\ Mode = "split" /\ Len(inp) < MaxLen /\ Live
  /\ \E ch \in Alphabet :
       /\ inp' = Append(inp, ch)
       /\ d' = Step(d, ch, FALSE)
       /\ p' = Step(p, ch, TRUE)
       /\ h' = Mix(h, ch)
  /\ UNCHANGED args

GrowArg ==
  /\ Mode = "roundtrip" /\ Live /\ Len(args) > 0 /\ Len(args[Len(args)]) < MaxArgLen
  /\ \E ch \in Alphabet :
       /\ args' = [args EXCEPT ![Len(args)] = Append(@, ch)]
       /\ h' = Mix(h, ch)
  /\ UNCHANGED <<inp, d, p>>

NewArg ==
  /\ Mode = "roundtrip" /\ Live /\ Len(args) < MaxArgs
  /\ args' = Append(args, <<>>)
  /\ h' = Mix(h, 11)
  /\ UNCHANGED <<inp, d, p>>

Next == Extend \/ GrowArg \/ NewArg
Spec == Init /\ [][Next]_vars


\* ------------------------------------------------------------------ laws of the specification itself
\* RoundTrip: splitting the quoted list gives back exactly the list (both producers, both dialects)
LawRoundTrip ==
  (Mode = "roundtrip") =>
    \A posix \in BOOLEAN :
      /\ Tokenize(Join(QuoteD, args), posix) = [err |-> FALSE, words |-> args]
      /\ Tokenize(Join(QuoteS, args), posix) = [err |-> FALSE, words |-> args]

\* Malformed, stated without the automaton for strings free of backslashes: scan for the closing partner
RECURSIVE OpenAtEnd(_, _, _)
OpenAtEnd(s, i, q) ==   \* q = 0 outside, else the open quote character
  IF i > Len(s) THEN q # 0
  ELSE IF q = 0 THEN OpenAtEnd(s, i + 1, IF s[i] \in {DQ, SQ} THEN s[i] ELSE 0)
  ELSE OpenAtEnd(s, i + 1, IF s[i] = q THEN 0 ELSE q)
LawMalformed ==
  (Mode = "split" /\ \A i \in 1..Len(inp) : inp[i] \notin {BS, NB}) =>
     /\ Finish(d).err = OpenAtEnd(inp, 1, 0)
     /\ Finish(d) = Finish(p)

\* without quote characters and backslashes the words are the maximal blank-free runs
LawPlain ==
  (Mode = "split" /\ \A i \in 1..Len(inp) : inp[i] \notin {DQ, SQ, BS}) =>
     LET w == Finish(d).words
         nb == {i \in 1..Len(inp) : ~IsBlank(inp[i], FALSE)}
         starts == {i \in nb : i = 1 \/ IsBlank(inp[i - 1], FALSE)}
     IN /\ ~Finish(d).err
        /\ Len(w) = Cardinality(starts)
        /\ Flat([k \in 1..Len(w) |-> w[k]], [k \in 1..Len(w) |-> k]) = SelectSeq(inp, LAMBDA x : ~IsBlank(x, FALSE))

\* ------------------------------------------------------------------ emission
EmitSplit ==
  (Mode = "split") =>
     PrintT(ToJson([inp |-> inp, doc |-> Finish(d), px |-> Finish(p)]))

EmitRoundTrip ==
  (Mode = "roundtrip") =>
     PrintT(ToJson([args |-> args, qd |-> Join(QuoteD, args), qs |-> Join(QuoteS, args)]))
=============================================================================

SPECIFICATION Spec
CONSTANTS Mode = "tagsflag"  MaxOpts = 0  MaxTerms = 0  Depth = 0  GrowWith = 0  MaxFlags = 3  MaxVal = 2  PruneAt = 0  Sel = 0  Mod = 1
INVARIANTS LawSpelling EmitTagsFlag
CHECK_DEADLOCK FALSE

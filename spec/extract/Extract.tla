---------------------------------- MODULE Extract ----------------------------------
(***************************************************************************)
(* Layer A for C20: what unpacking an archive into a destination directory *)
(* `dest` is allowed to do.  Pure operators only (no variables): the       *)
(* machine that is model-checked lives in ExtractMachine, the enumeration  *)
(* of archives with the verdict the law assigns to each in ExtractCases.   *)
(*                                                                         *)
(* The statement (properties.jsonl, C20):                                  *)
(*   - every file created lies inside `dest`, whatever names the entries   *)
(*     carry (parent references, absolute paths, links);                   *)
(*   - an entry that would escape is rejected with an error;               *)
(*   - for well-formed archives every regular file and directory is        *)
(*     recreated with exactly the archived bytes.                          *)
(*                                                                         *)
(* An entry name is an optional leading "/" followed by 1..MaxLen segments *)
(* drawn from Segs (a subset of {"a","b","..",".",""}); "" is an empty     *)
(* segment ("a//b", trailing "/", or the empty name).  Names are resolved  *)
(* lexically against `dest`, the way every path library does it: empty and *)
(* "." segments vanish, ".." removes the segment before it, and a ".."     *)
(* with nothing before it climbs out of `dest`.  A leading "/" is either   *)
(* refused or stripped - it never addresses the real root.                 *)
(***************************************************************************)
EXTENDS Sequences, FiniteSets, Integers, TLC

Plain == {"a", "b"}
FileKinds == {"file", "dir"}
LinkKinds == {"sym", "hard"}

\* ------------------------------------------------------------------ names
\* Norm(s) = [up |-> number of levels climbed above dest, st |-> remaining plain segments]
RECURSIVE NormFrom(_, _, _)
NormFrom(s, i, acc) ==
  IF i > Len(s) THEN acc
  ELSE LET x == s[i] IN
       NormFrom(s, i + 1,
                CASE x \in {"", "."} -> acc
                  [] x = ".."        -> IF Len(acc.st) > 0
                                          THEN [acc EXCEPT !.st = SubSeq(@, 1, Len(@) - 1)]
                                          ELSE [acc EXCEPT !.up = @ + 1]
                  [] OTHER           -> [acc EXCEPT !.st = Append(@, x)])

Norm(name)    == NormFrom(name.segs, 1, [up |-> 0, st |-> <<>>])
Escapes(name) == Norm(name).up > 0          \* dest/name lies outside dest
Place(name)   == Norm(name).st              \* where it lies, relative to dest (when ~Escapes) / to the ancestor (when Escapes)

\* a name as an archiving tool writes it for a tree: relative, non-empty, only real segments
Canonical(name) == /\ ~name.abs
                   /\ Len(name.segs) > 0
                   /\ \A i \in 1..Len(name.segs) : name.segs[i] \in Plain

\* ------------------------------------------------------------------ the name and entry spaces that get enumerated
\* A relative name whose first of several segments is empty is spelled with a leading "/" - the same text as the
\* absolute name without that segment - so it is left out when absolute names are generated anyway.
NamesOf(S, maxLen, absSet) ==
  {nm \in {[abs |-> a, segs |-> s] : a \in absSet, s \in UNION {[1..k -> S] : k \in 1..maxLen}} :
      ~(TRUE \in absSet /\ ~nm.abs /\ Len(nm.segs) > 1 /\ nm.segs[1] = "")}

KT(k, t) == [kind |-> k, t |-> t]
KindChoicesOf(sel) ==
  CASE sel = "all"   -> {KT("file", "-"), KT("dir", "-"), KT("sym", "in"), KT("sym", "up"), KT("sym", "abs"),
                         KT("hard", "in"), KT("hard", "up")}
    [] sel = "core"  -> {KT("file", "-"), KT("dir", "-"), KT("sym", "up"), KT("hard", "up")}
    [] OTHER         -> {KT("file", "-"), KT("dir", "-")}

EntriesOf(S, maxLen, absSet, sel) ==
  {[name |-> n, kind |-> kt.kind, t |-> kt.t] : n \in NamesOf(S, maxLen, absSet), kt \in KindChoicesOf(sel)}

\* text of a name, as it is stored in the archive
RECURSIVE JoinFrom(_, _)
JoinFrom(s, i) == IF i > Len(s) THEN "" ELSE IF i = Len(s) THEN s[i] ELSE s[i] \o "/" \o JoinFrom(s, i + 1)
Text(name) == (IF name.abs THEN "/" ELSE "") \o JoinFrom(name.segs, 1)

\* ------------------------------------------------------------------ the verdict on one entry, by its own text
\*  "reject"  : creating it would put something outside dest; the extraction must end with an error
\*  "extract" : plain entry of a well-formed archive; must be recreated
\*  "either"  : the statement leaves it open (odd but harmless spelling, absolute name that may be stripped or refused,
\*              links - which need not be recreated -, a directory entry naming dest itself or one of its ancestors)
Verdict(e) ==
  CASE e.kind \in LinkKinds                                        -> "either"
    [] Escapes(e.name) /\ e.kind = "dir" /\ Place(e.name) = <<>>   -> "either"    \* "..", "../..": names an existing ancestor, creates nothing
    [] Escapes(e.name)                                             -> "reject"
    [] Canonical(e.name)                                           -> "extract"
    [] OTHER                                                       -> "either"

\* ------------------------------------------------------------------ archives (sequences of entries)
Prefixes(p)       == {SubSeq(p, 1, k) : k \in 0..Len(p)}
ProperPrefixes(p) == {SubSeq(p, 1, k) : k \in 0..(Len(p) - 1)}
Idx(arch)         == 1..Len(arch)

Inside(arch)   == {i \in Idx(arch) : arch[i].kind \in FileKinds /\ ~Escapes(arch[i].name)}
FilesOf(arch)  == {i \in Inside(arch) : arch[i].kind = "file"}
\* every directory the inside entries imply: named directories and the parents of everything
DirPaths(arch) == UNION {IF arch[i].kind = "dir" THEN Prefixes(Place(arch[i].name))
                                                 ELSE ProperPrefixes(Place(arch[i].name)) : i \in Inside(arch)}
                  \cup {<<>>}

\* two entries cannot both be honoured: a file written twice, a file where a directory is needed (dest itself included)
Clash(arch) == \/ \E i, j \in FilesOf(arch) : i # j /\ Place(arch[i].name) = Place(arch[j].name)
               \/ \E i \in FilesOf(arch) : Place(arch[i].name) \in DirPaths(arch)

HasLinks(arch)  == \E i \in Idx(arch) : arch[i].kind \in LinkKinds
HasReject(arch) == \E i \in Idx(arch) : Verdict(arch[i]) = "reject"
AllExtract(arch) == \A i \in Idx(arch) : Verdict(arch[i]) = "extract"

\* what the statement demands of the call as a whole
\*  "error" : some entry would escape                      -> the call must fail
\*  "ok"    : well-formed (all plain, no clash)            -> the call must succeed and recreate everything
\*  "free"  : anything else                                -> may fail or succeed
Demand(arch) == IF HasReject(arch) THEN "error"
                ELSE IF AllExtract(arch) /\ ~Clash(arch) THEN "ok"
                ELSE "free"

\* when no entry is refused, no link is involved and nothing clashes, the resulting tree is determined:
\* every entry was created at exactly dest/Place(name), parents implied
Determined(arch) == ~HasReject(arch) /\ ~HasLinks(arch) /\ ~Clash(arch)
                    /\ \A i \in Idx(arch) : ~Escapes(arch[i].name)

Tree(arch) == {[p |-> d, k |-> "dir", c |-> 0] : d \in DirPaths(arch) \ {<<>>}}
              \cup {[p |-> Place(arch[i].name), k |-> "file", c |-> i] : i \in FilesOf(arch)}

\* ------------------------------------------------------------------ physical file system under dest (used by the machine)
\* fs : function from inside paths (sequences over Plain) to nodes [k, c, t]
\*   k = "dir" | "file" (c = index of the entry whose bytes it holds) | "sym" (t = where it points) | "hard" (t)
\* link targets:  "in"  a sibling named b inside dest      "up"  the parent directory (sym) / a file there (hard)
\*                "abs" an absolute path outside dest
\* Walk resolves a path the way the kernel does when a program opens dest/<path>: symbolic links in every component,
\* the last one included, are followed.  Result: [res |-> "in", at |-> path] | [res |-> "out"] | [res |-> "loop"]
RECURSIVE WalkFrom(_, _, _, _)
WalkFrom(fs, cur, rest, fuel) ==
  IF rest = <<>> THEN [res |-> "in", at |-> cur]
  ELSE LET nxt == Append(cur, Head(rest)) IN
       IF nxt \in DOMAIN fs /\ fs[nxt].k = "sym"
         THEN IF fuel = 0 THEN [res |-> "loop", at |-> <<>>]
              ELSE CASE fs[nxt].t = "abs" -> [res |-> "out", at |-> <<>>]
                     [] fs[nxt].t = "up"  -> IF cur = <<>> THEN [res |-> "out", at |-> <<>>]
                                             ELSE WalkFrom(fs, SubSeq(cur, 1, Len(cur) - 1), Tail(rest), fuel - 1)
                     [] OTHER             -> WalkFrom(fs, cur, <<"b">> \o Tail(rest), fuel - 1)
         ELSE WalkFrom(fs, nxt, Tail(rest), fuel)

Walk(fs, path) == WalkFrom(fs, <<>>, path, 4)

\* writing to the resolved place lands outside when it is a hard link to an outside file
LandsOutside(fs, path) ==
  LET w == Walk(fs, path) IN
    \/ w.res = "out"
    \/ w.res = "in" /\ w.at \in DOMAIN fs /\ fs[w.at].k = "hard" /\ fs[w.at].t = "up"
=============================================================================

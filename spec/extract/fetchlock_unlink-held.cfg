SPECIFICATION Spec
CONSTANTS
  NProcs = 3
  NFiles = 2
  MaxFail = 1
  Release = "unlink-held"
INVARIANTS TypeOK MutexNamed MutexWork NoPartialDst NoPartialSeen AllOkComplete NoSpuriousError
CHECK_DEADLOCK TRUE

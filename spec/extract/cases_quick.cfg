SPECIFICATION Spec
CONSTANTS
  Profile = "quick"
  Sel = 1
INVARIANTS LawCanonicalInside LawPlacePlain LawOkDetermined LawTreeClosed Emit
CHECK_DEADLOCK FALSE

--------------------------------- MODULE FetchLock ---------------------------------
(***************************************************************************)
(* Layer B for C20 (never the judge): internal/crosscompile/fetch.go       *)
(* checkDownloadAndExtractLib + downloadAndExtractArchive + acquireLock /  *)
(* releaseLock, one action per system call that other processes can see.   *)
(*                                                                         *)
(* The lock is modelled as it really is: flock(2) locks an INODE (through  *)
(* an open file description), while open(path, O_CREATE) resolves a PATH.  *)
(* `lockIno` is the inode <dst>.lock currently names (0: no such path);    *)
(* unlinking the path does not touch an inode somebody still holds open,   *)
(* and the next opener creates - and locks - a fresh inode.                *)
(*                                                                         *)
(* Directories are sets of members: 0 is the downloaded archive file,      *)
(* 1..NFiles the members of the archive's sub-directory (which is what     *)
(* gets renamed to dst).  Extraction creates its files BY PATH, parents    *)
(* re-created on demand (MkdirAll), so it keeps going after another        *)
(* process removed and re-made the shared <dst>.extract.temp.              *)
(*                                                                         *)
(* Release = "unlink-after"   the code: unlock, close, remove(path)         *)
(*           "keep"           candidate fix: never remove the lock file     *)
(*           "unlink-held"    candidate fix: remove(path) while still       *)
(*                            holding the lock, and acquire re-checks that  *)
(*                            the locked inode is the one the path names    *)
(***************************************************************************)
EXTENDS Integers, FiniteSets, TLC

CONSTANTS NProcs, NFiles, MaxFail, Release

Procs  == 1..NProcs
Files  == 1..NFiles
MaxIno == NProcs + MaxFail + 2
Absent == [ex |-> FALSE, items |-> {}]
Dir(s) == [ex |-> TRUE, items |-> s]
None   == {-1}

(* --algorithm FetchLock {
variables
  lockIno = 0,                          \* inode named by <dst>.lock, 0 = path absent
  nextIno = 1,
  holder  = [i \in 1..MaxIno |-> 0],    \* flock owner per inode
  dst = Absent, temp = Absent, extract = Absent,
  fails = 0,
  result = [q \in Procs |-> "running"],
  seen   = [q \in Procs |-> None];      \* members of dst at the moment the caller was told "dst is there"

process (p \in Procs)
variables fd = 0, k = 0;
{
  Stat1:    if (dst.ex) { seen[self] := dst.items; result[self] := "ok"; goto Done };
  Open:     if (lockIno = 0) { lockIno := nextIno; fd := nextIno; nextIno := nextIno + 1 }
            else { fd := lockIno };
  Flock:    await holder[fd] = 0;
            holder[fd] := self;
  Recheck:  if (Release = "unlink-held" /\ lockIno # fd) { holder[fd] := 0; fd := 0; goto Open };
  Stat2:    if (dst.ex) { seen[self] := dst.items; result[self] := "ok"; goto Release1 };
  RmTemp:   temp := Absent;                                   \* os.RemoveAll(tempDir)
  MkTemp:   if (~temp.ex) { temp := Dir({}) };                \* os.MkdirAll(tempDir)
  Create:   if (~temp.ex) { result[self] := "err"; goto DeferRmTemp }     \* os.Create(localFile)
            else { temp := Dir(temp.items \cup {0}) };
  Download: either { await fails < MaxFail; fails := fails + 1; result[self] := "err"; goto DeferRmTemp }
            or     { skip };
  OpenArch: if (~(temp.ex /\ 0 \in temp.items)) { result[self] := "err"; goto DeferRmTemp };
  Extract:  while (k < NFiles) {                              \* MkdirAll(parent) + OpenFile(O_CREATE), one member at a time
              k := k + 1;
              temp := Dir((IF temp.ex THEN temp.items ELSE {}) \cup {k});
            };
  Rename1:  if (~temp.ex \/ (extract.ex /\ extract.items # {})) { result[self] := "err" }   \* rename(temp, dst.extract)
            else { extract := temp; temp := Absent };
  DeferRmTemp:
            temp := Absent;                                   \* deferred os.RemoveAll(tempDir)
            if (result[self] = "err") { goto Release1 };
  Rename2:  if (~extract.ex \/ (extract.items \ {0}) = {} \/ dst.ex) { result[self] := "err" }  \* rename(dst.extract/sub, dst)
            else { seen[self] := extract.items \ {0}; dst := Dir(extract.items \ {0});
                   extract := Dir(extract.items \cap {0}); result[self] := "ok" };
  DeferRmExtract:
            extract := Absent;                                \* deferred os.RemoveAll(tempExtractDir)
  Release1: if (Release = "unlink-held") { if (lockIno = fd) { lockIno := 0 } };
  Unlock:   holder[fd] := 0;
  Close:    skip;
  Unlink:   if (Release = "unlink-after") { lockIno := 0 };   \* os.Remove(lockPath): whatever inode the path names NOW
}
} *)
\* BEGIN TRANSLATION
VARIABLES pc, lockIno, nextIno, holder, dst, temp, extract, fails, result, 
          seen, fd, k

vars == << pc, lockIno, nextIno, holder, dst, temp, extract, fails, result, 
           seen, fd, k >>

ProcSet == (Procs)

Init == (* Global variables *)
        /\ lockIno = 0
        /\ nextIno = 1
        /\ holder = [i \in 1..MaxIno |-> 0]
        /\ dst = Absent
        /\ temp = Absent
        /\ extract = Absent
        /\ fails = 0
        /\ result = [q \in Procs |-> "running"]
        /\ seen = [q \in Procs |-> None]
        (* Process p *)
        /\ fd = [self \in Procs |-> 0]
        /\ k = [self \in Procs |-> 0]
        /\ pc = [self \in ProcSet |-> "Stat1"]

Stat1(self) == /\ pc[self] = "Stat1"
               /\ IF dst.ex
                     THEN /\ seen' = [seen EXCEPT ![self] = dst.items]
                          /\ result' = [result EXCEPT ![self] = "ok"]
                          /\ pc' = [pc EXCEPT ![self] = "Done"]
                     ELSE /\ pc' = [pc EXCEPT ![self] = "Open"]
                          /\ UNCHANGED << result, seen >>
               /\ UNCHANGED << lockIno, nextIno, holder, dst, temp, extract, 
                               fails, fd, k >>

Open(self) == /\ pc[self] = "Open"
              /\ IF lockIno = 0
                    THEN /\ lockIno' = nextIno
                         /\ fd' = [fd EXCEPT ![self] = nextIno]
                         /\ nextIno' = nextIno + 1
                    ELSE /\ fd' = [fd EXCEPT ![self] = lockIno]
                         /\ UNCHANGED << lockIno, nextIno >>
              /\ pc' = [pc EXCEPT ![self] = "Flock"]
              /\ UNCHANGED << holder, dst, temp, extract, fails, result, seen, 
                              k >>

Flock(self) == /\ pc[self] = "Flock"
               /\ holder[fd[self]] = 0
               /\ holder' = [holder EXCEPT ![fd[self]] = self]
               /\ pc' = [pc EXCEPT ![self] = "Recheck"]
               /\ UNCHANGED << lockIno, nextIno, dst, temp, extract, fails, 
                               result, seen, fd, k >>

Recheck(self) == /\ pc[self] = "Recheck"
                 /\ IF Release = "unlink-held" /\ lockIno # fd[self]
                       THEN /\ holder' = [holder EXCEPT ![fd[self]] = 0]
                            /\ fd' = [fd EXCEPT ![self] = 0]
                            /\ pc' = [pc EXCEPT ![self] = "Open"]
                       ELSE /\ pc' = [pc EXCEPT ![self] = "Stat2"]
                            /\ UNCHANGED << holder, fd >>
                 /\ UNCHANGED << lockIno, nextIno, dst, temp, extract, fails, 
                                 result, seen, k >>

Stat2(self) == /\ pc[self] = "Stat2"
               /\ IF dst.ex
                     THEN /\ seen' = [seen EXCEPT ![self] = dst.items]
                          /\ result' = [result EXCEPT ![self] = "ok"]
                          /\ pc' = [pc EXCEPT ![self] = "Release1"]
                     ELSE /\ pc' = [pc EXCEPT ![self] = "RmTemp"]
                          /\ UNCHANGED << result, seen >>
               /\ UNCHANGED << lockIno, nextIno, holder, dst, temp, extract, 
                               fails, fd, k >>

RmTemp(self) == /\ pc[self] = "RmTemp"
                /\ temp' = Absent
                /\ pc' = [pc EXCEPT ![self] = "MkTemp"]
                /\ UNCHANGED << lockIno, nextIno, holder, dst, extract, fails, 
                                result, seen, fd, k >>

MkTemp(self) == /\ pc[self] = "MkTemp"
                /\ IF ~temp.ex
                      THEN /\ temp' = Dir({})
                      ELSE /\ TRUE
                           /\ temp' = temp
                /\ pc' = [pc EXCEPT ![self] = "Create"]
                /\ UNCHANGED << lockIno, nextIno, holder, dst, extract, fails, 
                                result, seen, fd, k >>

Create(self) == /\ pc[self] = "Create"
                /\ IF ~temp.ex
                      THEN /\ result' = [result EXCEPT ![self] = "err"]
                           /\ pc' = [pc EXCEPT ![self] = "DeferRmTemp"]
                           /\ temp' = temp
                      ELSE /\ temp' = Dir(temp.items \cup {0})
                           /\ pc' = [pc EXCEPT ![self] = "Download"]
                           /\ UNCHANGED result
                /\ UNCHANGED << lockIno, nextIno, holder, dst, extract, fails, 
                                seen, fd, k >>

Download(self) == /\ pc[self] = "Download"
                  /\ \/ /\ fails < MaxFail
                        /\ fails' = fails + 1
                        /\ result' = [result EXCEPT ![self] = "err"]
                        /\ pc' = [pc EXCEPT ![self] = "DeferRmTemp"]
                     \/ /\ TRUE
                        /\ pc' = [pc EXCEPT ![self] = "OpenArch"]
                        /\ UNCHANGED <<fails, result>>
                  /\ UNCHANGED << lockIno, nextIno, holder, dst, temp, extract, 
                                  seen, fd, k >>

OpenArch(self) == /\ pc[self] = "OpenArch"
                  /\ IF ~(temp.ex /\ 0 \in temp.items)
                        THEN /\ result' = [result EXCEPT ![self] = "err"]
                             /\ pc' = [pc EXCEPT ![self] = "DeferRmTemp"]
                        ELSE /\ pc' = [pc EXCEPT ![self] = "Extract"]
                             /\ UNCHANGED result
                  /\ UNCHANGED << lockIno, nextIno, holder, dst, temp, extract, 
                                  fails, seen, fd, k >>

Extract(self) == /\ pc[self] = "Extract"
                 /\ IF k[self] < NFiles
                       THEN /\ k' = [k EXCEPT ![self] = k[self] + 1]
                            /\ temp' = Dir((IF temp.ex THEN temp.items ELSE {}) \cup {k'[self]})
                            /\ pc' = [pc EXCEPT ![self] = "Extract"]
                       ELSE /\ pc' = [pc EXCEPT ![self] = "Rename1"]
                            /\ UNCHANGED << temp, k >>
                 /\ UNCHANGED << lockIno, nextIno, holder, dst, extract, fails, 
                                 result, seen, fd >>

Rename1(self) == /\ pc[self] = "Rename1"
                 /\ IF ~temp.ex \/ (extract.ex /\ extract.items # {})
                       THEN /\ result' = [result EXCEPT ![self] = "err"]
                            /\ UNCHANGED << temp, extract >>
                       ELSE /\ extract' = temp
                            /\ temp' = Absent
                            /\ UNCHANGED result
                 /\ pc' = [pc EXCEPT ![self] = "DeferRmTemp"]
                 /\ UNCHANGED << lockIno, nextIno, holder, dst, fails, seen, 
                                 fd, k >>

DeferRmTemp(self) == /\ pc[self] = "DeferRmTemp"
                     /\ temp' = Absent
                     /\ IF result[self] = "err"
                           THEN /\ pc' = [pc EXCEPT ![self] = "Release1"]
                           ELSE /\ pc' = [pc EXCEPT ![self] = "Rename2"]
                     /\ UNCHANGED << lockIno, nextIno, holder, dst, extract, 
                                     fails, result, seen, fd, k >>

Rename2(self) == /\ pc[self] = "Rename2"
                 /\ IF ~extract.ex \/ (extract.items \ {0}) = {} \/ dst.ex
                       THEN /\ result' = [result EXCEPT ![self] = "err"]
                            /\ UNCHANGED << dst, extract, seen >>
                       ELSE /\ seen' = [seen EXCEPT ![self] = extract.items \ {0}]
                            /\ dst' = Dir(extract.items \ {0})
                            /\ extract' = Dir(extract.items \cap {0})
                            /\ result' = [result EXCEPT ![self] = "ok"]
                 /\ pc' = [pc EXCEPT ![self] = "DeferRmExtract"]
                 /\ UNCHANGED << lockIno, nextIno, holder, temp, fails, fd, k >>

DeferRmExtract(self) == /\ pc[self] = "DeferRmExtract"
                        /\ extract' = Absent
                        /\ pc' = [pc EXCEPT ![self] = "Release1"]
                        /\ UNCHANGED << lockIno, nextIno, holder, dst, temp, 
                                        fails, result, seen, fd, k >>

Release1(self) == /\ pc[self] = "Release1"
                  /\ IF Release = "unlink-held"
                        THEN /\ IF lockIno = fd[self]
                                   THEN /\ lockIno' = 0
                                   ELSE /\ TRUE
                                        /\ UNCHANGED lockIno
                        ELSE /\ TRUE
                             /\ UNCHANGED lockIno
                  /\ pc' = [pc EXCEPT ![self] = "Unlock"]
                  /\ UNCHANGED << nextIno, holder, dst, temp, extract, fails, 
                                  result, seen, fd, k >>

Unlock(self) == /\ pc[self] = "Unlock"
                /\ holder' = [holder EXCEPT ![fd[self]] = 0]
                /\ pc' = [pc EXCEPT ![self] = "Close"]
                /\ UNCHANGED << lockIno, nextIno, dst, temp, extract, fails, 
                                result, seen, fd, k >>

Close(self) == /\ pc[self] = "Close"
               /\ TRUE
               /\ pc' = [pc EXCEPT ![self] = "Unlink"]
               /\ UNCHANGED << lockIno, nextIno, holder, dst, temp, extract, 
                               fails, result, seen, fd, k >>

Unlink(self) == /\ pc[self] = "Unlink"
                /\ IF Release = "unlink-after"
                      THEN /\ lockIno' = 0
                      ELSE /\ TRUE
                           /\ UNCHANGED lockIno
                /\ pc' = [pc EXCEPT ![self] = "Done"]
                /\ UNCHANGED << nextIno, holder, dst, temp, extract, fails, 
                                result, seen, fd, k >>

p(self) == Stat1(self) \/ Open(self) \/ Flock(self) \/ Recheck(self)
              \/ Stat2(self) \/ RmTemp(self) \/ MkTemp(self)
              \/ Create(self) \/ Download(self) \/ OpenArch(self)
              \/ Extract(self) \/ Rename1(self) \/ DeferRmTemp(self)
              \/ Rename2(self) \/ DeferRmExtract(self) \/ Release1(self)
              \/ Unlock(self) \/ Close(self) \/ Unlink(self)

(* Allow infinite stuttering to prevent deadlock on termination. *)
Terminating == /\ \A self \in ProcSet: pc[self] = "Done"
               /\ UNCHANGED vars

Next == (\E self \in Procs: p(self))
           \/ Terminating

Spec == Init /\ [][Next]_vars

Termination == <>(\A self \in ProcSet: pc[self] = "Done")

\* END TRANSLATION

Held == {"Recheck", "Stat2", "RmTemp", "MkTemp", "Create", "Download", "OpenArch", "Extract", "Rename1", "DeferRmTemp",
         "Rename2", "DeferRmExtract", "Release1", "Unlock"}
Work == {"RmTemp", "MkTemp", "Create", "Download", "OpenArch", "Extract", "Rename1", "DeferRmTemp", "Rename2", "DeferRmExtract"}

\* plain mutual exclusion of lock holders (reported only: two holders that both merely look at a finished dst are harmless)
MutexHeld  == \A a, b \in Procs : a # b => ~(pc[a] \in Held /\ pc[b] \in Held)
\* at most one holder of the inode the lock PATH currently names
MutexNamed == \A a, b \in Procs : a # b => ~(pc[a] \in Held /\ pc[b] \in Held /\ fd[a] = lockIno /\ fd[b] = lockIno)
\* at most one request downloads / extracts / renames for the destination at a time
MutexWork  == \A a, b \in Procs : a # b => ~(pc[a] \in Work /\ pc[b] \in Work)
\* what is published under dst is a complete copy
NoPartialDst == dst.ex => dst.items = Files
\* whoever was told "dst is there" (fast path, re-check under the lock, or own rename) saw a complete copy
NoPartialSeen == \A a \in Procs : result[a] = "ok" => seen[a] = Files
\* when every request returned success, dst holds one complete copy and no second one lingers
AllOkComplete == (\A a \in Procs : pc[a] = "Done" /\ result[a] = "ok") => dst = Dir(Files) /\ ~extract.ex /\ ~temp.ex
\* without download failures every request succeeds
NoSpuriousError == (MaxFail = 0) => \A a \in Procs : result[a] # "err"
TypeOK == /\ lockIno \in 0..MaxIno /\ nextIno \in 1..(MaxIno + 1)
          /\ \A a \in Procs : result[a] \in {"running", "ok", "err"}
=============================================================================

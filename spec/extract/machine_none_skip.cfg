SPECIFICATION Spec
CONSTANTS
  Segs = {"a", ".."}
  MaxLen = 2
  AbsSet = {FALSE}
  KindSel = "all"
  NEntries = 3
  Guard = "none"
  Links = "skip"
INVARIANTS TypeOK Confined Faithful Refuses Exact
CHECK_DEADLOCK FALSE

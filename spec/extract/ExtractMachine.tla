------------------------------- MODULE ExtractMachine -------------------------------
(***************************************************************************)
(* The extraction law as a state machine: entries arrive one at a time and *)
(* ExtractEntry either Rejects the entry (the call will end in an error)   *)
(* or creates exactly dest/Place(name).  The file system is the set of     *)
(* created paths: `fs` holds those inside dest, `out` records every        *)
(* creation or write that landed outside dest.                             *)
(*                                                                         *)
(*   Confined  nothing outside dest is ever created or written through -   *)
(*             writing through a previously created link included.         *)
(*   Faithful  when the archive is well-formed (Demand = "ok") the call    *)
(*             does not fail and the tree is exactly Tree(arch).           *)
(*   Refuses   when some entry would escape the call ends in an error.     *)
(*                                                                         *)
(* Guard = "law" is the statement.  Two named deviations show that the     *)
(* invariants have teeth (TLC must find the violation):                    *)
(*   Guard = "lexical": only the text of the name is checked.  Safe while  *)
(*           links are skipped (Links = "skip"); with Links = "honour" a   *)
(*           later entry writes through an earlier link.                   *)
(*   Guard = "none":    no check - "../x" lands outside.                   *)
(***************************************************************************)
EXTENDS Extract

CONSTANTS Segs, MaxLen, AbsSet, KindSel, NEntries,
          Guard,     \* "law" | "lexical" | "none"
          Links      \* "skip": link entries are never created | "honour": they may be

Entries == EntriesOf(Segs, MaxLen, AbsSet, KindSel)

VARIABLES arch,   \* entries seen so far
          fs,     \* physical tree under dest: path -> node
          out,    \* indexes of entries whose creation or bytes landed outside dest
          err     \* an entry was rejected: the call returns an error
vars == <<arch, fs, out, err>>

DirNode     == [k |-> "dir", c |-> 0, t |-> "-"]
FileNode(i) == [k |-> "file", c |-> i, t |-> "-"]

Init == arch = <<>> /\ fs = <<>> /\ out = {} /\ err = FALSE

\* the kernel would let us create `kind` at the (resolved) path `at`
Feasible(at, kind) ==
  /\ \A p \in ProperPrefixes(at) \ {<<>>} : p \in DOMAIN fs => fs[p].k = "dir"
  /\ kind = "file" => at # <<>> /\ (at \in DOMAIN fs => fs[at].k \in {"file", "hard"})
  /\ kind = "dir"  => at = <<>> \/ (at \in DOMAIN fs => fs[at].k = "dir")

WithParents(f, at) == f @@ [p \in ProperPrefixes(at) \ {<<>>} |-> DirNode]

\* create the entry at its resolved place inside dest
CreateAt(e, i, at) ==
  fs' = IF at = <<>> THEN fs
        ELSE [p \in DOMAIN fs \cup {at} |-> IF p = at THEN (IF e.kind = "dir" THEN DirNode ELSE FileNode(i)) ELSE fs[p]]
               @@ [p \in ProperPrefixes(at) \ {<<>>} |-> DirNode]

Resolved(e) == Walk(fs, Place(e.name))

\* ----- the law
LawCanCreate(e) == /\ e.kind \in FileKinds
                   /\ ~Escapes(e.name)
                   /\ Resolved(e).res = "in"
                   /\ ~LandsOutside(fs, Place(e.name))
                   /\ Feasible(Resolved(e).at, e.kind)

Create(e) ==
  LET i == Len(arch) + 1 IN
  CASE Guard = "law" ->
         /\ LawCanCreate(e)
         /\ CreateAt(e, i, Resolved(e).at)
         /\ UNCHANGED <<out, err>>
    [] Guard = "lexical" ->
         /\ e.kind \in FileKinds /\ ~Escapes(e.name) /\ Resolved(e).res # "loop"
         /\ IF LandsOutside(fs, Place(e.name))
              THEN out' = out \cup {i} /\ UNCHANGED <<fs, err>>
              ELSE Feasible(Resolved(e).at, e.kind) /\ CreateAt(e, i, Resolved(e).at) /\ UNCHANGED <<out, err>>
    [] OTHER ->
         /\ e.kind \in FileKinds /\ Resolved(e).res # "loop"
         /\ IF (Escapes(e.name) /\ ~(e.kind = "dir" /\ Place(e.name) = <<>>)) \/ (~Escapes(e.name) /\ LandsOutside(fs, Place(e.name)))
              THEN out' = out \cup {i} /\ UNCHANGED <<fs, err>>
              ELSE ~Escapes(e.name) /\ Feasible(Resolved(e).at, e.kind) /\ CreateAt(e, i, Resolved(e).at) /\ UNCHANGED <<out, err>>

\* rejecting is allowed unless the entry is plain and can be created
Reject(e) ==
  /\ CASE Guard = "law"     -> ~(Verdict(e) = "extract" /\ LawCanCreate(e))
       [] Guard = "lexical" -> Escapes(e.name) \/ Resolved(e).res = "loop" \/ ~Feasible(Resolved(e).at, e.kind)
       [] OTHER             -> Resolved(e).res = "loop" \/ (~Escapes(e.name) /\ ~Feasible(Resolved(e).at, e.kind))
  /\ err' = TRUE
  /\ UNCHANGED <<fs, out>>

\* links need not be recreated
SkipLink(e) == e.kind \in LinkKinds /\ UNCHANGED <<fs, out, err>>

\* ... but may be, inside dest, where nothing exists yet (creating a link is not a write through it)
CreateLink(e) ==
  LET pl  == Place(e.name)
      par == IF pl = <<>> THEN <<>> ELSE SubSeq(pl, 1, Len(pl) - 1)
      w   == Walk(fs, par)
      at  == Append(w.at, pl[Len(pl)])
  IN /\ Links = "honour" /\ e.kind \in LinkKinds
     /\ ~Escapes(e.name) /\ pl # <<>>
     /\ w.res = "in" /\ Feasible(w.at, "dir") /\ at \notin DOMAIN fs
     /\ fs' = ([p \in {at} |-> [k |-> e.kind, c |-> 0, t |-> e.t]] @@ fs) @@ [p \in Prefixes(w.at) \ {<<>>} |-> DirNode]
     /\ UNCHANGED <<out, err>>

\* after an error the call may stop looking at further entries
Ignore(e) == err /\ UNCHANGED <<fs, out, err>>

ExtractEntry(e) == Create(e) \/ Reject(e) \/ SkipLink(e) \/ CreateLink(e) \/ Ignore(e)

Next == /\ Len(arch) < NEntries
        /\ \E e \in Entries : arch' = Append(arch, e) /\ ExtractEntry(e)

Spec == Init /\ [][Next]_vars

\* ------------------------------------------------------------------ invariants
TreeFn(a) == [p \in {n.p : n \in Tree(a)} |->
                LET n == CHOOSE m \in Tree(a) : m.p = p IN IF n.k = "dir" THEN DirNode ELSE FileNode(n.c)]

Confined == out = {}
Faithful == Demand(arch) = "ok" => ~err /\ fs = TreeFn(arch)
Refuses  == Demand(arch) = "error" => err
\* when nothing was refused and the outcome is determined, it is the determined tree (what the harness compares)
Exact    == (Determined(arch) /\ ~err) => fs = TreeFn(arch)
TypeOK   == \A p \in DOMAIN fs : p # <<>> /\ \A q \in ProperPrefixes(p) \ {<<>>} : q \in DOMAIN fs
=============================================================================

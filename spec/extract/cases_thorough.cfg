SPECIFICATION Spec
CONSTANTS
  Profile = "thorough"
  Sel = 1
INVARIANTS LawCanonicalInside LawPlacePlain LawOkDetermined LawTreeClosed Emit
CHECK_DEADLOCK FALSE

-------------------------------- MODULE ExtractCases --------------------------------
(***************************************************************************)
(* Case generator for C20.  TLC builds every archive of each plan, one      *)
(* entry per step (so the work spreads over the workers), and              *)
(* prints each complete archive with what Extract demands of it: the       *)
(* verdict per entry, the demand on the call as a whole, and - when it is  *)
(* determined - the exact tree that must exist under dest afterwards.      *)
(* The harness turns every printed archive into a real tar.gz / zip /      *)
(* tar.xz and runs the real extract functions on it.                       *)
(***************************************************************************)
EXTENDS Extract, Json

CONSTANTS Profile,    \* "quick" | "thorough": which plans are enumerated (one TLC run covers all of them)
          Sel         \* seed: sampled plans keep the archives with hash % mod = Sel % mod

\* a plan: segment tokens, most segments per name, with/without leading "/", entry kinds, entries per archive, sampling
P(segs, maxLen, absSet, kinds, n, mod) ==
  [segs |-> segs, maxLen |-> maxLen, abs |-> absSet, kinds |-> kinds, n |-> n, mod |-> mod]
All5 == {"a", "b", "..", ".", ""}
Both == {FALSE, TRUE}
Rel  == {FALSE}

\* the first four plans are the same in both profiles and never sampled: stable representatives of every defect class;
\* the fourth consists of well-formed trees only (plain nested names, files and directories) - the subject of Faithful
Det == << P(All5, 3, Both, "all", 1, 1),
          P({"a", ".."}, 2, Rel, "all", 2, 1),
          P({"a", ".."}, 1, Rel, "all", 3, 1),
          P({"a", "b"}, 2, Rel, "plain", 3, 1) >>
Plans ==
  IF Profile = "quick"
    THEN Det \o << P(All5, 2, Rel, "all", 2, 4),
                   P({"a", ".."}, 2, Rel, "core", 3, 1) >>
    ELSE Det \o << P(All5, 4, Both, "all", 1, 1),
                   P(All5, 2, Both, "all", 2, 1),
                   P(All5, 3, Both, "core", 2, 8),
                   P({"a", "b", "..", ""}, 2, Rel, "core", 3, 1),
                   P({"a", ".."}, 2, Rel, "all", 3, 1),
                   P({"a", "b"}, 3, Rel, "plain", 3, 1) >>

PlanEntries == [i \in 1..Len(Plans) |-> EntriesOf(Plans[i].segs, Plans[i].maxLen, Plans[i].abs, Plans[i].kinds)]

VARIABLES plan, arch, h
vars == <<plan, arch, h>>

SegCode(x) == CASE x = "a" -> 1 [] x = "b" -> 2 [] x = ".." -> 3 [] x = "." -> 4 [] OTHER -> 5
KindCode(e) == CASE e.kind = "file" -> 1 [] e.kind = "dir" -> 2 [] e.kind = "sym" -> 3 [] OTHER -> 4
RECURSIVE SegHash(_, _, _)
SegHash(s, i, acc) == IF i > Len(s) THEN acc ELSE SegHash(s, i + 1, (acc * 7 + SegCode(s[i])) % 1000003)
EntryHash(e) == (SegHash(e.name.segs, 1, IF e.name.abs THEN 3 ELSE 1) * 11 + KindCode(e) * 3
                 + (IF e.t = "up" THEN 1 ELSE IF e.t = "abs" THEN 2 ELSE 0)) % 1000003

Init == plan \in 1..Len(Plans) /\ arch = <<>> /\ h = 0
Add  == /\ Len(arch) < Plans[plan].n
        /\ \E e \in PlanEntries[plan] : /\ arch' = Append(arch, e)
                                         /\ h' = (h * 131 + EntryHash(e)) % 1000003
        /\ UNCHANGED plan
Next == Add
Spec == Init /\ [][Next]_vars

Complete == Len(arch) = Plans[plan].n
Selected == Complete /\ (h % Plans[plan].mod) = (Sel % Plans[plan].mod)

\* ------------------------------------------------------------------ laws of the verdicts themselves (checked on every archive)
\* a canonical name never escapes, and it is its own place
LawCanonicalInside == \A i \in Idx(arch) : Canonical(arch[i].name) =>
                         ~Escapes(arch[i].name) /\ Place(arch[i].name) = arch[i].name.segs
\* whatever the spelling, the place consists of real segments only
LawPlacePlain == \A i \in Idx(arch) : \A k \in 1..Len(Place(arch[i].name)) : Place(arch[i].name)[k] \in Plain
\* a demand for success implies a determined tree in which every entry is present
LawOkDetermined == Demand(arch) = "ok" =>
                     /\ Determined(arch)
                     /\ \A i \in Idx(arch) : \E n \in Tree(arch) :
                           /\ n.p = Place(arch[i].name)
                           /\ n.k = arch[i].kind
                           /\ (n.k = "file" => n.c = i)
\* in a determined tree every node's parent is a directory of the tree, and no path occurs twice
LawTreeClosed == Determined(arch) =>
                   /\ \A n \in Tree(arch) : Len(n.p) > 1 =>
                         [p |-> SubSeq(n.p, 1, Len(n.p) - 1), k |-> "dir", c |-> 0] \in Tree(arch)
                   /\ \A n, m \in Tree(arch) : n.p = m.p => n = m

\* ------------------------------------------------------------------ emission
Out(i) == [n |-> Text(arch[i].name), k |-> arch[i].kind, t |-> arch[i].t, v |-> Verdict(arch[i])]
Emit == Selected => PrintT(ToJson([e    |-> [i \in Idx(arch) |-> Out(i)],
                                   plan |-> plan,
                                   d    |-> Demand(arch),
                                   det  |-> Determined(arch),
                                   tree |-> IF Determined(arch) THEN Tree(arch) ELSE {}]))
=============================================================================

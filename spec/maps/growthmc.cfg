SPECIFICATION Spec
CONSTANTS
  NK = 10
INVARIANTS CountIsSize RangeInv
PROPERTIES BMonotone GrowsWhenOverloaded
CHECK_DEADLOCK FALSE

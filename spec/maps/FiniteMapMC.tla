----------------------------- MODULE FiniteMapMC -----------------------------
(***************************************************************************)
(* FiniteMap model-checked on its own for tiny bounds (3 keys, <= MaxOps   *)
(* script tokens).  Two purposes:                                          *)
(*  1. the invariants of the range rule hold and are not vacuous: the      *)
(*     witness set `wit` records the interesting situations the model      *)
(*     reaches (entry created during a loop and produced / never produced, *)
(*     entry deleted before it was produced, a loop that may not end yet,  *)
(*     NaN entries, +0/-0 merged, unhashable and nil-map panics)           *)
(*  2. TLC enumerates ALL scripts (op histories without results) of that   *)
(*     size; each is printed and replayed into the llgo-compiled           *)
(*     interpreter, whose log is judged by FiniteMapTrace.                 *)
(* Script tokens [o, a]:  M make . I/D/G/H key a . L len . C clear .       *)
(*   W write to the variable pointer key a points to .                     *)
(*   RS loop starts . Y the loop produces one more entry . RE the loop ran *)
(*   to completion . RB break . F (first token only) make + insert keys    *)
(*   1,2,3 with values 101,102,103.                                        *)
(***************************************************************************)
EXTENDS FiniteMap, Sequences, Json

CONSTANTS KU,       \* sequence of 3 keys: the universe
          MaxOps,
          Reads     \* TRUE: lookups and len are script tokens too (they never change the state;
                    \* FALSE: the harness appends a probe of every key, len and a full loop instead)

KU_int == << [ty |-> "int", x |-> "4"], [ty |-> "int", x |-> "5"], [ty |-> "int", x |-> "6"] >>   \* three plain keys (also replayed as string, [2]int and struct keys)
KU_f64 == << [ty |-> "float64", x |-> "+0"], [ty |-> "float64", x |-> "-0"], [ty |-> "float64", x |-> "NaN"] >>
KU_any == << [ty |-> "int", x |-> "1"], [ty |-> "int64", x |-> "1"], [ty |-> "[]int", x |-> "0"] >>
P(ty, x, fp, rest) == [ty |-> ty, x |-> x, fp |-> fp, rest |-> rest]
KU_anyc == << P("complex64", "+0,-0", <<"+0", "-0">>, ""), P("complex64", "-0,-0", <<"-0", "-0">>, ""),
             P("complex64", "1,+0", <<"1", "+0">>, "") >>                      \* two spellings of one complex key, and another key
\* NaN / signed zeros inside complex numbers and aggregates (the key types map[complex128], map[struct{c complex64; i int32}],
\* map[[2]float32] of the interpreter)
KU_c128  == << P("complex128", "+0,-0", <<"+0", "-0">>, ""), P("complex128", "-0,-0", <<"-0", "-0">>, ""),
              P("complex128", "NaN,+0", <<"NaN", "+0">>, "") >>                \* one key spelled twice, NaN in the real part
KU_c128i == << P("complex128", "+0,NaN", <<"+0", "NaN">>, ""), P("complex128", "-0,b3ff0000000000000", <<"-0", "b3ff0000000000000">>, ""),
              P("complex128", "+0,b3ff0000000000000", <<"+0", "b3ff0000000000000">>, "") >>   \* NaN in the imaginary part; -0+1i = +0+1i
KU_cst   == << P("cstruct", "-0,+0;0", <<"-0", "+0">>, "0"), P("cstruct", "+0,+0;0", <<"+0", "+0">>, "0"),
              P("cstruct", "+0,NaN;1", <<"+0", "NaN">>, "1") >>
\* keys of an interface type with a method: two pointer-shaped dynamic types sharing one pointee, and an integer
KU_ifc   == << [ty |-> "*cell", x |-> "1"], [ty |-> "pbox", x |-> "1"], [ty |-> "ival", x |-> "1"] >>
KU_a2f   == << P("[2]float32", "NaN,+0", <<"NaN", "+0">>, ""), P("[2]float32", "b3f800000,-0", <<"b3f800000", "-0">>, ""),
              P("[2]float32", "b3f800000,+0", <<"b3f800000", "+0">>, "") >>
KU_anyf == << [ty |-> "float64", x |-> "-0"], [ty |-> "wrap/float64", x |-> "+0"], [ty |-> "wrap/[]int", x |-> "0"] >>

VARIABLES script, pre, wit,
          born      \* entries created since the running loop started (to name the witnesses only)
vars == <<isnil, m, nans, nextid, it, script, pre, wit, born>>

T(o, a) == [o |-> o, a |-> a]
K == 1..Len(KU)
Vals == 0..(MaxOps + 1) \cup {101, 102, 103}
Res == {"ok", "panic"}

\* the state after  make; m[KU[1]] = 101; m[KU[2]] = 102; m[KU[3]] = 103
Findable(j) == ~Unhashable(KU[j]) /\ ~IsNaN(KU[j])
Last(e) == CHOOSE j \in K : /\ Findable(j) /\ Ent(KU[j]) = e
                            /\ \A j2 \in K : (Findable(j2) /\ Ent(KU[j2]) = e) => j2 <= j
PreFound == {Ent(KU[j]) : j \in {j \in K : Findable(j)}}
NaNName(j) == KU[j].ty \o ":NaN#" \o ToString(j)
PreNaN   == {NaNName(j) : j \in {j \in K : IsNaN(KU[j])}}
PreM     == [e \in PreFound \cup PreNaN |-> IF e \in PreFound THEN 100 + Last(e)
                                             ELSE 100 + (CHOOSE j \in K : IsNaN(KU[j]) /\ NaNName(j) = e)]

Init ==
  /\ wit = {} /\ born = {}
  /\ it = [i \in {} |-> 0]
  /\ \/ pre = 0 /\ script = <<>> /\ isnil = TRUE /\ m = Empty /\ nans = {} /\ nextid = 1
     \/ /\ pre = 1 /\ script = <<T("F", 0)>> /\ isnil = FALSE /\ m = PreM /\ nextid = Len(KU) + 1
        /\ nans = {[ty |-> KU[j].ty, x |-> KU[j].x, e |-> NaNName(j)] : j \in {j \in K : IsNaN(KU[j])}}

InLoop == DOMAIN it # {}
Push(t) == script' = Append(script, t)
V == Len(script) + 1
See(S) == wit' = wit \cup S
Flag(c, s) == IF c THEN {s} ELSE {}

\* nothing runs between the start of a range loop and its first iteration
AfterRS == script # <<>> /\ script[Len(script)].o = "RS"

Mutate ==
  \/ ~InLoop /\ Make /\ Push(T("M", 0)) /\ See({}) /\ UNCHANGED born
  \/ \E j \in K, r \in Res :
       /\ Insert(KU[j], V, r) /\ Push(T("I", j))
       /\ born' = IF InLoop THEN born \cup (DOMAIN m' \ DOMAIN m) ELSE born
       /\ See(Flag(r = "panic" /\ isnil, "nil_write_panic") \cup Flag(r = "panic" /\ Unhashable(KU[j]), "unhashable_panic")
              \cup Flag(r = "ok" /\ IsNaN(KU[j]) /\ nans # {}, "second_nan_entry")
              \cup Flag(r = "ok" /\ IsZero(KU[j]) /\ Has(KU[j]), "zero_update")
              \cup Flag(r = "ok" /\ InLoop, "insert_in_loop"))
  \/ \E j \in K, r \in Res :
       /\ Delete(KU[j], r) /\ Push(T("D", j))
       /\ born' = born \cap DOMAIN m'
       /\ See(Flag(r = "ok" /\ InLoop /\ Has(KU[j]) /\ \E i \in DOMAIN it : Ent(KU[j]) \in it[i].need, "delete_before_yield")
              \cup Flag(r = "ok" /\ InLoop /\ Has(KU[j]) /\ \E i \in DOMAIN it : Ent(KU[j]) \in it[i].yielded, "delete_after_yield")
              \cup Flag(r = "ok" /\ IsNaN(KU[j]) /\ nans # {}, "nan_not_deleted"))
  \/ \E j \in K :
       /\ KU[j].ty \in PtrTy /\ Poke(KU[j]) /\ Push(T("W", j)) /\ UNCHANGED born
       /\ See(Flag(Has(KU[j]), "pointee_written_of_present_key"))
  \/ Clear("ok") /\ Push(T("C", 0)) /\ See(Flag(InLoop /\ Size > 0, "clear_in_loop")) /\ born' = {}
  \/ ~InLoop /\ IterStart(1) /\ Push(T("RS", 0)) /\ See({}) /\ born' = {}

Read ==
  \/ \E j \in K, v \in Vals, ok \in BOOLEAN, r \in Res :
       /\ Lookup2(KU[j], v, ok, r) /\ Push(T("G", j))
       /\ See(Flag(r = "ok" /\ isnil, "nil_read") \cup Flag(r = "ok" /\ ~ok /\ IsNaN(KU[j]) /\ nans # {}, "nan_not_found"))
  \/ \E j \in K, v \in Vals, r \in Res :
       /\ Lookup1(KU[j], v, r) /\ Push(T("H", j)) /\ See({})
  \/ \E n \in 0..(MaxOps + 3) : LenIs(n) /\ Push(T("L", 0)) /\ See({})

Loop ==
  \/ \E j \in K, v \in Vals :
       /\ IterNext(1, KU[j], v, TRUE) /\ Push(T("Y", 0))
       /\ See(Flag((it'[1].yielded \ it[1].yielded) \subseteq born, "yield_created_in_loop"))
  \/ /\ IterEnd(1, TRUE) /\ Push(T("RE", 0))
     /\ See(Flag(DOMAIN m \ it[1].yielded # {}, "end_without_created_in_loop"))
  \/ /\ InLoop /\ script[Len(script)].o = "Y"
     /\ IterEnd(1, FALSE) /\ Push(T("RB", 0))
     /\ See(Flag(it[1].need # {}, "break_leaves_unyielded"))

Next ==
  /\ Len(script) - pre < MaxOps
  /\ UNCHANGED pre
  /\ \/ ~AfterRS /\ Mutate
     \/ ~AfterRS /\ Reads /\ Read /\ UNCHANGED born
     \/ Loop /\ UNCHANGED born

Spec == Init /\ [][Next]_vars

\* a state in which the loop is open and may NOT run to completion yet: the completeness rule bites
Blocked == InLoop /\ it[1].need # {}

Emit == PrintT(ToJson([s |-> script, w |-> wit, b |-> Blocked]))

\* stand-alone model checking: histories that differ only in their tokens are one state
View == <<isnil, m, nans, nextid, it, pre, wit, born, Len(script), IF script = <<>> THEN "" ELSE script[Len(script)].o>>
EmitWit == PrintT(ToJson([w |-> wit, b |-> Blocked]))

\* nothing is produced twice: what a loop has produced are distinct present entries
AtMostOnce == \A i \in DOMAIN it : Cardinality(it[i].yielded) <= Size
=============================================================================

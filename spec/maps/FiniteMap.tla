------------------------------ MODULE FiniteMap ------------------------------
(***************************************************************************)
(* C06, layer A: a Go map is a finite map.                                 *)
(*                                                                         *)
(* This module transcribes the property statement / the Go language        *)
(* specification (map types, index expressions, delete, clear, len,        *)
(* "for range" over maps, comparison operators), NOT the hash table:       *)
(*                                                                         *)
(*  - the map is nil, or a function from a finite set of ENTRIES to values *)
(*  - a key is a record [ty |-> dynamic type, x |-> canonical value token] *)
(*    and is identified by its EQUALITY CLASS (Go's == on the key type):   *)
(*      . +0 and -0 of a floating-point type are one key                   *)
(*      . NaN is equal to nothing, not even itself: every insertion of a   *)
(*        NaN adds a NEW entry which no lookup finds and no delete removes *)
(*        (clear does remove it)                                           *)
(*      . interface keys are equal iff dynamic types are identical and the *)
(*        dynamic values are equal  (any(int(1)) # any(int64(1)) # "1")    *)
(*      . a dynamic type that is not comparable (slice, map, func, or a    *)
(*        struct holding one in an interface field) makes every use of the *)
(*        key panic: insert, lookup and delete                             *)
(*      . complex numbers, and arrays / structs with floating-point or     *)
(*        complex components, are compared component by component: such a  *)
(*        key carries fp = the sequence of its floating-point parts and    *)
(*        rest = its other components.  +0 and -0 are equal in every part; *)
(*        a NaN in ANY part makes the key unequal to itself, so it behaves *)
(*        exactly like a NaN key (new entry per insertion, never found)    *)
(*    An entry is named by the string  ty:class  (NaN entries: ty:NaN#id,  *)
(*    id fresh per insertion; `nans` remembers them).                      *)
(*      . pointer keys (also a pointer inside a struct, also inside an     *)
(*        interface with methods) are equal iff they point to the same     *)
(*        variable; what that variable holds is irrelevant, so a write to  *)
(*        it (Poke) leaves the map as it is.  x = the variable's number.   *)
(*  - lookup returns the most recently stored value, or (zero, false)      *)
(*  - len is the number of entries                                         *)
(*  - reads of a nil map behave like reads of an empty map, writes panic   *)
(*  - range: IterStart / IterNext / IterEnd with history sets per loop     *)
(*      need    = entries present ever since the loop started and not yet  *)
(*                produced                                                 *)
(*      yielded = entries (still present) this loop has produced           *)
(*    IterNext must produce a present, not-yet-yielded entry with its      *)
(*    CURRENT value; a loop may only run to completion (IterEnd done) when *)
(*    need is empty.  An entry created during the loop is not in need (may *)
(*    or may not be produced, at most once); removing an entry forgets it  *)
(*    (a later re-insertion is a new entry).  The ORDER is free.           *)
(***************************************************************************)
EXTENDS Integers, FiniteSets, Sequences, TLC

VARIABLES isnil,     \* the map variable holds nil
          m,         \* [entries -> values]   (empty when nil)
          nans,      \* the NaN entries of m: set of [ty, x, e]
          nextid,    \* next fresh identity for a NaN entry
          it         \* [open loop ids -> [need, yielded]]

mvars == <<isnil, m, nans, nextid, it>>

FloatTy      == {"float64", "wrap/float64"}
\* key types compared part by part: [ty, x, fp |-> <<floating-point parts>>, rest |-> the other components]
PartTy       == {"complex64", "complex128", "cstruct", "[2]float32"}     \* cstruct = struct{ c complex64; i int32 }
UnhashableTy == {"[]int", "map[int]int", "func()", "wrap/[]int"}

HasParts(k)   == k.ty \in PartTy
IsNaN(k)      == IF HasParts(k) THEN \E p \in DOMAIN k.fp : k.fp[p] = "NaN"
                 ELSE k.ty \in FloatTy /\ k.x = "NaN"
Unhashable(k) == k.ty \in UnhashableTy
IsZero(k)     == IF HasParts(k) THEN \E p \in DOMAIN k.fp : k.fp[p] \in {"+0", "-0"}
                 ELSE k.ty \in FloatTy /\ k.x \in {"+0", "-0"}

\* the entry a findable key denotes (each floating-point part compares like a float: +0 = -0)
ZPart(p)  == IF p \in {"+0", "-0"} THEN "0" ELSE p
RECURSIVE ZJoin(_)
ZJoin(s)  == IF s = <<>> THEN "" ELSE ZPart(Head(s)) \o "," \o ZJoin(Tail(s))
Ent(k)    == IF HasParts(k) THEN k.ty \o ":" \o ZJoin(k.fp) \o ";" \o k.rest
             ELSE k.ty \o ":" \o (IF IsZero(k) THEN "0" ELSE k.x)
Has(k)    == ~IsNaN(k) /\ Ent(k) \in DOMAIN m
Empty     == [e \in {} |-> 0]
Size      == Cardinality(DOMAIN m)

\* entries a produced key may stand for (a NaN entry holds the key it was created with: x = the key as written,
\* NaN payloads apart)
Denotes(k) == IF IsNaN(k) THEN {r.e : r \in {r \in nans : r.ty = k.ty /\ r.x = k.x}}
              ELSE IF Ent(k) \in DOMAIN m THEN {Ent(k)} ELSE {}

Forget(S) == [i \in DOMAIN it |-> [need |-> it[i].need \ S, yielded |-> it[i].yielded \ S]]

MInit == isnil = TRUE /\ m = Empty /\ nans = {} /\ nextid = 1 /\ it = [i \in {} |-> 0]

Make ==
  /\ DOMAIN it = {}            \* a running loop keeps ranging over the old map object: not modelled
  /\ isnil' = FALSE /\ m' = Empty /\ nans' = {}
  /\ UNCHANGED <<nextid, it>>

SetNil ==
  /\ DOMAIN it = {}
  /\ isnil' = TRUE /\ m' = Empty /\ nans' = {}
  /\ UNCHANGED <<nextid, it>>

\* m[k] = v        r: "ok" | "panic"
Insert(k, v, r) ==
  IF Unhashable(k) \/ isnil
  THEN r = "panic" /\ UNCHANGED mvars
  ELSE /\ r = "ok"
       /\ IF IsNaN(k)
          THEN LET e == k.ty \o ":NaN#" \o ToString(nextid) IN
               /\ m' = (e :> v) @@ m
               /\ nans' = nans \cup {[ty |-> k.ty, x |-> k.x, e |-> e]}
               /\ nextid' = nextid + 1
          ELSE /\ m' = IF Has(k) THEN [m EXCEPT ![Ent(k)] = v] ELSE (Ent(k) :> v) @@ m
               /\ UNCHANGED <<nans, nextid>>
       /\ UNCHANGED <<isnil, it>>

\* delete(m, k)
Delete(k, r) ==
  IF Unhashable(k)
  THEN r = "panic" /\ UNCHANGED mvars
  ELSE /\ r = "ok"
       /\ IF Has(k)
          THEN /\ m' = [e \in DOMAIN m \ {Ent(k)} |-> m[e]]
               /\ it' = Forget({Ent(k)})
          ELSE UNCHANGED <<m, it>>
       /\ UNCHANGED <<isnil, nans, nextid>>

\* v, ok := m[k]
Lookup2(k, v, ok, r) ==
  /\ IF Unhashable(k) THEN r = "panic"
     ELSE /\ r = "ok"
          /\ IF Has(k) THEN v = m[Ent(k)] /\ ok = TRUE ELSE v = 0 /\ ok = FALSE
  /\ UNCHANGED mvars

\* v := m[k]
Lookup1(k, v, r) ==
  /\ IF Unhashable(k) THEN r = "panic"
     ELSE /\ r = "ok"
          /\ v = IF Has(k) THEN m[Ent(k)] ELSE 0
  /\ UNCHANGED mvars

LenIs(n) == n = Size /\ UNCHANGED mvars

\* *p = ...  for the variable a pointer key k points to: the key is the pointer, the map does not change
PtrTy   == {"*cell", "pbox"}          \* pbox = struct{ p *cell }
Poke(k) == UNCHANGED mvars

Clear(r) ==
  /\ r = "ok"
  /\ m' = Empty /\ nans' = {}
  /\ it' = [i \in DOMAIN it |-> [need |-> {}, yielded |-> {}]]
  /\ UNCHANGED <<isnil, nextid>>

IterStart(i) ==
  /\ i \notin DOMAIN it
  /\ it' = (i :> [need |-> DOMAIN m, yielded |-> {}]) @@ it
  /\ UNCHANGED <<isnil, m, nans, nextid>>

\* the loop produces key k with value v  (hasv = FALSE: `for k := range m`, no value observed)
IterNext(i, k, v, hasv) ==
  /\ i \in DOMAIN it
  /\ \E e \in Denotes(k) \ it[i].yielded :
       /\ hasv => m[e] = v
       /\ it' = [it EXCEPT ![i] = [need |-> @.need \ {e}, yielded |-> @.yielded \cup {e}]]
  /\ UNCHANGED <<isnil, m, nans, nextid>>

\* the loop is over: done = it ran to completion (FALSE: left by break)
IterEnd(i, done) ==
  /\ i \in DOMAIN it
  /\ done => it[i].need = {}
  /\ it' = [j \in DOMAIN it \ {i} |-> it[j]]
  /\ UNCHANGED <<isnil, m, nans, nextid>>

(***************************************************************************)
(* Invariants of the range rule (model-checked on the stand-alone model;   *)
(* thorough tier: also in every state of every validated history).         *)
(***************************************************************************)
RangeInv ==
  /\ isnil => m = Empty
  /\ \A i \in DOMAIN it :
       /\ it[i].need \subseteq DOMAIN m        \* what must still be produced is present
       /\ it[i].yielded \subseteq DOMAIN m     \* a removed entry is forgotten, so nothing is produced twice
       /\ it[i].need \cap it[i].yielded = {}
  /\ {r.e : r \in nans} \subseteq DOMAIN m
=============================================================================

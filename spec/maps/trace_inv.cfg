SPECIFICATION Spec
INVARIANTS RangeInv EmitAccepted
CHECK_DEADLOCK FALSE

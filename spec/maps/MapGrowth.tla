------------------------------- MODULE MapGrowth -------------------------------
(***************************************************************************)
(* C06, layer B (never the judge): the scalar growth state of llgo's hash  *)
(* map as the runtime keeps it in hmap: count, B (log2 of the number of    *)
(* buckets), growing (oldbuckets # nil), ov (noverflow).  One action per   *)
(* runtime entry point, transcribing the triggers of map.go:               *)
(*   mapassign  growWork first (evacuation may finish); a NEW key while    *)
(*              not growing starts a growth when count+1 exceeds the load  *)
(*              factor (B+1) or there are too many overflow buckets        *)
(*              (same size); evacuation of a small table may finish at once*)
(*   mapdelete  growWork; count decreases by at most one                   *)
(*   mapclear   count = 0, growth abandoned, B kept                        *)
(*   reads      change nothing                                             *)
(* The second half validates the header scalars logged by the interpreter  *)
(* against this relation.  A history that does not conform is DRIFT between*)
(* the code and this model (reported), not a violation of the property.    *)
(***************************************************************************)
EXTENDS Integers, Sequences, Json, TLC

Pow2(n) == IF n = 0 THEN 1 ELSE 2 ^ n
\* map.go of /repo: loadFactorNum = (bucketCnt*13/16)*loadFactorDen = 12, loadFactorDen = 2, i.e. 6 entries per bucket
\* (upstream Go >= 1.22 computes loadFactorDen*bucketCnt*13/16 = 13, i.e. 6.5); layer B follows the code
LoadFactorNum == 12
OverLoad(c, b) == c > 8 /\ c > LoadFactorNum * (Pow2(b) \div 2)
TooManyOverflow(o, b) == o >= Pow2(IF b > 15 THEN 15 ELSE b)

\* S, T: records [c, B, g, ov]  (before / after)
GAssign(S, T) ==
  \E g1 \in (IF S.g THEN {TRUE, FALSE} ELSE {FALSE}) :      \* after growWork
    \/ /\ T.c = S.c /\ T.B = S.B /\ T.g = g1                 \* existing key
    \/ /\ T.c = S.c + 1
       /\ IF ~g1 /\ OverLoad(S.c + 1, S.B) THEN T.B = S.B + 1
          ELSE IF ~g1 /\ TooManyOverflow(S.ov, S.B) THEN T.B = S.B
          ELSE T.B = S.B /\ T.g = g1
GDelete(S, T) == T.c \in {S.c, S.c - 1} /\ T.c >= 0 /\ T.B = S.B /\ (T.g => S.g)
GClear(S, T)  == T.c = 0 /\ T.B = S.B /\ ~T.g /\ (S.c > 0 => T.ov = 0)
GRead(S, T)   == T.c = S.c /\ T.B = S.B /\ T.g = S.g /\ T.ov = S.ov
GMake(T)      == T.c = 0 /\ ~T.g /\ T.ov = 0

---------------------------------------------------------------------------
Traces == ndJsonDeserialize("traces.ndjson")
VARIABLES cur, h, l
Ev == Traces[h].ev
Zero == [c |-> 0, B |-> 0, g |-> FALSE, ov |-> 0]
Init == h \in 1..Len(Traces) /\ l = 1 /\ cur = Zero
Next ==
  /\ l <= Len(Ev)
  /\ LET e == Ev[l]  T == [c |-> e.c, B |-> e.B, g |-> e.g, ov |-> e.ov] IN
       /\ CASE e.o = "ins"   -> GAssign(cur, T)
            [] e.o = "del"   -> GDelete(cur, T)
            [] e.o = "clear" -> GClear(cur, T)
            [] e.o = "read"  -> GRead(cur, T)
            [] e.o = "make"  -> GMake(T)
            [] e.o = "none"  -> TRUE
            [] OTHER -> FALSE
       /\ cur' = T
  /\ l' = l + 1 /\ UNCHANGED h
Spec == Init /\ [][Next]_<<cur, h, l>>
EmitAccepted == (l > Len(Ev)) => PrintT(ToJson([acc |-> Traces[h].id]))
=============================================================================

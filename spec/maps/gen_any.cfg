SPECIFICATION Spec
CONSTANTS
  KU <- KU_any
  MaxOps = 4
  Reads = FALSE
INVARIANTS RangeInv AtMostOnce Emit
CHECK_DEADLOCK FALSE

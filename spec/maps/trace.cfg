SPECIFICATION Spec
INVARIANTS EmitAccepted
CHECK_DEADLOCK FALSE

SPECIFICATION Spec
CONSTANTS
  KU <- KU_f64
  MaxOps = 4
  Reads = FALSE
INVARIANTS RangeInv AtMostOnce Emit
CHECK_DEADLOCK FALSE

SPECIFICATION Spec
CONSTANTS
  KU <- KU_f64
  MaxOps = 6
  Reads = TRUE
INVARIANTS RangeInv AtMostOnce EmitWit
VIEW View
CHECK_DEADLOCK FALSE

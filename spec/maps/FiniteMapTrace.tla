---------------------------- MODULE FiniteMapTrace ----------------------------
(***************************************************************************)
(* Trace validation for C06: is a history recorded from a map of a program *)
(* compiled by llgo a behaviour of FiniteMap?                              *)
(*                                                                         *)
(* traces.ndjson holds one history per line: [id, ev] with ev a sequence of*)
(*   [o |-> "make"] [o |-> "nil"]                                          *)
(*   [o |-> "ins",  k, v, r]      m[k] = v        r = "ok" | "panic"       *)
(*   [o |-> "del",  k, r]         delete(m, k)                             *)
(*   [o |-> "get2", k, v, ok, r]  v, ok := m[k]                            *)
(*   [o |-> "get1", k, v, r]      v := m[k]                                *)
(*   [o |-> "len",  n]            n := len(m)                              *)
(*   [o |-> "clear", r]           clear(m)                                 *)
(*   [o |-> "poke", k]            a write to the variable key k points to  *)
(*   [o |-> "rs", i]  [o |-> "y", i, k, v, hv]  [o |-> "re", i, done]      *)
(*                                a range loop i starts / produces (k, v) /*)
(*                                ends (done = ran to completion)          *)
(* every event also carries c = the `count` field of the runtime's map     *)
(* header read after the call (-1: not read); it must equal the number of  *)
(* entries of the model.                                                   *)
(* Keys are [ty, x] records; the equality class is computed by FiniteMap.  *)
(* Each history is validated independently (Init picks one).  The only     *)
(* choice left to the spec is which NaN entry a produced NaN key denotes.  *)
(* A history is accepted iff some behaviour consumes all its events; then  *)
(* its id is printed.                                                      *)
(***************************************************************************)
EXTENDS FiniteMap, Sequences, Json

Traces == ndJsonDeserialize("traces.ndjson")

VARIABLES h, l
tvars == <<isnil, m, nans, nextid, it, h, l>>

Ev == Traces[h].ev

Init == h \in 1..Len(Traces) /\ l = 1 /\ MInit

Apply(e) ==
  CASE e.o = "make"  -> Make
    [] e.o = "nil"   -> SetNil
    [] e.o = "ins"   -> Insert(e.k, e.v, e.r)
    [] e.o = "del"   -> Delete(e.k, e.r)
    [] e.o = "get2"  -> Lookup2(e.k, e.v, e.ok, e.r)
    [] e.o = "get1"  -> Lookup1(e.k, e.v, e.r)
    [] e.o = "len"   -> LenIs(e.n)
    [] e.o = "clear" -> Clear(e.r)
    [] e.o = "poke"  -> Poke(e.k)
    [] e.o = "rs"    -> IterStart(e.i)
    [] e.o = "y"     -> IterNext(e.i, e.k, e.v, e.hv)
    [] e.o = "re"    -> IterEnd(e.i, e.done)
    [] OTHER         -> FALSE

Next ==
  /\ l <= Len(Ev)
  /\ Apply(Ev[l])
  /\ Ev[l].c >= 0 => Ev[l].c = Cardinality(DOMAIN m')     \* header count = number of entries
  /\ l' = l + 1
  /\ UNCHANGED h

Spec == Init /\ [][Next]_tvars

Accepted == l > Len(Ev)
EmitAccepted == Accepted => PrintT(ToJson([acc |-> Traces[h].id]))

\* diagnosis of a rejected history: how many of its events some behaviour consumed
EmitProgress == PrintT(ToJson([id |-> Traces[h].id, at |-> l - 1]))
=============================================================================

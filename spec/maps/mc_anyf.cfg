SPECIFICATION Spec
CONSTANTS
  KU <- KU_anyf
  MaxOps = 6
  Reads = TRUE
INVARIANTS RangeInv AtMostOnce EmitWit
VIEW View
CHECK_DEADLOCK FALSE

------------------------------ MODULE MapGrowthMC ------------------------------
(***************************************************************************)
(* Layer B against layer A: the growth scalars of MapGrowth driven by the  *)
(* FiniteMap actions over NK plain keys.  Checked: count is the number of  *)
(* entries, B only changes by +1, and a table that is not growing is over  *)
(* its load factor only if it got there while a growth was running (then   *)
(* the next new key starts the next growth).  (Design level only.)         *)
(***************************************************************************)
EXTENDS FiniteMap, Sequences
CONSTANT NK
VARIABLES g            \* [c, B, g, ov] as in MapGrowth
G == INSTANCE MapGrowth WITH cur <- g, h <- 0, l <- 0

Key(j) == [ty |-> "int", x |-> ToString(j)]
Init == MInit /\ g = G!Zero
States(S) == [c : {S.c - 1, S.c, S.c + 1, 0} \cap Nat, B : {S.B, S.B + 1}, g : BOOLEAN, ov : 0..3]
Next ==
  \/ Make /\ \E T \in States(g) : G!GMake(T) /\ T.B = 0 /\ g' = T
  \/ \E j \in 1..NK, r \in {"ok", "panic"} :
       /\ Insert(Key(j), 1, r)
       /\ IF r = "ok" THEN \E T \in States(g) : G!GAssign(g, T) /\ T.c = g.c + (IF Has(Key(j)) THEN 0 ELSE 1) /\ g' = T
          ELSE UNCHANGED g
  \/ \E j \in 1..NK :
       /\ Delete(Key(j), "ok")
       /\ IF isnil THEN UNCHANGED g
          ELSE \E T \in States(g) : G!GDelete(g, T) /\ T.c = g.c - (IF Has(Key(j)) THEN 1 ELSE 0) /\ T.ov = g.ov /\ g' = T
  \/ /\ Clear("ok")
     /\ IF isnil THEN UNCHANGED g ELSE \E T \in States(g) : G!GClear(g, T) /\ g' = T
Spec == Init /\ [][Next]_<<isnil, m, nans, nextid, it, g>>

CountIsSize == g.c = Size
GrowsWhenOverloaded ==
  [][\A j \in 1..NK : (~g.g /\ ~isnil /\ ~Has(Key(j)) /\ G!OverLoad(g.c + 1, g.B) /\ Has(Key(j))') => g'.B = g.B + 1]_<<isnil, m, nans, nextid, it, g>>
BMonotone == [][g'.B \in {g.B, g.B + 1} \/ isnil]_<<isnil, m, nans, nextid, it, g>>
=============================================================================

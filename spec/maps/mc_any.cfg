SPECIFICATION Spec
CONSTANTS
  KU <- KU_any
  MaxOps = 6
  Reads = TRUE
INVARIANTS RangeInv AtMostOnce EmitWit
VIEW View
CHECK_DEADLOCK FALSE

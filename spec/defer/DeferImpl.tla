-------------------------------- MODULE DeferImpl --------------------------------
(***************************************************************************)
(* Layer B for C04: how llgo implements defer (ssa/eh.go) against what Go  *)
(* prescribes.  A function body is a short sequence of statements:         *)
(*   "Dn"/"D0"  a defer statement on the straight path, with / without     *)
(*              arguments to save (llgo: kind DeferAlways)                 *)
(*   "Cn"/"C0"  a defer statement inside a branch: executed or not         *)
(*              (llgo: DeferInCond, one bit per statement)                 *)
(*   "L"        a loop whose body is one defer statement, 0..2 iterations  *)
(*              (llgo: DeferInLoop, one list node per execution)           *)
(*   "P"        a call that may panic                                      *)
(* Go: the deferred calls that were *executed* run exactly once each, last *)
(* in first out, when the function returns or panics.                      *)
(* llgo: a frame holds a bit set and one linked list of nodes (a node      *)
(* records the statement that pushed it); at exit the statements are       *)
(* visited in reverse source order: a Dx/Cx statement calls its function   *)
(* (taking the head node if it saves arguments), an L statement drains the *)
(* list while the head node belongs to some loop statement (one drain loop *)
(* per run of adjacent L statements).                                      *)
(* Two switches restore the code before the fixes:                         *)
(*   AlwaysBit = FALSE  a Dx statement is assumed executed whenever the    *)
(*                      function unwinds (fix 1e7764f gives it a bit)      *)
(*   Barrier = FALSE    a statement without arguments never pushes a node  *)
(*                      (fix fc0fcc9: it does once a loop statement        *)
(*                      precedes it, so that a later drain stops there)    *)
(* With both TRUE the invariant Lifo holds for every body of up to MaxLen  *)
(* statements; with either FALSE TLC prints a counterexample (defer_*.cfg).*)
(***************************************************************************)
EXTENDS Integers, Sequences, FiniteSets, TLC, Json

CONSTANTS AlwaysBit, Barrier, MaxLen

Kinds == {"Dn", "D0", "Cn", "C0", "L", "P"}
IsDefer(k) == k \in {"Dn", "D0", "Cn", "C0"}

VARIABLES prog,      \* the function body
          pc,        \* next statement
          bits,      \* statements whose bit is set
          list,      \* the node list, most recent first: statement indices
          executed,  \* history: defer statement executions in order (statement indices)
          choices,   \* history: the value that steered each statement (branch taken 0/1, iterations, panics 0/1; 0 for Dx)
          phase      \* "run" | "done"
vars == <<prog, pc, bits, list, executed, choices, phase>>

\* compile-time facts
LoopBefore(i) == \E j \in 1..(i - 1) : prog[j] = "L"
HasNode(i) == prog[i] \in {"Dn", "Cn"} \/ (Barrier /\ prog[i] \in {"D0", "C0"} /\ LoopBefore(i))
UsesBit(i) == prog[i] \in {"Cn", "C0"} \/ (AlwaysBit /\ prog[i] \in {"Dn", "D0"})

Init == /\ prog \in UNION {[1..n -> Kinds] : n \in 1..MaxLen}
        /\ pc = 1 /\ bits = {} /\ list = <<>> /\ executed = <<>> /\ choices = <<>> /\ phase = "run"

ExecDefer(i) ==      \* the defer statement i is executed once
  /\ bits' = IF UsesBit(i) THEN bits \cup {i} ELSE bits
  /\ list' = IF HasNode(i) THEN <<i>> \o list ELSE list
  /\ executed' = Append(executed, i)

Step ==
  /\ phase = "run" /\ pc <= Len(prog)
  /\ LET k == prog[pc] IN
     \/ /\ k \in {"Dn", "D0"} /\ ExecDefer(pc) /\ pc' = pc + 1 /\ UNCHANGED phase /\ choices' = Append(choices, 0)
     \/ /\ k \in {"Cn", "C0"} /\ pc' = pc + 1 /\ UNCHANGED phase
        /\ \/ (ExecDefer(pc) /\ choices' = Append(choices, 1))                                   \* branch taken
           \/ (UNCHANGED <<bits, list, executed>> /\ choices' = Append(choices, 0))              \* or not
     \/ /\ k = "L" /\ pc' = pc + 1 /\ UNCHANGED <<bits, phase>>
        /\ \E n \in 0..2 : /\ list' = [j \in 1..n |-> pc] \o list
                           /\ executed' = executed \o [j \in 1..n |-> pc]
                           /\ choices' = Append(choices, n)
     \/ /\ k = "P" /\ UNCHANGED <<bits, list, executed>>
        /\ \/ (pc' = pc + 1 /\ UNCHANGED phase /\ choices' = Append(choices, 0))                 \* the call returns
           \/ (phase' = "done" /\ UNCHANGED pc /\ choices' = Append(choices, 1))                 \* the call panics: unwind now
  /\ UNCHANGED prog

Finish == phase = "run" /\ pc > Len(prog) /\ phase' = "done" /\ UNCHANGED <<prog, pc, bits, list, executed, choices>>

Next == Step \/ Finish
Spec == Init /\ [][Next]_vars

\* ---- the exit sequence of the implementation: calls as <<statement whose function is called, statement whose node supplied the arguments>>
RECURSIVE Drain(_, _)
Drain(l, calls) == IF l # <<>> /\ prog[Head(l)] = "L" THEN Drain(Tail(l), Append(calls, <<Head(l), Head(l)>>)) ELSE <<l, calls>>

RECURSIVE Exit(_, _, _, _)
Exit(i, l, gen, calls) ==
  IF i = 0 THEN calls
  ELSE LET k == prog[i] IN
       IF k = "P" THEN Exit(i - 1, l, gen, calls)
       ELSE IF k = "L" THEN
              IF gen THEN Exit(i - 1, l, gen, calls)
              ELSE LET d == Drain(l, calls) IN Exit(i - 1, d[1], TRUE, d[2])
       ELSE \* Dx / Cx: leaving a run of loop statements
            IF UsesBit(i) /\ i \notin bits THEN Exit(i - 1, l, FALSE, calls)
            ELSE IF HasNode(i)
                   THEN IF l = <<>> THEN Exit(i - 1, l, FALSE, calls)                   \* guard of callDefer: no node, no call
                        ELSE Exit(i - 1, Tail(l), FALSE, Append(calls, <<i, Head(l)>>))
                   ELSE Exit(i - 1, l, FALSE, Append(calls, <<i, i>>))

ImplCalls == Exit(Len(prog), list, FALSE, <<>>)
RECURSIVE Rev(_)
Rev(s) == IF s = <<>> THEN <<>> ELSE Append(Rev(Tail(s)), Head(s))
Wanted == [j \in 1..Len(executed) |-> <<Rev(executed)[j], Rev(executed)[j]>>]

\* what Go prescribes: exactly the executed defers, last in first out, each with its own arguments
Lifo == phase = "done" => ImplCalls = Wanted

\* every behaviour as a case for the real compiler: the body, the values that steer it, and the calls Go prescribes
\* (computed from `executed` alone - the implementation model plays no part in the expectation)
Emit == phase = "done" => PrintT(ToJson([prog |-> prog, choices |-> choices, want |-> [j \in 1..Len(executed) |-> Rev(executed)[j]],
                                         panicked |-> (choices # <<>> /\ prog[Len(choices)] = "P" /\ choices[Len(choices)] = 1)]))
=============================================================================

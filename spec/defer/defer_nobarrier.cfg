\* before fix fc0fcc9: TLC prints <<"L", "D0", "L">> - the second loop's drain runs on into the first loop's nodes
SPECIFICATION Spec
CONSTANTS AlwaysBit = TRUE  Barrier = FALSE  MaxLen = 3
INVARIANT Lifo
CHECK_DEADLOCK FALSE

\* before fix 1e7764f: TLC prints e.g. <<"P", "D0">> with the call panicking - the unreached defer runs
SPECIFICATION Spec
CONSTANTS AlwaysBit = FALSE  Barrier = TRUE  MaxLen = 3
INVARIANT Lifo
CHECK_DEADLOCK FALSE

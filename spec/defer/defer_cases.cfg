\* enumeration of every behaviour of every body of up to MaxLen statements (cases for the real compiler)
SPECIFICATION Spec
CONSTANTS AlwaysBit = TRUE  Barrier = TRUE  MaxLen = 4
INVARIANTS Lifo Emit
CHECK_DEADLOCK FALSE

\* the code after fixes 1e7764f and fc0fcc9: Lifo holds for every body of up to 5 statements
SPECIFICATION Spec
CONSTANTS AlwaysBit = TRUE  Barrier = TRUE  MaxLen = 5
INVARIANT Lifo
CHECK_DEADLOCK FALSE

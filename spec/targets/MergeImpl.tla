-------------------------------- MODULE MergeImpl --------------------------------
(***************************************************************************)
(* Layer B for C18: internal/targets/loader.go as a state machine.         *)
(*                                                                         *)
(*   Load(name)            -> LoadRaw (cache, missing file => error)       *)
(*                         -> resolveInheritance                           *)
(*   resolveInheritance    -> no parents: the raw config itself            *)
(*                            else: result := {} ; for each parent in      *)
(*                            order: Load(parent) (recursion), mergeConfig *)
(*                            finally mergeConfig(result, own)             *)
(*   mergeConfig(dst, src) -> non-empty scalar overrides, lists append,    *)
(*                            true boolean sticks                          *)
(* The recursion is an explicit stack so that TLC can see non-termination  *)
(* (an ever-growing stack) as a violated invariant.  CycleCheck = TRUE     *)
(* models the loader with the chain check of the "fix:" commit, FALSE the  *)
(* loader as it was (kept to document the defect: StackBounded fails).     *)
(* The forest is built first, exactly as in TargetForest.                  *)
(***************************************************************************)
EXTENDS TargetMerge, TLC, Integers

CONSTANTS N, MaxInh, Mode, CycleCheck

Nodes == 1..N
Names == <<"v1", "v2", "v3", "v4", "v5", "v6">>
ParentChoices(n) == IF Mode = "dag" THEN {m \in Nodes : m > n} ELSE 0..N
InhChoices(n) ==
  LET P == ParentChoices(n)
      Seqs(k) == [1..k -> P]
  IN IF Mode = "dag"
       THEN {s \in UNION {Seqs(k) : k \in 0..MaxInh} : \A i, j \in DOMAIN s : i # j => s[i] # s[j]}
       ELSE UNION {Seqs(k) : k \in 0..MaxInh}
Patterns == 0..3
Desc(n, inh, p) ==
  [ inh |-> inh,
    sc  |-> [f \in {"s"} |-> IF p \in {1, 3} THEN Names[n] ELSE Unset],
    li  |-> [f \in {"l"} |-> IF p \in {2, 3} THEN (IF n % 2 = 0 THEN <<Names[n] \o ".1", Names[n] \o ".2", Names[n] \o ".3">> ELSE <<Names[n] \o ".1">>) ELSE <<>>],
    bo  |-> [f \in {"b"} |-> p = 3] ]

Empty == [sc |-> [f \in {"s"} |-> Unset], li |-> [f \in {"l"} |-> <<>>], bo |-> [f \in {"b"} |-> FALSE]]
Own(c) == [sc |-> c.sc, li |-> c.li, bo |-> c.bo]

\* mergeConfig(dst, src)
Merge(dst, src) ==
  [ sc |-> [f \in {"s"} |-> IF src.sc[f] # Unset THEN src.sc[f] ELSE dst.sc[f]],
    li |-> [f \in {"l"} |-> dst.li[f] \o src.li[f]],
    bo |-> [f \in {"b"} |-> IF src.bo[f] THEN TRUE ELSE dst.bo[f]] ]

VARIABLES d, k,        \* the forest under construction (as in TargetForest)
          phase,       \* "build", "run", "done", "error"
          root,        \* the target being loaded
          stack,       \* Seq([node, i, acc]) : active Load calls, innermost last
          cache,       \* names whose raw config is cached
          result       \* the returned configuration when phase = "done"
vars == <<d, k, phase, root, stack, cache, result>>

Init == /\ d = <<>> /\ k = 0 /\ phase = "build" /\ root = 0
        /\ stack = <<>> /\ cache = {} /\ result = Empty

Build ==
  /\ phase = "build" /\ k < N
  /\ \E inh \in InhChoices(k + 1), p \in Patterns : d' = Append(d, Desc(k + 1, inh, p))
  /\ k' = k + 1
  /\ UNCHANGED <<phase, root, stack, cache, result>>

\* Loader.Load(root) is called
Start ==
  /\ phase = "build" /\ k = N
  /\ \E r \in Nodes :
       /\ root' = r
       /\ stack' = <<[node |-> r, i |-> 1, acc |-> Empty]>>
       /\ cache' = {r}
  /\ phase' = "run"
  /\ UNCHANGED <<d, k, result>>

Top == stack[Len(stack)]
OnStack(n) == \E j \in 1..Len(stack) : stack[j].node = n

\* the innermost call asks for its next parent: Load(parent)
CallParent ==
  /\ phase = "run"
  /\ Top.i <= Len(d[Top.node].inh)
  /\ LET p == d[Top.node].inh[Top.i] IN
       IF p \notin Nodes                         \* LoadRaw: os.ReadFile fails
         THEN /\ phase' = "error" /\ UNCHANGED <<stack, cache>>
       ELSE IF CycleCheck /\ OnStack(p)          \* chain check of the fix
         THEN /\ phase' = "error" /\ UNCHANGED <<stack, cache>>
       ELSE /\ stack' = Append(stack, [node |-> p, i |-> 1, acc |-> Empty])
            /\ cache' = cache \cup {p}
            /\ UNCHANGED phase
  /\ UNCHANGED <<d, k, root, result>>

\* the innermost call has merged all its parents: merge own config and return to the caller
Return ==
  /\ phase = "run"
  /\ Top.i > Len(d[Top.node].inh)
  /\ LET me  == d[Top.node]
         val == IF Len(me.inh) = 0 THEN Own(me) ELSE Merge(Top.acc, Own(me))
     IN IF Len(stack) = 1
          THEN /\ result' = val /\ phase' = "done" /\ stack' = <<>>
          ELSE /\ stack' = [SubSeq(stack, 1, Len(stack) - 1) EXCEPT
                              ![Len(stack) - 1] = [@ EXCEPT !.acc = Merge(@, val), !.i = @ + 1]]
               /\ UNCHANGED <<result, phase>>
  /\ UNCHANGED <<d, k, root, cache>>

Next == Build \/ Start \/ CallParent \/ Return
Spec == Init /\ [][Next]_vars /\ WF_vars(Next)

TypeOK == /\ phase \in {"build", "run", "done", "error"}
          /\ k \in 0..N
          /\ cache \subseteq Nodes

\* the loader agrees with the law
ResultMatchesLaw ==
  /\ phase = "done"  => LET r == Resolve(d, root) IN ~IsErr(r) /\ Own(r) = result
  /\ phase = "error" => IsErr(Resolve(d, root))

\* recursion depth never exceeds the number of descriptions (else: runaway recursion on a cycle)
StackBounded == Len(stack) <= N

Terminates == <>(phase \in {"done", "error"})
=============================================================================

SPECIFICATION Spec
CONSTANTS N = 4  MaxInh = 2  Mode = "dag"  Sel = 0  Mod = 1
INVARIANTS LawErrIffIllFounded LawOwnScalarWins LawScalarFromAncestor LawListIsUnionOwnLast LawBoolIsOr LawChainOrder Emit
CHECK_DEADLOCK FALSE

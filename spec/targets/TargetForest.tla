-------------------------------- MODULE TargetForest --------------------------------
(***************************************************************************)
(* Case generator + law checker for C18.  TLC builds every inheritance     *)
(* forest over N descriptions node by node (one action per description so  *)
(* that the work is spread over the workers), checks the algebraic laws of *)
(* TargetMerge!Resolve on each complete forest, and prints the forest with *)
(* the configuration the law assigns to every node; the harness replays    *)
(* each printed forest into the real loader.                               *)
(* Fields are symmetric in the law, so the model carries one scalar "s",   *)
(* one list "l" and one boolean "b"; the harness instantiates the pattern  *)
(* for each of the 23 scalar, 7 list and 1 boolean fields of Config.       *)
(* Even nodes carry three list elements and odd nodes one, on purpose: a   *)
(* decoded JSON array of three elements has spare capacity for one more,   *)
(* so a merge that appends a child's single element to a parent's list in  *)
(* place (aliasing through the loader's cache) becomes observable.         *)
(***************************************************************************)
EXTENDS TargetMerge, TLC, Json, Integers

CONSTANTS N,        \* number of descriptions; node 0 is a file that does not exist
          MaxInh,   \* longest inherits list
          Mode,     \* "all": parents are any nodes incl. self, duplicates, missing;  "dag": distinct later nodes only
          Sel, Mod  \* seed filter: keep forests with Hash % Mod = Sel  (Mod = 1 keeps all)

Nodes == 1..N
Names == <<"v1", "v2", "v3", "v4", "v5", "v6">>

ParentChoices(n) == IF Mode = "dag" THEN {m \in Nodes : m > n} ELSE 0..N

InhChoices(n) ==
  LET P == ParentChoices(n)
      Seqs(k) == [1..k -> P]
  IN IF Mode = "dag"
       THEN {s \in UNION {Seqs(k) : k \in 0..MaxInh} : \A i, j \in DOMAIN s : i # j => s[i] # s[j]}
       ELSE UNION {Seqs(k) : k \in 0..MaxInh}

Patterns == 0..3   \* 0 nothing, 1 scalar, 2 list, 3 scalar+list+bool

Desc(n, inh, p) ==
  [ inh |-> inh,
    sc  |-> [f \in {"s"} |-> IF p \in {1, 3} THEN Names[n] ELSE Unset],
    li  |-> [f \in {"l"} |-> IF p \in {2, 3} THEN (IF n % 2 = 0 THEN <<Names[n] \o ".1", Names[n] \o ".2", Names[n] \o ".3">> ELSE <<Names[n] \o ".1">>) ELSE <<>>],
    bo  |-> [f \in {"b"} |-> p = 3],
    p   |-> p ]

VARIABLES d, k, h   \* descriptions chosen so far (function on 1..k), and a running hash for the seed filter
vars == <<d, k, h>>

Init == d = <<>> /\ k = 0 /\ h = 0

Define ==
  /\ k < N
  /\ \E inh \in InhChoices(k + 1), p \in Patterns :
        /\ d' = Append(d, Desc(k + 1, inh, p))
        /\ h' = (h * 31 + p * 7 + Len(inh) * 3 + (IF Len(inh) > 0 THEN inh[1] + 1 ELSE 0)
                   + (IF Len(inh) > 1 THEN 5 * inh[2] + 2 ELSE 0)) % 1000003
  /\ k' = k + 1

Next == Define
Spec == Init /\ [][Next]_vars

Complete == k = N
Selected == Complete /\ (h % Mod) = Sel

Elems(s) == {s[i] : i \in 1..Len(s)}

\* ------------------------------------------------------------------ laws (checked on every complete forest)
LawErrIffIllFounded ==
  Complete => \A n \in Nodes : IsErr(Resolve(d, n)) <=> ~WellFounded(d, n)

LawOwnScalarWins ==
  Complete => \A n \in Nodes : LET r == Resolve(d, n) IN
     ~IsErr(r) /\ d[n].sc["s"] # Unset => r.sc["s"] = d[n].sc["s"]

LawScalarFromAncestor ==
  Complete => \A n \in Nodes : LET r == Resolve(d, n) IN
     ~IsErr(r) => /\ (r.sc["s"] # Unset <=> \E m \in Reach(d, n) : d[m].sc["s"] # Unset)
                /\ (r.sc["s"] # Unset => \E m \in Reach(d, n) : d[m].sc["s"] = r.sc["s"])

LawListIsUnionOwnLast ==
  Complete => \A n \in Nodes : LET r == Resolve(d, n) IN
     ~IsErr(r) => /\ Elems(r.li["l"]) = UNION {Elems(d[m].li["l"]) : m \in Reach(d, n)}
                /\ LET own == d[n].li["l"] IN
                     SubSeq(r.li["l"], Len(r.li["l"]) - Len(own) + 1, Len(r.li["l"])) = own

LawBoolIsOr ==
  Complete => \A n \in Nodes : LET r == Resolve(d, n) IN
     ~IsErr(r) => (r.bo["b"] <=> \E m \in Reach(d, n) : d[m].bo["b"])

\* single-parent chains: the list is exactly the chain's lists from the root down
LawChainOrder ==
  Complete => \A n \in Nodes : LET r == Resolve(d, n) IN
     (~IsErr(r) /\ Len(d[n].inh) = 1 /\ ~IsErr(Resolve(d, d[n].inh[1])))
        => r.li["l"] = Resolve(d, d[n].inh[1]).li["l"] \o d[n].li["l"]

\* ------------------------------------------------------------------ emission
Out(n) == LET r == Resolve(d, n) IN
  IF IsErr(r) THEN [err |-> TRUE, s |-> "", l |-> <<>>, b |-> FALSE]
             ELSE [err |-> FALSE, s |-> r.sc["s"], l |-> r.li["l"], b |-> r.bo["b"]]

Emit == Selected => PrintT(ToJson([nodes  |-> [n \in Nodes |-> [inh |-> d[n].inh, p |-> d[n].p]],
                                   expect |-> [n \in Nodes |-> Out(n)]]))
=============================================================================

\* the loader before the fix: TLC reports StackBounded violated by a cyclic forest
SPECIFICATION Spec
CONSTANTS N = 2  MaxInh = 1  Mode = "all"  CycleCheck = FALSE
INVARIANTS TypeOK ResultMatchesLaw StackBounded
CHECK_DEADLOCK FALSE

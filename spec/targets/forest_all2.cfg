SPECIFICATION Spec
CONSTANTS N = 2  MaxInh = 2  Mode = "all"  Sel = 0  Mod = 1
INVARIANTS LawErrIffIllFounded LawOwnScalarWins LawScalarFromAncestor LawListIsUnionOwnLast LawBoolIsOr LawChainOrder Emit
CHECK_DEADLOCK FALSE

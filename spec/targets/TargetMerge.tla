-------------------------------- MODULE TargetMerge --------------------------------
(***************************************************************************)
(* Layer A for C18: the resolution law of target descriptions.             *)
(*                                                                         *)
(* A description has a list of parents (`inherits`), scalar settings,      *)
(* list settings and boolean settings.  Resolve(d, n) is the configuration *)
(* the statement prescribes:                                               *)
(*   - a scalar comes from the nearest description defining it: the        *)
(*     description itself, else its parents from the last to the first,    *)
(*     each resolved recursively;                                          *)
(*   - a list is the concatenation of the parents' resolved lists in       *)
(*     inheritance order followed by the description's own list;           *)
(*   - a boolean is set when any description on the way sets it;           *)
(*   - a missing parent or a cycle yields Err - never divergence.          *)
(* The module is parametric in the field names so that the same operator   *)
(* judges the small generated forests and the ~290 shipped files.          *)
(***************************************************************************)
EXTENDS Naturals, Sequences, FiniteSets

Err == [err |-> TRUE]
IsErr(r) == r.err
Unset == ""

\* d : function from names to records [inh : Seq(names), sc : [SF -> value], li : [LF -> Seq], bo : [BF -> BOOLEAN]]
\* names not in DOMAIN d are missing files.

RECURSIVE ResolveOn(_, _, _)
ResolveOn(d, n, path) ==
  IF n \notin DOMAIN d THEN Err            \* missing parent
  ELSE IF n \in path THEN Err              \* cycle
  ELSE
    LET me  == d[n]
        ps  == [i \in 1..Len(me.inh) |-> ResolveOn(d, me.inh[i], path \cup {n})]
    IN IF \E i \in 1..Len(ps) : IsErr(ps[i]) THEN Err
       ELSE
         LET RECURSIVE Nearest(_, _)
             \* last parent (right to left) whose resolved value of scalar f is set
             Nearest(f, i) == IF i = 0 THEN Unset
                              ELSE IF ps[i].sc[f] # Unset THEN ps[i].sc[f] ELSE Nearest(f, i - 1)
             RECURSIVE Cat(_, _)
             Cat(f, i) == IF i = 0 THEN <<>> ELSE Cat(f, i - 1) \o ps[i].li[f]
         IN [ err |-> FALSE,
              sc |-> [f \in DOMAIN me.sc |-> IF me.sc[f] # Unset THEN me.sc[f] ELSE Nearest(f, Len(ps))],
              li |-> [f \in DOMAIN me.li |-> Cat(f, Len(ps)) \o me.li[f]],
              bo |-> [f \in DOMAIN me.bo |-> me.bo[f] \/ \E i \in 1..Len(ps) : ps[i].bo[f]] ]

Resolve(d, n) == ResolveOn(d, n, {})

\* ---- structural notions used by invariants --------------------------------------
RECURSIVE ReachFrom(_, _, _)
ReachFrom(d, frontier, seen) ==
  IF frontier = {} THEN seen
  ELSE LET n == CHOOSE x \in frontier : TRUE
           kids == IF n \in DOMAIN d THEN {d[n].inh[i] : i \in 1..Len(d[n].inh)} ELSE {}
       IN ReachFrom(d, (frontier \cup (kids \ (seen \cup {n}))) \ {n}, seen \cup {n})

Reach(d, n) == ReachFrom(d, {n}, {})

\* n lies on or reaches a cycle / a missing file
RECURSIVE OnCycle(_, _, _)
OnCycle(d, n, path) ==
  IF n \notin DOMAIN d THEN FALSE
  ELSE IF n \in path THEN TRUE
  ELSE \E i \in 1..Len(d[n].inh) : OnCycle(d, d[n].inh[i], path \cup {n})

WellFounded(d, n) == (Reach(d, n) \subseteq DOMAIN d) /\ ~OnCycle(d, n, {})
=============================================================================

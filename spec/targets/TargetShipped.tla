-------------------------------- MODULE TargetShipped --------------------------------
(***************************************************************************)
(* The shipped target descriptions judged by the same law.  The harness    *)
(* writes every targets/*.json file, untouched except for filling absent   *)
(* fields with the empty value, as one record per line of shipped.ndjson;  *)
(* TLC evaluates TargetMerge!Resolve for each and prints the result, which *)
(* the harness compares with what the real loader returns.                 *)
(***************************************************************************)
EXTENDS TargetMerge, TLC, Json, Integers

Recs == ndJsonDeserialize("shipped.ndjson")
NamesOf == {Recs[i].name : i \in 1..Len(Recs)}
D == [n \in NamesOf |-> LET r == CHOOSE x \in {Recs[i] : i \in 1..Len(Recs)} : x.name = n
                        IN [inh |-> r.inh, sc |-> r.sc, li |-> r.li, bo |-> r.bo]]

VARIABLE i
Init == i = 0
Next == i < Len(Recs) /\ i' = i + 1
Spec == Init /\ [][Next]_i

Out(n) == LET r == Resolve(D, n) IN
  IF IsErr(r) THEN [name |-> n, err |-> TRUE] ELSE [name |-> n, err |-> FALSE, sc |-> r.sc, li |-> r.li, bo |-> r.bo]

Emit == i > 0 => PrintT(ToJson(Out(Recs[i].name)))

\* every shipped description must be well founded (the statement: "each shipped ... resolves")
ShippedResolve == i > 0 => ~IsErr(Resolve(D, Recs[i].name))
=============================================================================

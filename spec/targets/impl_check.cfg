SPECIFICATION Spec
CONSTANTS N = 3  MaxInh = 2  Mode = "all"  CycleCheck = TRUE
INVARIANTS TypeOK ResultMatchesLaw StackBounded
PROPERTIES Terminates
CHECK_DEADLOCK FALSE

-------------------------------- MODULE ConvCopy --------------------------------
(***************************************************************************)
(* C15: a Value obtained by Convert (and an interface obtained from it by  *)
(* Interface()) is a value of its own: it holds what the operand held when *)
(* the conversion ran, whatever happens to the operand afterwards - also   *)
(* when the operand is addressable and the two types share their           *)
(* underlying type (struct, array, string, integer).                       *)
(* A script is a sequence over {mut, conv, iface, readc, readi}; TLC       *)
(* enumerates every script of up to MaxLen steps with the values the reads *)
(* must show (mut sets the operand to the next number).                    *)
(***************************************************************************)
EXTENDS Integers, Sequences, TLC, Json

CONSTANT MaxLen
Ops == {"mut", "conv", "iface", "readc", "readi"}

VARIABLES script, orig, conv, iface, reads
vars == <<script, orig, conv, iface, reads>>

Init == script = <<>> /\ orig = 1 /\ conv = 0 /\ iface = 0 /\ reads = <<>>      \* 0 = not made yet

Step(o) ==
  /\ Len(script) < MaxLen
  /\ script' = Append(script, o)
  /\ CASE o = "mut"   -> orig' = orig + 1 /\ UNCHANGED <<conv, iface, reads>>
       [] o = "conv"  -> conv' = orig /\ UNCHANGED <<orig, iface, reads>>                      \* a copy of the operand now
       [] o = "iface" -> conv # 0 /\ iface' = conv /\ UNCHANGED <<orig, conv, reads>>          \* a copy of the converted value now
       [] o = "readc" -> conv # 0 /\ reads' = Append(reads, conv) /\ UNCHANGED <<orig, conv, iface>>
       [] o = "readi" -> iface # 0 /\ reads' = Append(reads, iface) /\ UNCHANGED <<orig, conv, iface>>

Next == \E o \in Ops : Step(o)
Spec == Init /\ [][Next]_vars

\* a read never shows a value the operand took after the conversion
Snapshot == \A i \in 1..Len(reads) : reads[i] <= orig
Emit == (reads # <<>> /\ script[Len(script)] \in {"readc", "readi"}) => PrintT(ToJson([script |-> script, reads |-> reads]))
=============================================================================

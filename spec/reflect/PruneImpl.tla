-------------------------------- MODULE PruneImpl --------------------------------
(***************************************************************************)
(* C15, layer B (never the judge; report only): llgo's pruning of the      *)
(* run-time type list from the reflect calls it observes at compile time   *)
(* (ssa/expr.go checkReflect, internal/build/main_module.go                *)
(* filterAbiSymbol).  reflect's constructors (PointerTo, SliceOf, ...) and *)
(* method lookups search that list for the descriptor the compiler emitted *)
(* so that a type obtained by reflection IS the compiled type (same        *)
(* identity, same method table); what they do not find they synthesise     *)
(* without methods.                                                        *)
(*                                                                         *)
(* Need (from layer A: the answers do not depend on which reflect calls    *)
(* appear): whenever the program can perform, at run time, an operation    *)
(* that looks up descriptors of some class, every linked descriptor of     *)
(* that class is in the list.                                              *)
(* Uses that checkReflect observes: the seven constructors and             *)
(* reflect.Value.Method / MethodByName.  Uses it does not observe:         *)
(* reflect.Type.Method / MethodByName (method types are func descriptors). *)
(***************************************************************************)
EXTENDS FiniteSets, TLC

Classes == {"Array", "Chan", "Func", "Map", "Pointer", "Slice", "Struct"}
Observed == {"ArrayOf", "ChanOf", "FuncOf", "MapOf", "PointerTo", "SliceOf", "StructOf",
             "ValueMethodConst", "ValueMethodByNameConst", "ValueMethodDynamic"}
Unobserved == {"TypeMethod"}
Uses == Observed \cup Unobserved

\* the descriptor class an operation looks up
Looks(u) == CASE u = "ArrayOf" -> {"Array"} [] u = "ChanOf" -> {"Chan"} [] u = "FuncOf" -> {"Func"}
              [] u = "MapOf" -> {"Map"} [] u = "PointerTo" -> {"Pointer"} [] u = "SliceOf" -> {"Slice"}
              [] u = "StructOf" -> {"Struct"}
              [] OTHER -> {"Func"}          \* the type of a method value / Method(i).Type is a func descriptor

VARIABLE uses      \* the reflect uses that occur in the program
Init == uses \in SUBSET Uses
Next == UNCHANGED uses
Spec == Init /\ [][Next]_uses

\* transcription of checkReflect + filterAbiSymbol
Flags == uses \cap Observed
MethodMask == Flags \cap {"ValueMethodConst", "ValueMethodByNameConst", "ValueMethodDynamic"} # {}
Kept(class) == CASE class = "Array" -> "ArrayOf" \in Flags [] class = "Chan" -> "ChanOf" \in Flags
                 [] class = "Func" -> "FuncOf" \in Flags \/ MethodMask
                 [] class = "Map" -> "MapOf" \in Flags [] class = "Pointer" -> "PointerTo" \in Flags
                 [] class = "Slice" -> "SliceOf" \in Flags [] class = "Struct" -> "StructOf" \in Flags

NeedObserved == \A u \in uses \cap Observed : \A c \in Looks(u) : Kept(c)
NeedAll      == \A u \in uses : \A c \in Looks(u) : Kept(c)
=============================================================================

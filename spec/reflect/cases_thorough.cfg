SPECIFICATION Spec
CONSTANTS
  MaxDepth = 2
  M0 = 1
  M1 = 1
  M2 = 12
  M3 = 1
  Sel = 1
INVARIANTS
  LawPointerMethodSet
  LawDeepEqual
  LawVerbs
  Emit
CHECK_DEADLOCK FALSE

-------------------------------- MODULE ConvSet --------------------------------
(***************************************************************************)
(* C15: reflect.Value Convert / SetInt / SetUint round trips on integers   *)
(* and the settability law.                                                *)
(* Go specification, "Conversions between numeric types": a signed value   *)
(* is sign-extended, an unsigned one zero-extended to infinite precision   *)
(* and then truncated to the size of the result type.  reflect.Value       *)
(* .Convert follows the conversion rules of the language; SetInt/SetUint   *)
(* store with the same truncation and panic on the wrong kind.             *)
(* TLC integers are 32-bit: results are modelled for 8- and 16-bit targets *)
(* (wrap-around) and for wider targets when the value is representable.    *)
(***************************************************************************)
EXTENDS Integers, Sequences, TLC, Json

Kinds == <<"int8", "int16", "int32", "int64", "int", "uint8", "uint16", "uint32", "uint64", "uint", "main.CI16">>
Bits(kd) == CASE kd \in {"int8", "uint8"} -> 8 [] kd \in {"int16", "uint16", "main.CI16"} -> 16
              [] kd \in {"int32", "uint32"} -> 32 [] OTHER -> 64
Signed(kd) == kd \in {"int8", "int16", "int32", "int64", "int", "main.CI16"}
Pow2(b) == IF b = 8 THEN 256 ELSE 65536
Values == <<-32769, -32768, -129, -128, -1, 0, 1, 127, 128, 255, 256, 32767, 32768, 65535, 65536, 1000000>>

Fits(v, kd) == IF Bits(kd) >= 32 THEN (Signed(kd) \/ v >= 0)
               ELSE IF Signed(kd) THEN (0 - (Pow2(Bits(kd)) \div 2)) <= v /\ v < (Pow2(Bits(kd)) \div 2)
               ELSE 0 <= v /\ v < Pow2(Bits(kd))
\* truncation of the infinitely sign-extended v to kind kd (defined when Modelled)
Modelled(v, kd) == Bits(kd) < 32 \/ Fits(v, kd)
Wrap(v, kd) == IF Bits(kd) >= 32 THEN v
               ELSE LET m == Pow2(Bits(kd))
                        r == ((v % m) + m) % m
                    IN IF Signed(kd) /\ r >= m \div 2 THEN r - m ELSE r

VARIABLES op, a, b, v
vars == <<op, a, b, v>>
Init == /\ op \in {"conv", "setint", "setuint"}
        /\ a \in 1..Len(Kinds) /\ b \in 1..Len(Kinds) /\ v \in 1..Len(Values)
        /\ (op # "conv" => b = 1)
Next == UNCHANGED vars
Spec == Init /\ [][Next]_vars

From == Kinds[a]
To   == Kinds[b]
Val  == Values[v]
Applicable == CASE op = "conv" -> Fits(Val, From) /\ Modelled(Val, To)
                [] op = "setint" -> TRUE
                [] op = "setuint" -> Val >= 0
Result == CASE op = "conv" -> ToString(Wrap(Val, To)) \o " " \o To
            [] op = "setint" -> IF Signed(From) THEN ToString(Wrap(Val, From)) ELSE "PANIC"
            [] op = "setuint" -> IF Signed(From) THEN "PANIC" ELSE ToString(Wrap(Val, From))
\* identities of the conversion law
RoundTrip == (op = "conv" /\ Applicable /\ Fits(Val, To)) => Wrap(Val, To) = Val
Emit == Applicable => PrintT(ToJson([op |-> op, from |-> From, to |-> To, v |-> Val, r |-> Result]))

\* settability ("a Value is settable if it is addressable and was not obtained by the use of unexported struct
\* fields"); the harness has one fixed access path per name
Paths == << [n |-> "val",        addr |-> FALSE, unexp |-> FALSE],
            [n |-> "ptrelem",    addr |-> TRUE,  unexp |-> FALSE],
            [n |-> "pfieldX",    addr |-> TRUE,  unexp |-> FALSE],
            [n |-> "pfieldx",    addr |-> TRUE,  unexp |-> TRUE],
            [n |-> "vfieldX",    addr |-> FALSE, unexp |-> FALSE],
            [n |-> "vfieldx",    addr |-> FALSE, unexp |-> TRUE],
            [n |-> "sliceelem",  addr |-> TRUE,  unexp |-> FALSE],
            [n |-> "varrayelem", addr |-> FALSE, unexp |-> FALSE],
            [n |-> "parrayelem", addr |-> TRUE,  unexp |-> FALSE],
            [n |-> "mapelem",    addr |-> FALSE, unexp |-> FALSE],
            [n |-> "pembX",      addr |-> TRUE,  unexp |-> FALSE],
            [n |-> "pembx",      addr |-> TRUE,  unexp |-> TRUE] >>
B(x) == IF x THEN "true" ELSE "false"
\* CanAddr CanSet CanInterface
PathLine(p) == B(p.addr) \o " " \o B(p.addr /\ ~p.unexp) \o " " \o B(~p.unexp)
\* strings: "converting a string to a slice of bytes yields the bytes of the string" and back; a conversion to a
\* declared string type keeps the text; SetString needs a settable Value.  Printed as  <%v of the result> <%T>.
StrCases == << [n |-> "str.named",     r |-> "hi main.CS"],
               [n |-> "str.tobytes",   r |-> "[104 105] []uint8"],
               [n |-> "str.frombytes", r |-> "hi string"],
               [n |-> "str.set",       r |-> "b"],
               [n |-> "str.setnamed",  r |-> "b main.CS"],
               [n |-> "str.setunaddr", r |-> "PANIC"],
               [n |-> "str.setunexp",  r |-> "PANIC"] >>
EmitPaths == (op = "conv" /\ a = 1 /\ b = 1 /\ v = 1) =>
   PrintT(ToJson([op |-> "paths", lines |-> [i \in 1..Len(Paths) |-> [n |-> "path." \o Paths[i].n, r |-> PathLine(Paths[i])]]
                                            \o StrCases]))
=============================================================================

-------------------------------- MODULE TypeTerms --------------------------------
(***************************************************************************)
(* C15, layer A, part 1: the recursive grammar of Go types the property    *)
(* quantifies over, as TLA+ terms (records tagged by "k").                 *)
(*                                                                         *)
(*   basic      [k, n]                 bool, intN, uintN, int, uint,       *)
(*                                     string, float64                     *)
(*   error      [k]                    the predeclared interface type      *)
(*   named      [k, x, u, ms]          type <Name> u   declared in package *)
(*                                     main; x = exported name; ms = code  *)
(*                                     of its declared method set          *)
(*   inst       [k, a]                 G[a] for  type G[T any] struct{V T} *)
(*                                     with methods Gm() int (value        *)
(*                                     receiver), Gp() int (pointer recv.) *)
(*   ptr, slice [k, e]      array [k, n, e]      map [k, key, e]           *)
(*   chan       [k, dir, e]            dir in both | send | recv           *)
(*   func       [k, ps, rs, v]         v = variadic (last parameter ...T)  *)
(*   struct     [k, fs]                fs = sequence of fields             *)
(*                                     [x, t, tag, emb]; the name of a     *)
(*                                     plain field is fixed by position    *)
(*                                     and exportedness (A,B,C / a,b,c)    *)
(*   iface      [k, ms]                ms = sequence of method names       *)
(*                                                                         *)
(* The name of a declared type is a function of its structure (TName), so  *)
(* that one term denotes one Go type in every program and for every seed.  *)
(* Wraps(t) are the one-step extensions of a term: TLC builds terms step   *)
(* by step along one spine; the other children of a constructor are taken  *)
(* from a small fixed set of sibling types.                                *)
(***************************************************************************)
EXTENDS Integers, Sequences, TLC

Basic(n)         == [k |-> "basic", n |-> n]
ErrorT           == [k |-> "error"]
Named(x, u, ms)  == [k |-> "named", x |-> x, u |-> u, ms |-> ms]
Inst(a)          == [k |-> "inst", a |-> a]
Ptr(e)           == [k |-> "ptr", e |-> e]
Slice(e)         == [k |-> "slice", e |-> e]
Array(n, e)      == [k |-> "array", n |-> n, e |-> e]
Map(key, e)      == [k |-> "map", key |-> key, e |-> e]
Chan(dir, e)     == [k |-> "chan", dir |-> dir, e |-> e]
Func(ps, rs, v)  == [k |-> "func", ps |-> ps, rs |-> rs, v |-> v]
Struct(fs)       == [k |-> "struct", fs |-> fs]
Iface(ms)        == [k |-> "iface", ms |-> ms]
Fld(x, t, tag, emb) == [x |-> x, t |-> t, tag |-> tag, emb |-> emb]

SignedNames   == <<"int8", "int16", "int32", "int64", "int">>
UnsignedNames == <<"uint8", "uint16", "uint32", "uint64", "uint">>
OtherNames    == <<"bool", "string", "float64">>
BasicNames    == SignedNames \o UnsignedNames \o OtherNames

InSeq(x, s) == \E i \in 1..Len(s) : s[i] = x
IsSignedName(n)   == InSeq(n, SignedNames)
IsUnsignedName(n) == InSeq(n, UnsignedNames)
IsIntName(n)      == IsSignedName(n) \/ IsUnsignedName(n)

\* ------------------------------------------------------------------ declared method sets
\* v: methods declared with a value receiver, p: with a pointer receiver.
\* String() string, Error() string; M1, P1 (exported) and m0 (unexported) return int.
MS == [ none |-> [v |-> <<>>,                     p |-> <<>>],
        vS   |-> [v |-> <<"String">>,             p |-> <<>>],
        pS   |-> [v |-> <<>>,                     p |-> <<"String">>],
        vE   |-> [v |-> <<"Error">>,              p |-> <<>>],
        pE   |-> [v |-> <<>>,                     p |-> <<"Error">>],
        vES  |-> [v |-> <<"Error", "String">>,    p |-> <<>>],
        vM   |-> [v |-> <<"M1", "m0">>,           p |-> <<>>],
        pM   |-> [v |-> <<>>,                     p |-> <<"P1">>],
        vMpM |-> [v |-> <<"M1", "m0">>,           p |-> <<"P1">>],
        vSpM |-> [v |-> <<"String">>,             p |-> <<"P1">>],
        vMpS |-> [v |-> <<"M1">>,                 p |-> <<"String">>],
        vMS  |-> [v |-> <<"M1", "String", "m0">>, p |-> <<>>] ]
MSCodes    == <<"none", "vS", "pS", "vE", "pE", "vES", "vM", "pM", "vMpM", "vSpM", "vMpS", "vMS">>
MSCodesLow == <<"none", "vS", "pM">>     \* used with unexported type names

\* every method name of the universe in the order reflect lists methods (byte-wise by name)
MOrder == <<"Em", "Error", "Gm", "Gp", "M1", "P1", "Pm", "String", "m0">>
ExportedM(m) == m # "m0"

\* ------------------------------------------------------------------ kinds
RECURSIVE KindOf(_)
KindOf(t) == CASE t.k = "basic" -> t.n
               [] t.k = "error" -> "interface"
               [] t.k = "iface" -> "interface"
               [] t.k = "named" -> KindOf(t.u)
               [] t.k = "inst"  -> "struct"
               [] OTHER         -> t.k        \* ptr slice array map chan func struct

IsDeclared(t) == t.k \in {"named", "inst"}
HasName(t)    == t.k \in {"named", "inst", "basic", "error"}

\* ------------------------------------------------------------------ names of declared types
UpNames  == <<"A", "B", "C", "D">>
LowNames == <<"a", "b", "c", "d">>

RECURSIVE Mangle(_), MangleSeq(_, _), MangleFields(_, _), MangleStrs(_, _)
TName(t) == (IF t.x THEN "N" ELSE "n") \o Mangle(t.u) \o "Z" \o t.ms
TagCode(tag) == IF tag = "" THEN "" ELSE IF tag = "t" THEN "q" ELSE "k"
Mangle(t) ==
  CASE t.k = "basic"  -> t.n
    [] t.k = "error"  -> "error"
    [] t.k = "named"  -> TName(t)
    [] t.k = "inst"   -> "G_" \o Mangle(t.a) \o "_"
    [] t.k = "ptr"    -> "P" \o Mangle(t.e)
    [] t.k = "slice"  -> "L" \o Mangle(t.e)
    [] t.k = "array"  -> "R" \o ToString(t.n) \o Mangle(t.e)
    [] t.k = "map"    -> "M" \o Mangle(t.key) \o "_" \o Mangle(t.e)
    [] t.k = "chan"   -> (IF t.dir = "both" THEN "C" ELSE IF t.dir = "send" THEN "Cs" ELSE "Cr") \o Mangle(t.e)
    [] t.k = "func"   -> "F" \o MangleSeq(t.ps, 1) \o "_" \o MangleSeq(t.rs, 1) \o (IF t.v THEN "v" ELSE "") \o "_"
    [] t.k = "struct" -> "S" \o MangleFields(t.fs, 1) \o "_"
    [] t.k = "iface"  -> "I" \o MangleStrs(t.ms, 1) \o "_"
MangleSeq(s, i) == IF i > Len(s) THEN "" ELSE Mangle(s[i]) \o "_" \o MangleSeq(s, i + 1)
MangleStrs(s, i) == IF i > Len(s) THEN "" ELSE s[i] \o MangleStrs(s, i + 1)
MangleFields(fs, i) ==
  IF i > Len(fs) THEN ""
  ELSE (IF fs[i].emb THEN "e" ELSE IF fs[i].x THEN "X" ELSE "x") \o Mangle(fs[i].t) \o TagCode(fs[i].tag)
       \o "_" \o MangleFields(fs, i + 1)
\* (the harness checks that distinct declared types of one program have distinct names)

\* ------------------------------------------------------------------ static properties used by the grammar
RECURSIVE Comparable(_)
AllComparable(fs) == \A i \in 1..Len(fs) : Comparable(fs[i].t)
Comparable(t) ==
  CASE t.k \in {"basic", "error", "iface", "ptr", "chan"} -> TRUE
    [] t.k \in {"slice", "map", "func"}                    -> FALSE
    [] t.k = "named"  -> Comparable(t.u)
    [] t.k = "inst"   -> Comparable(t.a)
    [] t.k = "array"  -> Comparable(t.e)
    [] t.k = "struct" -> AllComparable(t.fs)

\* types of size zero
RECURSIVE ZeroSize(_)
ZeroSize(t) == CASE t.k = "struct" -> \A i \in 1..Len(t.fs) : ZeroSize(t.fs[i].t)
                 [] t.k = "array"  -> t.n = 0 \/ ZeroSize(t.e)
                 [] t.k = "named"  -> ZeroSize(t.u)
                 [] t.k = "inst"   -> ZeroSize(t.a)
                 [] OTHER          -> FALSE

\* "an embedded field must be a type name T or a pointer to a non-interface type name *T,
\*  and T itself may not be a pointer type"
EmbeddableV(t) == HasName(t) /\ KindOf(t) # "ptr"
EmbeddableP(t) == HasName(t) /\ KindOf(t) \notin {"ptr", "interface"}

\* ------------------------------------------------------------------ fixed sibling types
IntT  == Basic("int")
StrT  == Basic("string")
BoolT == Basic("bool")
AnyT  == Iface(<<>>)
VI    == Named(TRUE, Basic("int8"), "vS")                            \* value-receiver Stringer over int8
EB    == Named(TRUE, Struct(<<Fld(TRUE, IntT, "", FALSE)>>), "vMpM") \* struct { A int } with M1, m0 / P1
ER    == Named(TRUE, Struct(<<Fld(FALSE, IntT, "", FALSE)>>), "vE")  \* struct { a int } implementing error
ALL   == Named(TRUE, IntT, "vMS")                                    \* int with M1, String, m0
I1    == Iface(<<"M1">>)
I3    == Iface(<<"M1", "String", "m0">>)

Tag1 == "k:\"v\""
Tag2 == "t"

Leaves == [i \in 1..Len(BasicNames) |-> Basic(BasicNames[i])] \o <<ErrorT, AnyT, I1, I3, Struct(<<>>)>>

\* ------------------------------------------------------------------ one-step extensions
Opt(c, x) == IF c THEN <<x>> ELSE <<>>

NamedWraps(t) ==
  IF IsDeclared(t) \/ t.k = "error" THEN <<>>
  ELSE IF KindOf(t) \in {"ptr", "interface"} THEN <<Named(TRUE, t, "none"), Named(FALSE, t, "none")>>
  ELSE [i \in 1..Len(MSCodes) |-> Named(TRUE, t, MSCodes[i])]
       \o [i \in 1..Len(MSCodesLow) |-> Named(FALSE, t, MSCodesLow[i])]

Wraps(t) ==
     <<Ptr(t), Slice(t), Array(0, t), Array(2, t),
       Map(IntT, t), Map(StrT, t), Map(VI, t)>>
  \o Opt(Comparable(t), Map(t, IntT))
  \o <<Chan("both", t), Chan("send", t), Chan("recv", t),
       Func(<<t>>, <<>>, FALSE), Func(<<IntT, t>>, <<>>, TRUE), Func(<<>>, <<t>>, FALSE),
       Func(<<t>>, <<StrT, ErrorT>>, FALSE),
       Struct(<<Fld(TRUE, t, "", FALSE)>>),
       Struct(<<Fld(FALSE, t, "", FALSE), Fld(TRUE, IntT, "", FALSE)>>),
       Struct(<<Fld(TRUE, t, Tag1, FALSE)>>),
       Struct(<<Fld(TRUE, t, Tag2, FALSE), Fld(FALSE, VI, Tag1, FALSE)>>),
       Struct(<<Fld(TRUE, EB, "", TRUE), Fld(TRUE, t, "", FALSE)>>)>>
  \o Opt(EmbeddableV(t), Struct(<<Fld(TRUE, IntT, "", FALSE), Fld(TRUE, t, "", TRUE)>>))
  \o Opt(EmbeddableP(t), Struct(<<Fld(TRUE, Ptr(t), "", TRUE), Fld(FALSE, StrT, "", FALSE)>>))
  \o NamedWraps(t)
  \o <<Inst(t)>>
=============================================================================

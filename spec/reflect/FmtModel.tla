-------------------------------- MODULE FmtModel --------------------------------
(***************************************************************************)
(* C15, layer A, part 3: the text package fmt prints for a value term      *)
(* under %v %+v %#v %T %d %s %q %x %t (package fmt documentation:          *)
(* "Printing", default formats, compound operands, "Except when printed    *)
(* using the verbs %T and %p, special formatting considerations apply for  *)
(* operands that implement certain interfaces").                           *)
(*                                                                         *)
(* Verb codes: v %v, P %+v, G %#v, d, s, q, x, t; %T is TypeVerb.          *)
(* Not modelled: floats with a fractional part or an exponent, %e %g,      *)
(* width / precision / other flags, bad-verb texts (%!d(...)), addresses.  *)
(* OK(verb, v, ..) says whether the text of v under verb is inside the     *)
(* modelled fragment; only those cases are emitted.                        *)
(***************************************************************************)
EXTENDS ReflectModel

Verbs == <<"v", "P", "G", "d", "s", "q", "x", "t">>

Dec(i) == ToString(i)
HexDigits == <<"0", "1", "2", "3", "4", "5", "6", "7", "8", "9", "a", "b", "c", "d", "e", "f">>
RECURSIVE HexNat(_)
HexNat(n) == IF n < 16 THEN HexDigits[n + 1] ELSE HexNat(n \div 16) \o HexDigits[(n % 16) + 1]
HexInt(i) == IF i < 0 THEN "-" \o HexNat(0 - i) ELSE HexNat(i)
Hex2(n)   == HexDigits[(n \div 16) + 1] \o HexDigits[(n % 16) + 1]
\* strconv.Quote of a text made of printable ASCII without quote or backslash
Quote(s) == "\"" \o s \o "\""
\* TLC strings are opaque: the two-hex-digits-per-byte transliteration of a text is delegated to the
\* driver, which replaces <<hex:TEXT>> by the hexadecimal encoding of TEXT's bytes
HexText(s) == "<<hex:" \o s \o ">>"
ByteChar(i) == IF i = 104 THEN "h" ELSE "i"
Letters(es) == \A j \in 1..Len(es) : es[j].i \in {104, 105}

\* ------------------------------------------------------------------ Stringer / error
\* "If an operand implements the error interface, the Error method will be invoked ... If an operand
\*  implements method String() string, that method will be invoked" - for the verbs valid for strings
\*  (%s %q %v %x %X), not for %#v, %T, %d, %t; and only for values fmt may take out of their container
\*  (not below an unexported struct field: ro).
UsesMethod(verb, t, ro) == verb \in {"v", "P", "s", "q", "x"} /\ ~ro /\ ({"Error", "String"} \cap MSetV(t)) # {}
MethodName(t) == IF "Error" \in MSetV(t) THEN "Error" ELSE "String"
AsText(verb, s) == IF verb = "q" THEN Quote(s) ELSE IF verb = "x" THEN HexText(s) ELSE s
\* a method that panics on a nil pointer operand prints <nil>
MethodText(verb, v) == IF KindOf(v.t) = "ptr" /\ v.nil THEN "<nil>" ELSE AsText(verb, CallResult(v, MethodName(v.t)))

KeyRank(k) == IF KindOf(k.t) = "string" THEN (IF k.s = "" THEN 0 ELSE IF k.s = "a" THEN 1 ELSE 2) ELSE k.i
RECURSIVE SortFrom(_, _)
SortFrom(ks, S) == IF S = {} THEN <<>>
                   ELSE LET m == CHOOSE i \in S : \A j \in S : KeyRank(ks[i]) <= KeyRank(ks[j])
                        IN <<m>> \o SortFrom(ks, S \ {m})
\* "maps are printed in key-sorted order": ints and strings ascending, false before true
MapOrder(v) == SortFrom(v.ks, 1..Len(v.ks))

FmtBytes(verb, es, isNil, typeStr) ==
  CASE verb = "G" -> typeStr \o (IF isNil THEN "(nil)" ELSE "{" \o Join([j \in 1..Len(es) |-> "0x" \o HexNat(es[j].i)], ", ") \o "}")
    [] verb = "s" -> Join([j \in 1..Len(es) |-> ByteChar(es[j].i)], "")
    [] verb = "q" -> Quote(Join([j \in 1..Len(es) |-> ByteChar(es[j].i)], ""))
    [] verb = "x" -> Join([j \in 1..Len(es) |-> Hex2(es[j].i)], "")
    [] OTHER      -> "[" \o Join([j \in 1..Len(es) |-> Dec(es[j].i)], " ") \o "]"

NilText(verb, t, paren) == IF verb = "G" THEN (IF paren THEN "(" \o Str(t) \o ")(nil)" ELSE Str(t) \o "(nil)") ELSE "<nil>"

RECURSIVE Fmt(_, _, _, _)
\* text of value v at nesting depth d; ro: v was reached through an unexported field
Fmt(verb, v, d, ro) ==
  LET t  == v.t
      kd == KindOf(t)
  IN
  IF kd = "interface" THEN (IF v.nil THEN NilText(verb, t, FALSE) ELSE Fmt(verb, v.es[1], d + 1, ro))
  ELSE IF UsesMethod(verb, t, ro) THEN MethodText(verb, v)
  ELSE
  CASE kd = "bool"        -> BoolStr(v.i = 1)
    [] IsSignedName(kd)   -> IF verb = "x" THEN HexInt(v.i) ELSE Dec(v.i)
    [] IsUnsignedName(kd) -> IF verb = "x" THEN HexNat(v.i) ELSE IF verb = "G" THEN "0x" \o HexNat(v.i) ELSE Dec(v.i)
    [] kd = "float64"     -> Dec(v.i)
    [] kd = "string"      -> IF verb \in {"G", "q"} THEN Quote(v.s) ELSE IF verb = "x" THEN HexText(v.s) ELSE v.s
    [] kd \in {"chan", "func"} -> NilText(verb, t, TRUE)
    [] kd = "ptr"         -> IF v.nil THEN NilText(verb, t, TRUE) ELSE "&" \o Fmt(verb, v.es[1], d + 1, ro)
    [] kd = "struct" ->
         LET n == Len(v.es)
             x == [i \in 1..n |-> Fmt(verb, v.es[i], d + 1, ro \/ ~FieldExpOf(t, i))]
             nx == [i \in 1..n |-> FieldNameOf(t, i) \o ":" \o x[i]]
         IN IF verb = "G" THEN Str(t) \o "{" \o Join(nx, ", ") \o "}"
            ELSE IF verb = "P" THEN "{" \o Join(nx, " ") \o "}"
            ELSE "{" \o Join(x, " ") \o "}"
    [] kd = "map" ->
         LET o == MapOrder(v)
             kv == [i \in 1..Len(o) |-> Fmt(verb, v.ks[o[i]], d + 1, ro) \o ":" \o Fmt(verb, v.es[o[i]], d + 1, ro)]
         IN IF verb = "G" THEN Str(t) \o (IF v.nil THEN "(nil)" ELSE "{" \o Join(kv, ", ") \o "}")
            ELSE "map[" \o Join(kv, " ") \o "]"
    [] kd \in {"slice", "array"} ->
         LET et == IF t.k = "named" THEN t.u.e ELSE t.e IN
         IF verb \in {"s", "q", "x"} /\ KindOf(et) = "uint8" THEN FmtBytes(verb, v.es, v.nil, Str(t))
         ELSE LET x == [i \in 1..Len(v.es) |-> Fmt(verb, v.es[i], d + 1, ro)]
              IN IF verb = "G" THEN Str(t) \o (IF kd = "slice" /\ v.nil THEN "(nil)" ELSE "{" \o Join(x, ", ") \o "}")
                 ELSE "[" \o Join(x, " ") \o "]"

\* whether Fmt(verb, v, d, ro) lies inside the modelled fragment (verb applies to every operand reached, no
\* address is printed, no invoked method panics other than on a nil pointer operand)
RECURSIVE OK(_, _, _, _)
OK(verb, v, d, ro) ==
  LET t  == v.t
      kd == KindOf(t)
  IN
  IF kd = "interface" THEN (IF v.nil THEN verb \in {"v", "P", "G"} ELSE OK(verb, v.es[1], d + 1, ro))
  ELSE IF UsesMethod(verb, t, ro) THEN (kd = "ptr" /\ v.nil /\ ~ZeroSize(Under(t).e))
                                       \/ (~(kd = "ptr" /\ v.nil) /\ CallResult(v, MethodName(t)) \notin {Panics, Unmodelled})
  ELSE
  CASE kd = "bool"      -> verb \in {"v", "P", "G", "t"}
    [] IntKind(kd)      -> verb \in {"v", "P", "G", "d", "x"}
    [] kd = "float64"   -> verb \in {"v", "P", "G"} /\ ~IsNaN(v)
    [] kd = "string"    -> verb \in {"v", "P", "G", "s", "q", "x"}
    [] kd \in {"chan", "func"} -> verb \in {"v", "P", "G"}
    [] kd = "ptr"       -> IF v.nil THEN verb \in {"v", "P", "G"}
                           ELSE d = 0 /\ KindOf(v.es[1].t) \in {"array", "slice", "struct", "map"} /\ OK(verb, v.es[1], 1, ro)
    [] kd = "struct"    -> \A i \in 1..Len(v.es) : OK(verb, v.es[i], d + 1, ro \/ ~FieldExpOf(t, i))
    [] kd = "map"       -> \A i \in 1..Len(v.es) : OK(verb, v.ks[i], d + 1, ro) /\ OK(verb, v.es[i], d + 1, ro)
    [] kd \in {"slice", "array"} ->
         LET et == IF t.k = "named" THEN t.u.e ELSE t.e IN
         IF verb \in {"s", "q", "x"} /\ KindOf(et) = "uint8" THEN verb = "x" \/ Letters(v.es)
         ELSE \A i \in 1..Len(v.es) : OK(verb, v.es[i], d + 1, ro)

\* ------------------------------------------------------------------ the operand as passed to Printf (an interface{})
\* a value of interface type arrives as its dynamic value; a nil interface value prints <nil>
ArgOK(verb, v) == IF KindOf(v.t) = "interface" THEN (IF v.nil THEN verb \in {"v", "P", "G"} ELSE OK(verb, v.es[1], 0, FALSE))
                  ELSE OK(verb, v, 0, FALSE)
ByteSliceT == Slice(Basic("uint8"))
ArgText(verb, v) ==
  IF KindOf(v.t) = "interface" THEN (IF v.nil THEN "<nil>" ELSE
        IF verb = "G" /\ v.es[1].t = ByteSliceT THEN FmtBytes("G", v.es[1].es, v.es[1].nil, "[]byte") ELSE Fmt(verb, v.es[1], 0, FALSE))
  ELSE IF verb = "G" /\ v.t = ByteSliceT THEN FmtBytes("G", v.es, v.nil, "[]byte")   \* printed through fmt's []byte fast path
  ELSE Fmt(verb, v, 0, FALSE)
TypeVerb(v) == IF KindOf(v.t) = "interface" THEN (IF v.nil THEN "<nil>" ELSE Str(v.es[1].t)) ELSE Str(v.t)
=============================================================================

-------------------------------- MODULE BlankCmp --------------------------------
(***************************************************************************)
(* C15: comparability of struct types with blank fields.  Go: a struct     *)
(* type is comparable iff all its field types are - blank fields included  *)
(* (the values of blank fields are ignored when two structs ARE compared,  *)
(* but whether the comparison exists is a property of the type).  An array *)
(* type is comparable iff its element type is, whatever its length.        *)
(* reflect.Type.Comparable and Value.Comparable report it; comparing two   *)
(* interface values holding a non-comparable type panics; so does using    *)
(* one as a map[any] key.  TLC enumerates every struct of 1..3 fields over *)
(* a menu of plain and blank fields, and its [2]T and struct{T} wrappers.  *)
(***************************************************************************)
EXTENDS Integers, Sequences, FiniteSets, TLC, Json

\* field kinds: name ("" = blank), comparable?
Menu == << [n |-> "X", t |-> "int", c |-> TRUE], [n |-> "Y", t |-> "string", c |-> TRUE], [n |-> "F", t |-> "func()", c |-> FALSE],
           [n |-> "_", t |-> "int", c |-> TRUE], [n |-> "_", t |-> "func()", c |-> FALSE], [n |-> "_", t |-> "[0]func()", c |-> FALSE],
           [n |-> "_", t |-> "[0]int", c |-> TRUE] >>
MI == 1..Len(Menu)

VARIABLE fs
Init == fs \in UNION {[1..n -> MI] : n \in 1..3}
Next == UNCHANGED fs
Spec == Init /\ [][Next]_fs

\* a struct may not declare one non-blank name twice
WellFormed == \A i, j \in DOMAIN fs : i # j /\ Menu[fs[i]].n # "_" => Menu[fs[i]].n # Menu[fs[j]].n
Cmp == \A i \in DOMAIN fs : Menu[fs[i]].c

Emit == WellFormed => PrintT(ToJson([fields |-> [i \in DOMAIN fs |-> [n |-> Menu[fs[i]].n, t |-> Menu[fs[i]].t]], cmp |-> Cmp]))
=============================================================================

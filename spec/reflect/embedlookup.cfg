SPECIFICATION Spec
INVARIANTS OwnWins NoXNoField Emit
CHECK_DEADLOCK FALSE

-------------------------------- MODULE ReflectRO --------------------------------
(***************************************************************************)
(* C15: the read-only state of a reflect.Value reached by field selection. *)
(* Go (package reflect, "Value.CanSet", "Value.CanInterface", "Value.Field")*)
(*   - a Value is settable iff it is addressable and was not obtained by   *)
(*     the use of unexported struct fields; Set on any other Value panics; *)
(*   - Interface (and so fmt's use of String()/Error()) is allowed iff the *)
(*     Value was not obtained by the use of unexported struct fields;      *)
(*   - a field of an addressable struct is addressable; reflect.ValueOf(x) *)
(*     is not addressable, reflect.ValueOf(&x).Elem() is;                  *)
(*   - what "obtained by the use of unexported fields" means along a path  *)
(*     r.Field(a).Field(b)...: selecting an unexported NON-embedded field  *)
(*     taints the value and everything selected from it ("sticky");        *)
(*     selecting an unexported EMBEDDED field (struct{ base }) taints that *)
(*     value itself only: the fields of the embedded struct are promoted   *)
(*     to the outer struct, so its exported fields stay usable, exactly as *)
(*     the selector r.X reaches them in Go source.                         *)
(* A path is a sequence of 1..3 field selections; every selection but the  *)
(* last yields a struct; the last yields a struct or a leaf (a named int   *)
(* type with a String method).  The root is addressable or not.  TLC       *)
(* enumerates every path x root and prints what reflect must report.       *)
(***************************************************************************)
EXTENDS Integers, Sequences, FiniteSets, TLC, Json

\* selections yielding a struct: field `F T`, field `f T`, embedded `T` (exported type name), embedded `t`
StructSel == {"EP", "UP", "EE", "EU"}
\* selections yielding a leaf: field `L Leaf`, field `l Leaf`
LeafSel == {"LE", "LU"}
Exported(k) == k \in {"EP", "EE", "LE"}
Embedded(k) == k \in {"EE", "EU"}

Paths == UNION { { p \in [1..n -> StructSel \cup LeafSel] : \A i \in 1..(n - 1) : p[i] \in StructSel } : n \in 1..3 }

VARIABLES path, addr
vars == <<path, addr>>
Init == path \in Paths /\ addr \in BOOLEAN
Next == UNCHANGED vars
Spec == Init /\ [][Next]_vars

\* ---- the rule, step by step: the taint carried by the value selected so far
\* sticky: inherited by every further selection; embed: holds for this value only
Clean == [sticky |-> FALSE, embed |-> FALSE]
Select(t, k) == [sticky |-> t.sticky \/ (~Exported(k) /\ ~Embedded(k)),
                 embed  |-> ~Exported(k) /\ Embedded(k)]
RECURSIVE TaintAt(_, _)
TaintAt(p, n) == IF n = 0 THEN Clean ELSE Select(TaintAt(p, n - 1), p[n])
ReadOnly(p) == LET t == TaintAt(p, Len(p)) IN t.sticky \/ t.embed

\* ---- the same rule in closed form (law checked by TLC on every path): a value is read-only iff the field it
\* was selected by last is unexported, or some earlier selection went through an unexported non-embedded field
ReadOnlyClosed(p) == ~Exported(p[Len(p)]) \/ \E i \in 1..(Len(p) - 1) : ~Exported(p[i]) /\ ~Embedded(p[i])
ClosedForm == ReadOnly(path) = ReadOnlyClosed(path)
\* an exported field reached through embedded fields only is as usable as the promoted selector r.X in Go source
Promotion == (Exported(path[Len(path)]) /\ \A i \in 1..(Len(path) - 1) : Embedded(path[i])) => ~ReadOnly(path)
\* read-only never heals except across an embedded unexported field, and a prefix's stickiness is inherited
Monotone == \A n \in 1..(Len(path) - 1) : TaintAt(path, n).sticky => ReadOnly(path)

IsLeaf == path[Len(path)] \in LeafSel
CanAddr == addr
CanInterface == ~ReadOnly(path)
CanSet == addr /\ ~ReadOnly(path)

\* class of the path: what the reject key is made of (seed independent)
Class == IF ReadOnly(path)
         THEN IF ~Exported(path[Len(path)]) THEN "unexported-last" ELSE "through-unexported-plain"
         ELSE IF \E i \in 1..(Len(path) - 1) : path[i] = "EU" THEN "promoted-through-unexported-embedded"
         ELSE "exported-only"

Emit == PrintT(ToJson([path |-> path, addr |-> addr, leaf |-> IsLeaf,
                       canset |-> CanSet, caniface |-> CanInterface, canaddr |-> CanAddr,
                       setpanics |-> ~CanSet,
                       after |-> IF CanSet THEN "new" ELSE "old",          \* what the variable holds after the Set attempt
                       stringer |-> IsLeaf /\ CanInterface,                \* fmt %v prints the leaf through String()
                       class |-> Class]))
=============================================================================

\* what ./check C15 quick runs (Sel = VERIF_SEED); the driver writes this file itself
SPECIFICATION Spec
CONSTANTS
  MaxDepth = 2
  M0 = 2
  M1 = 5
  M2 = 110
  M3 = 1
  Sel = 1
INVARIANTS
  LawPointerMethodSet
  LawDeepEqual
  LawVerbs
  Emit
CHECK_DEADLOCK FALSE

SPECIFICATION Spec
INVARIANTS AliasingIrrelevant Reflexive Symmetric Emit
CHECK_DEADLOCK FALSE

-------------------------------- MODULE ReflectCases --------------------------------
(***************************************************************************)
(* Case generator for C15.  TLC builds type terms step by step (one        *)
(* constructor per step along a spine, TypeTerms!Wraps) and, for every     *)
(* selected term, prints the term together with the text the specification *)
(* assigns to every applicable reflect query, to every applicable fmt verb *)
(* on several values of the type, to method calls found by reflection and  *)
(* to DeepEqual on pairs of those values.  The driver renders each term    *)
(* into Go source, runs it under llgo and compares line by line.           *)
(***************************************************************************)
EXTENDS FmtModel, Json

CONSTANTS MaxDepth,   \* number of constructor applications above a leaf
          M0, M1, M2, M3,   \* a term of depth k is emitted when hash % Mk = Sel % Mk
          Sel

VARIABLES t, d, h
vars == <<t, d, h>>

Init == /\ d = 0
        /\ \E i \in 1..Len(Leaves) : t = Leaves[i] /\ h = i
Next == /\ d < MaxDepth
        /\ LET W == Wraps(t) IN \E i \in 1..Len(W) : t' = W[i] /\ h' = (h * 131 + i) % 1000003
        /\ d' = d + 1
Spec == Init /\ [][Next]_vars

Mods == <<M0, M1, M2, M3>>
Selected == (h % Mods[d + 1]) = (Sel % Mods[d + 1])

\* ------------------------------------------------------------------ type-level queries (ids as printed by the harness)
Q(n, r) == [n |-> n, r |-> r]
ChanDirStr(dir) == IF dir = "both" THEN "chan" ELSE IF dir = "send" THEN "chan<-" ELSE "<-chan"
SigLine(f) ==
  LET ins  == [i \in 1..Len(f.ps) |-> Str(IF f.v /\ i = Len(f.ps) THEN Slice(f.ps[i]) ELSE f.ps[i])]
      outs == [i \in 1..Len(f.rs) |-> Str(f.rs[i])]
      all  == ins \o outs
  IN ToString(Len(f.ps)) \o " " \o ToString(Len(f.rs)) \o " " \o BoolStr(f.v)
       \o (IF Len(all) = 0 THEN "" ELSE " " \o Join(all, " "))
TypeQueries(x) ==
  LET kd == KindOf(x)
      u  == Under(x)
  IN <<Q("kind", kd), Q("name", NameOf(x)), Q("pkg", PkgPathOf(x)), Q("str", Str(x)),
       Q("cmp", BoolStr(Comparable(x))), Q("nm", MethodsLine(x))>>
     \o (IF kd = "interface" THEN <<>> ELSE <<Q("pnm", MethodsLine(Ptr(x)))>>)
     \* Type.Method(0).Type is the func type whose first parameter is the receiver; identical types are one reflect.Type
     \o (IF kd # "interface" /\ Len(Listed(x)) > 0 THEN <<Q("mteq", "true")>> ELSE <<>>)
     \o (CASE kd = "struct" -> LET n == Len(StructOf(x).fs) IN
                                <<Q("nf", ToString(n))>> \o [i \in 1..n |-> Q("f" \o ToString(i - 1), FieldLine(x, i))]
           [] kd \in {"ptr", "slice"} -> <<Q("elem", Str(u.e))>>
           [] kd = "array" -> <<Q("elem", Str(u.e) \o " " \o ToString(u.n))>>
           [] kd = "map"   -> <<Q("elem", Str(u.key) \o " " \o Str(u.e))>>
           [] kd = "chan"  -> <<Q("elem", Str(u.e) \o " " \o ChanDirStr(u.dir))>>
           [] kd = "func"  -> <<Q("sig", SigLine(u))>>
           [] OTHER -> <<>>)

\* ------------------------------------------------------------------ values
RECURSIVE Strip(_)
\* a value without the types the driver can derive from the term; dt = type of the dynamic value of an interface
Strip(v) == [nil |-> v.nil, i |-> v.i, s |-> v.s,
             es |-> [j \in 1..Len(v.es) |-> Strip(v.es[j])],
             ks |-> [j \in 1..Len(v.ks) |-> Strip(v.ks[j])],
             dt |-> IF KindOf(v.t) = "interface" /\ ~v.nil THEN <<v.es[1].t>> ELSE <<>>]

Vals(x) == <<Zero(x), Rich(x, 1), Rich(x, 2)>>
           \o (IF KindOf(x) \in {"slice", "map"} THEN <<EmptyOf(x)>> ELSE <<>>)
           \o (IF Rich(x, 3) # Rich(x, 1) THEN <<Rich(x, 3)>> ELSE <<>>)

FmtCases(v) == LET ok == SelectSeq(Verbs, LAMBDA verb : ArgOK(verb, v))
               IN [i \in 1..Len(ok) |-> Q(ok[i], ArgText(ok[i], v))] \o <<Q("T", TypeVerb(v))>>
\* the methods reflect lists for the operand: for an interface-typed variable that is its dynamic value
Operand(v) == IF KindOf(v.t) = "interface" /\ ~v.nil THEN v.es[1] ELSE v
CallCases(v) ==
  IF KindOf(v.t) = "interface" /\ v.nil THEN <<>>
  ELSE LET o == Operand(v)
           L == SelectSeq(Listed(o.t), ExportedM)
           all == [i \in 1..Len(L) |-> [m |-> L[i], i |-> i - 1, r |-> CallResult(o, L[i])]]
       IN SelectSeq(all, LAMBDA c : c.r # Unmodelled)

ValCase(v) == [v |-> Strip(v), fm |-> FmtCases(v), calls |-> CallCases(v), self |-> BoolStr(SelfEq(v))]
DeqPairs(n) == {p \in (1..n) \X (1..n) : p[1] <= p[2]}
DeqCases(vs) == LET P == DeqPairs(Len(vs)) IN
  {[a |-> p[1] - 1, b |-> p[2] - 1, r |-> BoolStr(DeepEq(vs[p[1]], vs[p[2]]))] : p \in P}

CaseOf(x) == LET vs == Vals(x) IN
  [key |-> Str(x), term |-> x, q |-> TypeQueries(x),
   mt0 |-> IF KindOf(x) # "interface" /\ Len(Listed(x)) > 0 THEN <<MethodResType(Listed(x)[1])>> ELSE <<>>,
   vals |-> [i \in 1..Len(vs) |-> ValCase(vs[i])],
   deq |-> DeqCases(vs)]

Emit == Selected => PrintT(ToJson(CaseOf(t)))

\* ------------------------------------------------------------------ laws of the specification itself (checked on the selected terms)
\* "the method set of *T also contains the method set of T"
LawPointerMethodSet == Selected /\ KindOf(t) \notin {"interface", "ptr"} => MSetV(t) \subseteq MSetP(t)
\* values equal as distinct objects are equal to themselves; a listed method can be called unless a nil is on the way
LawDeepEqual == Selected => \A i \in 1..Len(Vals(t)) : DeepEq(Vals(t)[i], Vals(t)[i]) => SelfEq(Vals(t)[i])
\* every text of the fmt fragment is defined for %v exactly when it is for %+v, and %#v never invokes a method
LawVerbs == Selected => \A i \in 1..Len(Vals(t)) : ArgOK("v", Vals(t)[i]) = ArgOK("P", Vals(t)[i])

\* ------------------------------------------------------------------ fixed terms (independent of Sel): every run contains
\* them, so that a finding about one of them has the same key for every seed.  In this mode h indexes Fixed.
TagStruct == Struct(<<Fld(TRUE, IntT, Tag2, FALSE)>>)
Fixed == << [l |-> "tag",       t |-> TagStruct],
            [l |-> "chanparen", t |-> Chan("both", Chan("recv", IntT))],
            [l |-> "typearg",   t |-> Inst(Struct(<<Fld(TRUE, IntT, "", FALSE)>>))],
            [l |-> "typearg",   t |-> Inst(Func(<<I3>>, <<>>, FALSE))],
            [l |-> "ifacepkg",  t |-> Named(TRUE, I1, "none")],
            [l |-> "modpath",   t |-> EB],
            [l |-> "modpath",   t |-> Inst(EB)],
            [l |-> "modpath",   t |-> Struct(<<Fld(FALSE, EB, "", FALSE)>>)],
            [l |-> "embgen",    t |-> Struct(<<Fld(TRUE, Ptr(Inst(IntT)), "", TRUE), Fld(FALSE, StrT, "", FALSE)>>)],
            [l |-> "embgen",    t |-> Struct(<<Fld(TRUE, IntT, "", FALSE), Fld(TRUE, Inst(IntT), "", TRUE)>>)],
            [l |-> "embgen",    t |-> Named(TRUE, Struct(<<Fld(TRUE, Ptr(Inst(EB)), "", TRUE), Fld(FALSE, StrT, "", FALSE)>>), "vS")],
            [l |-> "namedfunc", t |-> Named(TRUE, Func(<<>>, <<>>, FALSE), "none")],
            [l |-> "mapptrkey", t |-> Map(Ptr(IntT), IntT)],
            [l |-> "namedptr",  t |-> Named(TRUE, Ptr(IntT), "none")],
            [l |-> "zerosize",  t |-> Array(2, Struct(<<Fld(TRUE, IntT, "", FALSE), Fld(TRUE, Struct(<<>>), "", FALSE)>>))],
            [l |-> "stringer",  t |-> Ptr(Named(TRUE, Struct(<<Fld(TRUE, IntT, "", FALSE)>>), "pS"))],
            [l |-> "stringer",  t |-> Slice(VI)],
            [l |-> "stringer",  t |-> Struct(<<Fld(FALSE, VI, "", FALSE), Fld(TRUE, VI, "", FALSE)>>)],
            [l |-> "error",     t |-> Named(TRUE, Struct(<<Fld(TRUE, IntT, "", FALSE), Fld(TRUE, ErrorT, "", TRUE)>>), "vS")],
            [l |-> "bytes",     t |-> Slice(Basic("uint8"))],
            [l |-> "bytes",     t |-> Array(2, Named(TRUE, Basic("uint8"), "vS"))] >>
InitFixed == d = 0 /\ \E i \in 1..Len(Fixed) : t = Fixed[i].t /\ h = i
SpecFixed == InitFixed /\ [][FALSE]_vars
EmitFixed == PrintT(ToJson([label |-> Fixed[h].l] @@ CaseOf(t)))
=============================================================================

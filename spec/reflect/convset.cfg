SPECIFICATION Spec
INVARIANTS
  RoundTrip
  Emit
  EmitPaths
CHECK_DEADLOCK FALSE

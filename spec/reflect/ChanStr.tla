-------------------------------- MODULE ChanStr --------------------------------
(***************************************************************************)
(* C15: the string form of nested channel types.  Go spec, "Channel types":*)
(* "The <- operator associates with the leftmost chan possible":           *)
(*    chan<- chan int    is  chan<- (chan int)                             *)
(*    chan<- <-chan int  is  chan<- (<-chan int)                           *)
(*    <-chan <-chan int  is  <-chan (<-chan int)                           *)
(*    chan (<-chan int)  needs its parentheses: "chan <-chan int" would be *)
(*                       read as chan<- (chan int).                        *)
(* reflect.Type.String and fmt's %T print a type in this minimal form:     *)
(* the element is parenthesised exactly when the outer channel is          *)
(* bidirectional and the element is a receive-only channel.  A type is a   *)
(* sequence of 1..3 directions, outermost first, over the element int.     *)
(* TLC enumerates them and prints the spelling, token by token.            *)
(***************************************************************************)
EXTENDS Integers, Sequences, FiniteSets, TLC, Json

Dirs == {"both", "send", "recv"}
VARIABLE ty
Init == ty \in UNION {[1..n -> Dirs] : n \in 1..3}
Next == UNCHANGED ty
Spec == Init /\ [][Next]_ty

NeedsParens(s) == Len(s) >= 2 /\ s[1] = "both" /\ s[2] = "recv"
RECURSIVE Str(_)
Str(s) == IF s = <<>> THEN <<"int">>
          ELSE LET e == Str(Tail(s))
                   kw == CASE s[1] = "both" -> "chan" [] s[1] = "send" -> "chan<-" [] s[1] = "recv" -> "<-chan"
               IN IF NeedsParens(s) THEN <<kw, "(">> \o e \o <<")">> ELSE <<kw>> \o e

\* reading a spelling back by the leftmost-chan rule yields the type it was made from (law checked on every type):
\* tokens are consumed left to right; "chan" directly followed by "<-chan" cannot occur unparenthesised
RECURSIVE Read(_)
Read(toks) == IF toks = <<"int">> THEN <<>>
              ELSE IF toks[1] = "(" THEN Read(SubSeq(toks, 2, Len(toks) - 1))
              ELSE <<CASE toks[1] = "chan" -> "both" [] toks[1] = "chan<-" -> "send" [] toks[1] = "<-chan" -> "recv">> \o Read(Tail(toks))
RoundTrip == Read(Str(ty)) = ty
\* the one ambiguous juxtaposition never appears: "chan" immediately followed by "<-chan"
Unambiguous == LET t == Str(ty) IN \A i \in 1..(Len(t) - 1) : ~(t[i] = "chan" /\ t[i + 1] = "<-chan")

Class == IF \E i \in 1..(Len(ty) - 1) : ty[i] = "both" /\ ty[i + 1] = "recv" THEN "parenthesised"
         ELSE IF \E i \in 1..(Len(ty) - 1) : ty[i] # "both" /\ ty[i + 1] = "recv" THEN "directional-of-recv"
         ELSE IF Len(ty) > 1 THEN "nested-other" ELSE "flat"
Emit == PrintT(ToJson([dirs |-> ty, toks |-> Str(ty), class |-> Class]))
=============================================================================

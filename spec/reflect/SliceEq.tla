-------------------------------- MODULE SliceEq --------------------------------
(***************************************************************************)
(* C15: reflect.DeepEqual on slices that share (or do not share) backing   *)
(* arrays.  Documentation of DeepEqual: "Slice values are deeply equal     *)
(* when all of the following are true: they are both nil or both non-nil,  *)
(* they have the same length, and either they point to the same initial    *)
(* entry of the same underlying array (that is, &x[0] == &y[0]) or their   *)
(* corresponding elements (up to length) are deeply equal.  Note that a    *)
(* non-nil empty slice and a nil slice are not deeply equal."  Struct      *)
(* values are deeply equal if their fields are; interface values if they   *)
(* hold deeply equal concrete values; map values if they have the same     *)
(* keys and the keys map to deeply equal values.                           *)
(* A slice value is a window (array, offset, length) over one of three     *)
(* arrays of five ints - two with equal contents, one different -, or nil, *)
(* or the literal []int{}.  TLC enumerates every ordered pair of slice     *)
(* values and prints the verdict for the pair itself and for the pair      *)
(* wrapped one level deep in a struct field, a []any and a map value.      *)
(***************************************************************************)
EXTENDS Integers, Sequences, FiniteSets, TLC, Json

Arr == << <<1, 2, 1, 2, 1>>, <<1, 2, 1, 2, 1>>, <<1, 1, 1, 2, 2>> >>
NilS == [arr |-> 0, off |-> 0, len |-> 0, nil |-> TRUE]
EmptyS == [arr |-> 0, off |-> 0, len |-> 0, nil |-> FALSE]
Win == {[arr |-> a, off |-> o, len |-> l, nil |-> FALSE] : a \in 1..3, o \in 0..2, l \in 0..3} \cup {NilS, EmptyS}
Wraps == {"plain", "struct", "anys", "mapval"}

VARIABLES a, b
vars == <<a, b>>
Init == a \in Win /\ b \in Win
Next == UNCHANGED vars
Spec == Init /\ [][Next]_vars

Elems(w) == [i \in 1..w.len |-> Arr[w.arr][w.off + i]]
SameStart(x, y) == x.arr # 0 /\ x.arr = y.arr /\ x.off = y.off          \* &x[0] == &y[0]
DeepEq(x, y) == /\ x.nil = y.nil
                /\ x.len = y.len
                /\ (SameStart(x, y) \/ \A i \in 1..x.len : Elems(x)[i] = Elems(y)[i])
\* one level of wrapping: struct{ S []int }, []any{s}, map[string][]int{"k": s} - one field / element / key each
WrapEq(w, x, y) == DeepEq(x, y)

\* laws (checked by TLC on every pair): sharing memory never decides the answer - only nil-ness and contents do
AliasingIrrelevant == DeepEq(a, b) = (a.nil = b.nil /\ Elems(a) = Elems(b))
Reflexive == DeepEq(a, a)
Symmetric == DeepEq(a, b) = DeepEq(b, a)

Rel == IF a.arr = 0 \/ b.arr = 0 THEN "nil-or-literal"
       ELSE IF a.arr # b.arr THEN "separate-arrays"
       ELSE IF a.off # b.off THEN "shifted"
       ELSE IF a.len # b.len THEN "same-start-other-length"
       ELSE "identical"

Emit == PrintT(ToJson([a |-> a, b |-> b, rel |-> Rel, eq |-> [w \in Wraps |-> WrapEq(w, a, b)]]))
=============================================================================

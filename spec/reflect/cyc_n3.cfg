SPECIFICATION Spec
CONSTANTS
  N = 3
  Sel = 0
  Mod = 1
INVARIANTS
  Reflexive
  Symmetric
  Emit
CHECK_DEADLOCK FALSE

SPECIFICATION Spec
INVARIANTS NeedObserved
CHECK_DEADLOCK FALSE

SPECIFICATION Spec
CONSTANTS
 MaxDepth = 1
 M0 = 1
 M1 = 1
 M2 = 1
 M3 = 1
 Sel = 0
INVARIANTS Emit
CHECK_DEADLOCK FALSE

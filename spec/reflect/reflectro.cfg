SPECIFICATION Spec
INVARIANTS ClosedForm Promotion Monotone Emit
CHECK_DEADLOCK FALSE

\* tlc -simulate num=20 -depth 4 -seed <VERIF_SEED>: depth-3 terms (Sel = 1000002 mod 1000003 silences depth <= 2)
SPECIFICATION Spec
CONSTANTS
  MaxDepth = 3
  M0 = 1000003
  M1 = 1000003
  M2 = 1000003
  M3 = 40
  Sel = 1000002
INVARIANTS
  Emit
CHECK_DEADLOCK FALSE

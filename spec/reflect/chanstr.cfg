SPECIFICATION Spec
INVARIANTS RoundTrip Unambiguous Emit
CHECK_DEADLOCK FALSE

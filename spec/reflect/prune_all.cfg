\* expected to fail: reflect.Type.Method is not observed by checkReflect (layer B drift, report only)
SPECIFICATION Spec
INVARIANTS
  NeedAll
CHECK_DEADLOCK FALSE

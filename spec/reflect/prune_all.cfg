SPECIFICATION Spec
INVARIANTS NeedAll
CHECK_DEADLOCK FALSE

-------------------------------- MODULE ReflectModel --------------------------------
(***************************************************************************)
(* C15, layer A, part 2: what package reflect reports about a type term    *)
(* and about values of it (Go language specification: type identity,       *)
(* method sets, selectors and promotion; package reflect documentation:    *)
(* Kind, Name, PkgPath, String, Field, Elem, Key, Len, NumMethod, Method,  *)
(* DeepEqual).  All answers are TEXT built here, in the specification.     *)
(***************************************************************************)
EXTENDS TypeTerms

\* ------------------------------------------------------------------ small text helpers
RECURSIVE JoinFrom(_, _, _)
JoinFrom(s, sep, i) == IF i > Len(s) THEN "" ELSE IF i = Len(s) THEN s[i] ELSE s[i] \o sep \o JoinFrom(s, sep, i + 1)
Join(s, sep) == JoinFrom(s, sep, 1)
BoolStr(b) == IF b THEN "true" ELSE "false"

\* strconv.Quote of the struct tags of the universe
QuoteTag(tag) == IF tag = "" THEN "\"\"" ELSE IF tag = Tag2 THEN "\"t\"" ELSE "\"k:\\\"v\\\"\""

\* ------------------------------------------------------------------ type strings (reflect.Type.String)
\* The package-qualified form uses the package NAME (main.T).  Inside the brackets of a generic instance the
\* type arguments are written as the linker names them: declared types with the package PATH (for package
\* main again "main") and unexported struct field names qualified by the package (main.b); q = inside brackets.
RECURSIVE StrQ(_, _), StrList(_, _, _, _), FieldsStr(_, _, _), IMethodsStr(_, _)
ResultsStr(rs, q) == IF Len(rs) = 0 THEN "" ELSE IF Len(rs) = 1 THEN " " \o StrQ(rs[1], q) ELSE " (" \o StrList(rs, 1, FALSE, q) \o ")"
IMethodSig(m) == IF m \in {"String", "Error"} THEN "() string" ELSE "() int"
StrQ(t, q) ==
  CASE t.k = "basic"  -> t.n
    [] t.k = "error"  -> "error"
    [] t.k = "named"  -> "main." \o TName(t)
    [] t.k = "inst"   -> "main.G[" \o StrQ(t.a, TRUE) \o "]"
    [] t.k = "ptr"    -> "*" \o StrQ(t.e, q)
    [] t.k = "slice"  -> "[]" \o StrQ(t.e, q)
    [] t.k = "array"  -> "[" \o ToString(t.n) \o "]" \o StrQ(t.e, q)
    [] t.k = "map"    -> "map[" \o StrQ(t.key, q) \o "]" \o StrQ(t.e, q)
    [] t.k = "chan"   -> IF t.dir = "send" THEN "chan<- " \o StrQ(t.e, q)
                         ELSE IF t.dir = "recv" THEN "<-chan " \o StrQ(t.e, q)
                         ELSE IF t.e.k = "chan" /\ t.e.dir = "recv" THEN "chan (" \o StrQ(t.e, q) \o ")"
                         ELSE "chan " \o StrQ(t.e, q)
    [] t.k = "func"   -> "func(" \o StrList(t.ps, 1, t.v, q) \o ")" \o ResultsStr(t.rs, q)
    [] t.k = "struct" -> IF Len(t.fs) = 0 THEN "struct {}" ELSE "struct { " \o FieldsStr(t.fs, 1, q) \o " }"
    [] t.k = "iface"  -> IF Len(t.ms) = 0 THEN "interface {}" ELSE "interface { " \o IMethodsStr(t.ms, 1) \o " }"
Str(t) == StrQ(t, FALSE)
\* parameter list; the last parameter of a variadic function is written ...T
StrList(s, i, variadic, q) ==
  IF i > Len(s) THEN ""
  ELSE (IF variadic /\ i = Len(s) THEN "..." ELSE "") \o StrQ(s[i], q)
       \o (IF i < Len(s) THEN ", " \o StrList(s, i + 1, variadic, q) ELSE "")
FieldName(fs, i) ==
  LET f == fs[i]
      RECURSIVE EmbName(_)
      EmbName(t) == CASE t.k = "ptr" -> EmbName(t.e)
                      [] t.k = "named" -> TName(t)
                      [] t.k = "inst" -> "G"
                      [] t.k = "basic" -> t.n
                      [] t.k = "error" -> "error"
  IN IF f.emb THEN EmbName(f.t) ELSE IF f.x THEN UpNames[i] ELSE LowNames[i]
FieldExported(fs, i) ==
  LET f == fs[i]
      RECURSIVE EmbExp(_)
      EmbExp(t) == CASE t.k = "ptr" -> EmbExp(t.e)
                     [] t.k = "named" -> t.x
                     [] t.k = "inst" -> TRUE
                     [] OTHER -> FALSE
  IN IF f.emb THEN EmbExp(f.t) ELSE f.x
FieldsStr(fs, i, q) ==
  IF i > Len(fs) THEN ""
  ELSE (IF fs[i].emb THEN "" ELSE (IF q /\ ~fs[i].x THEN "main." ELSE "") \o FieldName(fs, i) \o " ") \o StrQ(fs[i].t, q)
       \o (IF fs[i].tag = "" THEN "" ELSE " " \o QuoteTag(fs[i].tag))
       \o (IF i < Len(fs) THEN "; " \o FieldsStr(fs, i + 1, q) ELSE "")
IMethodsStr(ms, i) ==
  IF i > Len(ms) THEN ""
  ELSE (IF ExportedM(ms[i]) THEN "" ELSE "main.") \o ms[i] \o IMethodSig(ms[i])
       \o (IF i < Len(ms) THEN "; " \o IMethodsStr(ms, i + 1) ELSE "")

Under(x) == IF x.k = "named" THEN x.u ELSE x
NameOf(t)    == CASE t.k = "basic" -> t.n [] t.k = "error" -> "error" [] t.k = "named" -> TName(t)
                  [] t.k = "inst" -> "G[" \o StrQ(t.a, TRUE) \o "]" [] OTHER -> ""
PkgPathOf(t) == IF IsDeclared(t) THEN "main" ELSE ""

\* ------------------------------------------------------------------ struct fields
RECURSIVE StructOf(_)
\* the struct type whose fields reflect enumerates for a term of kind struct
StructOf(t) == CASE t.k = "struct" -> t
                 [] t.k = "named" -> StructOf(t.u)
                 [] t.k = "inst" -> Struct(<<Fld(TRUE, t.a, "", FALSE)>>)
FieldNameOf(t, i) == IF t.k = "inst" THEN "V" ELSE FieldName(StructOf(t).fs, i)
FieldExpOf(t, i)  == IF t.k = "inst" THEN TRUE ELSE FieldExported(StructOf(t).fs, i)
\* Name "tag" Anonymous PkgPath Type [Index] IsExported
FieldLine(t, i) ==
  LET f == StructOf(t).fs[i] IN
  FieldNameOf(t, i) \o " " \o QuoteTag(f.tag) \o " " \o BoolStr(f.emb) \o " "
    \o (IF FieldExpOf(t, i) THEN "\"\"" ELSE "\"main\"") \o " " \o Str(f.t) \o " [" \o ToString(i - 1) \o "] "
    \o BoolStr(FieldExpOf(t, i))

\* ------------------------------------------------------------------ method sets (Go spec "Method sets", "Struct types")
SeqSet(s) == {s[i] : i \in 1..Len(s)}
RECURSIVE MSetV(_), MSetP(_), PromV(_), PromP(_)
\* method set of type t
MSetV(t) ==
  CASE t.k = "error" -> {"Error"}
    [] t.k = "iface" -> SeqSet(t.ms)
    [] t.k = "inst"  -> {"Gm"}
    [] t.k = "struct" -> PromV(t)
    [] t.k = "ptr"   -> MSetP(t.e)
    [] t.k = "named" -> IF KindOf(t) = "interface" THEN MSetV(t.u)
                        ELSE IF KindOf(t) = "ptr" THEN {}
                        ELSE SeqSet(MS[t.ms].v) \cup (IF t.u.k = "struct" THEN PromV(t.u) ELSE {})
    [] OTHER -> {}
\* method set of type *t
MSetP(t) ==
  CASE t.k = "inst"  -> {"Gm", "Gp"}
    [] t.k = "struct" -> PromP(t)
    [] t.k = "named" -> IF KindOf(t) \in {"interface", "ptr"} THEN {}
                        ELSE SeqSet(MS[t.ms].v) \cup SeqSet(MS[t.ms].p) \cup (IF t.u.k = "struct" THEN PromP(t.u) ELSE {})
    [] OTHER -> {}
\* promoted through embedded fields (the grammar embeds at most one field per struct: no ambiguous selectors)
PromV(s) == UNION {IF s.fs[i].emb THEN (IF s.fs[i].t.k = "ptr" THEN MSetP(s.fs[i].t.e) ELSE MSetV(s.fs[i].t)) ELSE {}
                    : i \in 1..Len(s.fs)}
PromP(s) == UNION {IF s.fs[i].emb THEN (IF s.fs[i].t.k = "ptr" THEN MSetP(s.fs[i].t.e) ELSE
                                        IF KindOf(s.fs[i].t) = "interface" THEN MSetV(s.fs[i].t) ELSE MSetP(s.fs[i].t)) ELSE {}
                    : i \in 1..Len(s.fs)}
AtMostOneEmbedded(s) == \A i, j \in 1..Len(s.fs) : s.fs[i].emb /\ s.fs[j].emb => i = j

\* reflect lists exported methods of a non-interface type, all methods of an interface type, sorted by name
Listed(t) == LET S == MSetV(t) IN
  SelectSeq(MOrder, LAMBDA m : m \in S /\ (ExportedM(m) \/ KindOf(t) = "interface"))
MethodResType(m) == IF m \in {"String", "Error"} THEN "string" ELSE "int"
\* Type.Method(i).Type: the receiver is the first parameter, except for interface types
MethodLine(t, m) == m \o ":func(" \o (IF KindOf(t) = "interface" THEN "" ELSE Str(t)) \o ") " \o MethodResType(m)
MethodsLine(t) == LET L == Listed(t) IN
  ToString(Len(L)) \o (IF Len(L) = 0 THEN "" ELSE " " \o Join([i \in 1..Len(L) |-> MethodLine(t, L[i])], " "))

\* ------------------------------------------------------------------ values
\* one record shape for every value: nil-ness, integer payload (ints, bools as 0/1, integral floats),
\* text payload (strings; "nan" for a float64 NaN), element values (pointer target, elements, struct fields,
\* map elements, dynamic value of an interface), key values (maps, in insertion order)
V(t, nil, i, s, es, ks) == [t |-> t, nil |-> nil, i |-> i, s |-> s, es |-> es, ks |-> ks]
Retype(v, t) == [v EXCEPT !.t = t]
IsNaN(v) == KindOf(v.t) = "float64" /\ v.s = "nan"
IntKind(kd) == IsIntName(kd)

RECURSIVE Zero(_), Rich(_, _)
Zero(t) ==
  CASE t.k = "named"  -> Retype(Zero(t.u), t)
    [] t.k = "inst"   -> V(t, FALSE, 0, "", <<Zero(t.a)>>, <<>>)
    [] t.k = "array"  -> V(t, FALSE, 0, "", [i \in 1..t.n |-> Zero(t.e)], <<>>)
    [] t.k = "struct" -> V(t, FALSE, 0, "", [i \in 1..Len(t.fs) |-> Zero(t.fs[i].t)], <<>>)
    [] t.k = "basic"  -> V(t, FALSE, 0, "", <<>>, <<>>)
    [] OTHER          -> V(t, TRUE, 0, "", <<>>, <<>>)     \* ptr slice map chan func iface error

\* keys that the value generator puts into maps: integer, bool and string kinds (declared or not)
KeyOK(t) == KindOf(t) \in {"bool", "string"} \/ IntKind(KindOf(t))
DynFor(t, s) ==     \* a dynamic value for a non-nil interface of type t
  IF KindOf(t) = "interface" /\ "Error" \in MSetV(t) THEN Rich(ER, s)
  ELSE IF "m0" \in MSetV(t) \/ "String" \in MSetV(t) THEN Rich(ALL, s)
  ELSE IF "M1" \in MSetV(t) THEN Rich(EB, s)
  ELSE IF s = 1 THEN Rich(VI, 1) ELSE Rich(IntT, 2)
\* s = 1, 2: two different values; s = 3: as 1 with every float64 being NaN
Rich(t, s) ==
  LET kd == KindOf(t) IN
  CASE t.k = "named"  -> Retype(Rich(t.u, s), t)
    [] t.k = "inst"   -> V(t, FALSE, 0, "", <<Rich(t.a, s)>>, <<>>)
    [] t.k = "basic" /\ kd = "bool"    -> V(t, FALSE, IF s = 2 THEN 0 ELSE 1, "", <<>>, <<>>)
    [] t.k = "basic" /\ kd = "string"  -> V(t, FALSE, 0, IF s = 2 THEN "a" ELSE "hi", <<>>, <<>>)
    [] t.k = "basic" /\ kd = "float64" -> V(t, FALSE, IF s = 2 THEN -2 ELSE 3, IF s = 3 THEN "nan" ELSE "", <<>>, <<>>)
    [] t.k = "basic" /\ kd = "uint8"   -> V(t, FALSE, IF s = 2 THEN 105 ELSE 104, "", <<>>, <<>>)
    [] t.k = "basic" /\ IsUnsignedName(kd) -> V(t, FALSE, IF s = 2 THEN 5 ELSE 200, "", <<>>, <<>>)
    [] t.k = "basic" /\ IsSignedName(kd)   -> V(t, FALSE, IF s = 2 THEN 7 ELSE -3, "", <<>>, <<>>)
    [] t.k = "ptr"    -> V(t, FALSE, 0, "", <<Rich(t.e, s)>>, <<>>)
    [] t.k = "slice"  -> V(t, FALSE, 0, "", <<Rich(t.e, s), Rich(t.e, 2)>>, <<>>)
    [] t.k = "array"  -> V(t, FALSE, 0, "", [i \in 1..t.n |-> Rich(t.e, IF i = 1 THEN s ELSE 2)], <<>>)
    [] t.k = "map"    -> IF KeyOK(t.key)
                           THEN V(t, FALSE, 0, "", <<Rich(t.e, s), Rich(t.e, 2)>>, <<Rich(t.key, 2), Rich(t.key, 1)>>)
                           ELSE V(t, FALSE, 0, "", <<>>, <<>>)
    [] t.k = "struct" -> V(t, FALSE, 0, "", [i \in 1..Len(t.fs) |-> Rich(t.fs[i].t, s)], <<>>)
    [] t.k \in {"iface", "error"} -> V(t, FALSE, 0, "", <<DynFor(t, s)>>, <<>>)
    [] OTHER -> Zero(t)                                   \* chan, func: nil only
EmptyOf(t) == V(t, FALSE, 0, "", <<>>, <<>>)              \* non-nil empty slice / map

\* ------------------------------------------------------------------ calling methods found by reflection
\* Every declared method reads its receiver: the harness derives an int from it ("probe") and
\*   String/Error return  <TypeName>.<Method>:<probe>,  M1 100+probe,  P1 200+probe,  m0 300+probe;
\*   G's methods do not read their receiver: Gm returns 9 and Gp 10 (Gp also on a nil *G[T]).
Probe(r) ==
  LET kd == KindOf(r.t) IN
  IF IntKind(kd) THEN r.i
  ELSE IF kd = "string" THEN Len(r.s)
  ELSE IF kd \in {"slice", "map"} THEN Len(r.es)
  ELSE IF kd = "struct" /\ r.t.k # "inst" /\ Len(r.es) > 0 /\ ~StructOf(r.t).fs[1].emb /\ IntKind(KindOf(StructOf(r.t).fs[1].t))
       THEN r.es[1].i
  ELSE 0
OwnResult(owner, m, r) ==
  CASE m \in {"String", "Error"} -> TName(owner) \o "." \o m \o ":" \o ToString(Probe(r))
    [] m = "M1" -> ToString(100 + Probe(r))
    [] m = "P1" -> ToString(200 + Probe(r))
    [] m = "m0" -> ToString(300 + Probe(r))
Panics == "PANIC"
\* Whether dereferencing a nil pointer to a type of size zero panics is the subject of another property (mandated
\* run-time panics), not of this one: such calls are left out of the modelled fragment.
Unmodelled == "UNMODELLED"

\* result (as text) of calling method m on value v, selected as the Go specification resolves x.m:
\* the shallowest declaration wins, pointers are dereferenced on the way (a nil pointer there panics)
RECURSIVE CallOn(_, _, _)
CallOn(v, m, viaPtr) ==
  LET t == v.t IN
  CASE KindOf(t) = "interface" -> IF v.nil THEN Panics ELSE CallOn(v.es[1], m, FALSE)
    [] t.k = "ptr" -> IF v.nil THEN (IF t.e.k = "inst" /\ m = "Gp" THEN "10" ELSE IF ZeroSize(t.e) THEN Unmodelled ELSE Panics)
                      ELSE CallOn(v.es[1], m, TRUE)
    [] t.k = "inst" -> IF m = "Gm" THEN "9" ELSE "10"
    [] OTHER ->
        IF t.k = "named" /\ (m \in SeqSet(MS[t.ms].v) \/ (viaPtr /\ m \in SeqSet(MS[t.ms].p)))
        THEN OwnResult(t, m, v)
        ELSE LET s == StructOf(t)
                 i == CHOOSE j \in 1..Len(s.fs) : s.fs[j].emb /\
                         m \in (IF s.fs[j].t.k = "ptr" THEN MSetP(s.fs[j].t.e)
                                ELSE IF viaPtr /\ KindOf(s.fs[j].t) # "interface" THEN MSetP(s.fs[j].t) ELSE MSetV(s.fs[j].t))
             IN CallOn(v.es[i], m, viaPtr)
CallResult(v, m) == CallOn(v, m, FALSE)

\* ------------------------------------------------------------------ reflect.DeepEqual
TypeEq(a, b) == a = b          \* identical types are equal terms (declared names are functions of structure)
RECURSIVE DeepEq(_, _), AllEq(_, _, _), MapEq(_, _, _)
\* a and b are distinct objects (no shared pointers, slices or maps)
DeepEq(a, b) ==
  IF ~TypeEq(a.t, b.t) THEN FALSE
  ELSE LET kd == KindOf(a.t) IN
    CASE kd = "float64" -> ~IsNaN(a) /\ ~IsNaN(b) /\ a.i = b.i
      [] kd = "string"  -> a.s = b.s
      [] kd = "bool" \/ IntKind(kd) -> a.i = b.i
      [] kd = "func"    -> a.nil /\ b.nil
      [] kd = "chan"    -> a.nil /\ b.nil                       \* distinct channels are unequal
      [] kd \in {"ptr", "interface"} -> IF a.nil \/ b.nil THEN a.nil = b.nil ELSE DeepEq(a.es[1], b.es[1])
      [] kd = "slice"   -> a.nil = b.nil /\ Len(a.es) = Len(b.es) /\ AllEq(a.es, b.es, 1)
      [] kd \in {"array", "struct"} -> AllEq(a.es, b.es, 1)
      [] kd = "map"     -> a.nil = b.nil /\ Len(a.ks) = Len(b.ks) /\ MapEq(a, b, 1)
AllEq(x, y, i) == IF i > Len(x) THEN TRUE ELSE DeepEq(x[i], y[i]) /\ AllEq(x, y, i + 1)
\* every key of a is a key of b (Go's ==, which for the generated key kinds is payload equality) with deeply equal elements
MapEq(a, b, i) ==
  IF i > Len(a.ks) THEN TRUE
  ELSE (\E j \in 1..Len(b.ks) : b.ks[j].i = a.ks[i].i /\ b.ks[j].s = a.ks[i].s /\ DeepEq(a.es[i], b.es[j])) /\ MapEq(a, b, i + 1)

\* DeepEqual(x, x) for one variable x: pointers, slices and maps are equal to themselves whatever they hold
RECURSIVE SelfEq(_)
SelfEq(a) ==
  LET kd == KindOf(a.t) IN
  CASE kd = "float64" -> ~IsNaN(a)
    [] kd = "func" -> a.nil
    [] kd = "interface" -> a.nil \/ SelfEq(a.es[1])
    [] kd \in {"array", "struct"} -> \A i \in 1..Len(a.es) : SelfEq(a.es[i])
    [] OTHER -> TRUE
=============================================================================

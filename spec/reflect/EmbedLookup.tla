-------------------------------- MODULE EmbedLookup --------------------------------
(***************************************************************************)
(* C15: reflect.Type.FieldByName / Value.FieldByName through embedded      *)
(* structs.  Five struct types T1..T5; Ti embeds at most two of the types  *)
(* below it (by value, fields in ascending order of the embedded type's    *)
(* number) and T1, T2, T3 may declare a field X of their own (last field). *)
(* Go's selector rule, which reflect follows: the field X found at the     *)
(* shallowest depth wins; the depth of a field is the number of embedded   *)
(* fields traversed to reach it; if more than one X is found at the        *)
(* shallowest depth - along different paths, even when the paths end in    *)
(* the same type - the name is ambiguous and the lookup reports "not       *)
(* found".  TLC enumerates every graph in which all five types are         *)
(* reachable from T5 and prints, for a lookup starting at each type, found *)
(* or not and the index path reflect.StructField.Index must hold.          *)
(***************************************************************************)
EXTENDS Integers, Sequences, FiniteSets, TLC, Json

N == 5
Ty == 1..N
Sub2(S) == {s \in SUBSET S : Cardinality(s) <= 2}

VARIABLES emb, own
vars == <<emb, own>>

RECURSIVE Reach(_, _)
Reach(frontier, seen) ==
  LET new == (UNION {emb[i] : i \in frontier}) \ seen
  IN IF new = {} THEN seen ELSE Reach(new, seen \cup new)
AllReachable == Reach({N}, {N}) = Ty

Init == /\ emb \in {e \in [Ty -> SUBSET Ty] : \A i \in Ty : e[i] \in Sub2(1..(i - 1))}
        /\ own \in {o \in [Ty -> BOOLEAN] : \A i \in Ty : o[i] => i <= 3}
        /\ AllReachable
Next == UNCHANGED vars
Spec == Init /\ [][Next]_vars

\* fields of Ti in declaration order: the embedded types ascending, then X
SortedEmb(i) == LET S == emb[i] IN
  IF S = {} THEN <<>>
  ELSE LET a == CHOOSE x \in S : \A y \in S : x <= y IN
       IF S = {a} THEN <<a>> ELSE <<a, CHOOSE x \in S \ {a} : TRUE>>
XIndex(i) == Cardinality(emb[i])          \* zero-based index of the own field X in Ti

\* all paths of exactly d embedded steps from type i: sequences of [ty, idx] ; a path is <<type reached, index sequence>>
RECURSIVE PathsAt(_, _)
PathsAt(i, d) ==
  IF d = 0 THEN {<<i, <<>>>>}
  ELSE UNION { { <<SortedEmb(p[1])[k], Append(p[2], k - 1)>> : k \in 1..Len(SortedEmb(p[1])) } : p \in PathsAt(i, d - 1) }

\* candidates at depth d: index paths of the fields X found there (one per PATH, not per type)
Cands(i, d) == { Append(p[2], XIndex(p[1])) : p \in {q \in PathsAt(i, d) : own[q[1]]} }

RECURSIVE Lookup(_, _)
Lookup(i, d) ==
  IF d > N THEN [found |-> FALSE, index |-> <<>>, why |-> "absent"]
  ELSE LET c == Cands(i, d) IN
       IF c = {} THEN Lookup(i, d + 1)
       ELSE IF Cardinality(c) = 1 THEN [found |-> TRUE, index |-> CHOOSE x \in c : TRUE, why |-> "unique"]
       ELSE [found |-> FALSE, index |-> <<>>, why |-> "ambiguous"]

\* laws of the definition itself
OwnWins == \A i \in Ty : own[i] => Lookup(i, 0).found /\ Lookup(i, 0).index = <<XIndex(i)>>
NoXNoField == (\A i \in Ty : ~own[i]) => \A i \in Ty : ~Lookup(i, 0).found

Emit == PrintT(ToJson([emb |-> [i \in Ty |-> SortedEmb(i)], own |-> own,
                       look |-> [i \in Ty |-> Lookup(i, 0)]]))
=============================================================================

\* the seed-independent representative terms
SPECIFICATION SpecFixed
CONSTANTS
  MaxDepth = 0
  M0 = 1
  M1 = 1
  M2 = 1
  M3 = 1
  Sel = 0
INVARIANTS
  EmitFixed
CHECK_DEADLOCK FALSE

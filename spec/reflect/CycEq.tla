-------------------------------- MODULE CycEq --------------------------------
(***************************************************************************)
(* C15: reflect.DeepEqual on pointer structures with sharing and cycles.   *)
(*   type Cy struct { V int; Next *Cy }                                    *)
(* A heap has N nodes; node i holds vals[i] and points to node nx[i]       *)
(* (0 = nil).  DeepEqual(&node a, &node b) is, by the documentation of     *)
(* DeepEqual ("pointer values are deeply equal if they are equal using ==  *)
(* or if they point to deeply equal values ... as DeepEqual traverses the  *)
(* data values it may find a cycle. The second and subsequent times that   *)
(* DeepEqual compares two pointer values that have been compared before,   *)
(* it treats the values as equal"), the walk below.  TLC enumerates every  *)
(* heap (built node by node) and prints the answer for every pair of roots.*)
(***************************************************************************)
EXTENDS Integers, Sequences, FiniteSets, TLC, Json
CONSTANTS N, Sel, Mod

VARIABLES vals, nx, k, h
vars == <<vals, nx, k, h>>
Init == vals = <<>> /\ nx = <<>> /\ k = 0 /\ h = 0
Next == /\ k < N
        /\ \E v \in 1..2, n \in 0..N :
              /\ vals' = Append(vals, v) /\ nx' = Append(nx, n)
              /\ h' = (h * 31 + v * 7 + n) % 1000003
        /\ k' = k + 1
Spec == Init /\ [][Next]_vars

RECURSIVE Walk(_, _, _)
Walk(a, b, seen) ==
  IF a = 0 \/ b = 0 THEN a = b
  ELSE IF a = b THEN TRUE
  ELSE IF {a, b} \in seen THEN TRUE
  ELSE vals[a] = vals[b] /\ Walk(nx[a], nx[b], seen \cup {{a, b}})

\* algebra of the answer (checked on every heap): reflexive, symmetric
Reflexive == k = N => \A a \in 1..N : Walk(a, a, {})
Symmetric == k = N => \A a, b \in 1..N : Walk(a, b, {}) = Walk(b, a, {})

B(x) == IF x THEN "true" ELSE "false"
Emit == (k = N /\ (h % Mod) = (Sel % Mod)) =>
  PrintT(ToJson([vals |-> vals, nx |-> nx, res |-> [a \in 1..N |-> [b \in 1..N |-> B(Walk(a, b, {}))]]]))
=============================================================================

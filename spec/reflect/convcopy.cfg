SPECIFICATION Spec
CONSTANTS MaxLen = 5
INVARIANTS Snapshot Emit
CHECK_DEADLOCK FALSE

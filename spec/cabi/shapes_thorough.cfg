SPECIFICATION Spec
CONSTANTS MaxFields = 4  MaxCFields = 3  NestMax = 3  MaxBytes = 80  Wide = FALSE  Sel = 0  Mod = 1  NWalk = 0  Seed = 0
INVARIANTS Sane ClassSane Emit
CHECK_DEADLOCK FALSE

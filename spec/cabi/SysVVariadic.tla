---------------------------- MODULE SysVVariadic ----------------------------
(* Calls of a variadic C function   int64_t f([PREFIX s,] int32_t n, ...)   with 0..MaxVar variadic arguments.
   psABI 3.2.3 / 3.5.7: the caller passes EVERY argument of a variadic call - named or not - exactly as it would
   pass a named parameter of the same (promoted) type; %al bounds the number of vector registers used.  The callee's
   va_start notes how many INTEGER / SSE registers and how many stack bytes the NAMED parameters consumed
   (gp_offset, fp_offset, overflow_arg_area); va_arg(ap, T) takes the next INTEGER register (T integral or a
   pointer) or SSE register (T = double) while one is left, else the next eightbyte of the overflow area.

   prefix : the by-value aggregate in front of n, one of the shape classes of SysVAbi
            none | small (<= 8 bytes) | mid (9..16 bytes) | big (> 16 bytes, MEMORY)
   kinds  : the types of the variadic arguments in order: "i64" | "f64" (float arguments are promoted to double,
            so this is the only floating kind a callee can see) | "ptr"
   Law (InOrder): the i-th va_arg of the callee yields the i-th variadic argument the caller supplied, and the named
   parameters are found where a non-variadic callee would look for them (NamedSame).  Received is what the driver
   compares the real program with. *)
EXTENDS SysVAbi, Json

CONSTANTS MaxVar

VARIABLES prefix, kinds
vars == << prefix, kinds >>

F(t) == [t |-> t, n |-> 0, fs |-> << >>]
PrefixShapes == { << >>,
              << F("i32"), F("i32") >>,                  \* small, INTEGER
              << F("f32"), F("f32") >>,                  \* small, SSE
              << F("i64"), F("f64") >>,                  \* mid, INTEGER SSE
              << F("f64"), F("f64") >>,                  \* mid, SSE SSE
              << F("i64"), F("i64"), F("i64") >> }       \* big, MEMORY
VarKinds == { "i64", "f64", "ptr" }

ClassOf(P) == IF P = << >> THEN "none" ELSE IF SizeOf(P) <= 8 THEN "small" ELSE IF SizeOf(P) <= 16 THEN "mid" ELSE "big"

Init == prefix \in PrefixShapes /\ kinds = << >>
Next == /\ Len(kinds) < MaxVar
        /\ \E k \in VarKinds : kinds' = Append(kinds, k)
        /\ UNCHANGED prefix
Spec == Init /\ [][Next]_vars

IntArg == [cv |-> << "INTEGER" >>, size |-> 8]
SseArg == [cv |-> << "SSE" >>, size |-> 8]
VarArg(k) == IF k = "f64" THEN SseArg ELSE IntArg
Named == (IF prefix = << >> THEN << >> ELSE << [cv |-> Classify(prefix), size |-> SizeOf(prefix)] >>) \o << IntArg >>
All == Named \o [i \in 1..Len(kinds) |-> VarArg(kinds[i])]
Ret == IntArg                                   \* an int64 result: no hidden pointer

(* ---- the caller *)
CallerLocs == Assign(All, Ret)
IsReg(l) == l \in Range(IntRegs) \cup Range(SseRegs)
Al == Cardinality({ i \in 1..Len(FlattenSeq(CallerLocs)) : FlattenSeq(CallerLocs)[i] \in Range(SseRegs) })

(* ---- the callee: va_start, then one va_arg per kind *)
NamedLocs == Assign(Named, Ret)
GpUsed == Cardinality({ i \in 1..Len(FlattenSeq(NamedLocs)) : FlattenSeq(NamedLocs)[i] \in Range(IntRegs) })
FpUsed == Cardinality({ i \in 1..Len(FlattenSeq(NamedLocs)) : FlattenSeq(NamedLocs)[i] \in Range(SseRegs) })
RECURSIVE NamedStack(_)
NamedStack(i) == IF i > Len(Named) THEN 0
                 ELSE (IF IsReg(NamedLocs[i][1]) THEN 0 ELSE AlignUp(Named[i].size, 8)) + NamedStack(i + 1)
RECURSIVE VaWalk(_, _, _, _)
VaWalk(i, gp, fp, ov) ==
    IF i > Len(kinds) THEN << >>
    ELSE IF kinds[i] = "f64"
         THEN IF fp < 8 THEN << SseRegs[fp + 1] >> \o VaWalk(i + 1, gp, fp + 1, ov)
              ELSE << "stack+" \o ToString(ov) >> \o VaWalk(i + 1, gp, fp, ov + 8)
         ELSE IF gp < 6 THEN << IntRegs[gp + 1] >> \o VaWalk(i + 1, gp + 1, fp, ov)
              ELSE << "stack+" \o ToString(ov) >> \o VaWalk(i + 1, gp, fp, ov + 8)
CalleeReads == VaWalk(1, GpUsed, FpUsed, NamedStack(1))

(* which supplied variadic argument the i-th va_arg yields (0: none of them - the callee reads something else) *)
Received == [i \in 1..Len(kinds) |->
               LET hit == { j \in 1..Len(kinds) : CallerLocs[Len(Named) + j] = << CalleeReads[i] >> } IN
               IF hit = {} THEN 0 ELSE CHOOSE j \in hit : TRUE]

InOrder == \A i \in 1..Len(kinds) : Received[i] = i
NamedSame == SubSeq(CallerLocs, 1, Len(Named)) = NamedLocs
ClassSane == /\ (prefix # << >> => LayoutSane(prefix))
             /\ (ClassOf(prefix) = "big") = (prefix # << >> /\ Classify(prefix) = << "MEMORY" >>)

Emit == PrintT(ToJson([ class |-> ClassOf(prefix), kinds |-> kinds, received |-> Received,
                        locs |-> CallerLocs, reads |-> CalleeReads, al |-> Al,
                        prefix |-> [ shape |-> prefix, size |-> SizeOf(prefix), align |-> AlignOf(prefix),
                                     flat |-> Flat(prefix), bytes |-> ByteMap(prefix), cv |-> Classify(prefix),
                                     offs |-> FieldOffs(prefix) ] ]))
=============================================================================

---------------------------- MODULE CBuf ----------------------------
(* cgo byte buffers: a Go value and a C buffer made from each other are COPIES (cmd/cgo documentation:
   "C.CString / C.CBytes: Go string / []byte to C ...; the C string / array is allocated in the C heap using malloc",
   "C.GoString, C.GoStringN, C.GoBytes: C data ... to Go string / []byte" - all of them copy the data).

   A little machine over two stores:
       src   the Go []byte the script starts from (Go may keep writing to it)
       buf   the C buffer (made by ToC; C may keep writing to it)
       back  the Go value made from the C buffer (by ToGo; Go may write to it when it is a []byte)
   Actions
       ToC   CString: buf := src followed by one NUL        CBytes: buf := src (an empty src gives a valid, empty buffer)
       MutC  C overwrites one byte of the buffer's payload (possibly with NUL, possibly a NUL with something else)
       MutGsrc   Go overwrites a byte of src after the conversion (only when src is still a []byte: CBytes)
       ToGo  GoString: back := the bytes before the first NUL (defined only when the buffer holds a NUL)
             GoStringN n / GoBytes n: back := the first n bytes, NULs included (n = 0: the empty value)
       MutGback  Go overwrites a byte of back (only a []byte can be written to)
   Laws (action properties, checked by TLC on every step):
       SnapToGo   once back exists, no change of buf changes it      (a converted value is a snapshot)
       SnapToC    no change of src or of back changes buf
       Conv       the value a conversion yields depends only on its operand at that moment
   Every reachable state is one script (the script is part of the state); Emit prints the script together with the
   final contents of src, buf and back - the prescribed observations.  Bytes are tokens; the harness maps them. *)
EXTENDS Integers, Sequences, FiniteSets, TLC, Json

CONSTANTS Tokens,     \* byte tokens of the initial Go value; 0 is NUL
          MaxLen,     \* its maximal length
          MaxSteps,   \* maximal number of actions of a script (the conversion to C included)
          CPoke,      \* tokens C writes: 0 (cuts a string short) and one non-NUL token not in Tokens
          GPoke,      \* the token Go writes, not in Tokens
          NSet        \* "all": GoStringN / GoBytes with every n in 0..Len(src);  "ends": n in {0, Len(src)}

VARIABLES s0, src, how, buf, back, script
vars == << s0, src, how, buf, back, script >>

NoBack == [kind |-> "none", v |-> << >>]
Op(o, i, v) == [op |-> o, i |-> i, v |-> v]

HasNul(x) == \E i \in 1..Len(x) : x[i] = 0
UpToNul(x) == SubSeq(x, 1, (CHOOSE i \in 1..Len(x) : x[i] = 0 /\ \A j \in 1..(i - 1) : x[j] # 0) - 1)
ToCBuf(k, x) == IF k = "CString" THEN x \o << 0 >> ELSE x
ToGoVal(k, b, n) == IF k = "GoString" THEN [kind |-> "string", v |-> UpToNul(b)]
                    ELSE IF k = "GoStringN" THEN [kind |-> "string", v |-> SubSeq(b, 1, n)]
                    ELSE [kind |-> "bytes", v |-> SubSeq(b, 1, n)]

Init == /\ s0 \in UNION { [1..n -> Tokens] : n \in 0..MaxLen }
        /\ src = s0 /\ how = "" /\ buf = << >> /\ back = NoBack /\ script = << >>

ToC == /\ how = ""
       /\ \E k \in { "CString", "CBytes" } :
            /\ how' = k /\ buf' = ToCBuf(k, src) /\ script' = Append(script, Op(k, 0, 0))
       /\ UNCHANGED << s0, src, back >>

Ends(n) == { 1, n } \cap (1..n)
MutC == /\ how # ""
        /\ \E i \in Ends(Len(src)), v \in CPoke :
             /\ buf[i] # v
             /\ buf' = [buf EXCEPT ![i] = v] /\ script' = Append(script, Op("MutC", i, v))
        /\ UNCHANGED << s0, src, how, back >>

MutGsrc == /\ how = "CBytes" /\ Len(src) >= 1 /\ src[1] # GPoke
           /\ src' = [src EXCEPT ![1] = GPoke] /\ script' = Append(script, Op("MutGsrc", 1, GPoke))
           /\ UNCHANGED << s0, how, buf, back >>

Ns == IF NSet = "all" THEN 0..Len(src) ELSE { 0, Len(src) }
ToGo == /\ how # "" /\ back = NoBack
        /\ \/ /\ HasNul(buf)
              /\ back' = ToGoVal("GoString", buf, 0) /\ script' = Append(script, Op("GoString", 0, 0))
           \/ \E k \in { "GoStringN", "GoBytes" }, n \in Ns :
                back' = ToGoVal(k, buf, n) /\ script' = Append(script, Op(k, n, 0))
        /\ UNCHANGED << s0, src, how, buf >>

MutGback == /\ back.kind = "bytes" /\ Len(back.v) >= 1 /\ back.v[1] # GPoke
            /\ back' = [back EXCEPT !.v = [back.v EXCEPT ![1] = GPoke]]
            /\ script' = Append(script, Op("MutGback", 1, GPoke))
            /\ UNCHANGED << s0, src, how, buf >>

Next == Len(script) < MaxSteps /\ (ToC \/ MutC \/ MutGsrc \/ ToGo \/ MutGback)
Spec == Init /\ [][Next]_vars

(* ---- the laws *)
SnapToGo == [][(back # NoBack /\ buf' # buf) => back' = back]_vars
SnapToC  == [][(how # "" /\ (src' # src \/ back' # back)) => buf' = buf]_vars
Conv     == [][/\ (how = "" /\ how' # "") => buf' = ToCBuf(how', src)
               /\ (back = NoBack /\ back' # NoBack) =>
                     LET o == script'[Len(script')] IN back' = ToGoVal(o.op, buf, o.i)]_vars
TypeOK == /\ Len(src) = Len(s0)
          /\ how # "" => Len(buf) = Len(src) + (IF how = "CString" THEN 1 ELSE 0)
          /\ how = "CString" => buf[Len(buf)] = 0          \* the terminator is never touched
          /\ back.kind = "string" => GPoke \notin { back.v[i] : i \in 1..Len(back.v) }

Emit == how # "" => PrintT(ToJson([ s |-> s0, script |-> script, src |-> src, buf |-> buf,
                                    kind |-> back.kind, back |-> back.v ]))
=============================================================================

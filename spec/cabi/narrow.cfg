SPECIFICATION Spec
CONSTANTS RegBits = 24
INVARIANTS ShapeSane InRange Distinguishing Extended Emit
CHECK_DEADLOCK FALSE

SPECIFICATION Spec
CONSTANTS Tokens = {0, 1, 2, 3}  MaxLen = 4
INVARIANTS RoundTrip Emit
CHECK_DEADLOCK FALSE

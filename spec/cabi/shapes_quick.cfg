SPECIFICATION Spec
CONSTANTS MaxFields = 4  MaxCFields = 2  NestMax = 3  MaxBytes = 80  Wide = FALSE  NWalk = 0  Seed = 0  Sel = 0  Mod = 1
INVARIANTS Sane ClassSane Emit
CHECK_DEADLOCK FALSE

---------------------------- MODULE SysVAbi ----------------------------
(* Layer A for C09: the System V x86-64 parameter-passing rules for C-compatible aggregates,
   transcribed from the psABI (section 3.2.3 "Parameter Passing"), NOT from llgo's internal/cabi.

   A struct shape is a sequence of fields.  A field is a record [t, n, fs]:
       n = 0, fs = <<>>      a scalar of type t
       n >= 1, fs = <<>>     an array [n]t
       n = 0, fs # <<>>      a nested struct whose members are the scalars fs       (t = "-")
       n >= 1, fs # <<>>     an array [n] of that nested struct                     (t = "-")
   Scalars have natural alignment (size = alignment); C lays members out in order, each at the next
   multiple of its alignment; the size of a struct is rounded up to its alignment.

   Classification (psABI): an aggregate larger than two eightbytes is MEMORY; otherwise each eightbyte
   is classified separately: INTEGER if any scalar in it is integral/pointer, SSE if all are float/double.
   Argument passing: arguments are assigned left to right; an aggregate goes to registers only if ALL its
   eightbytes get one (6 INTEGER: rdi rsi rdx rcx r8 r9; 8 SSE: xmm0-7), else the whole aggregate goes to
   the stack and the registers stay available for later arguments.  A MEMORY result is written through a
   hidden pointer that takes the first INTEGER register. *)
EXTENDS Integers, Sequences, FiniteSets, SequencesExt, TLC

Scalars  == {"i8", "i16", "i32", "i64", "f32", "f64", "ptr"}
IsFloat(t) == t \in {"f32", "f64"}
SSize(t) == CASE t = "i8" -> 1 [] t = "i16" -> 2 [] t \in {"i32", "f32"} -> 4 [] OTHER -> 8

AlignUp(x, a) == ((x + a - 1) \div a) * a
Max2(a, b) == IF a > b THEN a ELSE b
MaxOf(s) == LET RECURSIVE M(_)
                M(i) == IF i = 0 THEN 1 ELSE Max2(s[i], M(i - 1))
            IN M(Len(s))

(* offsets of members with the given sizes and alignments, in declaration order *)
OffsetsOf(sz, al) ==
    LET RECURSIVE O(_)
        O(i) == IF i = 1 THEN 0 ELSE AlignUp(O(i - 1) + sz[i - 1], al[i])
    IN [i \in 1..Len(sz) |-> O(i)]
TotalSize(sz, al) ==
    IF Len(sz) = 0 THEN 0
    ELSE LET o == OffsetsOf(sz, al) IN AlignUp(o[Len(sz)] + sz[Len(sz)], MaxOf(al))

(* ---- nested struct of scalars *)
InnerSizes(ss) == [i \in 1..Len(ss) |-> SSize(ss[i])]
InnerSize(ss)  == TotalSize(InnerSizes(ss), InnerSizes(ss))
InnerAlign(ss) == MaxOf(InnerSizes(ss))
InnerOffs(ss)  == OffsetsOf(InnerSizes(ss), InnerSizes(ss))

(* ---- a field *)
ElemSize(f)  == IF f.fs = <<>> THEN SSize(f.t) ELSE InnerSize(f.fs)
ElemAlign(f) == IF f.fs = <<>> THEN SSize(f.t) ELSE InnerAlign(f.fs)
Cnt(f)       == IF f.n = 0 THEN 1 ELSE f.n
FSize(f)     == Cnt(f) * ElemSize(f)

FlatElem(f, b) == IF f.fs = <<>> THEN << [off |-> b, t |-> f.t] >>
                  ELSE LET o == InnerOffs(f.fs) IN [i \in 1..Len(f.fs) |-> [off |-> b + o[i], t |-> f.fs[i]]]
FlatField(f, b) == FlattenSeq([j \in 1..Cnt(f) |-> FlatElem(f, b + (j - 1) * ElemSize(f))])

(* ---- a struct shape *)
Sizes(S)   == [i \in 1..Len(S) |-> FSize(S[i])]
Aligns(S)  == [i \in 1..Len(S) |-> ElemAlign(S[i])]
FieldOffs(S) == OffsetsOf(Sizes(S), Aligns(S))
SizeOf(S)  == TotalSize(Sizes(S), Aligns(S))
AlignOf(S) == MaxOf(Aligns(S))
(* the scalar leaves of S as (offset, type) pairs, in declaration order *)
Flat(S)    == LET o == FieldOffs(S) IN FlattenSeq([i \in 1..Len(S) |-> FlatField(S[i], o[i])])

(* byte map: what occupies byte k of the object: "i" integral, "f" floating, "-" padding *)
ByteMap(S) == LET fl == Flat(S) IN
    [k \in 1..SizeOf(S) |->
        LET hit == {i \in 1..Len(fl) : fl[i].off <= k - 1 /\ k - 1 < fl[i].off + SSize(fl[i].t)} IN
        IF hit = {} THEN "-" ELSE IF IsFloat(fl[CHOOSE i \in hit : TRUE].t) THEN "f" ELSE "i"]

(* ---- classification *)
NEightbytes(S) == (SizeOf(S) + 7) \div 8
EightbyteClass(S, k) ==      \* k = 0, 1, ...
    LET fl == Flat(S)
        inside == {i \in 1..Len(fl) : fl[i].off \div 8 = k} IN
    IF inside = {} THEN "NO_CLASS"
    ELSE IF \E i \in inside : ~IsFloat(fl[i].t) THEN "INTEGER" ELSE "SSE"
Classify(S) == IF SizeOf(S) > 16 THEN << "MEMORY" >>
               ELSE [k \in 1..NEightbytes(S) |-> EightbyteClass(S, k - 1)]

(* sanity of the layout itself: no scalar straddles an eightbyte, scalars do not overlap, all inside *)
LayoutSane(S) == LET fl == Flat(S) IN
    /\ \A i \in 1..Len(fl) : /\ fl[i].off % SSize(fl[i].t) = 0
                             /\ fl[i].off + SSize(fl[i].t) <= SizeOf(S)
                             /\ fl[i].off \div 8 = (fl[i].off + SSize(fl[i].t) - 1) \div 8
    /\ \A i \in 1..Len(fl) - 1 : fl[i].off + SSize(fl[i].t) <= fl[i + 1].off
    /\ SizeOf(S) % AlignOf(S) = 0

(* ---- argument assignment.  An argument is [cv |-> class vector, size |-> bytes] *)
IntRegs == << "rdi", "rsi", "rdx", "rcx", "r8", "r9" >>
SseRegs == << "xmm0", "xmm1", "xmm2", "xmm3", "xmm4", "xmm5", "xmm6", "xmm7" >>
CountOf(cv, c) == Cardinality({i \in 1..Len(cv) : cv[i] = c})

(* locations of the arguments args[i..], given ni INTEGER and ns SSE registers already used and so bytes of
   stack already used; result: sequence (one per argument) of sequences (one per eightbyte / one for stack) *)
RECURSIVE AssignFrom(_, _, _, _, _)
AssignFrom(args, i, ni, ns, so) ==
    IF i > Len(args) THEN << >>
    ELSE LET a  == args[i]
             wi == CountOf(a.cv, "INTEGER")
             ws == CountOf(a.cv, "SSE")
             inRegs == a.cv # << "MEMORY" >> /\ ni + wi <= 6 /\ ns + ws <= 8
         IN IF inRegs
            THEN LET loc == [k \in 1..Len(a.cv) |->
                                IF a.cv[k] = "INTEGER"
                                THEN IntRegs[ni + CountOf(SubSeq(a.cv, 1, k), "INTEGER")]
                                ELSE SseRegs[ns + CountOf(SubSeq(a.cv, 1, k), "SSE")]]
                 IN << loc >> \o AssignFrom(args, i + 1, ni + wi, ns + ws, so)
            ELSE << << "stack+" \o ToString(so) >> >> \o AssignFrom(args, i + 1, ni, ns, so + AlignUp(a.size, 8))

(* ret is an argument record or [cv |-> <<>>] for void *)
HiddenPtr(ret) == ret.cv = << "MEMORY" >>
Assign(args, ret) == AssignFrom(args, 1, IF HiddenPtr(ret) THEN 1 ELSE 0, 0, 0)
RetLoc(ret) == IF ret.cv = << >> THEN << >>
               ELSE IF HiddenPtr(ret) THEN << "mem(rdi)->rax" >>
               ELSE [k \in 1..Len(ret.cv) |->
                        IF ret.cv[k] = "INTEGER"
                        THEN << "rax", "rdx" >>[CountOf(SubSeq(ret.cv, 1, k), "INTEGER")]
                        ELSE << "xmm0", "xmm1" >>[CountOf(SubSeq(ret.cv, 1, k), "SSE")]]
=============================================================================

\* seeded walks: the driver writes its own copy with Seed = VERIF_SEED and NWalk = 40 (quick) / 400 (thorough)
SPECIFICATION Spec
CONSTANTS MaxFields = 12  MaxCFields = 12  NestMax = 3  MaxBytes = 80  Wide = TRUE  Sel = 0  Mod = 1  NWalk = 40  Seed = 1
INVARIANTS Sane ClassSane Emit
CHECK_DEADLOCK FALSE

---------------------------- MODULE SysVShapes ----------------------------
(* Enumerates C-compatible struct shapes and prints, for each, what SysVAbi says about it:
   size, alignment, scalar leaves with offsets, byte map, classification vector.
   Exhaustive mode: shapes of 1..MaxFields scalar fields, and shapes of 1..MaxCFields fields of which exactly
   one is compound (nested struct of 1..NestMax scalars, or array of length 1..3).
   Seeded walk mode (Wide = TRUE): NWalk walkers each grow one shape field by field up to MaxFields fields or
   MaxBytes bytes; the next field is the (pseudo-random, Seed-dependent) k-th element of the alphabet; the
   one-compound restriction is lifted and arrays of nested structs are allowed (odd walkers use scalars and
   arrays only, so that shapes with many small fields occur as well). *)
EXTENDS SysVAbi, Json

CONSTANTS MaxFields,    \* max number of fields of an all-scalar shape
          MaxCFields,   \* max number of fields of a shape with a compound field
          NestMax,      \* max members of a nested struct
          MaxBytes,     \* upper bound of SizeOf
          Wide,         \* BOOLEAN, see above
          NWalk, Seed,  \* walk mode: number of walkers, seed (0..999)
          Sel, Mod      \* print only shapes whose hash is Sel modulo Mod (Mod = 1: all)

VARIABLES S, w
vars == << S, w >>
ScalarSeq == { s \in Scalars : TRUE }
ScalarFields == { [t |-> t, n |-> 0, fs |-> << >>] : t \in Scalars }
ArrayFields  == { [t |-> t, n |-> n, fs |-> << >>] : t \in Scalars, n \in 1..3 }
InnerSeqs    == UNION { [1..k -> Scalars] : k \in 1..NestMax }
NestFields   == { [t |-> "-", n |-> 0, fs |-> ss] : ss \in InnerSeqs }
ArrNestFields == { [t |-> "-", n |-> n, fs |-> ss] : ss \in UNION { [1..k -> Scalars] : k \in 1..2 }, n \in 2..3 }

IsCompound(f) == f.n # 0 \/ f.fs # << >>
NCompound(T) == Cardinality({ i \in 1..Len(T) : IsCompound(T[i]) })

Alphabet == IF Wide THEN ScalarFields \cup ArrayFields \cup NestFields \cup ArrNestFields
            ELSE ScalarFields \cup ArrayFields \cup NestFields

(* candidates for the next field: exhaustive mode admits one compound field, among the first MaxCFields *)
Cands(T) == IF NCompound(T) = 0 /\ Len(T) < MaxCFields THEN Alphabet ELSE ScalarFields
Extendable(T) == IF NCompound(T) = 0 THEN Len(T) < Max2(MaxFields, MaxCFields) ELSE Len(T) < MaxCFields

SmallSeq == SetToSeq(ScalarFields \cup ArrayFields)
WideSeq  == SetToSeq(Alphabet)
Pick(T, k) == LET sq == IF k % 2 = 1 THEN SmallSeq ELSE WideSeq
                  r  == (k * 7919 + Len(T) * 104729 + (Seed % 1000) * 1299709) % Len(sq)
              IN sq[r + 1]

Init == S = << >> /\ w \in (IF Wide THEN 1..NWalk ELSE {0})
NextExh  == /\ Extendable(S)
            /\ \E f \in Cands(S) : S' = Append(S, f)
            /\ w' = w
NextWalk == /\ Len(S) < MaxFields
            /\ S' = Append(S, Pick(S, w))
            /\ SizeOf(S') <= MaxBytes
            /\ w' = w
Next == IF Wide THEN NextWalk ELSE NextExh
Spec == Init /\ [][Next]_vars

Hash(T) == LET fl == Flat(T) IN
    (SizeOf(T) + 3 * Len(fl) + 7 * Cardinality({ i \in 1..Len(fl) : IsFloat(fl[i].t) })
       + 11 * Cardinality({ i \in 1..Len(fl) : SSize(fl[i].t) = 1 }) + 13 * Len(T)) % Mod
Selected == Len(S) >= 1 /\ Hash(S) = Sel

Sane == Len(S) >= 1 => LayoutSane(S)
(* a classification has one entry per eightbyte and no eightbyte of a <= 16 byte object is empty *)
ClassSane == Len(S) >= 1 =>
    LET cv == Classify(S) IN
    IF SizeOf(S) > 16 THEN cv = << "MEMORY" >>
    ELSE Len(cv) = NEightbytes(S) /\ \A k \in 1..Len(cv) : cv[k] \in { "INTEGER", "SSE" }

Emit == Selected =>
    PrintT(ToJson([ shape |-> S, size |-> SizeOf(S), align |-> AlignOf(S),
                    flat |-> Flat(S), bytes |-> ByteMap(S), cv |-> Classify(S),
                    offs |-> FieldOffs(S) ]))
=============================================================================

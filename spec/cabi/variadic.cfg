SPECIFICATION Spec
CONSTANTS MaxVar = 3
INVARIANTS ClassSane InOrder NamedSame Emit
CHECK_DEADLOCK FALSE

---------------------------- MODULE CStr ----------------------------
(* Go string / []byte <-> C buffer.  Bytes are small tokens (0 = NUL); the harness maps tokens to byte values.
   ToC(s)      : the buffer a Go string becomes when converted to a C string: the bytes of s, then one NUL
   StrLen(b)   : what a strlen-based reader sees: the number of bytes before the first NUL
   CRead(b)    : the bytes such a reader reads
   FromC(b)    : C string -> Go string: exactly CRead(b)
   FromCN(b,n) : C buffer + explicit length -> Go string: the first n bytes, NULs included
   Law: FromC(ToC(s)) is s up to its first NUL (the identity when s has none);
        FromCN(ToC(s), Len(s)) = s always;  []byte -> (pointer, length) -> []byte is the identity. *)
\* Snapshot: the Go string obtained from a C buffer is a value of its own - overwriting (or freeing) the buffer afterwards
\* does not change it; the harness scribbles over the buffer after the conversion and reads the string again ("late").
EXTENDS Integers, Sequences, TLC, Json

CONSTANTS Tokens,     \* set of byte tokens, contains 0
          MaxLen

VARIABLE s
Init == s \in UNION { [1..n -> Tokens] : n \in 0..MaxLen }
Next == UNCHANGED s
Spec == Init /\ [][Next]_s

ToC(x) == x \o << 0 >>
StrLen(b) == (CHOOSE i \in 1..Len(b) : b[i] = 0 /\ \A j \in 1..(i - 1) : b[j] # 0) - 1
CRead(b) == SubSeq(b, 1, StrLen(b))
FromC(b) == CRead(b)
FromCN(b, n) == SubSeq(b, 1, n)

HasNul(x) == \E i \in 1..Len(x) : x[i] = 0
UpToNul(x) == IF HasNul(x) THEN SubSeq(x, 1, StrLen(x)) ELSE x

RoundTrip == /\ FromC(ToC(s)) = UpToNul(s)
             /\ (~HasNul(s) => FromC(ToC(s)) = s)
             /\ FromCN(ToC(s), Len(s)) = s
             /\ StrLen(ToC(s)) <= Len(s)
Emit == PrintT(ToJson([ s |-> s, buf |-> ToC(s), strlen |-> StrLen(ToC(s)), back |-> FromC(ToC(s)),
                        backn |-> FromCN(ToC(s), Len(s)) ]))
=============================================================================

---------------------------- MODULE SysVNarrow ----------------------------
(* Integer parameters narrower than 32 bits that FOLLOW a by-value aggregate in the parameter list of a C function:
       form "after"    f(S s, int8 x, int16 y, int64 pad, uint8 z, uint16 w)
       form "between"  f(int8 a, S s, int8 x, int16 y, int64 pad, uint8 z, uint16 w)
   The platform ABI as the host C compilers implement it (clang relies on it, gcc provides it): the CALLER extends an
   argument of type int8/int16 (sign) or uint8/uint16/_Bool (zero) to the full RegBits-bit register or stack slot; the
   callee may use that slot as it is, without truncating it again.  Where the aggregate in front of such a parameter
   lives (one register, two registers, memory) and how many fields it has must not matter.

   The argument values are produced at run time by truncating wider integers (Wide), so the register holding the narrow
   value has arbitrary upper bits unless the caller does its duty.
       Trunc(d, T)       the Go/C conversion T(d): the value of the narrow variable
       Slot(d, T)        what the caller must put into the slot: Trunc(d, T) as a RegBits-bit two's complement pattern
       Sees(slot, T)     what an optimising callee derives from the slot: the slot read as a signed / unsigned RegBits-bit
                         integer - no second truncation
   Law (Extended): Sees(Slot(d, T), T) = Trunc(d, T).  A caller that leaves the wider value in the slot (Lazy) shows the
   callee Sees(d, T) instead - Distinguishing says the chosen run-time values tell the two apart for every parameter.
   RegBits is 32 on the machine; 24 here so that TLC's integers suffice (the law does not depend on it beyond > 16). *)
EXTENDS SysVAbi, Json

CONSTANTS RegBits

VARIABLES shape, form, vset
vars == << shape, form, vset >>

F(t) == [t |-> t, n |-> 0, fs |-> << >>]
NarrowShapes == {
    << >>,                                                                      \* no aggregate
    << F("i32"), F("i32") >>, << F("i16"), F("i16"), F("i16") >>,               \* INTEGER
    << F("f32"), F("f32") >>,                                                   \* SSE
    << F("i64"), F("i32") >>, << F("i64"), F("i16"), F("i16") >>,               \* INTEGER INTEGER: 2, 3, 3, 4 fields
    << F("i32"), F("i32"), F("i32") >>, << F("i32"), F("i32"), F("i32"), F("i32") >>,
    << F("i64"), F("f64") >>, << F("i32"), F("i32"), F("f32") >>,               \* INTEGER SSE
    << F("f64"), F("i32") >>, << F("f32"), F("f32"), F("i16") >>,               \* SSE INTEGER
    << F("f64"), F("f64") >>, << F("f32"), F("f32"), F("f32") >>,               \* SSE SSE
    << F("i64"), F("i64"), F("i64") >> }                                        \* MEMORY

NT == [ i8  |-> [bits |-> 8,  signed |-> TRUE],  i16 |-> [bits |-> 16, signed |-> TRUE],
        u8  |-> [bits |-> 8,  signed |-> FALSE], u16 |-> [bits |-> 16, signed |-> FALSE] ]
(* the wider run-time values, one per value set: negative / small / minimum / maximum of the narrow type *)
Wide == [ i8  |-> << 503, 773, 30592, 383 >>,             \* 0x1F7 -> -9, 0x305 -> 5, 0x7780 -> -128, 0x17F -> 127
          i16 |-> << 196605, 65836, 360448, 229375 >>,    \* 0x2FFFD -> -3, 0x1012C -> 300, 0x58000 -> -32768, 0x37FFF -> 32767
          u8  |-> << 456, 519, 1023, 1152 >>,             \* 0x1C8 -> 200, 0x207 -> 7, 0x3FF -> 255, 0x480 -> 128
          u16 |-> << 131071, 131081, 236608, 294912 >> ]  \* 0x1FFFF -> 65535, 0x20009 -> 9, 0x39C40 -> 40000, 0x48000 -> 32768
NSets == 4

RECURSIVE Pow2(_)
Pow2(n) == IF n = 0 THEN 1 ELSE 2 * Pow2(n - 1)
Trunc(d, t) == LET m == d % Pow2(NT[t].bits) IN
               IF NT[t].signed /\ m >= Pow2(NT[t].bits - 1) THEN m - Pow2(NT[t].bits) ELSE m
Slot(d, t) == Trunc(d, t) % Pow2(RegBits)
Sees(slot, t) == IF NT[t].signed /\ slot >= Pow2(RegBits - 1) THEN slot - Pow2(RegBits) ELSE slot

Init == shape \in NarrowShapes /\ form \in { "after", "between" } /\ vset \in 1..NSets /\ (shape = << >> => form = "after")
Next == UNCHANGED vars
Spec == Init /\ [][Next]_vars

(* the parameter list: "S" the aggregate, "pad" an int64, otherwise a narrow type *)
Params == (IF form = "between" THEN << "i8" >> ELSE << >>) \o (IF shape = << >> THEN << >> ELSE << "S" >>)
          \o << "i8", "i16", "pad", "u8", "u16" >>
ArgOf(p) == IF p = "S" THEN [cv |-> Classify(shape), size |-> SizeOf(shape)] ELSE [cv |-> << "INTEGER" >>, size |-> 8]
Locs == Assign([i \in 1..Len(Params) |-> ArgOf(Params[i])], [cv |-> << >>, size |-> 0])

IsNarrow(p) == p \in DOMAIN NT
(* the k-th parameter's run-time source and the value the callee must see *)
SrcOf(k) == IF IsNarrow(Params[k]) THEN Wide[Params[k]][vset] ELSE 0
SeenOf(k) == IF IsNarrow(Params[k]) THEN Sees(Slot(SrcOf(k), Params[k]), Params[k]) ELSE 0

Extended == \A k \in 1..Len(Params) : IsNarrow(Params[k]) => SeenOf(k) = Trunc(SrcOf(k), Params[k])
Distinguishing == \A t \in DOMAIN NT : \E v \in 1..NSets : Sees(Wide[t][v] % Pow2(RegBits), t) # Trunc(Wide[t][v], t)
InRange == \A t \in DOMAIN NT : \A v \in 1..NSets : Wide[t][v] < Pow2(RegBits - 1)
ShapeSane == shape # << >> => LayoutSane(shape)

Emit == PrintT(ToJson([ form |-> form, vset |-> vset, params |-> Params, locs |-> Locs,
                        wide |-> [k \in 1..Len(Params) |-> SrcOf(k)], seen |-> [k \in 1..Len(Params) |-> SeenOf(k)],
                        prefix |-> [ shape |-> shape, size |-> SizeOf(shape), align |-> AlignOf(shape),
                                     flat |-> Flat(shape), bytes |-> ByteMap(shape), cv |-> Classify(shape),
                                     offs |-> FieldOffs(shape) ] ]))
=============================================================================

SPECIFICATION Spec
CONSTANTS MaxPre = 8  MaxInt = 7  MaxSse = 9
INVARIANTS NoRegisterTwice AllOrNothing HiddenFirst Emit
CHECK_DEADLOCK FALSE

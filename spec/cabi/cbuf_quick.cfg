SPECIFICATION Spec
CONSTANTS Tokens = {0, 1, 3}  MaxLen = 3  MaxSteps = 4  CPoke = {0, 4}  GPoke = 5  NSet = "ends"
INVARIANTS TypeOK Emit
PROPERTIES SnapToGo SnapToC Conv
CHECK_DEADLOCK FALSE

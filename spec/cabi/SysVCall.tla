---------------------------- MODULE SysVCall ----------------------------
(* Enumerates call shapes  f(pre..., STRUCT, i64, f64)  and prints where SysVAbi puts every argument.
   pre  : the other arguments in front of the struct: any sequence over {"i","f"} (an integer / a double) of
          length 0..MaxPre (so the struct sits at argument position 0..MaxPre), plus the canonical saturating
          prefixes i^a f^b with a <= MaxInt, b <= MaxSse (both register files exhausted)
   kind : the classification vector of the struct (its size matters only for stack bookkeeping)
   ret  : "void" | "same" (the function returns the struct type it takes) | "mem" (it returns some other
          MEMORY-class struct): MEMORY results are written through a hidden pointer that takes rdi *)
EXTENDS SysVAbi, Json

CONSTANTS MaxPre, MaxInt, MaxSse

VARIABLES pre, kind, ret
vars == << pre, kind, ret >>

Kinds == { << "INTEGER" >>, << "SSE" >>, << "INTEGER", "INTEGER" >>, << "INTEGER", "SSE" >>,
           << "SSE", "INTEGER" >>, << "SSE", "SSE" >>, << "MEMORY" >> }
SizeOfKind(cv) == IF cv = << "MEMORY" >> THEN 24 ELSE 8 * Len(cv)

Canon(a, b) == [i \in 1..(a + b) |-> IF i <= a THEN "i" ELSE "f"]
Pres == UNION { [1..n -> { "i", "f" }] : n \in 0..MaxPre } \cup { Canon(a, b) : a \in 0..MaxInt, b \in 0..MaxSse }

Init == pre \in Pres /\ kind \in Kinds /\ ret \in { "void", "same", "mem" }
Next == UNCHANGED vars
Spec == Init /\ [][Next]_vars

ScalarArg(c) == IF c = "i" THEN [cv |-> << "INTEGER" >>, size |-> 8] ELSE [cv |-> << "SSE" >>, size |-> 8]
StructArg == [cv |-> kind, size |-> SizeOfKind(kind)]
Args == [i \in 1..Len(pre) |-> ScalarArg(pre[i])] \o << StructArg, ScalarArg("i"), ScalarArg("f") >>
RetArg == IF ret = "void" THEN [cv |-> << >>, size |-> 0]
          ELSE IF ret = "mem" THEN [cv |-> << "MEMORY" >>, size |-> 24] ELSE StructArg

NI == Cardinality({ i \in 1..Len(pre) : pre[i] = "i" })
NF == Len(pre) - NI

(* algebra of the assignment (self-checks of the spec) *)
Locs == Assign(Args, RetArg)
NoRegisterTwice ==
    LET flat == FlattenSeq(Locs)
        regs == { i \in 1..Len(flat) : flat[i] \in Range(IntRegs) \cup Range(SseRegs) } IN
    \A i, j \in regs : i # j => flat[i] # flat[j]
AllOrNothing ==      \* a struct is never split between registers and stack
    LET l == Locs[Len(pre) + 1] IN
    \/ \A k \in 1..Len(l) : l[k] \in Range(IntRegs) \cup Range(SseRegs)
    \/ Len(l) = 1 /\ l[1] \notin Range(IntRegs) \cup Range(SseRegs)
HiddenFirst == (ret = "mem" \/ (ret = "same" /\ kind = << "MEMORY" >>)) => "rdi" \notin Range(FlattenSeq(Locs))

Emit == PrintT(ToJson([ pre |-> pre, kind |-> kind, ret |-> ret, ni |-> NI, nf |-> NF,
                        locs |-> Locs, retloc |-> RetLoc(RetArg) ]))
=============================================================================

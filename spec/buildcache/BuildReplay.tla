------------------------------- MODULE BuildReplay -------------------------------
(***************************************************************************)
(* The judge applied to given histories (C13).  Hists (module HistData,    *)
(* written by the driver) is a sequence of concrete histories; TLC walks   *)
(* each one through the actions of BuildCache and prints, for every build  *)
(* in it, val = the value of every input (what Fresh demands the           *)
(* executable to show) and stale = what layer B (CacheKey) predicts the    *)
(* real tool gets wrong.  One initial state per history, so the histories  *)
(* are spread over the TLC workers.                                        *)
(***************************************************************************)
EXTENDS CacheKey, HistData, Json

VARIABLES k,     \* which history
          obs    \* one record per build

rvars == <<content, stat, cache, exe, hist, k, obs>>

ReplayInit == Init /\ k \in 1..Len(Hists) /\ obs = <<>>

Observe == obs' = Append(obs, [val |-> Val, stale |-> {<<p, i>> \in Pkgs \X Inputs : i \in Reads[p] /\ exe'[p][i] # Val[i]}])

ReplayNext ==
  /\ Len(hist) < Len(Hists[k])
  /\ LET act == Hists[k][Len(hist) + 1] IN
       CASE act.a = "edit"  -> Edit(act.i) /\ obs' = obs
         [] act.a = "keep"  -> EditKeepStat(act.i) /\ obs' = obs
         [] act.a = "touch" -> TouchOnly(act.i) /\ obs' = obs
         [] act.a = "clear" -> ClearCache /\ obs' = obs
         [] act.a = "build" -> Build /\ Observe
         [] act.a = "noop"  -> NoopBuild /\ Observe
  /\ k' = k

ReplaySpec == ReplayInit /\ [][ReplayNext]_rvars

Done == Len(hist) = Len(Hists[k])
\* every given history is a behaviour of BuildCache (the driver did not hand over an impossible one)
Followed == Len(hist) <= Len(Hists[k]) /\ \A n \in 1..Len(hist) : hist[n] = Hists[k][n]

Emit == Done => PrintT(ToJson([k |-> k, obs |-> obs]))
=============================================================================

------------------------------- MODULE HistData -------------------------------
\* placeholder: the driver overwrites this module in its private copy of the spec directory
Hists == << << [a |-> "build", i |-> "-"], [a |-> "edit", i |-> "p2/emb"], [a |-> "build", i |-> "-"] >> >>
=============================================================================

-------------------------------- MODULE CacheKey --------------------------------
(***************************************************************************)
(* Layer B for C13 (report only, never the judge): the cache key as the    *)
(* function of the SUBSET of inputs that llgo's per-package manifest       *)
(* contains (internal/build/collect.go):                                   *)
(*   env section     GOOS/GOARCH, versions, compiler hash, eight LLGO_*    *)
(*                   variables                        -> "env"             *)
(*   common section  ABI mode, build tags, target, CC and CCFLAGS (the     *)
(*                   -O level is the first CCFLAG)    -> "tags", "opt"     *)
(*   package section Go files (and alt / other / assembly files) by        *)
(*                   path + size + mtime, -X rewrites of the package       *)
(*   deps            the fingerprint of every imported package             *)
(* Files are recorded by stat, not by content; files named only in         *)
(* //go:embed directives or in the LLGoFiles constant are not recorded.    *)
(* Instantiating BuildCache with this key turns "is anything missing from  *)
(* the manifest?" into the reachability question "can Fresh be violated?". *)
(*                                                                         *)
(* The module also fixes the shape of the generated 3-package module the   *)
(* harness builds: main -> p1 -> p2, one input of every kind per package.  *)
(***************************************************************************)
EXTENDS BuildCache

M3Pkgs == {"main", "p1", "p2"}
M3Imports == [p \in M3Pkgs |-> CASE p = "main" -> {"p1"} [] p = "p1" -> {"p2"} [] OTHER -> {}]

M3Files   == {"main/src", "p1/src", "p1/emb", "p1/c", "p2/src", "p2/emb", "p2/c"}
M3Xs      == {"main/x", "p1/x", "p2/x"}
M3Globals == {"tags", "opt", "env"}
M3Inputs  == M3Files \cup M3Xs \cup M3Globals

\* what the code of each package depends on (each is printed by the package as a marker)
M3Reads == [p \in M3Pkgs |->
  CASE p = "main" -> {"main/src", "main/x", "tags", "env"}
    [] p = "p1"   -> {"p1/src", "p1/emb", "p1/c", "p1/x", "tags", "opt", "env", "p2/src"}   \* p1 inlines a constant of p2
    [] OTHER      -> {"p2/src", "p2/emb", "p2/c", "p2/x", "tags", "opt", "env"}]

\* ---- the manifest of collect.go -------------------------------------------------
ManifestStatFiles == [p \in M3Pkgs |-> {p \o "/src"}]                  \* go_files: path, size, mtime
ManifestValues    == [p \in M3Pkgs |-> {p \o "/x"} \cup M3Globals]     \* rewrite_vars, BUILD_TAGS, CCFLAGS, VARS
ManifestOwnKey(p, val, st) ==
  [f |-> [i \in ManifestStatFiles[p] |-> st[i]], v |-> [i \in ManifestValues[p] |-> val[i]]]

=============================================================================

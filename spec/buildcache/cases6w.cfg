SPECIFICATION CasesSpec
CONSTANTS
  Pkgs <- M3Pkgs
  MainPkg = "main"
  Imports <- M3Imports
  Inputs <- M3Inputs
  Files <- M3Files
  Toggles <- M3Globals
  Reads <- M3Reads
  OwnKey <- ManifestOwnKey
  MaxLen = 6
  MaxEdits = 3
  Kinds = {"edit", "keep", "touch"}
INVARIANTS
  Emit
  StaleIsNotFresh
CHECK_DEADLOCK FALSE

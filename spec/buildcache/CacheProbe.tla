------------------------------- MODULE CacheProbe -------------------------------
(***************************************************************************)
(* "Is anything missing from the manifest?" as a reachability question.    *)
(* For every input and every kind of change (ordinary edit, edit that      *)
(* keeps size and mtime, touch) TLC explores all histories that apply only *)
(* that change, interleaved with builds, no-op rebuilds and cache clears,  *)
(* and reports every build after which Fresh does not hold.  With          *)
(* OwnKey <- ManifestOwnKey (layer B) the report lists exactly the inputs  *)
(* the manifest of collect.go does not cover; with OwnKey <- IdealOwnKey   *)
(* it is empty.  Report only - the judge of real executions is Fresh.      *)
(***************************************************************************)
EXTENDS CacheKey, Json

VARIABLES pi, pk     \* the probed input and kind of change
pvars == <<content, stat, cache, exe, hist, pi, pk>>

ProbeInit == Init /\ pi \in Inputs /\ pk \in {"edit", "keep", "touch"} /\ (pk # "edit" => pi \in Files)

ProbeNext ==
  /\ Len(hist) < MaxLen
  /\ UNCHANGED <<pi, pk>>
  /\ \/ (pk = "edit"  /\ Edit(pi))
     \/ (pk = "keep"  /\ EditKeepStat(pi))
     \/ (pk = "touch" /\ TouchOnly(pi))
     \/ Build \/ NoopBuild \/ ClearCache

ProbeSpec == ProbeInit /\ [][ProbeNext]_pvars

Report == (LastIsBuild /\ Stale # {}) =>
  PrintT(ToJson([input |-> pi, kind |-> pk, stale |-> Stale, len |-> Len(hist),
                 h |-> [n \in 1..Len(hist) |-> hist[n].a \o ":" \o hist[n].i]]))
=============================================================================

SPECIFICATION ReplaySpec
CONSTANTS
  Pkgs <- M3Pkgs
  MainPkg = "main"
  Imports <- M3Imports
  Inputs <- M3Inputs
  Files <- M3Files
  Toggles <- M3Globals
  Reads <- M3Reads
  OwnKey <- ManifestOwnKey
  MaxLen = 99
INVARIANTS
  Emit
  Followed
CHECK_DEADLOCK FALSE

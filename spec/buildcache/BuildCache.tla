------------------------------- MODULE BuildCache -------------------------------
(***************************************************************************)
(* Layer A for C13: what a build with a package cache must guarantee.      *)
(*                                                                         *)
(* A module is a set of packages with an import relation.  Every package   *)
(* reads a set of build inputs: its Go source files, the files it embeds   *)
(* (//go:embed), the C side files it lists (LLGoFiles), the build tags,    *)
(* its -X string overrides, the optimisation level, behaviour-affecting    *)
(* environment variables, and what it inlines from the sources of the      *)
(* packages it imports.  An input has a content (a version counter; for    *)
(* plain values such as the tag list the value itself) and, if it is a     *)
(* file, a stat = (size, mtime) that usually - but not necessarily -       *)
(* changes together with the content.                                      *)
(*                                                                         *)
(* Compiling a package is a FUNCTION of the contents it reads (Repro).     *)
(* A build may take a package's code from the cache instead of compiling;  *)
(* which entry it takes is decided by a key.  The guarantee (Fresh): the   *)
(* executable produced by any build is the one a clean build would give,   *)
(* i.e. every package in it reflects the current content of every input    *)
(* the package reads.  The key function is a parameter: the law does not   *)
(* say how the key is made, only what must come out.                       *)
(***************************************************************************)
EXTENDS Naturals, Sequences, FiniteSets, TLC

CONSTANTS
  Pkgs,       \* the packages of the module
  MainPkg,    \* the command package: compiled on every build, never cached
  Imports,    \* [Pkgs -> SUBSET Pkgs], direct imports, acyclic
  Inputs,     \* all build inputs
  Files,      \* SUBSET Inputs: inputs that are files (content + stat); the others are plain values
  Toggles,    \* SUBSET (Inputs \ Files): values that alternate between two settings (tags off/on, -O0/-O2, env unset/set)
  Reads,      \* [Pkgs -> SUBSET Inputs]: the inputs whose content the compiled code of the package depends on
  MaxLen      \* bound on the length of a history

CONSTANT OwnKey(_, _, _)   \* OwnKey(p, val, st): the part of p's cache key made from p's own inputs
                           \*   val: [Inputs -> Nat] current values, st: [Files -> Nat] current stats

ASSUME /\ MainPkg \in Pkgs
       /\ Files \subseteq Inputs /\ Toggles \subseteq Inputs \ Files
       /\ \A p \in Pkgs : Imports[p] \subseteq Pkgs /\ Reads[p] \subseteq Inputs

VARIABLES
  content,  \* [Inputs -> Nat]  how often the content of the input has been changed
  stat,     \* [Files -> Nat]   how often (size, mtime) of the file has been changed
  cache,    \* set of [pkg, key, out]: archives in the cache; out = the values the archive was compiled from
  exe,      \* [Pkgs -> [Reads[p] -> Nat]]: for every package the values the last executable reflects
  hist      \* the history so far: sequence of [a, i]

vars == <<content, stat, cache, exe, hist>>

\* the value of an input: a toggle that has been switched twice has its first value again
Val == [i \in Inputs |-> IF i \in Toggles THEN content[i] % 2 ELSE content[i]]

\* Repro: the code of a package is a function of the values it reads, nothing else
Out(p) == [i \in Reads[p] |-> Val[i]]

RECURSIVE Key(_)
Key(p) == [own |-> OwnKey(p, Val, stat), deps |-> [q \in Imports[p] |-> Key(q)]]

Hit(p) == p # MainPkg /\ \E e \in cache : e.pkg = p /\ e.key = Key(p)
Used(p) == IF Hit(p) THEN (CHOOSE e \in cache : e.pkg = p /\ e.key = Key(p)).out ELSE Out(p)

Init ==
  /\ content = [i \in Inputs |-> 0]
  /\ stat = [i \in Files |-> 0]
  /\ cache = {}
  /\ exe = [p \in Pkgs |-> [i \in Reads[p] |-> 0]]
  /\ hist = <<>>

Log(a, i) == hist' = Append(hist, [a |-> a, i |-> i])

\* an ordinary edit: new content; a file also gets a new mtime
Edit(i) ==
  /\ content' = [content EXCEPT ![i] = @ + 1]
  /\ stat' = IF i \in Files THEN [stat EXCEPT ![i] = @ + 1] ELSE stat
  /\ Log("edit", i) /\ UNCHANGED <<cache, exe>>

\* new content of the same length, modification time preserved (cp -p, tar x, rsync -t, same clock tick)
EditKeepStat(i) ==
  /\ i \in Files
  /\ content' = [content EXCEPT ![i] = @ + 1]
  /\ Log("keep", i) /\ UNCHANGED <<stat, cache, exe>>

\* mtime changes, content does not
TouchOnly(i) ==
  /\ i \in Files
  /\ stat' = [stat EXCEPT ![i] = @ + 1]
  /\ Log("touch", i) /\ UNCHANGED <<content, cache, exe>>

DoBuild(a) ==
  /\ exe' = [p \in Pkgs |-> Used(p)]
  /\ cache' = cache \cup {[pkg |-> p, key |-> Key(p), out |-> Out(p)] : p \in {q \in Pkgs \ {MainPkg} : ~Hit(q)}}
  /\ Log(a, "-") /\ UNCHANGED <<content, stat>>

LastIsBuild == Len(hist) > 0 /\ hist[Len(hist)].a \in {"build", "noop"}

Build == ~LastIsBuild /\ DoBuild("build")
NoopBuild == LastIsBuild /\ DoBuild("noop")       \* a rebuild with nothing changed in between

ClearCache == cache' = {} /\ Log("clear", "-") /\ UNCHANGED <<content, stat, exe>>

Next ==
  /\ Len(hist) < MaxLen
  /\ \/ \E i \in Inputs : Edit(i) \/ EditKeepStat(i) \/ TouchOnly(i)
     \/ Build \/ NoopBuild \/ ClearCache

Spec == Init /\ [][Next]_vars

-----------------------------------------------------------------------------
\* The guarantees.

\* after every build the executable is the one a clean build gives
Fresh == LastIsBuild => \A p \in Pkgs : exe[p] = Out(p)

Stale == {<<p, i>> \in Pkgs \X Inputs : i \in Reads[p] /\ exe[p][i] # Val[i]}

\* a rebuild without any change does not change the program
NoopStable == [][(Len(hist') > Len(hist) /\ hist'[Len(hist')].a = "noop") => exe' = exe]_vars

\* the cache never holds two different archives under one key
KeyFunctional == \A e1, e2 \in cache : (e1.pkg = e2.pkg /\ e1.key = e2.key) => e1.out = e2.out

\* a key that makes Fresh an invariant: the values of everything the package reads
IdealOwnKey(p, val, st) == [i \in Reads[p] |-> val[i]]
=============================================================================

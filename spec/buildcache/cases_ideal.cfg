SPECIFICATION CasesSpec
CONSTANTS
  Pkgs <- M3Pkgs
  MainPkg = "main"
  Imports <- M3Imports
  Inputs <- M3Inputs
  Files <- M3Files
  Toggles <- M3Globals
  Reads <- M3Reads
  OwnKey <- IdealOwnKey
  MaxLen = 6
  MaxEdits = 3
  Kinds = {"edit", "keep", "touch"}
INVARIANTS
  Fresh
  KeyFunctional
  StaleIsNotFresh
PROPERTIES
  NoopStable
CHECK_DEADLOCK FALSE

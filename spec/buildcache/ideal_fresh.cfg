SPECIFICATION Spec
CONSTANTS
  Pkgs <- M3Pkgs
  MainPkg = "main"
  Imports <- M3Imports
  Inputs <- M3Inputs
  Files <- M3Files
  Toggles <- M3Globals
  Reads <- M3Reads
  OwnKey <- IdealOwnKey
  MaxLen = 4
INVARIANTS
  Fresh
  KeyFunctional
PROPERTIES
  NoopStable
CHECK_DEADLOCK FALSE

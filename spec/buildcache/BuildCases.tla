------------------------------- MODULE BuildCases -------------------------------
(***************************************************************************)
(* Case generator for C13.  TLC enumerates the edit/build histories of     *)
(* length MaxLen over the inputs of the 3-package module in a canonical    *)
(* form (one representative per class of histories that cannot differ in   *)
(* what they show) and prints each one.  The driver maps the class        *)
(* representatives to concrete inputs, and BuildReplay then computes for   *)
(* every build of every selected history                                   *)
(*   val   - the value of every input at that build: what BuildCache       *)
(*           (Fresh) demands the executable to reflect, and                *)
(*   stale - the <<package, input>> pairs layer B (the manifest model of   *)
(*           CacheKey) predicts the real tool to get wrong (report only).  *)
(* The harness replays every selected history on a generated module with   *)
(* the real `llgo build` and a private persistent cache.                   *)
(*                                                                         *)
(* Canonical form:                                                         *)
(*  - a history starts and ends with a build (edits before the first or    *)
(*    after the last build are not observable);                            *)
(*  - between two builds every input is changed at most once and the       *)
(*    changes are listed in a fixed order (they commute);                  *)
(*  - the cache is cleared only directly before a build; at most one       *)
(*    no-op rebuild in a row;                                              *)
(*  - inputs of the same package and sort that the law cannot tell apart   *)
(*    (ClassOf) first appear in a fixed order: the harness maps the        *)
(*    class members to concrete inputs by a permutation;                   *)
(*  - cost bounds of the binding: at most one of the global settings       *)
(*    (tags, opt level, env var) is switched in one history, and a         *)
(*    history with -X edits switches none of them.                         *)
(***************************************************************************)
EXTENDS CacheKey, Json

CONSTANTS Kinds,     \* subset of {"edit", "keep", "touch"} used for files
          MaxEdits   \* most edits between two builds

VARIABLE obs         \* one record per build: [val, stale]

cvars == <<content, stat, cache, exe, hist, obs>>

Order == <<"main/src", "main/x", "p1/src", "p1/emb", "p1/c", "p1/x", "p2/src", "p2/emb", "p2/c", "p2/x", "tags", "opt", "env">>
Rank(i) == CHOOSE n \in 1..Len(Order) : Order[n] = i

\* classes of inputs the law treats alike (same package, same sort, read by the same packages)
Classes == {<<"p1/src", "p1/emb", "p1/c">>, <<"p2/emb", "p2/c">>, <<"tags", "opt", "env">>}
Touched == {hist[n].i : n \in 1..Len(hist)}
ClassOK(i) ==
  \A c \in Classes : \A n \in 1..Len(c) :
     c[n] = i => \A m \in 1..(n - 1) : c[m] \in Touched

GlobalOK(i) ==
  /\ i \in M3Globals => (Touched \cap (M3Globals \ {i}) = {} /\ Touched \cap M3Xs = {})
  /\ i \in M3Xs => Touched \cap M3Globals = {}

Last == hist[Len(hist)]
IsEditAct(a) == a \in {"edit", "keep", "touch"}
SegLen == LET idx == {n \in 1..Len(hist) : ~IsEditAct(hist[n].a)}
              from == IF idx = {} THEN 0 ELSE CHOOSE n \in idx : \A m \in idx : m <= n
          IN Len(hist) - from

EditOK(i) ==
  /\ Len(hist) > 0 /\ Len(hist) < MaxLen - 1
  /\ Last.a # "clear"
  /\ IsEditAct(Last.a) => Rank(Last.i) < Rank(i)
  /\ SegLen < MaxEdits
  /\ ClassOK(i) /\ GlobalOK(i)

Observe == obs' = Append(obs, [val |-> Val, stale |-> {<<p, i>> \in Pkgs \X Inputs : i \in Reads[p] /\ exe'[p][i] # Val[i]}])

CasesInit == Init /\ obs = <<>>

EditStep(i) ==
  \/ Edit(i) /\ (i \in Files => "edit" \in Kinds)
  \/ "keep" \in Kinds /\ EditKeepStat(i)
  \/ "touch" \in Kinds /\ TouchOnly(i)

CasesNext ==
  /\ Len(hist) < MaxLen
  /\ \/ \E i \in Inputs : EditOK(i) /\ EditStep(i) /\ obs' = obs
     \/ Build /\ Observe
     \/ (Len(hist) > 0 /\ Last.a = "build" /\ NoopBuild /\ Observe)
     \/ (Len(hist) > 0 /\ Len(hist) < MaxLen - 1 /\ Last.a # "clear" /\ ClearCache /\ obs' = obs)

CasesSpec == CasesInit /\ [][CasesNext]_cvars

Complete == Len(hist) = MaxLen /\ LastIsBuild

Emit == Complete =>
  PrintT(ToJson([h |-> [n \in 1..Len(hist) |-> hist[n].a \o ":" \o hist[n].i]]))

\* the shape of the module, for the driver (printed once)
ASSUME PrintT(ToJson([meta |-> [reads |-> M3Reads, classes |-> Classes, files |-> M3Files, xs |-> M3Xs,
                                globals |-> M3Globals, order |-> Order]]))

\* the law is consistent with itself whatever the key: what layer B calls stale is what Fresh forbids
StaleIsNotFresh == LastIsBuild => ((obs[Len(obs)].stale = {}) <=> (\A p \in Pkgs : exe[p] = Out(p)))
=============================================================================

SPECIFICATION Spec
INVARIANTS Safety Completes
CHECK_DEADLOCK FALSE

-------------------------------- MODULE InitOrderProg --------------------------------
(* InitOrder closed over worlds: every behaviour is a legal initialisation; checks the law's invariants
   exhaustively for the given worlds and that initialisation always completes (no world is stuck before Main). *)
EXTENDS InitOrder, TLC, Json, Integers

Worlds == ndJsonDeserialize("traces.ndjson")
VARIABLE w
vars == <<pkgs, vdone, idone, mainrun, w>>
Init == /\ w \in 1..Len(Worlds)
        /\ pkgs = Worlds[w].pkgs
        /\ vdone = [i \in 1..Len(Worlds[w].pkgs) |-> {}]
        /\ idone = [i \in 1..Len(Worlds[w].pkgs) |-> 0]
        /\ mainrun = FALSE
Next == /\ w' = w
        /\ \/ \E i \in PI : \E j \in 1..Len(pkgs[i].vars) : InitVar(i, pkgs[i].vars[j].name)
           \/ \E i \in PI : \E k \in 1..pkgs[i].ninit : RunInit(i, k)
           \/ Main
Spec == Init /\ [][Next]_vars
Safety == DepsFirst /\ ImportsFirst /\ MainLast
\* a world whose variable references are acyclic always reaches Main
Completes == (~ENABLED Next) => mainrun
=============================================================================

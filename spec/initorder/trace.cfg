SPECIFICATION Spec
INVARIANTS Safety EmitAccepted
CHECK_DEADLOCK FALSE

-------------------------------- MODULE InitOrderTrace --------------------------------
(* Trace validation: is the order printed by an llgo-compiled program a legal initialisation order?
   traces.ndjson: one world per line [id, pkgs, ev] with ev = Seq([k : "V" | "I" | "M", p, n]);
   Init picks a world; a world is accepted (its id is printed) iff all its events are consumed in order. *)
EXTENDS InitOrder, TLC, Json, Integers

Traces == ndJsonDeserialize("traces.ndjson")
VARIABLES h, l
tvars == <<pkgs, vdone, idone, mainrun, h, l>>
Ev == Traces[h].ev
More == l <= Len(Ev)

Init == /\ h \in 1..Len(Traces) /\ l = 1
        /\ pkgs = Traces[h].pkgs
        /\ vdone = [i \in 1..Len(Traces[h].pkgs) |-> {}]
        /\ idone = [i \in 1..Len(Traces[h].pkgs) |-> 0]
        /\ mainrun = FALSE

Known(p) == \E i \in PI : pkgs[i].name = p
Consume ==
  /\ More
  /\ LET e == Ev[l] IN
       \/ (e.k = "V" /\ Known(e.p) /\ InitVar(Idx(e.p), e.n))
       \/ (e.k = "I" /\ Known(e.p) /\ RunInit(Idx(e.p), e.n))
       \/ (e.k = "M" /\ Main)
  /\ l' = l + 1 /\ h' = h
Next == Consume
Spec == Init /\ [][Next]_tvars
Accepted == ~More /\ mainrun
EmitAccepted == Accepted => PrintT(ToJson([acc |-> Traces[h].id]))
Safety == DepsFirst /\ ImportsFirst /\ MainLast
=============================================================================

-------------------------------- MODULE InitOrder --------------------------------
(***************************************************************************)
(* Layer A for C12: the legal initialisation orders of a Go program.       *)
(*                                                                         *)
(* A world is a set of packages with an acyclic import relation; a package *)
(* has package-level variables in declaration order (files in the order    *)
(* they are presented to the compiler, then position), each with the set   *)
(* of variables of the same package its initialiser refers to (directly or *)
(* through functions), and a number of init functions in source order.     *)
(*   InitVar(p, v)  only when every package p imports is completely        *)
(*                  initialised, no init function of p has run, and v is   *)
(*                  *the* next variable by Go's rule: the earliest in      *)
(*                  declaration order that is not yet initialised and      *)
(*                  whose references are all initialised                   *)
(*   RunInit(p, k)  only when all variables of p are initialised and       *)
(*                  k is the next init function                            *)
(*   Main           only when every package is completely initialised      *)
(* Everything happens exactly once.  The order in which independent        *)
(* packages are initialised is left free: the statement asks no more.      *)
(* The module is used to validate recorded traces (InitOrderTrace) and,    *)
(* closed, to enumerate the legal traces of small worlds (InitOrderProg).  *)
(***************************************************************************)
EXTENDS Naturals, Sequences, FiniteSets

VARIABLES pkgs,     \* Seq([name, imports : Seq(name), vars : Seq([name, deps : Seq(name)]), ninit : Nat])
          vdone,    \* [pkg index -> set of variable names initialised]
          idone,    \* [pkg index -> number of init functions run]
          mainrun   \* BOOLEAN
initVars == <<pkgs, vdone, idone, mainrun>>

PI == 1..Len(pkgs)
Idx(name) == CHOOSE i \in PI : pkgs[i].name = name
VarNames(i) == {pkgs[i].vars[j].name : j \in 1..Len(pkgs[i].vars)}
PkgDone(i) == vdone[i] = VarNames(i) /\ idone[i] = pkgs[i].ninit
ImportsDone(i) == \A k \in 1..Len(pkgs[i].imports) : PkgDone(Idx(pkgs[i].imports[k]))
Elems(s) == {s[k] : k \in 1..Len(s)}

\* position of the variable Go initialises next in package i (0 if none is ready)
Ready(i, j) == pkgs[i].vars[j].name \notin vdone[i] /\ Elems(pkgs[i].vars[j].deps) \subseteq vdone[i]
NextVarPos(i) ==
  IF \E j \in 1..Len(pkgs[i].vars) : Ready(i, j)
    THEN CHOOSE j \in 1..Len(pkgs[i].vars) : Ready(i, j) /\ \A j2 \in 1..(j - 1) : ~Ready(i, j2)
    ELSE 0

InitVar(i, v) ==
  /\ ~mainrun /\ ImportsDone(i) /\ idone[i] = 0
  /\ NextVarPos(i) # 0 /\ pkgs[i].vars[NextVarPos(i)].name = v
  /\ vdone' = [vdone EXCEPT ![i] = @ \cup {v}]
  /\ UNCHANGED <<pkgs, idone, mainrun>>

RunInit(i, k) ==
  /\ ~mainrun /\ ImportsDone(i) /\ vdone[i] = VarNames(i)
  /\ k = idone[i] + 1 /\ k <= pkgs[i].ninit
  /\ idone' = [idone EXCEPT ![i] = k]
  /\ UNCHANGED <<pkgs, vdone, mainrun>>

Main ==
  /\ ~mainrun /\ \A i \in PI : PkgDone(i)
  /\ mainrun' = TRUE
  /\ UNCHANGED <<pkgs, vdone, idone>>

\* invariants of the law itself
DepsFirst == \A i \in PI : \A j \in 1..Len(pkgs[i].vars) :
                pkgs[i].vars[j].name \in vdone[i] => Elems(pkgs[i].vars[j].deps) \subseteq vdone[i]
ImportsFirst == \A i \in PI : (vdone[i] # {} \/ idone[i] > 0) => ImportsDone(i)
MainLast == mainrun => \A i \in PI : PkgDone(i)
=============================================================================

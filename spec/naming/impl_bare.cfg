SPECIFICATION Spec
CONSTANTS DefPkgs = {"p1", "p2"}  UsePkgs = {"p3"}  Depth = 2  Rich = FALSE  Scheme = "bare"
INVARIANTS ImplInjective ImplAgree
CHECK_DEADLOCK FALSE

--------------------------------- MODULE NamingImpl ---------------------------------
(***************************************************************************)
(* Layer B for C14 (never the judge; report only): an abstract model of    *)
(* the naming SCHEME llgo implements, read from cl/import.go funcName,     *)
(* ssa/type.go FuncName and ssa/abi/abi.go NamedName / typeArgString /     *)
(* TypeName, as a function from (entity, compiling package) to a tuple of  *)
(* the components that end up in the symbol.  It is model-checked against  *)
(* layer A's Injective over the whole world of Naming.tla.                 *)
(*                                                                         *)
(*   Scheme = "bare"      receiver types are spelled by their bare name    *)
(*                        (no scope of a function-local declaration, no    *)
(*                        package of a foreign type) - the tree as found   *)
(*   Scheme = "qualified" the receiver of a wrapper carries the scope      *)
(*                        indices of a local type and the package of a     *)
(*                        type that is foreign to the compiling package    *)
(***************************************************************************)
EXTENDS Naming

CONSTANT Scheme

\* abi.typeArgString: aliases resolved, named types with package path, type arguments and scope indices
RECURSIVE ArgStr(_)
ArgStr(t) ==
  CASE t.k = "alias" -> ArgStr(t.e)
    [] t.k = "basic" -> <<"b", t.n>>
    [] t.k = "named" -> <<"n", t.pkg, t.name, [i \in 1..Len(t.targs) |-> ArgStr(t.targs[i])], t.scope>>
    [] t.k \in {"ptr", "slice", "func", "struct"} -> <<t.k, ArgStr(t.e)>>
    [] t.k = "map" -> <<"map", ArgStr(t.key), ArgStr(t.e)>>
    [] t.k = "anon" -> <<"anon", t.epkg, t.emb>>

\* abi.NamedName: bare object name plus type arguments
NamedName(t) == <<t.name, [i \in 1..Len(t.targs) |-> ArgStr(t.targs[i])]>>

\* ssa.FuncName(pkg, name, recv): "pkg.T.name" / "pkg.(*T).name"; the receiver part of the symbol
NoRecv == [ptr |-> FALSE, anon |-> FALSE, nm |-> "", args |-> <<>>, scope |-> <<>>, fpkg |-> ""]
RecvStr(pkg, recv) ==
  LET t == Canon(recv.t) IN
    IF t.k = "anon" THEN [ptr |-> recv.ptr, anon |-> TRUE, nm |-> t.emb, args |-> <<>>, scope |-> <<>>, fpkg |-> t.epkg]
    ELSE [ptr |-> recv.ptr, anon |-> FALSE, nm |-> t.name, args |-> [i \in 1..Len(t.targs) |-> ArgStr(t.targs[i])],
          scope |-> IF Scheme = "bare" THEN <<>> ELSE t.scope,
          fpkg |-> IF Scheme = "bare" \/ t.pkg = pkg THEN "" ELSE t.pkg]
SymRec(k, pkg, recv, name, sub, path, targs) ==
  [k |-> k, pkg |-> pkg, recv |-> recv, name |-> name, sub |-> sub, path |-> path, targs |-> targs]

\* cl.funcName: the symbol of entity e when package ctx compiles (or refers to) it
RECURSIVE Sym(_, _)
Sym(e, ctx) ==
  CASE e.kind = "func" -> SymRec("fn", e.pkg, NoRecv, e.name, "", <<>>, <<>>)
    [] e.kind = "global" -> SymRec("var", e.pkg, NoRecv, e.name, "", <<>>, <<>>)
    [] e.kind = "method" ->                          \* declared in, or instantiated for, the type's package
         SymRec("fn", Canon(e.recv.t).pkg, RecvStr(Canon(e.recv.t).pkg, e.recv), e.name, "", <<>>, <<>>)
    [] e.kind = "inst" -> SymRec("fn", e.pkg, NoRecv, e.name, "", <<>>, [i \in 1..Len(e.targs) |-> ArgStr(e.targs[i])])
    [] e.kind = "closure" -> [Sym(e.parent, ctx) EXCEPT !.path = e.path]      \* parent's symbol, name suffixed by $i$j...
    [] e.kind = "wrapper" ->                         \* no home package: named after the compiling one; promote: plain method name
         LET pkg == IF e.via # "" THEN e.via ELSE ctx IN
           SymRec("fn", pkg, RecvStr(pkg, e.recv), e.name, IF e.sub = "promote" THEN "" ELSE e.sub, <<>>, <<>>)
    [] e.kind = "desc" -> SymRec("type", "", NoRecv, "", "", <<>>, <<ArgStr(e.t)>>)
    [] e.kind = "gothunk" -> SymRec("routine", e.pkg, NoRecv, "", "", <<e.site>>, <<>>)
    [] e.kind = "linked" -> Sym(e.target, ctx)

\* a promoted-method wrapper of a named type and the method table of its descriptor use the TYPE's package
\* (ssa/abitype.go abiMethodFunc; cl compiles these wrappers in the type's package)
SymOf(ref) ==
  IF ref.ent.kind = "wrapper" /\ ref.ent.sub = "promote" /\ Canon(ref.ent.recv.t).k = "named"
    THEN LET pkg == Canon(ref.ent.recv.t).pkg IN SymRec("fn", pkg, RecvStr(pkg, ref.ent.recv), ref.ent.name, "", <<>>, <<>>)
    ELSE Sym(ref.ent, ref.from)

\* layer A's invariants for this scheme, over every pair of references of the world
ImplInjective == \A r2 \in Refs : SymOf(r) = SymOf(r2) => Same(r.ent, r2.ent)
ImplAgree == \A r2 \in Refs : (Same(r.ent, r2.ent) /\ r.ent.kind # "wrapper") => SymOf(r) = SymOf(r2)
=====================================================================================

----------------------------------- MODULE Naming -----------------------------------
(***************************************************************************)
(* Layer A for C14: which link-level entities a Go program consists of and *)
(* when two references denote the SAME entity.  Nothing here says how a    *)
(* name is spelled; the property is about the naming FUNCTION as a whole:  *)
(*                                                                         *)
(*   Injective  two different entities never share a link name             *)
(*   Agree      every package that refers to an entity uses one name       *)
(*   MergeSafe  a name defined by several packages (mergeable definition)  *)
(*              has equivalent definitions; never two non-mergeable ones   *)
(*   Linkname   a linkname / export directive binds exactly the declared   *)
(*              external symbol                                            *)
(*   Reach      (consequence used end to end) a call through a reference   *)
(*              executes the body of the entity the reference denotes      *)
(*                                                                         *)
(* Entity identity is transcribed from the Go specification:               *)
(*   - a function is identified by its package and name; a method by its   *)
(*     receiver base type, the receiver's pointer-ness and its name;       *)
(*   - a function literal by the function it is written in and its         *)
(*     position in it (nesting path);                                      *)
(*   - an instantiation by the generic function/type and the IDENTITY of   *)
(*     the type arguments (an alias denotes the type it is declared as; a  *)
(*     named type is identified by its declaration: package, name and - for*)
(*     a function-local declaration - the block it is declared in);        *)
(*   - a package-level variable by package and name; a type descriptor by  *)
(*     the type's identity;                                                *)
(*   - compiler-made method wrappers (promotion through an embedded field, *)
(*     pointer-receiver wrapper of a value method, bound-method closure,   *)
(*     method-expression thunk) by the receiver type they are made for and *)
(*     the method; a wrapper forwards to the method it promotes (Target);  *)
(*   - the thunk of a go statement by the statement.                       *)
(*                                                                         *)
(* The World below is built so that for EVERY component of the identity    *)
(* there are entities that differ in that component only (same names in    *)
(* every package, on every receiver, in every scope ...): a naming scheme  *)
(* that ignores a component must collide somewhere in it.  TLC enumerates  *)
(* every reference (entity, referring package) of the world together with  *)
(* its identity class and the entity whose body a call must reach.         *)
(***************************************************************************)
EXTENDS Integers, Sequences, FiniteSets, TLC, Json

CONSTANTS DefPkgs,     \* packages that declare the (same-named) world, e.g. {"p1","p2"}
          UsePkgs,     \* packages that only refer to it (and have their own local scopes)
          Depth,       \* nesting depth of function literals (<= 3)
          Rich         \* TRUE: larger set of type arguments / referring packages

Pkgs == DefPkgs \cup UsePkgs
\* all packages in import order: a package may import (refer to) the ones before it
PkgOrder == <<"p1", "p2", "p3", "p4">>
ASSUME Pkgs \subseteq {PkgOrder[i] : i \in 1..Len(PkgOrder)} /\ Depth \in 1..3
Idx(p) == CHOOSE i \in 1..Len(PkgOrder) : PkgOrder[i] = p
\* Go: the import graph is acyclic; here p may refer to q iff q is not later than p in PkgOrder
Visible(from) == {PkgOrder[i] : i \in 1..Idx(from)} \cap Pkgs

\* ------------------------------------------------------------------ type terms
B(n) == [k |-> "basic", n |-> n]
NT(pkg, name, scope, targs) == [k |-> "named", pkg |-> pkg, name |-> name, scope |-> scope, targs |-> targs]
N(pkg, name) == NT(pkg, name, <<>>, <<>>)               \* package-level declared type
L(pkg, name, scope) == NT(pkg, name, scope, <<>>)       \* declared in a function: scope = <<function, nested blocks...>>
GI(pkg, name, targs) == NT(pkg, name, <<>>, targs)      \* instantiated generic type
AL(pkg, name, t) == [k |-> "alias", pkg |-> pkg, name |-> name, e |-> t]
P(e) == [k |-> "ptr", e |-> e]
S(e) == [k |-> "slice", e |-> e]
MP(key, e) == [k |-> "map", key |-> key, e |-> e]
FN(e) == [k |-> "func", e |-> e]                        \* func(e)
ST(e) == [k |-> "struct", e |-> e]                      \* struct{ X e }
AN(epkg, emb) == [k |-> "anon", epkg |-> epkg, emb |-> emb]   \* struct{ epkg.emb }  (embedded field)

\* Go: "An alias declaration binds an identifier to the given type"; identity looks through it.
RECURSIVE Canon(_)
Canon(t) ==
  CASE t.k = "alias" -> Canon(t.e)
    [] t.k = "named" -> [t EXCEPT !.targs = [i \in 1..Len(t.targs) |-> Canon(t.targs[i])]]
    [] t.k \in {"ptr", "slice", "func", "struct"} -> [t EXCEPT !.e = Canon(t.e)]
    [] t.k = "map" -> [t EXCEPT !.key = Canon(t.key), !.e = Canon(t.e)]
    [] OTHER -> t

\* the function-local scope a type term depends on (<<>> if none): such a term can only be written there
RECURSIVE LocalSite(_)
SeqSite(s) == IF \E i \in 1..Len(s) : LocalSite(s[i]).scope # <<>>
                THEN LocalSite(s[CHOOSE i \in 1..Len(s) : LocalSite(s[i]).scope # <<>>])
                ELSE [pkg |-> "", scope |-> <<>>]
LocalSite(t) ==
  CASE t.k = "alias" -> LocalSite(t.e)
    [] t.k = "named" -> IF t.scope # <<>> THEN [pkg |-> t.pkg, scope |-> t.scope] ELSE SeqSite(t.targs)
    [] t.k \in {"ptr", "slice", "func", "struct"} -> LocalSite(t.e)
    [] t.k = "map" -> SeqSite(<<t.key, t.e>>)
    [] OTHER -> [pkg |-> "", scope |-> <<>>]

\* the packages a type term mentions
RECURSIVE TPkgs(_)
TPkgs(t) ==
  CASE t.k = "alias" -> {t.pkg} \cup TPkgs(t.e)
    [] t.k = "named" -> {t.pkg} \cup UNION {TPkgs(t.targs[i]) : i \in 1..Len(t.targs)}
    [] t.k \in {"ptr", "slice", "func", "struct"} -> TPkgs(t.e)
    [] t.k = "map" -> TPkgs(t.key) \cup TPkgs(t.e)
    [] t.k = "anon" -> {t.epkg}
    [] OTHER -> {}

\* ------------------------------------------------------------------ entities
Func(pkg, name) == [kind |-> "func", pkg |-> pkg, name |-> name]
Meth(ptr, t, name) == [kind |-> "method", recv |-> [ptr |-> ptr, t |-> t], name |-> name]
Inst(pkg, name, targs) == [kind |-> "inst", pkg |-> pkg, name |-> name, targs |-> targs]
Clo(parent, path) == [kind |-> "closure", parent |-> parent, path |-> path]
Glob(pkg, name) == [kind |-> "global", pkg |-> pkg, name |-> name]
Desc(t) == [kind |-> "desc", t |-> t]
\* sub: "promote" (method of an embedded field seen through the outer type), "bound" (x.M as a value),
\*      "thunk" (T.M as a value).  via = the package the wrapper is made in when the receiver type is unnamed
\*      (such a wrapper is not a program-wide entity: nothing can refer to it from elsewhere), "" otherwise.
Wrap(sub, ptr, t, name, via) == [kind |-> "wrapper", sub |-> sub, recv |-> [ptr |-> ptr, t |-> t], name |-> name, via |-> via]
GoThunk(pkg, site) == [kind |-> "gothunk", pkg |-> pkg, site |-> site]
\* "//go:linkname local importpath.name" in package pkg: the body-less local declaration DENOTES the entity `target`
\* of another package (a further reference to it, under a local name)
Linked(pkg, local, target) == [kind |-> "linked", pkg |-> pkg, name |-> local, target |-> target]

RECURSIVE CanonE(_)
CanonE(e) ==
  CASE e.kind \in {"method", "wrapper"} -> [e EXCEPT !.recv.t = Canon(@)]
    [] e.kind = "inst" -> [e EXCEPT !.targs = [i \in 1..Len(e.targs) |-> Canon(e.targs[i])]]
    [] e.kind = "closure" -> [e EXCEPT !.parent = CanonE(@)]
    [] e.kind = "desc" -> [e EXCEPT !.t = Canon(@)]
    [] e.kind = "linked" -> CanonE(e.target)
    [] OTHER -> e
Same(e1, e2) == CanonE(e1) = CanonE(e2)
RECURSIVE EPkgs(_)
EPkgs(e) ==
  CASE e.kind \in {"method", "wrapper"} -> TPkgs(e.recv.t)
    [] e.kind = "inst" -> {e.pkg} \cup UNION {TPkgs(e.targs[i]) : i \in 1..Len(e.targs)}
    [] e.kind = "closure" -> EPkgs(e.parent)
    [] e.kind = "desc" -> TPkgs(e.t)
    [] e.kind = "linked" -> {e.pkg} \cup EPkgs(e.target)
    [] OTHER -> {e.pkg}

\* ------------------------------------------------------------------ the world
MNames == {"M", "N"}
Scopes == {<<"Lf">>, <<"Lg">>, <<"Lf", "b">>} \cup (IF Rich THEN {<<"Lg", "b">>} ELSE {})
\* what the local struct type T declared in a scope embeds (a function of the declaration, not part of identity)
Emb(scope) == CASE scope = <<"Lf">> -> "A" [] scope = <<"Lg">> -> "B" [] scope = <<"Lf", "b">> -> "B" [] OTHER -> "A"
EmbPtr(scope) == scope = <<"Lg", "b">>               \* embeds *A instead of A

T1 == N("p1", "T")
T2 == N("p2", "T")
TInt == B("int")
TStr == B("string")
AT == AL("p1", "AT", T1)        \* type AT = T
AI == AL("p2", "AI", TInt)       \* type AI = int
GlobalArgs ==
  {TInt, TStr, T1, T2, N("p1", "U"), AT, AI, P(T1), S(T2), MP(TStr, T2), GI("p1", "G", <<TInt>>), GI("p1", "G", <<T2>>),
   ST(T1), ST(T2), FN(T1), FN(T2)}      \* unnamed composite arguments mentioning the same-named types of two packages
  \cup (IF Rich THEN {P(T2), S(T1), S(AT), P(P(T1)), MP(T1, TInt), MP(TStr, T1),
                      GI("p2", "G", <<TInt>>), GI("p1", "G", <<AT>>), GI("p1", "G", <<T1>>), GI("p1", "G", <<AI>>),
                      GI("p1", "G", <<GI("p1", "G", <<TInt>>)>>), N("p2", "U")}
        ELSE {})
Locals(p) == {L(p, "T", sc) : sc \in Scopes}
LocalArgs(p) == Locals(p) \cup {P(t) : t \in Locals(p)} \cup {GI("p1", "G", <<t>>) : t \in Locals(p)}
                \cup (IF Rich THEN {S(t) : t \in Locals(p)} \cup {MP(TStr, t) : t \in Locals(p)} ELSE {})
Pairs2 == {<<TInt, TStr>>, <<TStr, TInt>>, <<T1, T2>>, <<T2, T1>>, <<T1, T1>>, <<AT, T2>>}

RECURSIVE PathsUpTo(_)
PathsUpTo(d) == IF d = 0 THEN {} ELSE {<<i>> : i \in 1..2} \cup {Append(q, i) : q \in PathsUpTo(d - 1), i \in 1..2}
Paths == PathsUpTo(Depth)

Methods == UNION {{Meth(FALSE, N(p, "T"), m) : m \in MNames} \cup {Meth(TRUE, N(p, "U"), m) : m \in MNames}
                  : p \in DefPkgs}
           \cup UNION {{Meth(FALSE, N(p, "A"), "M"), Meth(FALSE, N(p, "B"), "M")} : p \in Pkgs}
Funcs == {Func(p, n) : p \in DefPkgs, n \in {"M", "N", "Cf"}}
GArgsM == {TInt, TStr, T1, T2, AT, P(T1)}                \* type arguments for the generic type's methods
Insts1(from) == {Inst(p, "F", <<a>>) : p \in DefPkgs, a \in GlobalArgs \cup LocalArgs(from)}
Insts2 == {Inst(p, "F2", pr) : p \in DefPkgs, pr \in Pairs2}
GMeths(from) == UNION {{Meth(FALSE, GI(p, "G", <<a>>), "M"), Meth(TRUE, GI(p, "G", <<a>>), "N")} :
                        p \in DefPkgs, a \in GArgsM \cup Locals(from)}
CloParents == UNION {{Func(p, "Cf"), Meth(FALSE, N(p, "T"), "N"), Meth(TRUE, N(p, "U"), "N"),
                      Inst(p, "F", <<TInt>>), Inst(p, "F", <<T1>>), Inst(p, "F", <<T2>>),
                      Meth(FALSE, GI(p, "G", <<TInt>>), "M"), Meth(FALSE, GI(p, "G", <<TStr>>), "M"),
                      Meth(TRUE, GI(p, "G", <<TInt>>), "N")} : p \in DefPkgs}
Closures == {Clo(par, q) : par \in CloParents, q \in Paths}
Globals == {Glob(p, n) : p \in DefPkgs, n \in {"V", "Y"}}
DescTerms(from) == GlobalArgs \cup LocalArgs(from) \cup {N(p, "W") : p \in DefPkgs} \cup {AN("p1", "A"), AN("p1", "B"), AN("p2", "A")}
LocalWraps(from) ==
  UNION {{Wrap("promote", FALSE, L(from, "T", sc), "M", ""), Wrap("promote", TRUE, L(from, "T", sc), "M", ""),
          Wrap("bound", FALSE, L(from, "T", sc), "M", ""), Wrap("thunk", FALSE, L(from, "T", sc), "M", "")} : sc \in Scopes}
PkgWraps == UNION {{Wrap("promote", FALSE, N(p, "W"), "M", ""), Wrap("promote", TRUE, N(p, "W"), "M", ""),
                    Wrap("bound", FALSE, N(p, "W"), "M", ""), Wrap("thunk", FALSE, N(p, "W"), "M", ""),
                    Wrap("promote", TRUE, N(p, "T"), "M", ""),         \* (*T).M made for the value method T.M
                    Wrap("bound", FALSE, N(p, "T"), "M", ""), Wrap("bound", TRUE, N(p, "U"), "M", ""),
                    Wrap("thunk", FALSE, N(p, "T"), "M", ""), Wrap("thunk", TRUE, N(p, "U"), "M", "")} : p \in DefPkgs}
AnonWraps(from) == {Wrap("promote", FALSE, a, "M", from) : a \in {AN("p1", "A"), AN("p1", "B"), AN("p2", "A")}}
GoThunks(from) == {GoThunk(from, i) : i \in 1..3}
\* directives: p1 keeps three unexported things, p2 pulls them in with //go:linkname; p1 exports one function
\* to C under its own name (//export Exported)
Hidden == {Func("p1", "hidden"), Glob("p1", "hv"), Meth(FALSE, N("p1", "S"), "m")}
LinkRefs(from) == IF from = "p2" THEN {Linked("p2", "pull", Func("p1", "hidden")), Linked("p2", "pv", Glob("p1", "hv")),
                                       Linked("p2", "pm", Meth(FALSE, N("p1", "S"), "m"))}
                  ELSE {}
ExportedToC == {Func("p1", "Exported")}
\* Go: an identifier that does not start with an upper-case letter is visible in its own package only
Visible1(e, from) == e \in Hidden => from = "p1"

\* the method a wrapper forwards to
Target(w) ==
  LET t == Canon(w.recv.t) IN
    IF t.k = "anon" THEN Meth(FALSE, N(t.epkg, t.emb), w.name)
    ELSE IF t.scope # <<>> THEN Meth(FALSE, N(t.pkg, Emb(t.scope)), w.name)
    ELSE IF t.name = "W" THEN Meth(FALSE, N(t.pkg, "A"), w.name)
    ELSE Meth(t.name = "U", t, w.name)
Reach(e) == IF e.kind = "wrapper" THEN CanonE(Target(e)) ELSE CanonE(e)      \* (a linked declaration reaches its target)

\* which packages refer to what
Referrers == Pkgs
EntitiesFrom(from) ==
  Methods \cup Funcs \cup Insts1(from) \cup Insts2 \cup GMeths(from) \cup Closures \cup Globals
  \cup {Desc(t) : t \in DescTerms(from)} \cup LocalWraps(from) \cup PkgWraps \cup AnonWraps(from) \cup GoThunks(from)
  \cup Hidden \cup LinkRefs(from) \cup ExportedToC
Refs == UNION {{[ent |-> e, from |-> f] : e \in {x \in EntitiesFrom(f) : EPkgs(x) \subseteq Visible(f) /\ Visible1(x, f)}} : f \in Referrers}

\* ------------------------------------------------------------------ enumeration
VARIABLE r
Init == r \in Refs
Next == UNCHANGED r
Spec == Init /\ [][Next]_r

EntSite(e) ==
  CASE e.kind \in {"method", "wrapper"} -> LocalSite(e.recv.t)
    [] e.kind = "inst" -> SeqSite(e.targs)
    [] e.kind = "desc" -> LocalSite(e.t)
    [] e.kind = "closure" -> (IF e.parent.kind = "inst" THEN SeqSite(e.parent.targs)
                              ELSE IF e.parent.kind = "method" THEN LocalSite(e.parent.recv.t)
                              ELSE [pkg |-> "", scope |-> <<>>])
    [] OTHER -> [pkg |-> "", scope |-> <<>>]

\* laws of the identity relation itself (spec sanity)
SameIsEquivalence == Same(r.ent, r.ent)
NoImportCycle == EPkgs(r.ent) \subseteq Visible(r.from)
LocalOnlyFromHome == EntSite(r.ent).scope # <<>> => EntSite(r.ent).pkg = r.from
ReachIsEntityOrTarget == (r.ent.kind # "wrapper") => Reach(r.ent) = CanonE(r.ent)

Emit == PrintT(ToJson([ent |-> r.ent, from |-> r.from, class |-> CanonE(r.ent), reach |-> Reach(r.ent),
                       site |-> EntSite(r.ent), export |-> (r.ent \in ExportedToC)]))
=====================================================================================

-------------------------------- MODULE NamingJudge --------------------------------
(***************************************************************************)
(* Judges observations recorded from the real code against the invariants  *)
(* of Naming.tla.  obs.ndjson holds one record per line, indexed by the    *)
(* thing the invariant quantifies over:                                    *)
(*                                                                         *)
(*  t = "name"   one link name: classes = the identity classes (Naming!    *)
(*               CanonE, numbered by the driver) of ALL functions / vars / *)
(*               descriptors the real naming functions gave this name to   *)
(*  t = "class"  one entity: names = every link name it received in any    *)
(*               package that compiles or refers to it; wide = the entity  *)
(*               has one program-wide identity (not a wrapper private to   *)
(*               the package that made it)                                 *)
(*  t = "def"    one symbol over all per-package modules / objects of one  *)
(*               build: strong = number of non-mergeable definitions,      *)
(*               mergeable = number of mergeable ones, bodies = digests    *)
(*               (or sizes) of the mergeable definitions                   *)
(*  t = "link"   one linkname/export directive: declared = the external    *)
(*               symbol it names, bound = the symbols the entity was       *)
(*               actually bound to                                         *)
(*  t = "reach"  one executed reference: expect = identity the spec        *)
(*               predicts (Naming!Reach), got = identity of the body that  *)
(*               ran                                                       *)
(***************************************************************************)
EXTENDS Integers, Sequences, FiniteSets, TLC, Json

ASSUME TLCSet(1, ndJsonDeserialize("obs.ndjson"))
Obs == TLCGet(1)

ToSet(s) == {s[k] : k \in 1..Len(s)}

Injective(o) == Cardinality(ToSet(o.classes)) <= 1
Agree(o) == o.wide => Cardinality(ToSet(o.names)) <= 1
MergeSafe(o) == /\ o.strong <= 1
                /\ (o.strong = 1 => o.mergeable = 0)
                /\ Cardinality(ToSet(o.bodies)) <= 1
Linkname(o) == ToSet(o.bound) = {o.declared}
Reach(o) == o.got = o.expect

Holds(o) == CASE o.t = "name" -> Injective(o)
              [] o.t = "class" -> Agree(o)
              [] o.t = "def" -> MergeSafe(o)
              [] o.t = "link" -> Linkname(o)
              [] o.t = "reach" -> Reach(o)

\* observations are judged in blocks of Block records (one TLC state per block)
Block == 200
NBlocks == (Len(Obs) + Block - 1) \div Block
VARIABLE b
Init == b \in 0..(NBlocks - 1)
Next == UNCHANGED b
Spec == Init /\ [][Next]_b

Lo(k) == k * Block + 1
Hi(k) == IF (k + 1) * Block < Len(Obs) THEN (k + 1) * Block ELSE Len(Obs)
\* one verdict per observation; the driver turns the rejected ones into violations
Emit == PrintT(ToJson([j \in 1..(Hi(b) - Lo(b) + 1) |->
                        [id |-> Obs[Lo(b) + j - 1].id, ok |-> Holds(Obs[Lo(b) + j - 1])]]))
=====================================================================================

SPECIFICATION Spec
CONSTANTS DefPkgs = {"p1", "p2"}  UsePkgs = {"p3"}  Depth = 2  Rich = FALSE
INVARIANTS SameIsEquivalence LocalOnlyFromHome NoImportCycle ReachIsEntityOrTarget Emit
CHECK_DEADLOCK FALSE
